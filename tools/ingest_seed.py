#!/usr/bin/env python3
"""ingest_seed.py Cxx [n]: copy /tmp/seed/Cxx/SEED into /verif/seeded/Cxx-n, remove the seeder's worktree, verify in background."""
import json, os, shutil, subprocess, sys
p = sys.argv[1]; n = sys.argv[2] if len(sys.argv) > 2 else "1"
wt = sys.argv[3] if len(sys.argv) > 3 else "/tmp/seed/%s" % p
src = wt + "/SEED"; d = "/verif/seeded/%s-%s" % (p, n); os.makedirs(d, exist_ok=True)
m = json.load(open(os.path.join(src, "meta.json")))
dest = m.get("demo_dest")
if not dest:
    print("meta.json lacks demo_dest; fix manually:", m.get("demo_cmd")); sys.exit(1)
for f in os.listdir(src):
    if f == "meta.json": continue
    if os.path.isfile(os.path.join(src, f)): shutil.copy(os.path.join(src, f), d)
# the demo file is stored under the basename of demo_dest
cands = [f for f in os.listdir(src) if f.endswith(".go")]
if os.path.basename(dest) not in cands and cands:
    shutil.copy(os.path.join(src, cands[0]), os.path.join(d, os.path.basename(dest)))
cmd = m["demo_cmd"]
# strip 'cd <wt> &&', env exports and cp steps the seeder may have put in
parts = [x.strip() for x in cmd.split("&&")]
parts = [x for x in parts if not (x.startswith("cd ") or x.startswith("export ") or x.startswith("cp "))]
m["demo_cmd"] = " && ".join(parts)
json.dump(m, open(os.path.join(d, "meta.json"), "w"), indent=1)
subprocess.call(["git", "-C", "/repo", "worktree", "remove", "--force", wt])
print("ingested", d, "| demo_dest:", dest, "| demo_cmd:", m["demo_cmd"])
subprocess.Popen("flock /tmp/seed/verify.lock /verif/tools/verify_seed.py %s > /tmp/seed/verify_%s_%s.log 2>&1" % (d, p, n), shell=True, stdin=subprocess.DEVNULL, stdout=subprocess.DEVNULL, stderr=subprocess.DEVNULL, start_new_session=True)
