#!/usr/bin/env python3
import json,sys,subprocess,os
pid=sys.argv[1]
for l in open('/verif/properties.jsonl'):
    d=json.loads(l)
    if d['id']==pid: break
wt='/tmp/seed/%s'%pid
if not os.path.exists(wt):
    subprocess.check_call(['git','-C','/repo','worktree','add','-q','--detach',wt,'HEAD'])
print(f"""You are testing how robust a Go codebase's guarantees are. The repository is alpacahq/marketstore (a Go time-series database server). You have your own scratch git worktree of it at {wt} — work ONLY there (never touch /repo or /verif, and do not read anything under /verif).

Here is a semantic property the system is supposed to satisfy:

  Title: {d['title']}
  Statement: {d['statement']}
  Quantified over: {d['quantifier']['text']}
  Anchored in files: {', '.join(d['anchors']['files'])}

Task: produce ONE realistic code change (a plausible bug a developer could introduce: an off-by-one, a swapped comparison, a dropped sync, a reordered write, a wrong constant, a missing case, two cooperating sites that each look fine alone…) to the non-test Go source in {wt} that BREAKS this property while the code still compiles and the repository's existing test suite still passes. The change must need something specific to manifest — a particular interleaving, a crash or fault at a particular point, a multi-step sequence of operations, an unusual input or boundary value — not something ordinary use would expose at once, and it must not be a no-op or a change to comments/tests/build files. Keep it small (a few lines, one or two files).

Then write a demonstration: a Go test file (or small Go program) that FAILS with your change applied and PASSES on the original code, showing the property violated through the code's real API.

Environment: no network. For every go command: `export GOFLAGS=-mod=mod GOPROXY=off GOSUMDB=off GOTOOLCHAIN=local`. Run the relevant packages' existing tests with your change (at least the packages you touched and their dependants, e.g. `cd {wt} && go test -vet=off -count=1 ./utils/... ./executor/... ./catalog/... ./frontend/... ./sqlparser/... ./planner/... ./replication/... ./contrib/... ./uda/... ./cmd/... ./plugins/...` — they must all still pass).

Deliver, inside {wt}/SEED/ (create it):
  patch.diff   — `git diff` of your change to non-test source only (apply with `git apply` on a clean checkout)
  demo_test.go (or demo/main.go) — the demonstration, plus DEMO.md saying exactly where to copy it and the exact command to run it
  meta.json    — {{"property": "{pid}", "summary": "<one sentence: what was changed>", "needs": "<what is needed for it to manifest>", "files": [...], "tests_run": "<command you ran and that it passed>", "demo_dest": "<repo-relative path the demo file must be copied to, e.g. executor/zz_demo_test.go>", "demo_cmd": "<exact shell command, run from the repository root, that exits 0 iff the property holds, e.g. go test -vet=off -count=1 -run TestDemoXyz ./executor/>"}}
IMPORTANT: never use `git stash` (the stash is shared between all worktrees of the repository and other people are working in sibling worktrees); to test with/without your change use `git diff > /tmp/<yourid>.diff; git apply -R /tmp/<yourid>.diff; ...; git apply /tmp/<yourid>.diff`. Before finishing: verify on the clean state that the demo passes WITHOUT the patch and fails WITH it, and that the existing tests pass WITH it. Leave the worktree with the patch applied and the demo in place. Final message: two or three lines — what you changed, what it needs to manifest, and the paths.""")
