#!/usr/bin/env python3
"""verify_seed.py <seed_dir> [--no-suite]
seed_dir contains patch.diff, meta.json {property, demo_dest (repo-relative path of the demo file), demo_cmd},
and the demo file (basename of demo_dest).  Confirms, in a fresh scratch worktree of /repo HEAD:
  1. demo passes on the original code        2. patch applies and the tree builds
  3. demo fails with the patch               4. the pinned baseline tests (BASELINE.json stable_pass) still pass with the patch
Prints a compact summary and writes <seed_dir>/verified.json.  Removes the worktree."""
import json, os, subprocess, sys, shutil, tempfile, time
seed = os.path.abspath(sys.argv[1]); suite = "--no-suite" not in sys.argv
meta = json.load(open(os.path.join(seed, "meta.json")))
env = dict(os.environ, GOFLAGS="-mod=mod", GOPROXY="off", GOSUMDB="off", GOTOOLCHAIN="local")
wt = tempfile.mkdtemp(prefix="vs_", dir="/tmp"); os.rmdir(wt)
def sh(cmd, cwd, timeout=1800):
    p = subprocess.run(cmd, cwd=cwd, env=env, shell=True, stdout=subprocess.PIPE, stderr=subprocess.STDOUT, text=True, timeout=timeout)
    return p.returncode, p.stdout
res = {"property": meta.get("property")}
try:
    subprocess.check_call(["git", "-C", "/repo", "worktree", "add", "-q", "--detach", wt, "HEAD"])
    dest = os.path.join(wt, meta["demo_dest"]); os.makedirs(os.path.dirname(dest), exist_ok=True)
    shutil.copy(os.path.join(seed, os.path.basename(meta["demo_dest"])), dest)
    rc, out = sh(meta["demo_cmd"], wt); res["demo_on_original"] = "pass" if rc == 0 else "FAIL"; res["demo_orig_tail"] = out[-400:]
    rc, out = sh("git apply %s" % os.path.join(seed, "patch.diff"), wt); res["patch_applies"] = rc == 0
    if rc != 0: res["apply_out"] = out[-400:]
    rc, out = sh("go build ./... ", wt); res["builds"] = rc == 0
    rc, out = sh(meta["demo_cmd"], wt); res["demo_on_patched"] = "fail" if rc != 0 else "PASSES(bad)"; res["demo_patched_tail"] = out[-600:]
    os.remove(dest)
    if suite:
        t0 = time.time()
        rc, out = sh("go test -json -vet=off -count=1 -timeout 25m ./... > /tmp/%s.gotest.json 2>&1; true" % os.path.basename(wt), wt, timeout=2400)
        passed, failed = set(), set()
        for line in open("/tmp/%s.gotest.json" % os.path.basename(wt), errors="replace"):
            if not line.startswith("{"): continue
            try: ev = json.loads(line)
            except Exception: continue
            if ev.get("Test") and ev.get("Action") in ("pass", "fail"):
                (passed if ev["Action"] == "pass" else failed).add(ev["Package"] + "::" + ev["Test"])
        passed -= failed
        base = set(json.load(open("/root/.vp/BASELINE.json"))["stable_pass"])
        missing = sorted(base - passed)
        res["suite_ok"] = not missing; res["suite_missing"] = missing[:10]; res["suite_s"] = round(time.time() - t0)
        os.remove("/tmp/%s.gotest.json" % os.path.basename(wt))
finally:
    subprocess.call(["git", "-C", "/repo", "worktree", "remove", "--force", wt])
    shutil.rmtree(wt, ignore_errors=True)
res["confirmed"] = (res.get("demo_on_original") == "pass" and res.get("patch_applies") and res.get("builds")
                    and res.get("demo_on_patched") == "fail" and (res.get("suite_ok", True)))
json.dump(res, open(os.path.join(seed, "verified.json"), "w"), indent=1)
print(json.dumps({k: v for k, v in res.items() if not k.endswith("_tail")}, indent=1))
