#!/bin/bash
# run_on_seed.sh <seed_dir> <Cxx> [more ids...] : applies seeded/<..>/patch.diff in a scratch worktree, runs the given checks
# from a scratch copy of /verif against it, prints their verdict lines, removes both.
set -u
seed=$(realpath "$1"); shift
wt=$(mktemp -d /tmp/rs_wt_XXXX); rmdir "$wt"; vc=$(mktemp -d /tmp/rs_v_XXXX)
git -C /repo worktree add -q --detach "$wt" HEAD
# hook files that are still untracked in /repo are needed by the harness build
(cd /repo && git ls-files --others --exclude-standard | grep 'verif_.*\.go$' | while read f; do mkdir -p "$wt/$(dirname $f)"; cp "$f" "$wt/$f"; done)
git -C "$wt" apply "$seed/patch.diff" || echo "PATCH DID NOT APPLY"
rsync -a --exclude .git --exclude scratch --exclude replays /verif/ "$vc"/
for id in "$@"; do
  echo "== $id on $(basename $seed)"
  (cd "$vc" && VERIF_REPO="$wt" timeout 3600 ./check "$id" --tier "${TIER:-quick}" 2>&1 | grep -E "^(VIOLATION|OK|KNOWN-FINDING|Traceback)" | cut -c1-220)
  echo "rc=$?"
  for r in $(ls "$vc"/replays 2>/dev/null | head -3); do python3 -c "
import json,sys
d=json.load(open(sys.argv[1])); print('  replay', sys.argv[1].split('/')[-1], 'kind=', d.get('kind'), 'detail=', str(d.get('detail'))[:160], 'broken=', [(b.get('kind'), b.get('name'), str(b.get('message'))[:300]) for b in d.get('broken', [])][:3])
" "$vc/replays/$r"; done
done
git -C /repo worktree remove --force "$wt"; rm -rf "$wt" "$vc"
