#!/usr/bin/env python3
"""suite_check.py <repo_dir>: run the pinned baseline test command (no build tag) in <repo_dir> and report which of the
322 stable tests of /root/.vp/BASELINE.json did not pass.  Exit 0 iff none is missing."""
import json, os, subprocess, sys, time
d = os.path.abspath(sys.argv[1])
env = dict(os.environ, GOFLAGS="-mod=mod", GOPROXY="off", GOSUMDB="off", GOTOOLCHAIN="local")
log = "/tmp/suite_%d.json" % os.getpid(); t0 = time.time()
subprocess.run("go test -json -vet=off -count=1 -timeout 60m ./... > %s 2>&1" % log, cwd=d, env=env, shell=True)
passed, failed = set(), set()
for line in open(log, errors="replace"):
    if not line.startswith("{"): continue
    try: ev = json.loads(line)
    except Exception: continue
    if ev.get("Test") and ev.get("Action") in ("pass", "fail"):
        (passed if ev["Action"] == "pass" else failed).add(ev["Package"] + "::" + ev["Test"])
passed -= failed
base = set(json.load(open("/root/.vp/BASELINE.json"))["stable_pass"])
missing = sorted(base - passed)
os.remove(log)
print(json.dumps({"stable": len(base), "passed_of_stable": len(base) - len(missing), "missing": missing[:20], "wall_s": round(time.time() - t0)}, indent=1))
sys.exit(0 if not missing else 1)
