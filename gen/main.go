// gen — translator T: regenerates Coq definitions from /repo's current source.
//
// It parses and (error-tolerantly) type-checks single packages of the repository with
// go/parser + go/types (no repository code is executed) and emits, per configuration file
// gen/conf.d/<name>.json, one Coq file coq/Generated/<out>:
//
//   kind=const     a named constant, evaluated by go/constant            -> Definition n : Z := v.
//   kind=enum      every constant of a named integer type                -> Definition n : Z := v.  + list
//   kind=maptable  a package-level map composite literal  K: {.., f, ..}  -> list (Z * Z) (field index given)
//   kind=strtable  same, string field                                     -> list (Z * string)
//   kind=func      a function in the integer subset (see translateFunc)  -> Definition f (a b : Z) : Z := ...
//   kind=floatconst a float constant                                      -> exact binary64 as (mantissa, exponent)
//
// Anything outside the subset makes gen exit 2 with a message naming the construct: that is
// reported by ./check as a broken translation (a proof obligation that can no longer be
// regenerated), never silently skipped.
package main

import (
	"encoding/json"
	"fmt"
	"go/ast"
	"go/constant"
	"go/parser"
	"go/token"
	"go/types"
	"math"
	"math/big"
	"os"
	"path/filepath"
	"sort"
	"strings"
)

type Item struct {
	Kind  string `json:"kind"`
	Pkg   string `json:"pkg"`
	Name  string `json:"name"`
	As    string `json:"as"`
	Type  string `json:"type"`
	Var   string `json:"var"`
	Field int    `json:"field"`
	Recv  string `json:"recv"`
	// Prefix for enum members
	Prefix string `json:"prefix"`
	// Extern: (kind=func) same-package functions called but not translated; they become parameters
	Extern []string `json:"extern"`
}

type Conf struct {
	Out   string `json:"out"`
	Items []Item `json:"items"`
}

type pkgInfo struct {
	fset  *token.FileSet
	files []*ast.File
	pkg   *types.Package
	info  *types.Info
}

type fakeImporter struct{ m map[string]*types.Package }

func (f *fakeImporter) Import(path string) (*types.Package, error) {
	if path == "unsafe" {
		return types.Unsafe, nil
	}
	if p, ok := f.m[path]; ok {
		return p, nil
	}
	if path == "time" {
		p := fakeTimePkg()
		f.m[path] = p
		return p, nil
	}
	name := path[strings.LastIndex(path, "/")+1:]
	p := types.NewPackage(path, name)
	p.MarkComplete()
	f.m[path] = p
	return p, nil
}

var pkgCache = map[string]*pkgInfo{}

func loadPkg(repo, rel string) (*pkgInfo, error) {
	if p, ok := pkgCache[rel]; ok {
		return p, nil
	}
	fset := token.NewFileSet()
	dir := filepath.Join(repo, rel)
	ents, err := os.ReadDir(dir)
	if err != nil {
		return nil, err
	}
	var files []*ast.File
	for _, e := range ents {
		n := e.Name()
		if !strings.HasSuffix(n, ".go") || strings.HasSuffix(n, "_test.go") || strings.HasPrefix(n, "verif_") {
			continue
		}
		f, err := parser.ParseFile(fset, filepath.Join(dir, n), nil, parser.ParseComments)
		if err != nil {
			return nil, err
		}
		files = append(files, f)
	}
	info := &types.Info{
		Types: map[ast.Expr]types.TypeAndValue{},
		Defs:  map[*ast.Ident]types.Object{},
		Uses:  map[*ast.Ident]types.Object{},
	}
	conf := types.Config{
		Importer: &fakeImporter{m: map[string]*types.Package{}},
		Error:    func(error) {},
		Sizes:    types.SizesFor("gc", "amd64"),
	}
	pkg, _ := conf.Check(rel, fset, files, info)
	p := &pkgInfo{fset: fset, files: files, pkg: pkg, info: info}
	pkgCache[rel] = p
	return p, nil
}

func die(format string, a ...interface{}) {
	fmt.Fprintf(os.Stderr, "gen: "+format+"\n", a...)
	os.Exit(2)
}

func zlit(v constant.Value) string {
	s := v.ExactString()
	if strings.HasPrefix(s, "-") {
		return "(" + s + ")%Z"
	}
	return s + "%Z"
}

func intConst(v constant.Value, what string) string {
	iv := constant.ToInt(v)
	if iv.Kind() != constant.Int {
		die("%s: constant is not an integer: %s", what, v.ExactString())
	}
	return zlit(iv)
}

func coqName(s string) string {
	s = strings.ReplaceAll(s, ".", "_")
	return s
}

func emitConst(p *pkgInfo, it Item, sb *strings.Builder) {
	obj := p.pkg.Scope().Lookup(it.Name)
	var c *types.Const
	if obj != nil {
		c, _ = obj.(*types.Const)
	}
	if c == nil {
		// maybe a function-local constant: search all Defs
		for id, o := range p.info.Defs {
			if id.Name == it.Name {
				if cc, ok := o.(*types.Const); ok {
					c = cc
					break
				}
			}
		}
	}
	if c == nil {
		die("const %s.%s not found", it.Pkg, it.Name)
	}
	name := it.As
	if name == "" {
		name = it.Name
	}
	if it.Kind == "floatconst" {
		f, _ := constant.Float64Val(constant.ToFloat(c.Val()))
		m, e := floatDecomp(f)
		fmt.Fprintf(sb, "(* %s.%s = %s ; binary64 value = %s * 2^%d *)\n", it.Pkg, it.Name, c.Val().String(), m.String(), e)
		fmt.Fprintf(sb, "Definition %s_m : Z := %s%%Z.\nDefinition %s_e : Z := (%d)%%Z.\n", name, parenNeg(m.String()), name, e)
		return
	}
	if c.Val().Kind() == constant.String {
		fmt.Fprintf(sb, "Definition %s : string := %s.\n", name, coqString(constant.StringVal(c.Val())))
		return
	}
	fmt.Fprintf(sb, "Definition %s : Z := %s.\n", name, intConst(c.Val(), it.Pkg+"."+it.Name))
}

func parenNeg(s string) string {
	if strings.HasPrefix(s, "-") {
		return "(" + s + ")"
	}
	return s
}

func floatDecomp(f float64) (*big.Int, int) {
	if f == 0 {
		return big.NewInt(0), 0
	}
	fr, ex := math.Frexp(f) // f = fr * 2^ex, 0.5<=|fr|<1
	m := int64(fr * (1 << 53))
	return big.NewInt(m), ex - 53
}

func coqString(s string) string {
	var b strings.Builder
	b.WriteByte('"')
	for i := 0; i < len(s); i++ {
		c := s[i]
		if c == '"' {
			b.WriteString("\"\"")
		} else if c < 32 || c > 126 {
			die("string constant with non-printable byte: %q", s)
		} else {
			b.WriteByte(c)
		}
	}
	b.WriteByte('"')
	return b.String()
}

func emitEnum(p *pkgInfo, it Item, sb *strings.Builder) {
	type kv struct {
		n string
		v constant.Value
		pos token.Pos
	}
	var l []kv
	sc := p.pkg.Scope()
	for _, n := range sc.Names() {
		c, ok := sc.Lookup(n).(*types.Const)
		if !ok {
			continue
		}
		nt, ok := c.Type().(*types.Named)
		if !ok || nt.Obj().Name() != it.Type {
			continue
		}
		l = append(l, kv{n, c.Val(), c.Pos()})
	}
	if len(l) == 0 {
		die("enum %s.%s has no members", it.Pkg, it.Type)
	}
	sort.Slice(l, func(i, j int) bool { return l[i].pos < l[j].pos })
	var names []string
	for _, e := range l {
		fmt.Fprintf(sb, "Definition %s%s : Z := %s.\n", it.Prefix, e.n, intConst(e.v, e.n))
		names = append(names, fmt.Sprintf("(%s, %s%s)", coqString(e.n), it.Prefix, e.n))
	}
	fmt.Fprintf(sb, "Definition %s%s_members : list (string * Z) := [%s].\n", it.Prefix, it.Type, strings.Join(names, "; "))
}

func findVarLit(p *pkgInfo, name string) *ast.CompositeLit {
	for _, f := range p.files {
		for _, d := range f.Decls {
			gd, ok := d.(*ast.GenDecl)
			if !ok || gd.Tok != token.VAR {
				continue
			}
			for _, s := range gd.Specs {
				vs := s.(*ast.ValueSpec)
				for i, n := range vs.Names {
					if n.Name == name && i < len(vs.Values) {
						if cl, ok := vs.Values[i].(*ast.CompositeLit); ok {
							return cl
						}
					}
				}
			}
		}
	}
	return nil
}

func constOf(p *pkgInfo, e ast.Expr, what string) constant.Value {
	tv, ok := p.info.Types[e]
	if !ok || tv.Value == nil {
		die("%s: expression is not a compile-time constant", what)
	}
	return tv.Value
}

func emitMapTable(p *pkgInfo, it Item, sb *strings.Builder) {
	cl := findVarLit(p, it.Var)
	if cl == nil {
		die("maptable: var %s.%s not found or not a composite literal", it.Pkg, it.Var)
	}
	name := it.As
	if name == "" {
		name = it.Var
	}
	var rows []string
	for _, el := range cl.Elts {
		kv, ok := el.(*ast.KeyValueExpr)
		if !ok {
			die("maptable %s: element is not key:value", it.Var)
		}
		k := constOf(p, kv.Key, it.Var+" key")
		var fe ast.Expr
		if it.Field < 0 {
			fe = kv.Value
		} else {
			vl, ok := kv.Value.(*ast.CompositeLit)
			if !ok || it.Field >= len(vl.Elts) {
				die("maptable %s: value is not a struct literal with field %d", it.Var, it.Field)
			}
			fe = vl.Elts[it.Field]
			if kvf, ok := fe.(*ast.KeyValueExpr); ok {
				fe = kvf.Value
			}
		}
		v := constOf(p, fe, it.Var+" value")
		if it.Kind == "strtable" {
			rows = append(rows, fmt.Sprintf("(%s, %s)", intConst(k, "key"), coqString(constant.StringVal(v))))
		} else {
			rows = append(rows, fmt.Sprintf("(%s, %s)", intConst(k, "key"), intConst(v, "value")))
		}
	}
	ty := "Z"
	if it.Kind == "strtable" {
		ty = "string"
	}
	fmt.Fprintf(sb, "Definition %s : list (Z * %s) := [%s].\n", name, ty, strings.Join(rows, "; "))
}

func main() {
	if len(os.Args) < 4 {
		die("usage: gen <repo> <conf.d> <outdir>")
	}
	repo, confd, outdir := os.Args[1], os.Args[2], os.Args[3]
	ents, err := os.ReadDir(confd)
	if err != nil {
		die("%v", err)
	}
	for _, e := range ents {
		if !strings.HasSuffix(e.Name(), ".json") {
			continue
		}
		raw, err := os.ReadFile(filepath.Join(confd, e.Name()))
		if err != nil {
			die("%v", err)
		}
		var c Conf
		if err := json.Unmarshal(raw, &c); err != nil {
			die("%s: %v", e.Name(), err)
		}
		var sb strings.Builder
		fmt.Fprintf(&sb, "(* GENERATED by /verif/gen from /repo's working tree (conf %s). Do not edit. *)\n", e.Name())
		sb.WriteString("From Coq Require Import ZArith List String.\nImport ListNotations.\nRequire Import MS.Base.GoInt.\nLocal Open Scope Z_scope.\nLocal Open Scope string_scope.\n\n")
		for _, it := range c.Items {
			p, err := loadPkg(repo, it.Pkg)
			if err != nil {
				die("load %s: %v", it.Pkg, err)
			}
			switch it.Kind {
			case "const", "floatconst":
				emitConst(p, it, &sb)
			case "enum":
				emitEnum(p, it, &sb)
			case "maptable", "strtable":
				emitMapTable(p, it, &sb)
			case "strztable":
				emitStrZTable(p, it, &sb)
			case "func":
				emitFunc(p, it, &sb)
			default:
				die("unknown kind %q", it.Kind)
			}
		}
		out := filepath.Join(outdir, c.Out)
		old, _ := os.ReadFile(out)
		if string(old) != sb.String() {
			if err := os.WriteFile(out, []byte(sb.String()), 0o644); err != nil {
				die("%v", err)
			}
			fmt.Printf("gen: wrote %s (changed)\n", out)
		}
	}
}
