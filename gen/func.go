package main

import (
	"fmt"
	"go/ast"
	"go/constant"
	"go/token"
	"go/types"
	"strings"
)

// translateFunc: the integer subset.
//
//   parameters / results : integer or bool typed (named integer types of this package allowed)
//   statements           : x := e | x = e | x op= e | x++ | x-- | var x T [= e] | if [init;] c {..} [else {..}]
//                          | return [e] | switch-free, loop-free
//   expressions          : identifiers, integer literals, compile-time constants (folded by go/types),
//                          + - * / % << >> & | ^ (binary), unary - !, comparisons, && ||, parentheses,
//                          conversions between integer types, calls to other translated functions of the
//                          same package (given in the same conf file, emitted earlier).
//
// Semantics emitted: every arithmetic result is wrapped to its Go type with GoInt.wrap (two's
// complement), / and % are Go's truncating Z.quot / Z.rem (a zero divisor panics in Go: callers in the
// model must guard it; this is stated in DESIGN §4). `if` is translated by duplicating the
// continuation, so the result is a pure expression tree.

type ftrans struct {
	p       *pkgInfo
	it      Item
	known   map[string]string // go func name -> coq name
	results []string          // named results
	resTy   types.Type
	declared map[string]bool
}

var translated = map[string]string{} // pkg.name -> coq name

func ityOf(t types.Type) (string, bool) {
	b, ok := t.Underlying().(*types.Basic)
	if !ok {
		return "", false
	}
	switch b.Kind() {
	case types.Int, types.Int64, types.UntypedInt:
		return "I64", true
	case types.Int32, types.UntypedRune:
		return "I32", true
	case types.Int16:
		return "I16", true
	case types.Int8:
		return "I8", true
	case types.Uint, types.Uint64, types.Uintptr:
		return "U64", true
	case types.Uint32:
		return "U32", true
	case types.Uint16:
		return "U16", true
	case types.Uint8:
		return "U8", true
	}
	return "", false
}

func isBool(t types.Type) bool {
	b, ok := t.Underlying().(*types.Basic)
	return ok && (b.Kind() == types.Bool || b.Kind() == types.UntypedBool)
}

func (ft *ftrans) pos(n ast.Node) string { return ft.p.fset.Position(n.Pos()).String() }

func (ft *ftrans) expr(e ast.Expr) string {
	if tv, ok := ft.p.info.Types[e]; ok && tv.Value != nil {
		switch tv.Value.Kind() {
		case constant.Int:
			return zlit(tv.Value)
		case constant.Bool:
			if constant.BoolVal(tv.Value) {
				return "true"
			}
			return "false"
		}
	}
	switch x := e.(type) {
	case *ast.ParenExpr:
		return ft.expr(x.X)
	case *ast.Ident:
		if x.Name == "true" || x.Name == "false" {
			return x.Name
		}
		return "v_" + x.Name
	case *ast.BasicLit:
		die("%s: non-constant literal %s", ft.pos(e), x.Value)
	case *ast.UnaryExpr:
		switch x.Op {
		case token.SUB:
			return ft.wrapTo(e, "(- "+ft.expr(x.X)+")")
		case token.NOT:
			return "(negb " + ft.expr(x.X) + ")"
		case token.ADD:
			return ft.expr(x.X)
		}
		die("%s: unary operator %s outside subset", ft.pos(e), x.Op)
	case *ast.BinaryExpr:
		a, b := ft.expr(x.X), ft.expr(x.Y)
		switch x.Op {
		case token.ADD:
			return ft.wrapTo(e, "("+a+" + "+b+")")
		case token.SUB:
			return ft.wrapTo(e, "("+a+" - "+b+")")
		case token.MUL:
			return ft.wrapTo(e, "("+a+" * "+b+")")
		case token.QUO:
			return ft.wrapTo(e, "(Z.quot "+a+" "+b+")")
		case token.REM:
			return "(Z.rem " + a + " " + b + ")"
		case token.SHL:
			return ft.wrapTo(e, "(Z.shiftl "+a+" "+b+")")
		case token.SHR:
			return "(Z.shiftr " + a + " " + b + ")"
		case token.AND:
			return "(Z.land " + a + " " + b + ")"
		case token.OR:
			return "(Z.lor " + a + " " + b + ")"
		case token.LAND:
			return "(andb " + a + " " + b + ")"
		case token.LOR:
			return "(orb " + a + " " + b + ")"
		case token.EQL:
			if isBool(ft.p.info.Types[x.X].Type) {
				return "(Bool.eqb " + a + " " + b + ")"
			}
			return "(Z.eqb " + a + " " + b + ")"
		case token.NEQ:
			if isBool(ft.p.info.Types[x.X].Type) {
				return "(negb (Bool.eqb " + a + " " + b + "))"
			}
			return "(negb (Z.eqb " + a + " " + b + "))"
		case token.LSS:
			return "(Z.ltb " + a + " " + b + ")"
		case token.LEQ:
			return "(Z.leb " + a + " " + b + ")"
		case token.GTR:
			return "(Z.gtb " + a + " " + b + ")"
		case token.GEQ:
			return "(Z.geb " + a + " " + b + ")"
		}
		die("%s: binary operator %s outside subset", ft.pos(e), x.Op)
	case *ast.CallExpr:
		// time.Duration.Nanoseconds() is the identity on the int64 representation
		if recv, ok := isDurationNanoseconds(ft.p, x); ok {
			return ft.expr(recv)
		}
		// conversion?
		if tv, ok := ft.p.info.Types[x.Fun]; ok && tv.IsType() {
			if len(x.Args) != 1 {
				die("%s: conversion arity", ft.pos(e))
			}
			ity, ok := ityOf(tv.Type)
			if !ok {
				die("%s: conversion to non-integer type %s outside subset", ft.pos(e), tv.Type)
			}
			at := ft.p.info.Types[x.Args[0]].Type
			if _, ok := ityOf(at); !ok {
				die("%s: conversion from non-integer type %v outside subset", ft.pos(e), at)
			}
			return "(wrap " + ity + " " + ft.expr(x.Args[0]) + ")"
		}
		if id, ok := x.Fun.(*ast.Ident); ok {
			for _, en := range ft.it.Extern {
				if en == id.Name {
					var args []string
					for _, a := range x.Args {
						args = append(args, ft.expr(a))
					}
					return "(f_" + id.Name + " " + strings.Join(args, " ") + ")"
				}
			}
			if cn, ok := translated[ft.it.Pkg+"."+id.Name]; ok {
				var args []string
				for _, a := range x.Args {
					args = append(args, ft.expr(a))
				}
				return "(" + cn + " " + strings.Join(args, " ") + ")"
			}
			die("%s: call to %s, which is not a translated function (add it to the conf before this one)", ft.pos(e), id.Name)
		}
		die("%s: call outside subset", ft.pos(e))
	}
	die("%s: expression %T outside subset", ft.pos(e), e)
	return ""
}

func (ft *ftrans) wrapTo(e ast.Expr, s string) string {
	t := ft.p.info.Types[e].Type
	ity, ok := ityOf(t)
	if !ok {
		die("%s: arithmetic on non-integer type %v", ft.pos(e), t)
	}
	return "(wrap " + ity + " " + s + ")"
}

func terminates(stmts []ast.Stmt) bool {
	if len(stmts) == 0 {
		return false
	}
	switch s := stmts[len(stmts)-1].(type) {
	case *ast.ReturnStmt:
		return true
	case *ast.IfStmt:
		if s.Else == nil {
			return false
		}
		var eb []ast.Stmt
		switch e := s.Else.(type) {
		case *ast.BlockStmt:
			eb = e.List
		case *ast.IfStmt:
			eb = []ast.Stmt{e}
		}
		return terminates(s.Body.List) && terminates(eb)
	}
	return false
}

func (ft *ftrans) stmts(l []ast.Stmt, depth int) string {
	ind := strings.Repeat("  ", depth+1)
	if len(l) == 0 {
		if len(ft.results) == 1 {
			return "v_" + ft.results[0]
		}
		die("%s: control reaches end of function without return", ft.it.Name)
	}
	s, rest := l[0], l[1:]
	switch x := s.(type) {
	case *ast.ReturnStmt:
		if len(x.Results) == 0 {
			if len(ft.results) == 1 {
				return "v_" + ft.results[0]
			}
			die("%s: bare return without single named result", ft.pos(s))
		}
		if len(x.Results) != 1 {
			die("%s: multiple results outside subset", ft.pos(s))
		}
		return ft.expr(x.Results[0])
	case *ast.AssignStmt:
		if len(x.Lhs) != 1 || len(x.Rhs) != 1 {
			die("%s: tuple assignment outside subset", ft.pos(s))
		}
		id, ok := x.Lhs[0].(*ast.Ident)
		if !ok {
			die("%s: assignment to non-identifier", ft.pos(s))
		}
		rhs := ft.expr(x.Rhs[0])
		switch x.Tok {
		case token.DEFINE:
			if ft.declared[id.Name] && depth > 0 {
				die("%s: shadowing declaration of %s in nested block outside subset", ft.pos(s), id.Name)
			}
			ft.declared[id.Name] = true
		case token.ASSIGN:
		case token.ADD_ASSIGN, token.SUB_ASSIGN, token.MUL_ASSIGN:
			op := map[token.Token]string{token.ADD_ASSIGN: "+", token.SUB_ASSIGN: "-", token.MUL_ASSIGN: "*"}[x.Tok]
			t := ft.p.info.Types[x.Lhs[0]].Type
			ity, ok := ityOf(t)
			if !ok {
				die("%s: op-assign on non-integer", ft.pos(s))
			}
			rhs = "(wrap " + ity + " (v_" + id.Name + " " + op + " " + rhs + "))"
		default:
			die("%s: assignment operator %s outside subset", ft.pos(s), x.Tok)
		}
		return "let v_" + id.Name + " := " + rhs + " in\n" + ind + ft.stmts(rest, depth)
	case *ast.IncDecStmt:
		id, ok := x.X.(*ast.Ident)
		if !ok {
			die("%s: inc/dec of non-identifier", ft.pos(s))
		}
		ity, _ := ityOf(ft.p.info.Types[x.X].Type)
		op := "+"
		if x.Tok == token.DEC {
			op = "-"
		}
		return "let v_" + id.Name + " := (wrap " + ity + " (v_" + id.Name + " " + op + " 1)) in\n" + ind + ft.stmts(rest, depth)
	case *ast.DeclStmt:
		gd, ok := x.Decl.(*ast.GenDecl)
		if !ok || gd.Tok != token.VAR {
			if ok && gd.Tok == token.CONST {
				return ft.stmts(rest, depth) // constants are folded at use sites
			}
			die("%s: declaration outside subset", ft.pos(s))
		}
		out := ""
		for _, sp := range gd.Specs {
			vs := sp.(*ast.ValueSpec)
			for i, n := range vs.Names {
				ft.declared[n.Name] = true
				v := "0"
				if i < len(vs.Values) {
					v = ft.expr(vs.Values[i])
				} else if isBool(ft.p.info.Defs[n].Type()) {
					v = "false"
				}
				out += "let v_" + n.Name + " := " + v + " in\n" + ind
			}
		}
		return out + ft.stmts(rest, depth)
	case *ast.IfStmt:
		pre := ""
		if x.Init != nil {
			// translate init as a preceding statement
			return ft.stmts(append([]ast.Stmt{x.Init, &ast.IfStmt{If: x.If, Cond: x.Cond, Body: x.Body, Else: x.Else}}, rest...), depth)
		}
		c := ft.expr(x.Cond)
		var eb []ast.Stmt
		switch e := x.Else.(type) {
		case nil:
		case *ast.BlockStmt:
			eb = e.List
		case *ast.IfStmt:
			eb = []ast.Stmt{e}
		}
		thenS := append(append([]ast.Stmt{}, x.Body.List...), restIfNot(terminates(x.Body.List), rest)...)
		elseS := append(append([]ast.Stmt{}, eb...), restIfNot(terminates(eb), rest)...)
		return pre + "if " + c + "\n" + ind + "then (" + ft.stmts(thenS, depth+1) + ")\n" + ind + "else (" + ft.stmts(elseS, depth+1) + ")"
	case *ast.BlockStmt:
		return ft.stmts(append(append([]ast.Stmt{}, x.List...), rest...), depth)
	case *ast.EmptyStmt:
		return ft.stmts(rest, depth)
	}
	die("%s: statement %T outside subset", ft.pos(s), s)
	return ""
}

func restIfNot(term bool, rest []ast.Stmt) []ast.Stmt {
	if term {
		return nil
	}
	return rest
}

func findFunc(p *pkgInfo, it Item) *ast.FuncDecl {
	for _, f := range p.files {
		for _, d := range f.Decls {
			fd, ok := d.(*ast.FuncDecl)
			if !ok || fd.Name.Name != it.Name {
				continue
			}
			if it.Recv == "" && fd.Recv == nil {
				return fd
			}
			if it.Recv != "" && fd.Recv != nil && len(fd.Recv.List) == 1 {
				var sb strings.Builder
				writeType(&sb, fd.Recv.List[0].Type)
				if sb.String() == it.Recv {
					return fd
				}
			}
		}
	}
	return nil
}

func writeType(sb *strings.Builder, e ast.Expr) {
	switch x := e.(type) {
	case *ast.StarExpr:
		sb.WriteByte('*')
		writeType(sb, x.X)
	case *ast.Ident:
		sb.WriteString(x.Name)
	case *ast.SelectorExpr:
		writeType(sb, x.X)
		sb.WriteByte('.')
		sb.WriteString(x.Sel.Name)
	}
}

func emitFunc(p *pkgInfo, it Item, sb *strings.Builder) {
	fd := findFunc(p, it)
	if fd == nil || fd.Body == nil {
		die("func %s.%s (recv %q) not found", it.Pkg, it.Name, it.Recv)
	}
	name := it.As
	if name == "" {
		name = it.Name
	}
	ft := &ftrans{p: p, it: it, declared: map[string]bool{}}
	var params []string
	for _, en := range it.Extern {
		ed := findFunc(p, Item{Name: en})
		if ed == nil {
			die("func %s: extern %s not found in package %s", it.Name, en, it.Pkg)
		}
		ty := "Z"
		for _, f := range ed.Type.Params.List {
			k := len(f.Names)
			if k == 0 {
				k = 1
			}
			for i := 0; i < k; i++ {
				ty = "Z -> " + ty
			}
		}
		params = append(params, fmt.Sprintf("(f_%s : %s)", en, ty))
	}
	for _, f := range fd.Type.Params.List {
		t := p.info.Types[f.Type].Type
		coqT := "Z"
		if isBool(t) {
			coqT = "bool"
		} else if _, ok := ityOf(t); !ok {
			die("func %s: parameter type %v outside subset", it.Name, t)
		}
		for _, n := range f.Names {
			ft.declared[n.Name] = true
			params = append(params, fmt.Sprintf("(v_%s : %s)", n.Name, coqT))
		}
	}
	if fd.Type.Results == nil || len(fd.Type.Results.List) != 1 {
		die("func %s: exactly one result required", it.Name)
	}
	r := fd.Type.Results.List[0]
	rt := p.info.Types[r.Type].Type
	coqR := "Z"
	if isBool(rt) {
		coqR = "bool"
	} else if _, ok := ityOf(rt); !ok {
		die("func %s: result type %v outside subset", it.Name, rt)
	}
	body := ""
	if len(r.Names) == 1 {
		ft.results = []string{r.Names[0].Name}
		ft.declared[r.Names[0].Name] = true
		zero := "0"
		if coqR == "bool" {
			zero = "false"
		}
		body = "let v_" + r.Names[0].Name + " := " + zero + " in\n  "
	} else if len(r.Names) > 1 {
		die("func %s: multiple results", it.Name)
	}
	body += ft.stmts(fd.Body.List, 0)
	pos := p.fset.Position(fd.Pos())
	fmt.Fprintf(sb, "(* %s:%d  func %s *)\nDefinition %s %s : %s :=\n  %s.\n", strings.TrimPrefix(pos.Filename, "/repo/"), pos.Line, it.Name, name, strings.Join(params, " "), coqR, body)
	translated[it.Pkg+"."+it.Name] = name
}
