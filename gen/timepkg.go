package main

// Extensions used by the time-arithmetic models (C30/C31/C10):
//
//   * a minimal fake of the standard "time" package for the type checker, so that constants such as
//     `Day = 24 * time.Hour` fold and `time.Duration` parameters are integer typed (int64);
//     `d.Nanoseconds()` is typed int64 and translated as the identity;
//   * kind=strztable: a package-level slice or map composite literal whose elements pair a string
//     with an integer constant ({"1Sec", time.Second} | "S": time.Second | &Timeframe{...})
//     -> Definition n : list (string * Z).
//   * kind=func with "extern": ["f", ...]: calls to the named functions of the same package are not
//     translated but become leading function-typed parameters (f_<name> : Z -> ... -> Z) of the
//     emitted definition, to be instantiated by the hand-written model.

import (
	"fmt"
	"go/ast"
	"go/constant"
	"go/token"
	"go/types"
	"strings"
)

func fakeTimePkg() *types.Package {
	p := types.NewPackage("time", "time")
	dn := types.NewTypeName(token.NoPos, p, "Duration", nil)
	dur := types.NewNamed(dn, types.Typ[types.Int64], nil)
	p.Scope().Insert(dn)
	for _, c := range []struct {
		n string
		v int64
	}{{"Nanosecond", 1}, {"Microsecond", 1e3}, {"Millisecond", 1e6}, {"Second", 1e9}, {"Minute", 60e9}, {"Hour", 3600e9}} {
		p.Scope().Insert(types.NewConst(token.NoPos, p, c.n, dur, constant.MakeInt64(c.v)))
	}
	recv := types.NewVar(token.NoPos, p, "d", dur)
	res := types.NewTuple(types.NewVar(token.NoPos, p, "", types.Typ[types.Int64]))
	sig := types.NewSignatureType(recv, nil, nil, nil, res, false)
	dur.AddMethod(types.NewFunc(token.NoPos, p, "Nanoseconds", sig))
	mn := types.NewTypeName(token.NoPos, p, "Month", nil)
	mon := types.NewNamed(mn, types.Typ[types.Int], nil)
	p.Scope().Insert(mn)
	for i, n := range []string{"January", "February", "March", "April", "May", "June", "July", "August", "September", "October", "November", "December"} {
		p.Scope().Insert(types.NewConst(token.NoPos, p, n, mon, constant.MakeInt64(int64(i+1))))
	}
	p.MarkComplete()
	return p
}

// isDurationNanoseconds: x.Nanoseconds() with x of (fake) type time.Duration
func isDurationNanoseconds(p *pkgInfo, c *ast.CallExpr) (ast.Expr, bool) {
	sel, ok := c.Fun.(*ast.SelectorExpr)
	if !ok || sel.Sel.Name != "Nanoseconds" || len(c.Args) != 0 {
		return nil, false
	}
	tv, ok := p.info.Types[sel.X]
	if !ok {
		return nil, false
	}
	nt, ok := tv.Type.(*types.Named)
	if !ok || nt.Obj().Name() != "Duration" || nt.Obj().Pkg() == nil || nt.Obj().Pkg().Path() != "time" {
		return nil, false
	}
	return sel.X, true
}

func emitStrZTable(p *pkgInfo, it Item, sb *strings.Builder) {
	cl := findVarLit(p, it.Var)
	if cl == nil {
		die("strztable: var %s.%s not found or not a composite literal", it.Pkg, it.Var)
	}
	name := it.As
	if name == "" {
		name = it.Var
	}
	var rows []string
	for _, el := range cl.Elts {
		var ke, ve ast.Expr
		if kv, ok := el.(*ast.KeyValueExpr); ok {
			ke, ve = kv.Key, kv.Value
		} else {
			if u, ok := el.(*ast.UnaryExpr); ok && u.Op == token.AND {
				el = u.X
			}
			vl, ok := el.(*ast.CompositeLit)
			if !ok || len(vl.Elts) != 2 {
				die("strztable %s: element is not a two-field struct literal", it.Var)
			}
			ke, ve = vl.Elts[0], vl.Elts[1]
			if kvf, ok := ke.(*ast.KeyValueExpr); ok {
				ke = kvf.Value
			}
			if kvf, ok := ve.(*ast.KeyValueExpr); ok {
				ve = kvf.Value
			}
		}
		k := constOf(p, ke, it.Var+" string field")
		if k.Kind() != constant.String {
			die("strztable %s: first field is not a string constant", it.Var)
		}
		v := constOf(p, ve, it.Var+" integer field")
		rows = append(rows, fmt.Sprintf("(%s, %s)", coqString(constant.StringVal(k)), intConst(v, it.Var+" value")))
	}
	fmt.Fprintf(sb, "Definition %s : list (string * Z) := [%s].\n", name, strings.Join(rows, "; "))
}
