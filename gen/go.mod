module verifgen

go 1.18
