(** Byte-exact model of the WAL transaction-group codec.

    Go function (file:line at HEAD)                      model
    ---------------------------------------------------  ------------------------------
    executor/wal.go:342   serializeTG                    serializeTG, ser_cmd, cmd_buffer
    executor/wal.go:573   ParseTGData                    ParseTGData, parse_cmds, parse_cmd
    executor/wal.go:209   walKeyToFullPath               wal_full_path (path_join2 / path_clean)
    utils/io/datashape.go:63   DataShape.toBytes          ds_to_bytes
    utils/io/datashape.go:131  DSVToBytes                dsv_to_bytes
    utils/io/datashape.go:89   dsFromBytes               ds_from_bytes
    utils/io/datashape.go:103  DSVFromBytes              dsv_from_bytes, dsv_loop
    executor/wal/oib.go   Offset/Index/Payload           oib_offset, oib_index, oib_payload
    executor/wal/wt.go    NewWTSet                       mkwt

    The field widths of the PARSER are the constants of ParseTGData (GENERATED: Src_wal.tgIDLenBytes,
    wtCountLenBytes, recordLenLenBytes, fpLenLenBytes, dataLenLenBytes, varRecLenLenBytes, offsetLenBytes,
    indexLenBytes); the widths of the SERIALIZER are the Go conversion types written in serializeTG
    (int64, int64, int8, int16, int32, int32, int64, int64, uint8) and are written out here.  The
    round-trip proof connects the two, so a changed constant breaks it.

    Quirks kept: uint8(len(name)) / uint8(len(dss)) wrap; DSVToBytes returns nil (nothing is appended)
    when uint8(len(dss)) = 0; DSVToBytes writes ALL shapes whatever the stored count; int16/int32
    truncation of lengths; every Go slice/index/makeslice panic is an explicit [Panic].
    All integers of the parser are Go [int] (64 bit): cursor <= len <= 2^63 and the addends are below
    2^32, so no cursor computation wraps and plain [Z] arithmetic is exact. *)
From Coq Require Import ZArith NArith List Bool Lia.
From Coq.Strings Require Import Byte.
Import ListNotations.
Require Import MS.Base.GoInt MS.Base.Res MS.Base.Hex MS.Base.Bytes MS.Generated.Src_wal.
Local Open Scope Z_scope.

(** io.DataShape: name and element type (EnumElementType is a byte) *)
Record shape := mkshape { s_name : list byte; s_type : byte }.

(** wal.WriteCommand.  c_rt : EnumRecordType (int8); c_vrl : int; c_off, c_idx : int64 *)
Record cmd := mkcmd {
  c_rt : Z; c_path : list byte; c_vrl : Z; c_off : Z; c_idx : Z; c_data : list byte; c_shapes : list shape }.

(** wal.WTSet as ParseTGData builds it.  w_buf = OffsetIndexBuffer (offset ++ index ++ payload) *)
Record wtset := mkwt {
  w_rt : Z; w_path : list byte; w_datalen : Z; w_vrl : Z; w_buf : list byte; w_shapes : list shape }.

Definition blen (l : list byte) : Z := Z.of_nat (length l).

(* ------------------------------------------------------------------ serializer *)

Definition ds_to_bytes (s : shape) : list byte :=
  le_bytes 1 (blen (s_name s)) ++ s_name s ++ [s_type s].

Definition dsv_to_bytes (l : list shape) : list byte :=
  let dsLen := wrap U8 (Z.of_nat (length l)) in
  if dsLen =? 0 then [] else le_bytes 1 dsLen ++ flat_map ds_to_bytes l.

(** the OffsetIndexBuffer kept for the primary write: tgSerialized[oStart : oStart+8+8+len(Data)] *)
Definition cmd_buffer (c : cmd) : list byte := le_bytes 8 (c_off c) ++ le_bytes 8 (c_idx c) ++ c_data c.

Definition ser_cmd (c : cmd) : list byte :=
  le_bytes 1 (c_rt c) ++ le_bytes 2 (blen (c_path c)) ++ c_path c
  ++ le_bytes 4 (blen (c_data c)) ++ le_bytes 4 (c_vrl c)
  ++ cmd_buffer c ++ dsv_to_bytes (c_shapes c).

Definition serializeTG (tgid : Z) (cmds : list cmd) : list byte :=
  le_bytes 8 tgid ++ le_bytes 8 (Z.of_nat (length cmds)) ++ flat_map ser_cmd cmds.

(* ------------------------------------------------------------------ filepath.Join(root, key) on Unix *)

Definition slash : byte := x2f.
Definition dot : byte := x2e.

(** strings.Split(p, "/") *)
Fixpoint split_slash (p : list byte) (cur : list byte) : list (list byte) :=
  match p with
  | [] => [rev cur]
  | b :: r => if Byte.eqb b slash then rev cur :: split_slash r [] else split_slash r (b :: cur)
  end.

(** the component stack of filepath.Clean (top of stack first) *)
Fixpoint clean_comps (cs : list (list byte)) (rooted : bool) (stack : list (list byte)) : list (list byte) :=
  match cs with
  | [] => stack
  | c :: r =>
      if bytes_eqb c [] || bytes_eqb c [dot] then clean_comps r rooted stack
      else if bytes_eqb c [dot; dot] then
        match stack with
        | top :: rest => if bytes_eqb top [dot; dot] then clean_comps r rooted (c :: stack)
                         else clean_comps r rooted rest
        | [] => if rooted then clean_comps r rooted [] else clean_comps r rooted [c]
        end
      else clean_comps r rooted (c :: stack)
  end.

Fixpoint join_slash (l : list (list byte)) : list byte :=
  match l with [] => [] | [x] => x | x :: r => x ++ slash :: join_slash r end.

(** filepath.Clean (Unix: no volume names, separator '/') *)
Definition path_clean (p : list byte) : list byte :=
  match p with
  | [] => [dot]
  | b :: _ =>
      let rooted := Byte.eqb b slash in
      let st := rev (clean_comps (split_slash p []) rooted []) in
      if rooted then slash :: join_slash st
      else match st with [] => [dot] | _ => join_slash st end
  end.

(** filepath.Join(a, b): empty elements are ignored, the rest joined by '/' and Cleaned; "" if all empty *)
Definition path_join2 (a b : list byte) : list byte :=
  match a, b with
  | [], [] => []
  | [], _ => path_clean b
  | _, _ => path_clean (a ++ slash :: b)
  end.

Definition wal_full_path (root key : list byte) : list byte := path_join2 root key.

(* ------------------------------------------------------------------ parser *)

(** dsFromBytes(buf): (shape, bytes consumed) *)
Definition ds_from_bytes (buf : list byte) : Res (shape * Z) :=
  do b <- slice buf 0 1;
  do nl <- to_int U8 b;
  do nm <- slice buf 1 (1 + nl);
  do t <- index buf (1 + nl);
  Ok (mkshape nm t, 1 + nl + 1).

Fixpoint dsv_loop (n : nat) (buf : list byte) (cursor : Z) : Res (list shape * Z) :=
  match n with
  | O => Ok ([], cursor)
  | S n' =>
      do sub <- slice_from buf cursor;
      do dl <- ds_from_bytes sub;
      let '(ds, l) := dl in
      do rc <- dsv_loop n' buf (cursor + l);
      let '(rest, c') := rc in
      Ok (ds :: rest, c')
  end.

(** DSVFromBytes(buf).  The [buf == nil] arm is unreachable from ParseTGData (tgSerialized[cursor:] of
    a non-nil slice is never nil). *)
Definition dsv_from_bytes (buf : list byte) : Res (list shape * Z) :=
  do b <- slice buf 0 1;
  do n <- to_int U8 b;
  dsv_loop (Z.to_nat n) buf 1.

(** one iteration of ParseTGData's loop: (WTSet, new cursor) *)
Definition parse_cmd (bs : list byte) (root : list byte) (cursor : Z) : Res (wtset * Z) :=
  do b <- slice bs cursor (cursor + recordLenLenBytes);
  do rt <- to_int I8 b;
  let cursor := cursor + recordLenLenBytes in
  do b <- slice bs cursor (cursor + fpLenLenBytes);
  do fplen <- to_int I16 b;
  let cursor := cursor + fpLenLenBytes in
  do key <- slice bs cursor (cursor + fplen);
  let cursor := cursor + fplen in
  do b <- slice bs cursor (cursor + dataLenLenBytes);
  do datalen <- to_int I32 b;
  let cursor := cursor + dataLenLenBytes in
  do b <- slice bs cursor (cursor + varRecLenLenBytes);
  do vrl <- to_int I32 b;
  let cursor := cursor + varRecLenLenBytes in
  do data <- slice bs cursor (cursor + offsetLenBytes + indexLenBytes + datalen);
  let cursor := cursor + offsetLenBytes + indexLenBytes + datalen in
  do rest <- slice_from bs cursor;
  do sl <- dsv_from_bytes rest;
  let '(shapes, l) := sl in
  Ok (mkwt rt (wal_full_path root key) datalen vrl data shapes, cursor + l).

Fixpoint parse_cmds (n : nat) (bs root : list byte) (cursor : Z) : Res (list wtset) :=
  match n with
  | O => Ok []
  | S n' =>
      do wc <- parse_cmd bs root cursor;
      let '(w, c') := wc in
      do rest <- parse_cmds n' bs root c';
      Ok (w :: rest)
  end.

(** ParseTGData(tgSerialized, rootPath).  [make([]wal.WTSet, WTCount)] panics for a negative count
    (and for counts beyond the allocation limit); a count larger than the number of bytes cannot
    complete either, because every iteration consumes at least one byte (TGCodec_facts.parse_cmds_overcount):
    the loop bound is therefore capped at [len+1], which keeps the model executable on garbage. *)
Definition ParseTGData (bs root : list byte) : Res (Z * list wtset) :=
  do b <- slice bs 0 tgIDLenBytes;
  do tgid <- to_int I64 b;
  do b <- slice bs tgIDLenBytes (tgIDLenBytes + wtCountLenBytes);
  do cnt <- to_int I64 b;
  if cnt <? 0 then Panic
  else
    do ws <- parse_cmds (Z.to_nat (Z.min cnt (blen bs + 1))) bs root (tgIDLenBytes + wtCountLenBytes);
    Ok (tgid, ws).

(* ------------------------------------------------------------------ the checked decoder (after the fix) *)

(** executor/wal.go parseTGData (fix "ParseTGData checks every length field against the buffer"): the same
    steps, each slice expression preceded by the test [available(n)] := 0 <= n <= len - cursor; a failed
    test is an ERROR RETURN ([Rejected]).  The slice expressions keep their explicit [Panic] outcome; that
    they are unreachable is a theorem (TGCodec_facts.parseTGData_no_panic), not a convention.
    [ParseTGData] above is now the unguarded sequence of steps (io.DSVFromBytes is still unguarded in Go). *)
Definition available (bs : list byte) (cursor n : Z) : bool := (0 <=? n) && (n <=? blen bs - cursor).

(** if !available(n) { return error }; x := bs[cursor : cursor+n] *)
Definition take {A} (bs : list byte) (cursor n : Z) (k : list byte -> Res A) : Res A :=
  if available bs cursor n then (do x <- slice bs cursor (cursor + n); k x) else Rejected.

(** executor/wal.go dsvByteLength: byte length of the shape vector at the head of buf, None if a length
    field points outside buf *)
Fixpoint dsv_len_loop (n : nat) (buf : list byte) (cursor : Z) : option Z :=
  match n with
  | O => Some cursor
  | S n' =>
      if blen buf <=? cursor then None
      else match index buf cursor with
           | Ok b => let next := cursor + 1 + Z_of_byte b + 1 in
                     if blen buf <? next then None else dsv_len_loop n' buf next
           | _ => None
           end
  end.
Definition dsv_byte_length (buf : list byte) : option Z :=
  match buf with
  | [] => None
  | b :: _ => dsv_len_loop (Z.to_nat (Z_of_byte b)) buf 1
  end.

Definition parse_cmd_c (bs : list byte) (root : list byte) (cursor : Z) : Res (wtset * Z) :=
  take bs cursor recordLenLenBytes (fun b =>
  do rt <- to_int I8 b;
  let cursor := cursor + recordLenLenBytes in
  take bs cursor fpLenLenBytes (fun b =>
  do fplen <- to_int I16 b;
  let cursor := cursor + fpLenLenBytes in
  take bs cursor fplen (fun key =>
  let cursor := cursor + fplen in
  take bs cursor dataLenLenBytes (fun b =>
  do datalen <- to_int I32 b;
  let cursor := cursor + dataLenLenBytes in
  take bs cursor varRecLenLenBytes (fun b =>
  do vrl <- to_int I32 b;
  let cursor := cursor + varRecLenLenBytes in
  if datalen <? 0 then Rejected else
  take bs cursor (offsetLenBytes + indexLenBytes + datalen) (fun data =>
  let cursor := cursor + (offsetLenBytes + indexLenBytes + datalen) in
  do rest <- slice_from bs cursor;
  match dsv_byte_length rest with
  | None => Rejected
  | Some _ =>
      do sl <- dsv_from_bytes rest;
      let '(shapes, l) := sl in
      Ok (mkwt rt (wal_full_path root key) datalen vrl data shapes, cursor + l)
  end)))))).

Fixpoint parse_cmds_c (n : nat) (bs root : list byte) (cursor : Z) : Res (list wtset) :=
  match n with
  | O => Ok []
  | S n' =>
      do wc <- parse_cmd_c bs root cursor;
      let '(w, c') := wc in
      do rest <- parse_cmds_c n' bs root c';
      Ok (w :: rest)
  end.

Definition parseTGData (bs root : list byte) : Res (Z * list wtset) :=
  take bs 0 (tgIDLenBytes + wtCountLenBytes) (fun _ =>
  do b <- slice bs 0 tgIDLenBytes;
  do tgid <- to_int I64 b;
  do b <- slice bs tgIDLenBytes (tgIDLenBytes + wtCountLenBytes);
  do cnt <- to_int I64 b;
  if (cnt <? 0) || (blen bs <? cnt) then Rejected
  else
    do ws <- parse_cmds_c (Z.to_nat cnt) bs root (tgIDLenBytes + wtCountLenBytes);
    Ok (tgid, ws)).

(** the exported ParseTGData: logs the error and returns (0, nil) *)
Definition ParseTGData_go (bs root : list byte) : Res (Z * list wtset) :=
  match parseTGData bs root with
  | Ok r => Ok r
  | Rejected => Ok (0, [])
  | Panic => Panic
  end.

(* ------------------------------------------------------------------ OffsetIndexBuffer accessors *)
Definition oib_offset (b : list byte) : Res Z := do x <- slice b 0 8; to_int I64 x.
Definition oib_index (b : list byte) : Res Z := do x <- slice b 8 16; to_int I64 x.
Definition oib_payload (b : list byte) : Res (list byte) := slice_from b 16.

(* ------------------------------------------------------------------ the round-trip domain *)

(** what decoding must yield for a command *)
Definition to_wtset (root : list byte) (c : cmd) : wtset :=
  mkwt (c_rt c) (wal_full_path root (c_path c)) (blen (c_data c)) (c_vrl c) (cmd_buffer c) (c_shapes c).

Definition shape_okb (s : shape) : bool := blen (s_name s) <=? 255.

(** every length fits the width of its length field *)
Definition encodableb (c : cmd) : bool :=
  in_ityb I8 (c_rt c)
  && (blen (c_path c) <? 32768)
  && (blen (c_data c) <? 2147483648)
  && in_ityb I32 (c_vrl c)
  && in_ityb I64 (c_off c) && in_ityb I64 (c_idx c)
  && (1 <=? Z.of_nat (length (c_shapes c))) && (Z.of_nat (length (c_shapes c)) <=? 255)
  && forallb shape_okb (c_shapes c).

(** utils/io/metadata.go TimeBucketInfo.CheckStorable (fix d005c52/e807cb3, called by catalog.AddTimeBucket):
    a column name must fit its elementNameHeaderBytes-byte header slot and neither start nor end with NUL *)
Definition storable_nameb (s : shape) : bool :=
  (blen (s_name s) <=? elementNameHeaderBytes)
  && match s_name s with
     | [] => true
     | b :: _ => negb (Byte.eqb b x00) && negb (Byte.eqb (last (s_name s) x01) x00)
     end.

(** what the write path guarantees: Go typing and the construction of a WriteCommand (key path of an
    existing file, int32 VarRecLen, ...) and — since a write is only accepted for a bucket that
    catalog.AddTimeBucket created — CheckStorable on the column names ("Epoch" + element names) and at most
    maxNumElements elements.  There is still NO bound of 255 on the number of shapes: the domain of the
    property AS STATED *)
Definition acceptableb (c : cmd) : bool :=
  in_ityb I8 (c_rt c)
  && (blen (c_path c) <? 32768)
  && (blen (c_data c) <? 2147483648)
  && in_ityb I32 (c_vrl c)
  && in_ityb I64 (c_off c) && in_ityb I64 (c_idx c)
  && (1 <=? Z.of_nat (length (c_shapes c)))
  && (Z.of_nat (length (c_shapes c)) <=? maxNumElements + 1)
  && forallb storable_nameb (c_shapes c).

(** the two defect classes (executable mirrors live in harness/props/c28.go) *)
Definition long_nameb (c : cmd) : bool := negb (forallb shape_okb (c_shapes c)).
Definition many_shapesb (c : cmd) : bool := 255 <? Z.of_nat (length (c_shapes c)).
