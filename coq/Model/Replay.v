(** Model/Replay.v — start-up recovery as an executable function on crash images.

    Mirrors:
      internal/di/wal.go:15-73          GetInitWALFile: NewWALFile, Finder.Find, CleanupOldWALFiles
                                        (an error there is di's panic: outcome [startup error])
      executor/walclean.go:32-87        CleanupOldWALFiles   -> [cleanup]
      executor/wal.go:95-121            TakeOverWALFile      -> [take_over] (quirk: fails iff the file's
                                        owner id is 0, because the fresh struct's OwningInstanceID is 0)
      executor/walreplay.go:26-167      Replay (two passes)  -> [scan], [replay_wal]
      executor/walreplay.go:169-216     replayTGData         -> [replay_tg]
      executor/wal.go:154-188           Delete               -> [delete_events]
      executor/wal.go:682-691           NeedsReplay
    and the unrestricted query of a bucket (planner + executor.Reader) as the observation [query].

    Recovery is a function [recover im] returning the list of events (system calls) the start-up
    issues on image [im] and its outcome; the recovered image is [apply_events im events].  So a crash
    DURING recovery is again a prefix of an event list (C34). *)
From Coq Require Import ZArith NArith List Bool Lia.
From Coq.Strings Require Import Byte.
Import ListNotations.
Require Import MS.Base.Res MS.Base.Hex MS.Generated.Src_durab MS.Model.Wal.
Local Open Scope Z_scope.

(* ------------------------------------------------------------------ first pass: scan *)

Definition rec_size (r : wrec) : Z :=
  match r with
  | RTxn _ _ _ => 1 + 10
  | RMid => 1
  | RLen _ => tgLenBytes
  | RBody _ cs => body_len cs
  | RSum _ => checkSumBytes
  end.

Definition wal_size (wf : walfile) : Z :=
  (match wf_status wf with Some _ => 1 + walStatusLenBytes | None => 0 end)
  + fold_right (fun r acc => rec_size r + acc) 0 (wf_recs wf).

(** tgData: TG id -> serialized TG, or nil (the assignment precedes the error test, walreplay.go:77) *)
Definition tgmap := list (Z * option (list cmd)).

Fixpoint tg_set (k : Z) (v : option (list cmd)) (m : tgmap) : tgmap :=
  match m with
  | [] => [(k, v)]
  | (k', v') :: r => if k =? k' then (k, v) :: r else (k', v') :: tg_set k v r
  end.
Definition tg_has (k : Z) (m : tgmap) : bool := existsb (fun e => fst e =? k) m.
Definition tg_prune (k : Z) (m : tgmap) : tgmap := filter (fun e => negb (fst e <=? k)) m.

Inductive scanres :=
| ScanOk (m : tgmap)
| ScanDup                 (* ReplayError{"Duplicate TG Data in WAL", Cont: true} *)
| ScanUnmodelled.         (* the byte-level scanner would leave the record grid (damaged log: C06) *)

Definition valid_dest (d : Z) : bool := (d =? DEST_WAL) || (d =? DEST_CHECKPOINT).
Definition valid_status (s : Z) : bool :=
  (s =? TXN_PREPARING) || (s =? TXN_COMMITINTENDED) || (s =? TXN_COMMITCOMPLETE).

(** The read loop of Replay (walreplay.go:64-124) on a log of whole records. *)
Fixpoint scan (recs : list wrec) (size : Z) (m : tgmap) (seen : list Z) : scanres :=
  match recs with
  | [] => ScanOk m                                             (* io.EOF *)
  | RTxn tid dest st :: r =>
      if valid_dest dest && valid_status st then
        if (dest =? DEST_CHECKPOINT) && (st =? TXN_COMMITCOMPLETE) && tg_has tid m
        then scan r size (tg_prune tid m) seen
        else scan r size m seen
      else scan r size m seen           (* generic error: fullRead = true, zero values recorded *)
  | RMid :: r =>
      match r with
      | [] | [RLen _] | [RLen _; RBody _ _] => ScanOk (tg_set 0 None m)      (* ShortReadError: stop *)
      | RLen n :: RBody id cs :: RSum ok :: r' =>
          if (n <? safetyFactor * size) && (n =? body_len cs) then
            let '(key, val) := if ok then (id, Some cs) else (0, None) in
            let m' := tg_set key val m in
            if existsb (Z.eqb key) seen then ScanDup else scan r' size m' (key :: seen)
          else ScanUnmodelled
      | _ => ScanUnmodelled
      end
  | _ => ScanUnmodelled
  end.

(* ------------------------------------------------------------------ second pass: replay *)

Fixpoint ins_tg (x : Z * option (list cmd)) (l : tgmap) : tgmap :=
  match l with
  | [] => [x]
  | y :: r => if fst x <? fst y then x :: y :: r else y :: ins_tg x r
  end.
(** sort.Sort(sortedTGIDs): keys are distinct, so the result is determined *)
Definition sort_tgs (m : tgmap) : tgmap := fold_right ins_tg [] m.

Inductive routcome := ROk | RCont | RFatal.
(* RCont = wal.ReplayError{Cont: true}: the file is moved aside, start-up continues;
   RFatal = any other error: CleanupOldWALFiles returns it and internal/di panics *)

Section WithClen.
  Variable clen : list record -> Z.

  (** replayTGData's loop over the WTSets (walreplay.go:182-208) *)
  Fixpoint replay_cmds (im : img) (cs : list cmd) : list event * routcome :=
    match cs with
    | [] => ([], ROk)
    | c :: r =>
        match alookup (c_fid c) (i_files im) with
        | None => ([], RCont)                            (* cfp.GetFP fails: ReplayError{Cont} *)
        | Some _ =>
            let step := match c_kind c with
                        | KFixed => fixed_write im c
                        | KVar => indirect clen im c
                        end in
            match step with
            | None => ([], RFatal)
            | Some evs =>
                let '(rest, o) := replay_cmds (apply_events im evs) r in (evs ++ rest, o)
            end
        end
    end.

  Definition replay_tg (w : wid) (im : img) (id : Z) (cs : list cmd) : list event * routcome :=
    match cs with
    | [] => ([], ROk)                                    (* len(wtSets) == 0 *)
    | _ =>
        match replay_cmds im cs with
        | (evs, ROk) => (evs ++ checkpoint_events w id, ROk)     (* lastCommittedTGID = tgID; CreateCheckpoint *)
        | other => other
        end
    end.

  Fixpoint replay_tgs (w : wid) (im : img) (tgs : tgmap) : list event * routcome :=
    match tgs with
    | [] => ([], ROk)
    | (_, None) :: r => replay_tgs w im r                (* nil entry: skipped (walreplay.go:141) *)
    | (id, Some cs) :: r =>
        match replay_tg w im id cs with
        | (evs, ROk) => let '(rest, o) := replay_tgs w (apply_events im evs) r in (evs ++ rest, o)
        | other => other
        end
    end.

  Definition needs_replay (rs : Z) : bool := (rs =? WRS_NOTREPLAYED) || (rs =? WRS_REPLAYINPROCESS).

  (** WALFileType.Replay(false) on WAL [w] whose header reads (fs, rs, owner) *)
  Definition replay_wal (w : wid) (im : img) (wf : walfile) (rs owner : Z) : list event * routcome :=
    if needs_replay rs then
      let e1 := status_events w WFS_OPEN WRS_REPLAYINPROCESS owner in
      match scan (wf_recs wf) (wal_size wf) [] [] with
      | ScanOk m =>
          match replay_tgs w (apply_events im e1) (sort_tgs m) with
          | (evs, ROk) => (e1 ++ evs ++ status_events w WFS_OPEN WRS_REPLAYED owner, ROk)
          | (evs, o) => (e1 ++ evs, o)
          end
      | ScanDup => (e1, RCont)
      | ScanUnmodelled => (e1, RFatal)
      end
    else ([], RCont).                                  (* "No Replay Needed": ReplayError{Cont: true} *)

  (** Delete(callersInstanceID) after a successful replay: the header now says (OPEN, REPLAYED) *)
  Definition delete_events (w : wid) (owner : Z) : list event :=
    status_events w WFS_CLOSED WRS_REPLAYED owner ++ [EWalUnlink w].

  Inductive outcome := StartOk | StartError.

  (** CleanupOldWALFiles over the *.walfile names of the root in directory (= name) order *)
  Fixpoint cleanup (own : wid) (im : img) (ws : list wid) : list event * outcome :=
    match ws with
    | [] => ([], StartOk)
    | w :: r =>
        if N.eqb w own then cleanup own im r
        else
          match alookup w (i_wals im) with
          | None => cleanup own im r                                   (* os.Stat fails: skipped *)
          | Some wf =>
              if wal_size wf <=? walStatusLenBytes then
                let '(rest, o) := cleanup own (apply_event im (EWalUnlink w)) r in (EWalUnlink w :: rest, o)
              else
                match wf_status wf with
                | None => ([], StartError)
                | Some (fs, rs, owner) =>
                    if owner =? 0 then ([], StartError)               (* TakeOver: "owned by calling process" *)
                    else
                      let e0 := status_events w fs rs owner in         (* TakeOver rewrites the status *)
                      match replay_wal w (apply_events im e0) wf rs owner with
                      | (evs, ROk) =>
                          let evs' := e0 ++ evs ++ delete_events w owner in
                          let '(rest, o) := cleanup own (apply_events im evs') r in (evs' ++ rest, o)
                      | (evs, RCont) =>
                          let evs' := e0 ++ evs ++ [EWalRename w] in
                          let '(rest, o) := cleanup own (apply_events im evs') r in (evs' ++ rest, o)
                      | (evs, RFatal) => (e0 ++ evs, StartError)
                      end
                end
          end
    end.

  (** Start-up of a new instance (WAL [own], instance id [owner]) on image [im]. *)
  Definition recover (own : wid) (owner : Z) (im : img) : list event * outcome :=
    let e0 := start_events own owner in
    let im0 := apply_events im e0 in
    let '(evs, o) := cleanup own im0 (map fst (i_wals im0)) in
    (e0 ++ evs, o).

  Definition recovered (own : wid) (owner : Z) (im : img) : img :=
    apply_events im (fst (recover own owner im)).
End WithClen.

(* ------------------------------------------------------------------ observation: the unrestricted query *)

Fixpoint ins_z (x : Z) (l : list Z) : list Z :=
  match l with
  | [] => [x]
  | y :: r => if x <? y then x :: y :: r else if x =? y then y :: r else y :: ins_z x r
  end.
(** distinct keys in ascending order *)
Definition keys_sorted {V} (l : list (Z * V)) : list Z := fold_right ins_z [] (map fst l).

Definition strip_ticks (r : record) : record := firstn (length r - 4) r.

(** outcome of the unrestricted query of a bucket.  [QFatal]: utils/io/metadata.go initFromFile calls
    log.Fatal when a year file's header cannot be read — the whole server process exits. *)
Inductive qres := QRows (rows : list (fid * Z * record)) | QErr | QFatal.

(** rows of one file as the query returns them: (file, slot index, payload) in slot order.
    Slots whose index field is 0 are holes. *)
Definition file_rows (f : fid) (pf : pfile) : qres :=
  match pf with
  | PNew => QFatal
  | PF ws =>
      QRows (flat_map (fun off => match zlookup off ws with
                                  | Some (i, p) => if i =? 0 then [] else [(f, i, p)]
                                  | None => [] end) (keys_sorted ws))
  | PV s ix eof bl =>
      fold_right (fun slot acc =>
                    match acc with
                    | QRows rows =>
                        let '(i, o, l) := slot_triple ix slot in
                        if i =? 0 then QRows rows
                        else match read_block bl eof o l with
                             | Some content => QRows (map (fun r => (f, i, strip_ticks r)) content ++ rows)
                             | None => QErr
                             end
                    | other => other
                    end) (QRows []) (keys_sorted ix)
  end.

(** a bucket = its year files in year order.  The catalog reads the header of every year file of the
    bucket first (a missing header is fatal), then the reader scans the files. *)
Definition bucket_rows (im : img) (fs : list fid) : qres :=
  if existsb (fun f => match alookup f (i_files im) with Some PNew => true | _ => false end) fs then QFatal
  else
    fold_right (fun f acc =>
                  match acc, alookup f (i_files im) with
                  | QRows rows, Some pf =>
                      match file_rows f pf with QRows r => QRows (r ++ rows) | other => other end
                  | other, _ => other
                  end) (QRows []) fs.
