(** RWRace — interleaving model (LTS) of primary-file writes against concurrent query reads, one
    variable-length bucket file and one fixed-length bucket file, each SYSCALL atomic.

    Mirrors (marketstore @ /repo):
      executor/writer.go:148-153   WriteBufferToFile          fixed: ONE WriteAt of index+payload at the slot's offset
      executor/writer.go:161-258   WriteBufferToFileIndirect  variable: read index triple {Index,Offset,Len} (l.177-189), read the old
                                   block (l.193-210), continuation test  Offset+Len == EOF (l.213-220): overwrite in place, else append
                                   at EOF; stable sort by ticks (l.225); Write data (l.230-238); Write the new triple (l.254-257)
      executor/wal.go:380-436      writeFixedBuffer / writeVariableLengthBuffer: the single flusher goroutine, buffers in TG order
      executor/scanner.go          first stage: pread of the index/record area in chunks
      executor/readvariable.go:55-72  second stage: ReadAt(buffer[len], offset) per index triple, snappy.Decode

    One labelled step per file-mutating syscall of the writer and per pread of a reader.  The writer's own
    reads (index triple, old block, seek to EOF) are folded into its data-write step: there is a single
    flusher (steady schedules of WalLoop), so those reads commute with every reader step.

    Abstractions (stated in notes/C18.md): a record is an id, its sort key is the id; a block's length is
    its number of records; with compression on, reading a block with a length other than the one it was
    written with is a decode error (snappy's length header no longer matches), with compression off it
    returns the first [len] records of what is there. *)
From Coq Require Import List Arith Bool.
Import ListNotations.

Definition rec := nat.

Fixpoint insert_sorted (x : rec) (l : list rec) : list rec :=
  match l with
  | [] => [x]
  | y :: r => if x <=? y then x :: l else y :: insert_sorted x r
  end.
(** sort.Stable by ticks of old ++ new *)
Definition merge_sorted (old new : list rec) : list rec := fold_left (fun acc x => insert_sorted x acc) new old.

Inductive rres := ROk (rows : list rec) | RDecodeErr.

Inductive rpc :=
| RIdle                                    (* query not started *)
| RGotIdx (t : option (nat * nat))         (* first stage done: the slot's triple as read *)
| RDone (r : rres).

Record st := mkst {
  compressed : bool;                       (* static: !DisableVariableCompression *)
  nslots : nat;                            (* static *)
  (* ---- variable-length file *)
  idx : list (option (nat * nat));         (* per slot: Some (offset, len) *)
  blocks : list (nat * list rec);          (* data area: most recent write first; (offset, content) *)
  eof : nat;
  vq : list (nat * list rec);              (* writes still to do, in TG order: (slot, new records), records non-empty *)
  vpend : option (nat * nat * nat);        (* data written, index write pending: (slot, offset, len) *)
  hist : list (list (list rec));           (* ghost, per slot: contents after each COMPLETED write, newest first ([] initially) *)
  (* ---- fixed-length file *)
  fslots : list (option rec);
  fq : list (nat * rec);                   (* writes still to do: (slot, value) *)
  fwritten : list (list rec);              (* ghost, per slot: values written by completed pwrites *)
  (* ---- readers: (queries the variable file?, slot) and pc *)
  rs : list (bool * nat * rpc);
  fres : list (list (option rec))          (* results of fixed-file reads, in completion order *)
}.

Fixpoint lookup_block (b : list (nat * list rec)) (off : nat) : option (list rec) :=
  match b with
  | [] => None
  | (o, c) :: r => if o =? off then Some c else lookup_block r off
  end.

Fixpoint upd {A} (n : nat) (v : A) (l : list A) : list A :=
  match l, n with
  | [], _ => []
  | _ :: r, 0 => v :: r
  | x :: r, S n' => x :: upd n' v r
  end.

Definition init (comp : bool) (n : nat) (vw : list (nat * list rec)) (fw : list (nat * rec)) (readers : list (bool * nat)) : st :=
  mkst comp n (repeat None n) [] 1 vw None (repeat [[]] n) (repeat None n) fw (repeat [] n)
       (map (fun r => (fst r, snd r, RIdle)) readers) [].

Inductive label :=
| WData (cont : bool)   (* variable: read triple + old block, continuation test = cont, Write(data) *)
| WIdx                  (* variable: Write(new triple) *)
| FWrite                (* fixed: WriteAt(index+payload) *)
| RIdx (r : nat)        (* reader r: first-stage pread (variable: the slot's triple) *)
| RData (r : nat)       (* reader r: variable second stage ReadAt(len, offset) (+decode); fixed: the one pread *)
.

Definition set_rs s x := mkst (compressed s) (nslots s) (idx s) (blocks s) (eof s) (vq s) (vpend s) (hist s) (fslots s) (fq s) (fwritten s) x (fres s).

(** what a reader obtains from ReadAt(len, off) *)
Definition read_block (s : st) (off len : nat) : rres :=
  match lookup_block (blocks s) off with
  | None => RDecodeErr
  | Some c =>
      if length c =? len then ROk c
      else if compressed s then RDecodeErr
      else ROk (firstn len c)
  end.

Definition step (l : label) (s : st) : option st :=
  match l with
  | WData cont =>
      match vpend s, vq s with
      | None, (i, new) :: rest =>
          match nth_error (idx s) i with
          | Some cur =>
              let old := match cur with Some (o, n) => match lookup_block (blocks s) o with Some c => c | None => [] end | None => [] end in
              let is_cont := match cur with Some (o, n) => o + n =? eof s | None => false end in
              if Bool.eqb cont is_cont then
                let off := if is_cont then match cur with Some (o, _) => o | None => eof s end else eof s in
                let c := merge_sorted old new in
                Some (mkst (compressed s) (nslots s) (idx s) ((off, c) :: blocks s) (Nat.max (eof s) (off + length c))
                           rest (Some (i, off, length c)) (hist s) (fslots s) (fq s) (fwritten s) (rs s) (fres s))
              else None
          | None => None
          end
      | _, _ => None
      end
  | WIdx =>
      match vpend s with
      | Some (i, off, n) =>
          let c := match lookup_block (blocks s) off with Some c => c | None => [] end in
          Some (mkst (compressed s) (nslots s) (upd i (Some (off, n)) (idx s)) (blocks s) (eof s) (vq s) None
                     (upd i (c :: nth i (hist s) []) (hist s)) (fslots s) (fq s) (fwritten s) (rs s) (fres s))
      | None => None
      end
  | FWrite =>
      match fq s with
      | (i, v) :: rest =>
          if i <? nslots s then
            Some (mkst (compressed s) (nslots s) (idx s) (blocks s) (eof s) (vq s) (vpend s) (hist s)
                       (upd i (Some v) (fslots s)) rest (upd i (v :: nth i (fwritten s) []) (fwritten s)) (rs s) (fres s))
          else None
      | [] => None
      end
  | RIdx r =>
      match nth_error (rs s) r with
      | Some (true, i, RIdle) =>
          match nth_error (idx s) i with
          | Some t => Some (set_rs s (upd r (true, i, RGotIdx t) (rs s)))
          | None => None
          end
      | _ => None
      end
  | RData r =>
      match nth_error (rs s) r with
      | Some (true, i, RGotIdx t) =>
          let res := match t with None => ROk [] | Some (off, n) => read_block s off n end in
          Some (set_rs s (upd r (true, i, RDone res) (rs s)))
      | Some (false, i, RIdle) =>
          Some (mkst (compressed s) (nslots s) (idx s) (blocks s) (eof s) (vq s) (vpend s) (hist s) (fslots s) (fq s) (fwritten s)
                     (upd r (false, i, RDone (ROk [])) (rs s)) (fres s ++ [fslots s]))
      | _ => None
      end
  end.

Fixpoint run_labels (s : st) (ls : list label) : option st :=
  match ls with
  | [] => Some s
  | l :: r => match step l s with Some s' => run_labels s' r | None => None end
  end.

Definition enabled (l : label) (s : st) : bool := match step l s with Some _ => true | None => false end.

(** guard: the writer never takes the in-place continuation branch (writer.go:213-220) *)
Definition no_cont (l : label) : bool := match l with WData true => false | _ => true end.

Fixpoint list_eqb (a b : list nat) : bool :=
  match a, b with
  | [], [] => true
  | x :: a', y :: b' => (x =? y) && list_eqb a' b'
  | _, _ => false
  end.

(** read-committed for one finished variable read: an error-free result that is one of the committed
    versions of its slot *)
Definition committed_result (s : st) (i : nat) (r : rres) : bool :=
  match r with
  | ROk rows => existsb (list_eqb rows) (nth i (hist s) [])
  | RDecodeErr => false
  end.
Definition all_reads_committed (s : st) : bool :=
  forallb (fun x => match x with (true, i, RDone r) => committed_result s i r | _ => true end) (rs s).

(** fixed file: every value a read returned for a slot was written there by a completed pwrite *)
Definition fixed_row_ok (s : st) (i : nat) (v : option rec) : bool :=
  match v with None => true | Some x => existsb (Nat.eqb x) (nth i (fwritten s) []) end.
Definition all_fixed_reads_ok (s : st) : bool :=
  forallb (fun snap => forallb (fun p => fixed_row_ok s (fst p) (snd p)) (combine (seq 0 (length snap)) snap)) (fres s).
