(** Model of the query/write wire format (property C27).

    Go function (file:line at HEAD)                         model
    -----------------------------------------------------   ---------------------------
    typeMap / typeStrMap            utils/io/numpy.go:11,25  type_map (GENERATED), typestr_of, elem_of_typestr
    ColumnSeries.Len                columnseries.go:65       cs_len
    NewNumpyDataset                 numpy.go:61              new_nds
    NewNumpyMultiDataset            numpy.go:139             new_nmds
    NumpyMultiDataset.Append        numpy.go:169             append_cs   (names AND type strings compared — /repo fix)
    executeQuery's fold             frontend/query.go:231    fold_step / encode   (NewNumpyDataset's error is IGNORED:
                                                             `if err != nil { return nil, err2 }` tests the wrong variable;
                                                             for a later bucket Append's own type check now reports it)
    NumpyDataset.buildDataShapes    numpy.go:84              build_shapes
    NumpyDataset.ToColumnSeries     numpy.go:96              to_cs       (no special case for empty data — /repo fix)
    NumpyMultiDataset.ToColumnSeriesMap  numpy.go:153        to_csm      (write path: frontend/write.go:38; zero-row buckets
                                                             are converted like the others — /repo fix)
    MultiQueryResponse.ToColumnSeriesMap frontend/query.go:69 resp_to_csm (query path: frontend/client/client.go:64)
    NewTimeBucketKeyFromString      keytypes.go:37           decode_key
    ColumnSeriesMap.AddColumnSeries columnseries.go:416      add_cs

    A column series is the ordered list of its columns ([col] of Model/Rows.v: name, element type, raw
    little-endian bytes exactly as CastToByteSlice exposes them).  The hidden [dataShapes] field of
    NumpyDataset does not cross msgpack and is therefore absent from [wire]: the decoders always
    rebuild the shapes from the type strings.  Go maps (StartIndex, Lengths, ColumnSeriesMap) are
    association lists; [aset] is Go's m[k] = v.

    NOT modelled: ColumnSeries.AddColumn's renaming of colliding names.  It is unreachable when the
    decoded bucket keys are pairwise distinct and the column names of the dataset are distinct (both
    hold for every dataset produced from real ColumnSeries under distinct canonical keys). *)
From Coq Require Import String ZArith NArith List Bool Lia.
From Coq.Strings Require Import Byte.
Import ListNotations.
Require Import MS.Base.GoInt MS.Base.Res MS.Base.Hex MS.Generated.Src_io MS.Generated.Src_wire MS.Model.Rows.

Definition key := list byte.
Definition bucket := (key * list col)%type.

(** the wire structure (what msgpack carries) *)
Record wire := mkwire {
  w_types : list string;            (* "types"  *)
  w_names : list (list byte);       (* "names"  *)
  w_data : list (list byte);        (* "data"   *)
  w_length : nat;                   (* "length" *)
  w_start : list (key * nat);       (* "startindex" *)
  w_lens : list (key * nat)         (* "lengths" *)
}.

(** * association lists as Go maps *)
Fixpoint alookup {V} (k : key) (m : list (key * V)) : option V :=
  match m with
  | [] => None
  | (k', v) :: r => if bytes_eqb k k' then Some v else alookup k r
  end.

Fixpoint aset {V} (k : key) (v : V) (m : list (key * V)) : list (key * V) :=
  match m with
  | [] => [(k, v)]
  | (k', v') :: r => if bytes_eqb k k' then (k', v) :: r else (k', v') :: aset k v r
  end.

(** * type strings *)
Fixpoint typestr_of (tm : list (Z * string)) (t : Z) : option string :=
  match tm with [] => None | (t', s) :: r => if Z.eqb t t' then Some s else typestr_of r t end.

Fixpoint elem_of_typestr (tm : list (Z * string)) (s : string) : option Z :=
  match tm with [] => None | (t, s') :: r => if String.eqb s s' then Some t else elem_of_typestr r s end.

Definition wire_supported (t : Z) : bool :=
  match typestr_of type_map t with Some _ => true | None => false end.

(** * encoder *)
(** cs.Len(): the length of the first column *)
Definition cs_len (cs : list col) : nat :=
  match cs with [] => 0 | c :: _ => length (cdata c) / tsize (ctype c) end.

Fixpoint typestrs (cs : list col) : Res (list string) :=
  match cs with
  | [] => Ok []
  | c :: r => match typestr_of type_map (ctype c) with
              | None => Rejected
              | Some s => do rest <- typestrs r; Ok (s :: rest)
              end
  end.

(** the NumpyDataset part of the wire structure *)
Definition new_nds (cs : list col) : Res wire :=
  do ts <- typestrs cs;
  Ok (mkwire ts (map cname cs) (map cdata cs) (cs_len cs) [] []).

Definition new_nmds (nds : wire) (k : key) : wire :=
  mkwire (w_types nds) (w_names nds) (w_data nds) (w_length nds) [(k, 0)] [(k, w_length nds)].

(** for idx, name := range nmds.ColumnNames { if name != colSeriesNames[idx] ... } *)
Fixpoint names_match (wn cn : list (list byte)) : Res bool :=
  match wn with
  | [] => Ok true
  | n :: wr => match cn with
               | [] => Panic
               | m :: cr => if bytes_eqb n m then names_match wr cr else Ok false
               end
  end.

(** for idx, col := range colSeriesNames { nmds.ColumnData[idx] = append(nmds.ColumnData[idx], ...) } *)
Fixpoint zip_app (d : list (list byte)) (e : list (list byte)) : Res (list (list byte)) :=
  match e with
  | [] => Ok d
  | y :: er => match d with
               | [] => Panic
               | x :: dr => do rest <- zip_app dr er; Ok ((x ++ y) :: rest)
               end
  end.

(** typeStr != nmds.ColumnTypes[idx] for every column of the series (idx >= len(ColumnTypes) is a mismatch) *)
Fixpoint types_match (ts wt : list string) : bool :=
  match ts with
  | [] => true
  | t :: tr => match wt with
               | [] => false
               | u :: ur => String.eqb t u && types_match tr ur
               end
  end.

(** The Go loop interleaves the name and the type test per column; both failures return an error, so
    testing all names first is observationally the same (an index panic in the name test needs
    len(ColumnNames) > len(ColumnData), which no dataset built by this code has). *)
Definition append_cs (w : wire) (cs : list col) (k : key) : Res wire :=
  if negb (length (w_data w) =? length cs) then Rejected
  else
    do m <- names_match (w_names w) (map cname cs);
    if negb m then Rejected
    else
      match typestrs cs with
      | Ok ts =>
          if negb (types_match ts (w_types w)) then Rejected
          else
            do d <- zip_app (w_data w) (map cdata cs);
            Ok (mkwire (w_types w) (w_names w) d (w_length w + cs_len cs)
                       (aset k (w_length w) (w_start w)) (aset k (cs_len cs) (w_lens w)))
      | _ => Rejected                               (* a column type without a type string *)
      end.

(** one iteration of the loop in executeQuery; [None] = the nil *NumpyMultiDataset *)
Definition fold_step (acc : option wire) (b : bucket) : Res (option wire) :=
  let (k, cs) := b in
  match acc with
  | None =>
      match new_nds cs with
      | Ok nds => Ok (Some (new_nmds nds k))
      | _ => Panic                 (* the error is ignored; NewNumpyMultiDataset(nil, tbk) dereferences nil *)
      end
  | Some w => do w' <- append_cs w cs k; Ok (Some w')   (* NewNumpyDataset's result and error are unused *)
  end.

Fixpoint fold_buckets (acc : option wire) (bs : list bucket) : Res (option wire) :=
  match bs with
  | [] => Ok acc
  | b :: r => do acc' <- fold_step acc b; fold_buckets acc' r
  end.

(** the dataset built from the buckets in the given (map iteration) order *)
Definition encode (bs : list bucket) : Res (option wire) := fold_buckets None bs.

(** * decoders *)
Fixpoint build_etypes (ts : list string) : Res (list Z) :=
  match ts with
  | [] => Ok []
  | s :: r => match elem_of_typestr type_map s with
              | None => Rejected
              | Some t => do rest <- build_etypes r; Ok (t :: rest)
              end
  end.

(** NewDataShapeVector(names, etypes): etypes[i] for every name *)
Fixpoint shape_vector (names : list (list byte)) (ets : list Z) : Res (list (list byte * Z)) :=
  match names with
  | [] => Ok []
  | n :: nr => match ets with
               | [] => Panic
               | t :: tr => do rest <- shape_vector nr tr; Ok ((n, t) :: rest)
               end
  end.

Definition build_shapes (w : wire) : Res (list (list byte * Z)) :=
  do ets <- build_etypes (w_types w); shape_vector (w_names w) ets.

(** the loop of ToColumnSeries over the shapes: nds.ColumnData[i][start*size : start*size+length*size] *)
Fixpoint conv_cols (sh : list (list byte * Z)) (data : list (list byte)) (start len : nat) : Res (list col) :=
  match sh with
  | [] => Ok []
  | (n, t) :: sr =>
      match data with
      | [] => Panic
      | d :: dr =>
          do s <- slice d (start * tsize t) (len * tsize t);
          do rest <- conv_cols sr dr start len;
          Ok (mkcol n t s :: rest)
      end
  end.

(** ToColumnSeries(startIndex, length) *)
Definition to_cs (w : wire) (start len : nat) : Res (list col) :=
  do sh <- build_shapes w; conv_cols sh (w_data w) start len.

(** strings.Split(s, ":") *)
Fixpoint split_colon_aux (s cur : list byte) : list (list byte) :=
  match s with
  | [] => [rev cur]
  | b :: r => if Byte.eqb b x3a then rev cur :: split_colon_aux r [] else split_colon_aux r (b :: cur)
  end.
Definition split_colon (s : list byte) : list (list byte) := split_colon_aux s [].

Definition default_schema : list byte := bytes_of_string DefaultTimeBucketSchema.

(** NewTimeBucketKey(itemKey, categoryKeyOpt...) *)
Definition new_tbk (item cat : list byte) : key :=
  item ++ [x3a] ++ (match cat with [] => default_schema | _ => cat end).

(** NewTimeBucketKeyFromString *)
Definition decode_key (s : key) : key :=
  match split_colon s with
  | a :: b :: _ => new_tbk a b
  | a :: [] => new_tbk a []
  | [] => new_tbk [] []
  end.

Definition csm := list (key * list col).

(** csm.AddColumnSeries(key, cs): nothing happens for a series without columns *)
Definition add_cs (m : csm) (k : key) (cs : list col) : csm :=
  match cs with
  | [] => m
  | _ => match alookup k m with
         | None => m ++ [(k, cs)]
         | Some old => aset k (old ++ cs) m
         end
  end.

Definition len_of (w : wire) (k : key) : nat :=
  match alookup k (w_lens w) with Some n => n | None => 0 end.

(** NumpyMultiDataset.ToColumnSeriesMap over the StartIndex entries in the given order *)
Fixpoint to_csm_loop (w : wire) (es : list (key * nat)) (acc : csm) : Res csm :=
  match es with
  | [] => Ok acc
  | (k, idx) :: r =>
      do cs <- to_cs w idx (len_of w k);
      to_csm_loop w r (add_cs acc (decode_key k) cs)
  end.
Definition to_csm (w : wire) : Res csm := to_csm_loop w (w_start w) [].

(** MultiQueryResponse.ToColumnSeriesMap for one response: csm[*tbk] = cs *)
Fixpoint resp_loop (w : wire) (es : list (key * nat)) (acc : csm) : Res csm :=
  match es with
  | [] => Ok acc
  | (k, idx) :: r =>
      do cs <- to_cs w idx (len_of w k);
      resp_loop w r (aset (decode_key k) cs acc)
  end.
Definition resp_to_csm (w : wire) : Res csm := resp_loop w (w_start w) [].

(** * the guard of the round-trip theorem, as a boolean predicate on the bucket list *)
Definition shape_of (cs : list col) : list (list byte * Z) := map (fun c => (cname c, ctype c)) cs.

Fixpoint shape_eqb (a b : list (list byte * Z)) : bool :=
  match a, b with
  | [], [] => true
  | (n, t) :: a', (m, u) :: b' => bytes_eqb n m && Z.eqb t u && shape_eqb a' b'
  | _, _ => false
  end.

(** every column holds exactly [n] values *)
Definition rows_ok (n : nat) (cs : list col) : bool :=
  forallb (fun c => (length (cdata c) =? n * tsize (ctype c))%nat) cs.

(** the key survives NewTimeBucketKeyFromString: exactly "item:category" with a non-empty category *)
Definition key_canonical (k : key) : bool := bytes_eqb (decode_key k) k.

Definition cs_wf (cs : list col) : bool :=
  match cs with [] => false | _ => true end
  && nodup_names (map cname cs)
  && forallb (fun c => wire_supported (ctype c)) cs
  && rows_ok (cs_len cs) cs.

(** the property's own domain: distinct keys, well-formed series over wire-supported types *)
Definition dom (bs : list bucket) : bool :=
  match bs with [] => false | _ => true end
  && nodup_names (map fst bs)
  && forallb (fun b => cs_wf (snd b)) bs.

(** [same_shapes]: the condition under which the dataset is built (otherwise Append returns an error);
    [keys_canonical]: the one defect class the guard still excludes *)
Definition same_shapes (bs : list bucket) : bool :=
  match bs with [] => true | b0 :: r => forallb (fun b => shape_eqb (shape_of (snd b)) (shape_of (snd b0))) r end.
Definition keys_canonical (bs : list bucket) : bool := forallb (fun b => key_canonical (fst b)) bs.

Definition guard (bs : list bucket) : bool :=
  dom bs && same_shapes bs && keys_canonical bs.

(** * comparison of bucket maps (used by the correspondence and by the boolean form of the property) *)
Definition col_eqb (a b : col) : bool :=
  bytes_eqb (cname a) (cname b) && Z.eqb (ctype a) (ctype b) && bytes_eqb (cdata a) (cdata b).
Fixpoint cols_eqb (a b : list col) : bool :=
  match a, b with
  | [], [] => true
  | x :: a', y :: b' => col_eqb x y && cols_eqb a' b'
  | _, _ => false
  end.
(** same finite map (both sides with distinct keys): same size, every entry of [a] found in [b] *)
Definition csm_eqb (a b : csm) : bool :=
  (length a =? length b)%nat
  && forallb (fun e => match alookup (fst e) b with Some cs => cols_eqb (snd e) cs | None => false end) a.
