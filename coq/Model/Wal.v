(** Model/Wal.v — the write path of the WAL protocol as a generator of system-call events.

    Mirrors (commit under /repo at build time; constants come from Generated/Src_durab.v):
      executor/writer.go:66-140   WriteRecords        -> [write_records]
      executor/wal.go:226-261     FlushToWAL          -> [flush]
      executor/wal.go:263-340     FlushCommandsToWAL  -> [flush_events], [prim_events]
      executor/wal.go:380-457     writeFixedBuffer / writeVariableLengthBuffer / writePrimary
      executor/writer.go:150-160  WriteBufferToFile   -> [EPW]
      executor/writer.go:168-262  WriteBufferToFileIndirect -> [indirect]
      executor/wal.go:463-487     CreateCheckpoint    -> [checkpoint_events]
      executor/wal.go:495-516     WriteStatus         -> [EWalStatus; EWalFsync]
      executor/wal.go:748-778     SyncWAL: tickerPrimary arm (checkpoint, rotation), shutdown branch
      executor/wal.go:66-92       NewWALFile          -> [start_events]

    GRANULARITY.  One [event] per file-mutating system call (or durability barrier) the Go code issues,
    in program order.  The payload of an event is *structured*: a WAL write is one typed record
    ([wrec]: the code writes TXNINFO as one 11-byte write, the TGDATA message id, the length, the
    serialized transaction group and the MD5 sum as four separate writes), a primary write is a
    fixed-slot pwrite, a variable-length data block, or a 24-byte index triple.  The byte-level codec
    of a transaction group is Model/TGCodec.v (builder E1, property C28); here the WAL is a log of
    typed records, exact for process crashes because a crash image is a prefix of *system calls* and
    the torn tail of the log is therefore always a whole number of records.  The harness decodes the
    recorded bytes into these records with the real code (executor.ParseTGData, crypto/md5, snappy).

    snappy: a data block is modelled as (stored length, uncompressed records).  The stored length of
    a block is [clen content], a section variable (the harness instantiates it with the table of
    lengths the real encoder produced).  Reading [len] bytes at [off] succeeds iff the newest block
    written at [off] has exactly that stored length (a strict prefix of a snappy block, or a block
    followed by stale bytes, does not decode: the decoded length is checked against the header). *)
From Coq Require Import ZArith NArith List Bool Lia.
From Coq.Strings Require Import Byte.
Import ListNotations.
Require Import MS.Base.Res MS.Base.Hex MS.Generated.Src_durab.
Local Open Scope Z_scope.

Definition fid := N.   (* a primary year file, numbered in creation order *)
Definition wid := N.   (* a WAL file, numbered in creation (= name) order *)
Inductive rkind := KFixed | KVar.
Definition record := list byte.

Definition rkind_eqb (a b : rkind) : bool :=
  match a, b with KFixed, KFixed | KVar, KVar => true | _, _ => false end.
Definition rkind_code (k : rkind) : Z := match k with KFixed => RT_FIXED | KVar => RT_VARIABLE end.

(* ------------------------------------------------------------------ rows and write commands *)

(** One row as WriteRecords sees it: year, target file, slot index and offset (time arithmetic is
    done by the real exported functions io.TimeToIndex / io.IndexToOffset / GetIntervalTicks32Bit in
    the harness; that arithmetic is C10/C30's subject), and the record bytes after formatRecord:
    the row without its Epoch column, plus the 4-byte interval ticks for variable-length buckets. *)
Record wrow := { r_year : Z; r_fid : fid; r_index : Z; r_off : Z; r_rec : record }.

(** The rows of one bucket in one request.  [b_meta] = len(WALKeyPath) + len(DSVToBytes(shapes)),
    the only part of the serialized command that is not data (needed for the TG length). *)
Record batch := { b_kind : rkind; b_vrl : Z; b_meta : Z; b_rows : list wrow }.

(** wal.WriteCommand.  [c_data]: the records of the payload (fixed: exactly one). *)
Record cmd := { c_kind : rkind; c_fid : fid; c_off : Z; c_index : Z; c_data : list record;
                c_vrl : Z; c_meta : Z }.

Definition cmd_of (b : batch) (r : wrow) : cmd :=
  {| c_kind := b_kind b; c_fid := r_fid r; c_off := r_off r; c_index := r_index r;
     c_data := [r_rec r]; c_vrl := b_vrl b; c_meta := b_meta b |}.

(** formatRecord + the assignment [cc.Data = outBuf]: a fixed record REPLACES the buffer (formatRecord
    returns the row itself and ignores [buf]); a variable record is appended. *)
Definition add_row (b : batch) (cc : cmd) (r : wrow) : cmd :=
  {| c_kind := c_kind cc; c_fid := c_fid cc; c_off := c_off cc; c_index := c_index cc;
     c_data := match b_kind b with KFixed => [r_rec r] | KVar => c_data cc ++ [r_rec r] end;
     c_vrl := c_vrl cc; c_meta := c_meta cc |}.

(** The loop of WriteRecords (writer.go:89-137).  When the slot changes both [prevIndex] and [prevYear] are
    updated (writer.go:127-128).  Before /repo 49eddda (fix of finding F3) [prevYear] was assigned for the
    first row only and a row of an unsorted cross-year request could be merged into another year's command. *)
Fixpoint wr_loop (b : batch) (rows : list wrow) (prevIndex prevYear : Z) (cc : cmd) : list cmd :=
  match rows with
  | [] => [cc]
  | r :: rest =>
      if (r_index r =? prevIndex) && (r_year r =? prevYear)
      then wr_loop b rest prevIndex prevYear (add_row b cc r)
      else cc :: wr_loop b rest (r_index r) (r_year r) (cmd_of b r)
  end.

Definition write_records (b : batch) : list cmd :=
  match b_rows b with
  | [] => []
  | r :: rest => wr_loop b rest (r_index r) (r_year r) (cmd_of b r)
  end.

(* ------------------------------------------------------------------ WAL records and events *)

(** One write system call on the WAL file (after the status header). *)
Inductive wrec :=
| RTxn (tid dest st : Z)              (* MID=TXNINFO ++ tid ++ dest ++ status: one 11-byte write *)
| RMid                                (* MID=TGDATA: one 1-byte write *)
| RLen (n : Z)                        (* len(tgSerialized): 8 bytes *)
| RBody (tgid : Z) (cmds : list cmd)  (* tgSerialized *)
| RSum (ok : bool).                   (* MD5(len ++ body); [ok] = it is that digest ("intact") *)

Inductive event :=
| ECat                                          (* mkdir / category_name create / category_name write *)
| EFileNew (f : fid)                            (* openat(O_CREAT) of a new year file: exists, empty *)
| EFileHdr (f : fid) (k : rkind)                (* the single write of its 37024-byte header *)
| ECreate (f : fid) (k : rkind) (size : Z)      (* the ftruncate that completes the new year file *)
| EWalCreate (w : wid)
| EWalStatus (w : wid) (fs rs owner : Z)        (* Seek(0); Write(status message) *)
| EWalApp (w : wid) (r : wrec)                  (* Write at the end *)
| EWalFsync (w : wid)
| EWalTrunc (w : wid)                           (* Truncate(0) *)
| EWalUnlink (w : wid)
| EWalRename (w : wid)                          (* moved aside to <name>.tmp *)
| ESync                                         (* syscall.Sync *)
| EPW (f : fid) (off idx : Z) (payload : record)            (* pwrite(index ++ payload, off) *)
| EVData (f : fid) (off len : Z) (content : list record)   (* write of one (compressed) block *)
| EVIndex (f : fid) (slot idx off len : Z)                 (* write of {Index, Offset, Len} *)
| EAck (i : nat)                                (* the workload's marker: request i returned *)
| EFileDel (f : fid)                            (* unlink of a year file (catalog.RemoveTimeBucket = os.RemoveAll) *)
| EOther.                                       (* a recorded call the model never emits *)

(* ------------------------------------------------------------------ images *)

Record walfile := { wf_status : option (Z * Z * Z); wf_recs : list wrec }.

Inductive pfile :=
| PNew                                                   (* created, header not yet written *)
| PF (writes : list (Z * (Z * record)))                  (* offset -> (index, payload); newest first *)
| PV (size0 : Z) (idx : list (Z * (Z * Z * Z)))          (* slot offset -> triple; newest first *)
     (eof : Z) (blocks : list (Z * (Z * list record))).  (* data offset -> (stored len, content) *)

Record img := { i_wals : list (wid * walfile); i_aside : list (wid * walfile); i_files : list (fid * pfile) }.

Definition img0 : img := {| i_wals := []; i_aside := []; i_files := [] |}.

Section Assoc.
  Context {V : Type}.
  Fixpoint alookup (k : N) (l : list (N * V)) : option V :=
    match l with [] => None | (k', v) :: r => if N.eqb k k' then Some v else alookup k r end.
  Fixpoint aupdate (k : N) (f : V -> V) (l : list (N * V)) : list (N * V) :=
    match l with [] => [] | (k', v) :: r => if N.eqb k k' then (k', f v) :: r else (k', v) :: aupdate k f r end.
  Fixpoint aremove (k : N) (l : list (N * V)) : list (N * V) :=
    match l with [] => [] | (k', v) :: r => if N.eqb k k' then r else (k', v) :: aremove k r end.
  Definition ainsert (k : N) (v : V) (l : list (N * V)) : list (N * V) :=
    match alookup k l with Some _ => aupdate k (fun _ => v) l | None => l ++ [(k, v)] end.
End Assoc.

Fixpoint zlookup {V} (k : Z) (l : list (Z * V)) : option V :=
  match l with [] => None | (k', v) :: r => if Z.eqb k k' then Some v else zlookup k r end.

Definition upd_wal (w : wid) (f : walfile -> walfile) (im : img) : img :=
  {| i_wals := aupdate w f (i_wals im); i_aside := i_aside im; i_files := i_files im |}.
Definition upd_file (f : fid) (g : pfile -> pfile) (im : img) : img :=
  {| i_wals := i_wals im; i_aside := i_aside im; i_files := aupdate f g (i_files im) |}.

Definition empty_file (k : rkind) (size : Z) : pfile :=
  match k with KFixed => PF [] | KVar => PV size [] size [] end.

Definition apply_event (im : img) (e : event) : img :=
  match e with
  | ECat | EWalFsync _ | ESync | EAck _ | EOther => im
  | EFileNew f =>
      {| i_wals := i_wals im; i_aside := i_aside im; i_files := ainsert f PNew (i_files im) |}
  | EFileHdr f k =>
      {| i_wals := i_wals im; i_aside := i_aside im; i_files := ainsert f (empty_file k Headersize) (i_files im) |}
  | ECreate f k size =>
      {| i_wals := i_wals im; i_aside := i_aside im; i_files := ainsert f (empty_file k size) (i_files im) |}
  | EWalCreate w =>
      {| i_wals := ainsert w {| wf_status := None; wf_recs := [] |} (i_wals im);
         i_aside := i_aside im; i_files := i_files im |}
  | EWalStatus w a b c =>
      upd_wal w (fun wf => {| wf_status := Some (a, b, c); wf_recs := wf_recs wf |}) im
  | EWalApp w r => upd_wal w (fun wf => {| wf_status := wf_status wf; wf_recs := wf_recs wf ++ [r] |}) im
  | EWalTrunc w => upd_wal w (fun _ => {| wf_status := None; wf_recs := [] |}) im
  | EWalUnlink w => {| i_wals := aremove w (i_wals im); i_aside := i_aside im; i_files := i_files im |}
  | EFileDel f => {| i_wals := i_wals im; i_aside := i_aside im; i_files := aremove f (i_files im) |}
  | EWalRename w =>
      {| i_wals := aremove w (i_wals im);
         i_aside := match alookup w (i_wals im) with Some wf => i_aside im ++ [(w, wf)] | None => i_aside im end;
         i_files := i_files im |}
  | EPW f off idx p =>
      upd_file f (fun pf => match pf with PF ws => PF ((off, (idx, p)) :: ws) | other => other end) im
  | EVData f off len content =>
      upd_file f (fun pf => match pf with
                            | PV s ix eof bl => PV s ix (Z.max eof (off + len)) ((off, (len, content)) :: bl)
                            | other => other end) im
  | EVIndex f slot i o l =>
      upd_file f (fun pf => match pf with
                            | PV s ix eof bl => PV s ((slot, (i, o, l)) :: ix) eof bl
                            | other => other end) im
  end.

Definition apply_events (im : img) (es : list event) : img := fold_left apply_event es im.

(** The process-crash image after the first [k] events of a trace. *)
Definition crash_img (tr : list event) (k : nat) : img := apply_events img0 (firstn k tr).

(* ------------------------------------------------------------------ variable-length blocks *)

Fixpoint le_val (l : list byte) : Z :=
  match l with [] => 0 | b :: r => Z.of_N (Byte.to_N b) + 256 * le_val r end.

(** sort key of a variable record: its last 4 bytes as uint32 (executor/sort.go Less) *)
Definition ticks (r : record) : Z := le_val (skipn (length r - 4) r).

(** sort.Stable(ByIntervalTicks): THE stable sort by [ticks]; written as insertion from the right,
    a new element goes before the elements with an equal or larger key. *)
Fixpoint ins_rec (x : record) (l : list record) : list record :=
  match l with
  | [] => [x]
  | y :: r => if ticks y <? ticks x then y :: ins_rec x r else x :: y :: r
  end.
Definition sort_ticks (l : list record) : list record := fold_right ins_rec [] l.

(** fp.Read of [len] bytes at [off] followed by snappy.Decode. *)
Definition read_block (blocks : list (Z * (Z * list record))) (eof off len : Z) : option (list record) :=
  match zlookup off blocks with
  | Some (l, content) => if (l =? len) && (off + len <=? eof) then Some content else None
  | None => None
  end.

Definition slot_triple (ix : list (Z * (Z * Z * Z))) (slot : Z) : Z * Z * Z :=
  match zlookup slot ix with Some t => t | None => (0, 0, 0) end.

Section WithClen.
  (** stored (compressed) length of a block: the real encoder's, supplied by the harness *)
  Variable clen : list record -> Z.

  (** WriteBufferToFileIndirect (writer.go:168-262): the two mutating calls it issues, or [None] for
      an error return (short index read, undecodable old block). *)
  Definition indirect (im : img) (c : cmd) : option (list event) :=
    match alookup (c_fid c) (i_files im) with
    | Some (PV s ix eof bl) =>
        if c_off c <? eof then
          let '(i, o, l) := slot_triple ix (c_off c) in
          match (if i =? 0 then Some [] else read_block bl eof o l) with
          | None => None
          | Some old =>
              let data := sort_ticks (old ++ c_data c) in
              let pos := if o + l =? eof then o else eof in      (* continuation write: in place *)
              let len := clen data in
              Some [EVData (c_fid c) pos len data; EVIndex (c_fid c) (c_off c) (c_index c) pos len]
          end
        else None
    | _ => None
    end.

  Definition fixed_write (im : img) (c : cmd) : option (list event) :=
    match alookup (c_fid c) (i_files im) with
    | Some _ => Some [EPW (c_fid c) (c_off c) (c_index c) (concat (c_data c))]
    | None => None          (* os.OpenFile fails: logged, the file's writes are skipped *)
    end.

  (** writeVariableLengthBuffer: stops at the first failing buffer of the file *)
  Fixpoint var_writes (im : img) (cs : list cmd) : list event :=
    match cs with
    | [] => []
    | c :: r => match indirect im c with
                | Some evs => evs ++ var_writes (apply_events im evs) r
                | None => []
                end
    end.

  Fixpoint fixed_writes (im : img) (cs : list cmd) : list event :=
    match cs with
    | [] => []
    | c :: r => match fixed_write im c with
                | Some evs => evs ++ fixed_writes (apply_events im evs) r
                | None => []
                end
    end.

  (* ---------------------------------------------------------------- flush *)

  (** the files of a TG in first-occurrence order *)
  Fixpoint files_from (cs : list cmd) (seen : list fid) : list fid :=
    match cs with
    | [] => []
    | c :: r => if existsb (N.eqb (c_fid c)) seen then files_from r seen
                else c_fid c :: files_from r (c_fid c :: seen)
    end.
  Definition files_of (cs : list cmd) : list fid := files_from cs [].

  Definition cmds_of_file (f : fid) (cs : list cmd) : list cmd := filter (fun c => N.eqb (c_fid c) f) cs.

  (** Go map iteration order of [writesPerFile]: any permutation.  [ord] lists the files in the order
      to use; files of the TG that [ord] does not mention follow in first-occurrence order. *)
  Definition file_order (ord : list fid) (cs : list cmd) : list fid :=
    let fs := files_of cs in
    filter (fun f => existsb (N.eqb f) fs) (nodup N.eq_dec ord)
    ++ filter (fun f => negb (existsb (N.eqb f) ord)) fs.

  (** fileRecordTypes[keyPath]: the record type of the FIRST command of that file decides *)
  Definition file_kind (f : fid) (cs : list cmd) : rkind :=
    match cmds_of_file f cs with c :: _ => c_kind c | [] => KFixed end.

  Fixpoint prim_events (im : img) (fs : list fid) (cs : list cmd) : list event :=
    match fs with
    | [] => []
    | f :: r =>
        let evs := match file_kind f cs with
                   | KFixed => fixed_writes im (cmds_of_file f cs)
                   | KVar => var_writes im (cmds_of_file f cs)
                   end in
        evs ++ prim_events (apply_events im evs) r cs
    end.

  Definition data_len (c : cmd) : Z := Z.of_nat (length (concat (c_data c))).
  (** len(tgSerialized) (serializeTG, wal.go:342-378) *)
  Definition body_len (cs : list cmd) : Z :=
    tgIDLenBytes + wtCountLenBytes +
    fold_right (fun c acc => recordLenLenBytes + fpLenLenBytes + dataLenLenBytes + varRecLenLenBytes
                             + offsetLenBytes + indexLenBytes + data_len c + c_meta c + acc) 0 cs.

  Record sstate := { s_tgid : Z; s_last : Z; s_queue : list cmd; s_wal : wid; s_owner : Z }.

  (** CanWrite (wal.go:693-702): status header says OPEN, owned by us, NOTREPLAYED *)
  Definition can_write (im : img) (st : sstate) : bool :=
    match alookup (s_wal st) (i_wals im) with
    | Some {| wf_status := Some (fs, rs, o) |} =>
        (fs =? WFS_OPEN) && (o =? s_owner st) && (rs =? WRS_NOTREPLAYED)
    | _ => false
    end.

  Definition wal_events (w : wid) (t : Z) (cs : list cmd) : list event :=
    [ EWalApp w (RTxn t DEST_WAL TXN_PREPARING); EWalApp w RMid; EWalApp w (RLen (body_len cs));
      EWalApp w (RBody t cs); EWalApp w (RSum true); EWalApp w (RTxn t DEST_WAL TXN_COMMITCOMPLETE);
      EWalFsync w ].

  (** FlushToWAL + FlushCommandsToWAL *)
  Definition flush (im : img) (st : sstate) (ord : list fid) : Res (list event * sstate) :=
    match s_queue st with
    | [] => Ok ([], {| s_tgid := s_tgid st + 1; s_last := s_last st; s_queue := [];
                       s_wal := s_wal st; s_owner := s_owner st |})
    | cs =>
        if can_write im st then
          let t := s_tgid st in
          let wev := wal_events (s_wal st) t cs in
          let im1 := apply_events im wev in
          Ok (wev ++ prim_events im1 (file_order ord cs) cs,
              {| s_tgid := t + 1; s_last := t; s_queue := []; s_wal := s_wal st; s_owner := s_owner st |})
        else Panic                               (* panic("Failed attempt to write to WAL") *)
    end.

  Definition checkpoint_events (w : wid) (last : Z) : list event :=
    if last =? 0 then []
    else [ EWalApp w (RTxn last DEST_CHECKPOINT TXN_PREPARING); ESync;
           EWalApp w (RTxn last DEST_CHECKPOINT TXN_COMMITCOMPLETE) ].

  Definition status_events (w : wid) (fs rs owner : Z) : list event := [EWalStatus w fs rs owner; EWalFsync w].

  Definition rotate_events (st : sstate) : list event :=
    EWalTrunc (s_wal st) :: status_events (s_wal st) WFS_OPEN WRS_NOTREPLAYED (s_owner st).

  Definition start_events (w : wid) (owner : Z) : list event :=
    EWalCreate w :: status_events w WFS_OPEN WRS_NOTREPLAYED owner.

  (* ---------------------------------------------------------------- schedules *)

  (** The events of the server: the arms of SyncWAL's select plus the writers.  Synchronous mode
      (BackgroundSync=false) is the schedule in which every request is [SWrite]. *)
  Inductive sev :=
  | SEnqueue (pre : list event) (bs : list batch)   (* WriteCSM up to RequestFlush: bucket/year-file
                                                       creation calls [pre], then QueueWriteCommand *)
  | SFlush (ord : list fid)                         (* FlushToWAL from any arm / from RequestFlush *)
  | SAck (i : nat)                                  (* WriteCSM of request i returns *)
  | SWrite (pre : list event) (bs : list batch) (ord : list fid) (i : nat)   (* = SEnqueue; SFlush; SAck *)
  | SCheckpoint (rotate : bool)                     (* tickerPrimary arm *)
  | SShutdown (ord : list fid).                     (* shutdown branch: FlushToWAL; CreateCheckpoint *)

  Definition is_cat (e : event) : bool :=
    match e with ECat | EFileNew _ | EFileHdr _ _ | ECreate _ _ _ => true | _ => false end.

  (** what may precede a flush in a recorded run: the catalog's calls, and the unlinks of
      catalog.RemoveTimeBucket ([EFileDel]; outside the guarded theorems: [step_wf] wants [is_cat]) *)
  Definition is_pre (e : event) : bool :=
    is_cat e || match e with EFileDel _ => true | _ => false end.

  Definition with_queue (st : sstate) (q : list cmd) : sstate :=
    {| s_tgid := s_tgid st; s_last := s_last st; s_queue := q; s_wal := s_wal st; s_owner := s_owner st |}.
  Definition with_last (st : sstate) (l : Z) : sstate :=
    {| s_tgid := s_tgid st; s_last := l; s_queue := s_queue st; s_wal := s_wal st; s_owner := s_owner st |}.

  Definition exec_sev (im : img) (st : sstate) (s : sev) : Res (list event * sstate) :=
    match s with
    | SEnqueue pre bs =>
        if forallb is_pre pre
        then Ok (pre, with_queue st (s_queue st ++ flat_map write_records bs))
        else Rejected
    | SFlush ord => flush im st ord
    | SAck i => Ok ([EAck i], st)
    | SWrite pre bs ord i =>
        if forallb is_pre pre then
          let st1 := with_queue st (s_queue st ++ flat_map write_records bs) in
          match flush (apply_events im pre) st1 ord with
          | Ok (evs, st2) => Ok (pre ++ evs ++ [EAck i], st2)
          | Rejected => Rejected
          | Panic => Panic
          end
        else Rejected
    | SCheckpoint rotate =>
        let cev := checkpoint_events (s_wal st) (s_last st) in
        Ok (cev ++ (if rotate then rotate_events st else []), with_last st 0)
    | SShutdown ord =>
        match flush im st ord with
        | Ok (evs, st1) => Ok (evs ++ checkpoint_events (s_wal st1) (s_last st1), with_last st1 0)
        | Rejected => Rejected
        | Panic => Panic
        end
    end.

  Fixpoint run_from (im : img) (st : sstate) (sched : list sev) : Res (list event) :=
    match sched with
    | [] => Ok []
    | s :: r =>
        match exec_sev im st s with
        | Ok (evs, st') =>
            match run_from (apply_events im evs) st' r with
            | Ok rest => Ok (evs ++ rest)
            | Rejected => Rejected
            | Panic => Panic
            end
        | Rejected => Rejected
        | Panic => Panic
        end
    end.

  Definition init_state (w : wid) (owner tgid0 : Z) : sstate :=
    {| s_tgid := tgid0; s_last := 0; s_queue := []; s_wal := w; s_owner := owner |}.

  (** A whole run of one instance from an empty root: NewWALFile, then the schedule. *)
  Definition run (w : wid) (owner tgid0 : Z) (sched : list sev) : Res (list event) :=
    let ev0 := start_events w owner in
    match run_from (apply_events img0 ev0) (init_state w owner tgid0) sched with
    | Ok rest => Ok (ev0 ++ rest)
    | Rejected => Rejected
    | Panic => Panic
    end.
End WithClen.
