(** Model of the scalar aggregates of /repo/uda (commit compared: HEAD of the task tree):
      uda/uda.go:11-79         ColumnToFloat32 / ColumnToFloat64
      uda/count/count.go:46-69 Count.Accum / Output
      uda/min/min.go:41-90     Min.Accum / Output        uda/max/max.go:41-88  Max.Accum / Output
      uda/avg/avg.go:41-80     Avg.Accum / Output
      uda/gap/gap.go:59-191    Gap.Accum / bigGapIdxsByThreshold / Output   (explicit threshold only)
    An aggregate object is a state; [Accum] maps (state, input column series) to a new state or fails.
    The input column series is abstracted to what the code looks at: [len] = ColumnSeries.Len() (the
    length of the first column, i.e. Epoch) and the column the aggregate is mapped to.
    Quirks kept: ColumnToFloat32/64 return (nil, nil) for every element type other than float32,
    float64, int, int64, int32, so min/max index an empty slice (run-time panic) and avg divides 0 by 0;
    min/max compare with [<]/[>] only, so a NaN first value sticks and later NaNs are ignored;
    avg of no rows is 0/0 = NaN; min/max of no rows output the zero value. *)
From Coq Require Import ZArith List Bool Lia.
Import ListNotations.
Require Import MS.Base.GoInt MS.Base.Res MS.Base.F32 MS.Base.F64.
Local Open Scope Z_scope.

(** a column of a Go column series, by element type *)
Inductive col :=
| CF32 (l : list f32)
| CF64 (l : list f64)
| CI64 (l : list Z)
| CI32 (l : list Z)
| CInt (l : list Z)            (* []int *)
| COther (n : nat)             (* any other element type (int16, uint8, uint16, uint32, uint64, byte, bool …), n values *)
| CMissing.                    (* GetColumn returned nil *)

(** uda/uda.go:11 *)
Definition column_to_f32 (c : col) : Res (list f32) :=
  match c with
  | CMissing => Rejected
  | CF32 l => Ok l
  | CF64 l => Ok (map f32_of_f64 l)
  | CI64 l | CI32 l | CInt l => Ok (map f32_of_Z l)
  | COther _ => Ok []
  end.

(** uda/uda.go:46 *)
Definition column_to_f64 (c : col) : Res (list f64) :=
  match c with
  | CMissing => Rejected
  | CF64 l => Ok l
  | CF32 l => Ok (map f64_of_f32 l)
  | CI64 l | CI32 l | CInt l => Ok (map f64_of_Z l)
  | COther _ => Ok []
  end.

(** one Accum call's input: (ColumnSeries.Len(), the mapped column) *)
Definition chunk : Type := (nat * col)%type.

(** run an aggregate object over successive Accum calls; stops at the first error / panic *)
Fixpoint run {S : Type} (accum : S -> chunk -> Res S) (st : S) (chunks : list chunk) : Res S :=
  match chunks with
  | [] => Ok st
  | ch :: rest => do st' <- accum st ch; run accum st' rest
  end.

(** ---- count ---- *)
Definition count_init : Z := 0.
Definition count_accum (sum : Z) (ch : chunk) : Res Z := Ok (wrap I64 (sum + Z.of_nat (fst ch))).

(** ---- min / max ---- *)
Record mstate := { m_init : bool; m_val : f32 }.
Definition m_new : mstate := {| m_init := false; m_val := f32_zero |}.

Definition min_step (m v : f32) : f32 := if f32_lt v m then v else m.
Definition max_step (m v : f32) : f32 := if f32_gt v m then v else m.

Definition ext_accum (step : f32 -> f32 -> f32) (st : mstate) (ch : chunk) : Res mstate :=
  if (fst ch =? 0)%nat then Ok st else
  do vals <- column_to_f32 (snd ch);
  do st1 <- (if m_init st then Ok st
             else match vals with
                  | [] => Panic                                 (* inputCol[0] on an empty slice *)
                  | v :: _ => Ok {| m_init := true; m_val := v |}
                  end);
  Ok {| m_init := true; m_val := fold_left step vals (m_val st1) |}.

Definition min_accum := ext_accum min_step.
Definition max_accum := ext_accum max_step.

(** ---- avg ---- *)
Record astate := { a_sum : f64; a_cnt : Z }.
Definition a_new : astate := {| a_sum := f64_zero; a_cnt := 0 |}.
Definition avg_step (st : astate) (v : f32) : astate :=
  {| a_sum := f64_add (a_sum st) (f64_of_f32 v); a_cnt := wrap I64 (a_cnt st + 1) |}.
Definition avg_accum (st : astate) (ch : chunk) : Res astate :=
  if (fst ch =? 0)%nat then Ok st else
  do vals <- column_to_f32 (snd ch);
  Ok (fold_left avg_step vals st).
Definition avg_out (st : astate) : f64 := f64_div (a_sum st) (f64_of_Z (a_cnt st)).

(** ---- gap (explicit threshold thr >= 0, in seconds) ---- *)
Fixpoint gap_idxs_from (i : nat) (thr : f64) (ep : list f64) : list nat :=
  match ep with
  | a :: ((b :: _) as r) => (if f64_gt (f64_sub b a) thr then [i] else []) ++ gap_idxs_from (S i) thr r
  | _ => []
  end.

(** Output(): rows (Epoch, End, Length) read from the int64 Epoch column *)
Definition gap_rows (epochs : list Z) (idxs : list nat) : list (Z * Z * Z) :=
  map (fun i => let a := nth i epochs 0 in let b := nth (S i) epochs 0 in (a, b, wrap I64 (b - a))) idxs.

Definition gap_accum (thr : Z) (ch : chunk) : Res (list (Z * Z * Z)) :=
  if (fst ch =? 0)%nat then Ok [] else
  match column_to_f64 (snd ch) with
  | Ok ep =>
      if (length ep <? 2)%nat then Ok [] else
      let idxs := gap_idxs_from 0 (f64_of_Z thr) ep in
      match idxs with
      | [] => Ok []
      | _ => match snd ch with
             | CI64 epochs => Ok (gap_rows epochs idxs)
             | _ => Rejected                                    (* "cast Epoch column to []int64" *)
             end
      end
  | _ => Ok []                                                  (* err != nil -> g.Output() with no indices *)
  end.
