(** Model of catalog/catalog.go (the in-memory directory tree and its disk operations), of the key
    handling in utils/io/keytypes.go, and of the parts of frontend/write.go (Create, Destroy) and
    executor/writer.go (WriteCSM: bucket lookup / auto-create / new-year files) that decide WHICH
    paths are touched.  Shared by C16 (paths stay inside the root) and C17 (catalog = disk).

    Go function                                   model
    -------------------------------------------   --------------------------
    the file system below the sandbox             fnode, fstat, fget, fmkdir, fwrite, frmall
    os.Stat / fileExists (catalog.go:118)         fstat / file_exists  (ENOTDIR counts as "exists")
    catalog.load / NewDirectory (:43,:55)         load / new_directory (partial state on error kept)
    writeCategoryNameFile (:129)                  write_category
    newTimeBucketInfoFromTemplate (:735)          new_year_file
    Directory.AddTimeBucket (:163)                add_time_bucket  (item validation; mkdir chain BEFORE catkeySplit[i])
    Directory.addSubdir (:674)                    add_subdir
    Directory.RemoveTimeBucket (:216)             remove_time_bucket (deleteMap pruning, repeated RemoveAll)
    Directory.removeSubDir (:690)                 remove_subdir
    GetLatestTimeBucketInfoFromKey (:298)         latest_tbi    (directMap lookup of path.Dir(p+"/1970.bin"))
    GetLatestYearFile (:657)                      latest_year_file
    GetSubDirectoryAndAddFile / AddFile (:417)    add_file
    ListTimeBucketKeyNames (:547)                 list_tbk
    TimeBucketKey.GetItems/GetCategories/...      key_items, key_cats, item_in_category
    GetPathToYearFiles (keytypes.go:167)          path_to_year_files
    NewTimeBucketInfo's Path (metadata.go:97)     tbi_path
    DataService.Create / Destroy (write.go)       fe_create / fe_destroy
    Writer.WriteCSM (writer.go:262), one bucket   write_csm1  (schema check reduced to equality of a tag)

    Representation choices (stated in notes/C16.md):
    - Go maps are association lists kept sorted by key (canonical form of an unordered map).
    - directMap values are *Directory pointers; here they are addresses (list of item names from the
      catalog root).  Exact as long as the node a key was stored for is still attached at that address.
    - a year file's content is a schema tag; the header bytes themselves belong to C15.
    - paths are absolute; the file system is rooted at the sandbox directory.  *)
From Coq Require Import ZArith NArith List Bool Lia.
From Coq Require Import String.
Local Close Scope string_scope.
From Coq.Strings Require Import Byte.
Import ListNotations.
Require Import MS.Base.GoInt MS.Base.Hex MS.Base.Path MS.Generated.Src_catalog.

(* ------------------------------------------------------------------ association lists (sorted) *)
Fixpoint aget {A} (k : name) (l : list (name * A)) : option A :=
  match l with
  | [] => None
  | (k', v) :: r => if bytes_eqb k k' then Some v else aget k r
  end.

Fixpoint aset {A} (k : name) (v : A) (l : list (name * A)) : list (name * A) :=
  match l with
  | [] => [(k, v)]
  | (k', v') :: r =>
      if bytes_eqb k k' then (k, v) :: r
      else if bytes_ltb k k' then (k, v) :: l
      else (k', v') :: aset k v r
  end.

Fixpoint adel {A} (k : name) (l : list (name * A)) : list (name * A) :=
  match l with
  | [] => []
  | (k', v') :: r => if bytes_eqb k k' then r else (k', v') :: adel k r
  end.

(* ------------------------------------------------------------------ file system *)
Inductive fnode := FFile (c : list byte) | FDir (ents : list (name * fnode)).

Inductive stat_res := SDir | SFile | SNoEnt | SNotDir.

Fixpoint fstat (n : fnode) (p : list name) : stat_res :=
  match p with
  | [] => match n with FDir _ => SDir | FFile _ => SFile end
  | c :: r =>
      match n with
      | FFile _ => SNotDir
      | FDir ents => match aget c ents with None => SNoEnt | Some m => fstat m r end
      end
  end.

Fixpoint fget (n : fnode) (p : list name) : option fnode :=
  match p with
  | [] => Some n
  | c :: r =>
      match n with
      | FFile _ => None
      | FDir ents => match aget c ents with None => None | Some m => fget m r end
      end
  end.

(** apply [f] to the entry list of the parent directory of [p]; [None] = the syscall fails *)
Fixpoint fupd (n : fnode) (p : list name) (f : list (name * fnode) -> name -> option (list (name * fnode)))
  : option fnode :=
  match p with
  | [] => None
  | c :: r =>
      match n with
      | FFile _ => None
      | FDir ents =>
          match r with
          | [] => match f ents c with Some e' => Some (FDir e') | None => None end
          | _ => match aget c ents with
                 | Some m => match fupd m r f with Some m' => Some (FDir (aset c m' ents)) | None => None end
                 | None => None
                 end
          end
      end
  end.

Definition fmkdir (n : fnode) (p : list name) : option fnode :=
  fupd n p (fun ents c => match aget c ents with None => Some (aset c (FDir []) ents) | Some _ => None end).

(** open(O_CREAT|O_TRUNC) + write, or open(O_CREAT) of a missing file + write *)
Definition fwrite (n : fnode) (p : list name) (content : list byte) : option fnode :=
  fupd n p (fun ents c => match aget c ents with Some (FDir _) => None | _ => Some (aset c (FFile content) ents) end).

(** os.RemoveAll: a missing path is not an error *)
Fixpoint frmall (n : fnode) (p : list name) : option fnode :=
  match p with
  | [] => None
  | c :: r =>
      match n with
      | FFile _ => None
      | FDir ents =>
          match r with
          | [] => Some (FDir (adel c ents))
          | _ => match aget c ents with
                 | Some m => match frmall m r with Some m' => Some (FDir (aset c m' ents)) | None => None end
                 | None => Some n
                 end
          end
      end
  end.

(** mutating system calls, with the path string handed to the kernel *)
Inductive sys := SMkdir (p : list byte) | SCreate (p : list byte) | SWrite (p : list byte) | SRmAll (p : list byte).
Definition sys_path (s : sys) : list byte :=
  match s with SMkdir p | SCreate p | SWrite p | SRmAll p => p end.

Record world := mkW { wfs : fnode; wtr : list sys }.      (* trace: most recent first *)

Definition file_exists (w : world) (p : list byte) : bool :=
  match fstat (wfs w) (resolve p) with SNoEnt => false | _ => true end.
Definition stat_ok (w : world) (p : list byte) : bool :=
  match fstat (wfs w) (resolve p) with SDir | SFile => true | _ => false end.
Definition read_file (w : world) (p : list byte) : option (list byte) :=
  match fget (wfs w) (resolve p) with Some (FFile c) => Some c | _ => None end.

Definition do_mkdir (w : world) (p : list byte) : option world :=
  match fmkdir (wfs w) (resolve p) with Some f => Some (mkW f (SMkdir p :: wtr w)) | None => None end.
Definition do_create (w : world) (p : list byte) (c : list byte) : option world :=
  match fwrite (wfs w) (resolve p) c with Some f => Some (mkW f (SCreate p :: wtr w)) | None => None end.
Definition do_rmall (w : world) (p : list byte) : option world :=
  match frmall (wfs w) (resolve p) with Some f => Some (mkW f (SRmAll p :: wtr w)) | None => None end.
(** pwrite into an existing file (the WAL flush opens without O_CREAT; a missing file is only logged) *)
Definition do_pwrite (w : world) (p : list byte) : world :=
  match fstat (wfs w) (resolve p) with SFile => mkW (wfs w) (SWrite p :: wtr w) | _ => w end.

(* ------------------------------------------------------------------ outcomes *)
Inductive err := EExists | ECat | EOther.
Inductive out (A : Type) := Done (a : A) | Fail (e : err) | Crash.
Arguments Done {A} _.
Arguments Fail {A} _.
Arguments Crash {A}.

Definition out_code {A} (o : out A) : nat := match o with Done _ => 0 | Fail _ => 1 | Crash => 2 end.

(* ------------------------------------------------------------------ strings *)
Definition b (s : String.string) : list byte := bytes_of_string s.
Definition s_category_name := Eval compute in b "category_name"%string.
Definition s_metadata_db := Eval compute in b "metadata.db"%string.
Definition s_year := Eval compute in b "Year"%string.
Definition s_timeframe := Eval compute in b "Timeframe"%string.
Definition s_default_schema := Eval compute in b DefaultTimeBucketSchema.       (* GENERATED from keytypes.go *)
(** DataService.Create demands exactly [colonSeparatedPartsLen] parts: the [i; ck] pattern of [fe_create] *)
Example create_parts_len : colonSeparatedPartsLen = 2%Z := eq_refl.
Definition s_1970 := Eval compute in b "/1970.bin"%string.
Definition colon : byte := x3a.

(** strconv.Itoa *)
Fixpoint digits (fuel : nat) (n : N) (acc : list byte) : list byte :=
  match fuel with
  | O => acc
  | S f =>
      let d := byte_of_N (48 + N.modulo n 10) in
      if (n <? 10)%N then d :: acc else digits f (n / 10)%N (d :: acc)
  end.
Definition itoa (z : Z) : list byte :=
  if (z <? 0)%Z then x2d :: digits 25 (Z.to_N (- z)) [] else digits 25 (Z.to_N z) [].

(** strconv.Atoi: optional sign, one or more decimal digits, value within int64 *)
Fixpoint atoi_digits (s : list byte) (acc : Z) : option Z :=
  match s with
  | [] => Some acc
  | c :: r =>
      let n := Byte.to_N c in
      if (48 <=? n)%N && (n <=? 57)%N then atoi_digits r (acc * 10 + Z.of_N (n - 48)) else None
  end.
Definition atoi (s : list byte) : option Z :=
  let '(neg, body) := match s with
                      | c :: r => if Byte.eqb c x2d then (true, r) else if Byte.eqb c x2b then (false, r) else (false, s)
                      | [] => (false, s)
                      end in
  match body with
  | [] => None
  | _ => match atoi_digits body 0 with
         | Some v => let v' := if neg then (- v)%Z else v in
                     if in_ityb I64 v' then Some v' else None
         | None => None
         end
  end.

(* ------------------------------------------------------------------ in-memory catalog *)
Inductive cnode :=
  CNode (item : name) (path : list byte) (cat : list byte)
        (subs : list (name * cnode))                       (* subDirs *)
        (files : option (list (name * Z))).                 (* datafile: full path -> Year; None = nil map *)

Definition cn_item (n : cnode) := let 'CNode i _ _ _ _ := n in i.
Definition cn_path (n : cnode) := let 'CNode _ p _ _ _ := n in p.
Definition cn_cat (n : cnode) := let 'CNode _ _ c _ _ := n in c.
Definition cn_subs (n : cnode) := let 'CNode _ _ _ s _ := n in s.
Definition cn_files (n : cnode) := let 'CNode _ _ _ _ f := n in f.

Definition dmap := list (name * list name).              (* directMap: dir path -> address of the node *)

Record catalog := mkCat { croot : cnode; cdm : dmap }.

Fixpoint dm_merge (d : dmap) (e : dmap) : dmap :=      (* Store every entry of e into d *)
  match e with [] => d | (k, a) :: r => dm_merge (aset k a d) r end.

Inductive lerr := LNone | LCat | LOther.

Definition year_of_file (nm : name) : option Z :=
  match atoi (firstn (List.length nm - 4) nm) with
  | Some y => Some (wrap I16 y)
  | None => None
  end.

(** the entry loop of catalog.load (catalog.go:73-114) over the sorted ReadDir result; [rec] loads a
    sub-directory.  Partial state is kept on error, as in Go. *)
Definition load_loop (rec : fnode -> name -> list byte -> list name -> cnode * dmap * lerr)
           (item : name) (pth cat sub : list byte) (addr : list name) :=
  fix loop (es : list (name * fnode)) (subs : list (name * cnode)) (files : option (list (name * Z)))
           (dm : dmap) {struct es} : cnode * dmap * lerr :=
    match es with
    | [] => (CNode item pth cat subs files, dm, LNone)
    | (nm, m) :: es' =>
        let leaf := clean (sub ++ slash :: nm) in
        match m with
        | FDir _ =>
            if bytes_eqb nm s_metadata_db then loop es' subs files dm
            else
              let '(ch, dmc, e) := rec m nm leaf (addr ++ [nm]) in
              let subs' := aset nm ch subs in
              match e with
              | LOther => (CNode item pth cat subs' None, dm_merge dm dmc, LOther)
              | _ => loop es' subs' None (dm_merge dm dmc)
              end
        | FFile _ =>
            if has_bin_ext nm then
              let dm' := aset pth addr dm in
              let fl := match files with Some l => l | None => [] end in
              match year_of_file nm with
              | Some y => loop es' subs (Some (aset leaf y fl)) dm'
              | None => (CNode item pth cat subs (Some (aset leaf 0%Z fl)), dm', LOther)
              end
            else loop es' subs files dm
        end
    end.

(** catalog.load on the directory node [n] found at path [sub]; [addr] = address of the node being
    filled, relative to the root of THIS scan. *)
Fixpoint load (n : fnode) (item : name) (sub : list byte) (addr : list name) {struct n}
  : cnode * dmap * lerr :=
  let pth := clean sub in
  match n with
  | FFile _ => (CNode item pth [] [] None, [], LCat)
  | FDir ents =>
      match aget s_category_name ents with
      | Some (FFile cat) =>
          load_loop (fun m nm leaf a => load m nm leaf a) item pth cat sub addr ents [] None []
      | _ => (CNode item pth [] [] None, [], LCat)
      end
  end.

(** NewDirectory(rootPath): itemName of the top node is filepath.Base(".") *)
Definition new_directory (w : world) (p : list byte) : cnode * dmap * lerr :=
  match fget (wfs w) (resolve p) with
  | Some n => load n [dot] p []
  | None => (CNode [dot] (clean p) [] [] None, [], LCat)
  end.

(* ------------------------------------------------------------------ node access by address *)
Fixpoint cget (n : cnode) (a : list name) : option cnode :=
  match a with
  | [] => Some n
  | c :: r => match aget c (cn_subs n) with Some m => cget m r | None => None end
  end.

Fixpoint cupd (n : cnode) (a : list name) (f : cnode -> cnode) : cnode :=
  match a with
  | [] => f n
  | c :: r =>
      match aget c (cn_subs n) with
      | Some m => let 'CNode i p ct s fl := n in CNode i p ct (aset c (cupd m r f) s) fl
      | None => n
      end
  end.

(* ------------------------------------------------------------------ keys *)
Definition nth_name (l : list name) (i : nat) : option name := nth_error l i.

Definition key_item_key (k : list byte) : list byte := hd [] (split_on colon k).
Definition key_cat_key (k : list byte) : option (list byte) := nth_error (split_on colon k) 1.
Definition key_items (k : list byte) : list name := split_on slash (key_item_key k).

(** NewTimeBucketKey(item, cat) *)
Definition new_tbk (item cat : list byte) : list byte :=
  item ++ colon :: (match cat with [] => s_default_schema | _ => cat end).

(** NewTimeBucketKeyFromString *)
Definition tbk_from_string (s : list byte) : list byte :=
  match split_on colon s with
  | i :: c :: _ => new_tbk i c
  | i :: _ => new_tbk i []
  | [] => new_tbk [] []
  end.

(** GetItemInCategory: the item at the position of the first category called [cat];
    indexing past the items panics *)
Fixpoint item_in_category (cats : list name) (items : list name) (cat : name) (i : nat) : out name :=
  match cats with
  | [] => Done []
  | c :: r =>
      if bytes_eqb c cat then
        match nth_error items i with Some x => Done x | None => Crash end
      else item_in_category r items cat (S i)
  end.

(** tbk.GetTimeFrame: [tfok] = utils.TimeframeFromString(item) != nil (decided by the real function) *)
Definition get_timeframe (k : list byte) (tfok : bool) : out unit :=
  match key_cat_key k with
  | None => Crash
  | Some ck =>
      match item_in_category (split_on slash ck) (key_items k) s_timeframe 0 with
      | Crash => Crash
      | Fail e => Fail e
      | Done [] => Fail EOther
      | Done _ => if tfok then Done tt else Fail EOther
      end
  end.

Definition path_to_year_files (root : list byte) (k : list byte) : list byte := join2 root (key_item_key k).
Definition tbi_path (root : list byte) (k : list byte) (year : Z) : list byte :=
  join2 (path_to_year_files root k) (itoa year ++ bin_ext).

(* ------------------------------------------------------------------ AddTimeBucket *)
Definition write_category (w : world) (catn : list byte) (dirn : list byte) : world * out unit :=
  let f := join2 dirn s_category_name in
  if file_exists w f then
    match read_file w f with
    | Some c => if bytes_eqb c catn then (w, Done tt) else (w, Fail EOther)
    | None => (w, Fail EOther)
    end
  else match do_create w f catn with
       | Some w' => (w', Done tt)
       | None => (w, Fail EOther)
       end.

(** newTimeBucketInfoFromTemplate: [tag] stands for the header written *)
Definition new_year_file (w : world) (p : list byte) (tag : list byte) : world * out unit :=
  if stat_ok w p then (w, Fail EExists)
  else match do_create w p tag with
       | Some w' => (w', Done tt)
       | None => (w, Fail EOther)
       end.

Fixpoint mkdir_chain (w : world) (dirn : list byte) (items : list name) (cats : list name) (i : nat)
  : world * out (list byte) :=
  match items with
  | [] => (w, Done dirn)
  | it :: rest =>
      let subn := join2 dirn it in
      let '(w1, o1) := if file_exists w subn then (w, Done tt)
                       else match do_mkdir w subn with Some w' => (w', Done tt) | None => (w, Fail EOther) end in
      match o1 with
      | Done _ =>
          match nth_error cats i with
          | None => (w1, Crash)                                   (* catkeySplit[i] out of range *)
          | Some cn =>
              let '(w2, o2) := write_category w1 cn dirn in
              match o2 with
              | Done _ => mkdir_chain w2 subn rest cats (S i)
              | Fail e => (w2, Fail e)
              | Crash => (w2, Crash)
              end
          end
      | Fail e => (w1, Fail e)
      | Crash => (w1, Crash)
      end
  end.

Definition add_subdir (c : catalog) (child : cnode) (cdmap : dmap) (nm : name) : catalog :=
  let 'CNode ci cp cc cs cf := child in
  let child' := CNode nm cp cc cs cf in
  let 'CNode i p ct s fl := croot c in
  mkCat (CNode i p ct (aset nm child' s) fl)
        (dm_merge (cdm c) (map (fun '(k, a) => (k, nm :: a)) cdmap)).

(** the key validation at the top of AddTimeBucket: every item names a child of the previous level
    (an item cannot contain the separator: the items are the key split on it) that a restart scan will see *)
Definition item_ok (c : name) : bool :=
  negb (is_nil c || is_dot c || is_dotdot c || bytes_eqb c s_metadata_db).   (* metadata.db: the name load() skips *)

(** d.AddTimeBucket(tbk, f) with f.Path = [fpath] and header tag [tag] *)
Definition add_time_bucket (w : world) (c : catalog) (k : list byte) (fpath tag : list byte)
  : world * catalog * out unit :=
  match key_cat_key k with
  | None => (w, c, Crash)
  | Some ck =>
      let cats := split_on slash ck in
      let items := key_items k in
      if negb (forallb item_ok items) then (w, c, Fail EOther)      (* "invalid item ... in time bucket key" *)
      else
      let rootp := cn_path (croot c) in
      let '(w1, o1) := mkdir_chain w rootp items cats 0 in
      match o1 with
      | Done dirn =>
          let '(w2, o2) := write_category w1 s_year dirn in
          match o2 with
          | Done _ =>
              let '(w3, o3) := new_year_file w2 fpath tag in
              match o3 with
              | Done _ =>
                  let c1 := let 'CNode i p ct s fl := croot c in
                            match ct with
                            | [] => mkCat (CNode i p (hd [] cats) s fl) (cdm c)
                            | _ => c
                            end in
                  let child_name := hd [] items in
                  let '(ch, dmc, e) := new_directory w3 (join2 rootp child_name) in
                  match e with
                  | LNone => (w3, add_subdir c1 ch dmc child_name, Done tt)
                  | LCat => (w3, c1, Fail ECat)
                  | LOther => (w3, c1, Fail EOther)
                  end
              | Fail e => (w3, c, Fail e)
              | Crash => (w3, c, Crash)
              end
          | Fail e => (w2, c, Fail e)
          | Crash => (w2, c, Crash)
          end
      | Fail e => (w1, c, Fail e)
      | Crash => (w1, c, Crash)
      end
  end.

(* ------------------------------------------------------------------ RemoveTimeBucket *)
Definition remove_subdir (n : cnode) (nm : name) : cnode :=
  let 'CNode i p ct s fl := n in CNode i p ct (adel nm s) fl.

(** directMap.Delete(subdir.pathToItemName) for the sub-directory [nm] of the node at [addr] *)
Definition dm_delete_sub (c : catalog) (addr : list name) (nm : name) : dmap :=
  match cget (croot c) addr with
  | Some n => match aget nm (cn_subs n) with
              | Some sd => adel (cn_path sd) (cdm c)
              | None => cdm c
              end
  | None => cdm c
  end.

Definition cat_remove_sub (c : catalog) (addr : list name) (nm : name) : catalog :=
  mkCat (cupd (croot c) addr (fun n => remove_subdir n nm)) (dm_delete_sub c addr nm).

Definition has_subdirs (c : catalog) (addr : list name) : bool :=
  match cget (croot c) addr with Some n => match cn_subs n with [] => false | _ => true end | None => false end.

Definition remove_dir_files (w : world) (c : catalog) (addr : list name) : world * out unit :=
  match cget (croot c) addr with
  | Some n => match do_rmall w (cn_path n) with Some w' => (w', Done tt) | None => (w, Fail EOther) end
  | None => (w, Fail EOther)
  end.

(** the bottom-up loop of RemoveTimeBucket over levels [i = end .. 0]; [prefixes] lists the addresses
    of tree[i] from the deepest to the shallowest together with the item name of tree[i+1];
    [deleted] = deleteMap[i+1] *)
Fixpoint remove_levels (w : world) (c : catalog) (levels : list (list name * option name)) (deleted : bool)
  : world * catalog * out bool :=
  match levels with
  | [] => (w, c, Done deleted)
  | (addr, child) :: rest =>
      let '(w1, c1, o1, del_here) :=
        match child with
        | None =>                                            (* i == end *)
            let '(w', o) := remove_dir_files w c addr in (w', c, o, true)
        | Some ch =>
            if deleted then (w, cat_remove_sub c addr ch, Done tt, false) else (w, c, Done tt, false)
        end in
      match o1 with
      | Done _ =>
          if negb (has_subdirs c1 addr) then
            let '(w2, o2) := remove_dir_files w1 c1 addr in
            match o2 with
            | Done _ => remove_levels w2 c1 rest true
            | Fail e => (w2, c1, Fail e)
            | Crash => (w2, c1, Crash)
            end
          else remove_levels w1 c1 rest del_here
      | Fail e => (w1, c1, Fail e)
      | Crash => (w1, c1, Crash)
      end
  end.

Fixpoint prefixes {A} (l : list A) : list (list A) :=       (* non-empty prefixes, shortest first *)
  match l with
  | [] => []
  | x :: r => [x] :: map (cons x) (prefixes r)
  end.

(** the item names of the in-memory nodes along [items] (they are the map keys used to find them) *)
Definition levels_of (items : list name) : list (list name * option name) :=
  let ps := prefixes items in
  let childs := map Some (tl items) ++ [None] in
  rev (combine ps childs).

Fixpoint walk_ok (n : cnode) (items : list name) : bool :=
  match items with
  | [] => true
  | it :: r => match aget it (cn_subs n) with Some m => walk_ok m r | None => false end
  end.

Definition remove_time_bucket (w : world) (c : catalog) (k : list byte) : world * catalog * out unit :=
  let items := key_items k in
  if negb (walk_ok (croot c) items) then (w, c, Fail EOther)
  else
    let '(w1, c1, o1) := remove_levels w c (levels_of items) false in
    match o1 with
    | Done true =>
        let top := [hd [] items] in
        let '(w2, o2) := remove_dir_files w1 c1 top in
        match o2 with
        | Done _ =>
            let nm := match cget (croot c1) top with Some n => cn_item n | None => [] end in
            (w2, cat_remove_sub c1 [] nm, Done tt)
        | Fail e => (w2, c1, Fail e)
        | Crash => (w2, c1, Crash)
        end
    | Done false => (w1, c1, Done tt)
    | Fail e => (w1, c1, Fail e)
    | Crash => (w1, c1, Crash)
    end.

(* ------------------------------------------------------------------ lookups and AddFile *)
Definition dm_node (c : catalog) (dirp : list byte) : option (list name * cnode) :=
  match aget dirp (cdm c) with
  | Some a => match cget (croot c) a with Some n => Some (a, n) | None => None end
  | None => None
  end.

(** GetLatestYearFile: iteration keeps a file when [year < fp.Year || year == 0] *)
Fixpoint latest_of (l : list (name * Z)) (year : Z) (best : option (name * Z)) : option (name * Z) :=
  match l with
  | [] => best
  | (p, y) :: r => if (year <? y)%Z || (year =? 0)%Z then latest_of r y (Some (p, y)) else latest_of r year best
  end.

Definition latest_year_file (n : cnode) : out (name * Z) :=
  match cn_files n with
  | None => Fail EOther
  | Some l => match latest_of l 0 None with Some x => Done x | None => Crash end
  end.

Definition latest_tbi (c : catalog) (k : list byte) : out (name * Z) :=
  let p2 := path_to_year_files (cn_path (croot c)) k in
  match dm_node c (dir (p2 ++ s_1970)) with
  | Some (_, n) => latest_year_file n
  | None => Fail EOther
  end.

(** GetSubDirectoryAndAddFile(fullFilePath, year) -> the new file's path *)
Definition add_file (w : world) (c : catalog) (full : list byte) (year : Z)
  : world * catalog * out (name * Z) :=
  match dm_node c (dir full) with
  | None => (w, c, Fail EOther)
  | Some (a, n) =>
      match cn_files n with
      | None => (w, c, Fail EOther)
      | Some fl =>
          match (match fl with (tp, _) :: _ => read_file w tp | [] => None end) with
          | None => (w, c, Crash)           (* GetDeepCopy -> initFromFile -> log.Fatal / nil template *)
          | Some tag =>
          let np := join2 (cn_path n) (itoa year ++ bin_ext) in
          let '(w1, o1) := new_year_file w np tag in
          match o1 with
          | Done _ =>
              (w1, mkCat (cupd (croot c) a (fun m => let 'CNode i p ct s f := m in
                                                      CNode i p ct s (Some (aset np year (match f with Some l => l | None => [] end)))))
                         (cdm c), Done (np, year))
          | Fail EExists => (w1, c, Done (np, year))
          | Fail e => (w1, c, Fail e)
          | Crash => (w1, c, Crash)
          end
          end
      end
  end.

(* ------------------------------------------------------------------ requests *)
Inductive op :=
| OpCreate (key : list byte) (tfok : bool) (year : Z) (tag : list byte)     (* DataService.Create *)
| OpWrite (key : list byte) (tfok : bool) (years : list Z) (tag : list byte)  (* Writer.WriteCSM, one bucket *)
| OpDestroy (key : list byte)                                                   (* DataService.Destroy *)
| OpQuery (key : list byte)                                                     (* DataService.Query *)
| OpRestart.                                                                    (* catalog.NewDirectory(root) on the same disk *)

Definition op_key (o : op) : list byte :=
  match o with OpCreate k _ _ _ | OpWrite k _ _ _ | OpDestroy k | OpQuery k => k | OpRestart => [] end.

Definition fe_create (w : world) (c : catalog) (root : list byte) (key : list byte) (tfok : bool) (year : Z)
           (tag : list byte) : world * catalog * out unit :=
  match split_on colon key with
  | [i; ck] =>
      let k := new_tbk i ck in
      match get_timeframe k tfok with
      | Done _ => add_time_bucket w c k (tbi_path root k year) tag
      | Fail e => (w, c, Fail e)
      | Crash => (w, c, Crash)
      end
  | _ => (w, c, Fail EOther)
  end.

Definition fe_destroy (w : world) (c : catalog) (key : list byte) : world * catalog * out unit :=
  let k := match split_on colon key with
           | i :: ck :: _ => new_tbk i ck
           | i :: _ => new_tbk i []
           | [] => new_tbk [] []
           end in
  remove_time_bucket w c k.

(** the row loop of WriteRecords: a row in another year than the current file's adds/opens that year *)
Fixpoint write_rows (w : world) (c : catalog) (cur : name * Z) (years : list Z)
  : world * catalog * out unit :=
  match years with
  | [] => (w, c, Done tt)
  | y :: r =>
      let y16 := wrap I16 y in
      if (y16 =? snd cur)%Z then write_rows (do_pwrite w (fst cur)) c cur r
      else
        let '(w1, c1, o1) := add_file w c (fst cur) y16 in
        match o1 with
        | Done cur' => write_rows (do_pwrite w1 (fst cur')) c1 cur' r
        | Fail e => (w1, c1, Fail e)
        | Crash => (w1, c1, Crash)
        end
  end.

Definition write_csm1 (w : world) (c : catalog) (keystr : list byte) (tfok : bool) (years : list Z)
           (tag : list byte) : world * catalog * out unit :=
  let k := tbk_from_string keystr in
  match get_timeframe k tfok with
  | Fail e => (w, c, Fail e)
  | Crash => (w, c, Crash)
  | Done _ =>
      let after_lookup (w : world) (c : catalog) (cur : name * Z) (fresh : bool) :=
        let disk_tag := if fresh then Some tag else read_file w (fst cur) in
        match disk_tag with
        | Some t => if bytes_eqb t tag then write_rows w c cur years else (w, c, Fail EOther)
        | None => (w, c, Crash)                                  (* log.Fatal in initFromFile *)
        end in
      match latest_tbi c k with
      | Done cur => after_lookup w c cur false
      | Crash => (w, c, Crash)
      | Fail _ =>
          match years with
          | [] => (w, c, Done tt)
          | y0 :: _ =>
              let y16 := wrap I16 y0 in
              let fp := tbi_path (cn_path (croot c)) k y16 in
              let '(w1, c1, o1) := add_time_bucket w c k fp tag in
              match o1 with
              | Done _ | Fail EExists => after_lookup w1 c1 (fp, y16) true
              | Fail e => (w1, c1, Fail e)
              | Crash => (w1, c1, Crash)
              end
          end
      end
  end.

Definition step (root : list byte) (st : world * catalog) (o : op) : world * catalog * nat :=
  let '(w, c) := st in
  match o with
  | OpCreate k tfok y tag => let '(w', c', r) := fe_create w c root k tfok y tag in (w', c', out_code r)
  | OpWrite k tfok ys tag => let '(w', c', r) := write_csm1 w c k tfok ys tag in (w', c', out_code r)
  | OpDestroy k => let '(w', c', r) := fe_destroy w c k in (w', c', out_code r)
  | OpQuery _ => (w, c, 0)
  | OpRestart => let '(n, dm, e) := new_directory w root in
                 (w, mkCat n dm, match e with LOther => 1 | _ => 0 end)
  end.

(* ------------------------------------------------------------------ observables *)
(** ListTimeBucketKeyNames: the three-level names *)
Definition list_tbk (c : catalog) : list (name * name * name) :=
  flat_map (fun '(s, sd) =>
    flat_map (fun '(t, td) => map (fun '(a, _) => (s, t, a)) (cn_subs td)) (cn_subs sd)) (cn_subs (croot c)).

(** every datafile of the tree (GatherTimeBucketInfo): path and year, depth first *)
Fixpoint gather_files (fuel : nat) (n : cnode) : list (name * Z) :=
  match fuel with
  | O => []
  | S f => (match cn_files n with Some l => l | None => [] end)
           ++ flat_map (fun '(_, m) => gather_files f m) (cn_subs n)
  end.

(** the disk listing: every path below the sandbox with its kind (and content for files) *)
Fixpoint fs_list (fuel : nat) (pre : list byte) (n : fnode) : list (list byte * option (list byte)) :=
  match fuel with
  | O => []
  | S f =>
      match n with
      | FFile c => [(pre, Some c)]
      | FDir ents => (pre, None) :: flat_map (fun '(nm, m) => fs_list f (pre ++ slash :: nm) m) ents
      end
  end.

(** the initial state: an empty data root at [root] (its ancestors exist), catalog = NewDirectory(root) *)
Fixpoint mk_dirs (comps : list name) : fnode :=
  match comps with [] => FDir [] | c :: r => FDir [(c, mk_dirs r)] end.

Definition init_world (root : list byte) : world := mkW (mk_dirs (resolve root)) [].
Definition init_cat (root : list byte) : catalog :=
  let '(n, dm, _) := new_directory (init_world root) root in mkCat n dm.

Definition run (root : list byte) (ops : list op) : world * catalog * list nat :=
  fold_left (fun '(w, c, codes) o => let '(w', c', k) := step root (w, c) o in (w', c', codes ++ [k]))
            ops (init_world root, init_cat root, []).
