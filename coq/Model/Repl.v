(** Model of the replication replay path, at the level of PARSED write sets.

    Go function (file:line at HEAD)                              model
    ----------------------------------------------------------   -----------------------------------
    replication.ReplayerImpl.Replay (replay.go:39-65)             replay_tg  (flag = the set's own RecordType == VARIABLE;
                                                                              stops at the first error)
    replication.wtSetToCS (replay.go:77-127)                      wtset_to_cs
    replication.serializeVariableRecords (replay.go:130-181)      var_rows   (Epoch = the second GetTimeFromTicks returns,
                                                                              Nanoseconds = its nanoseconds)
    executor.Writer.WriteCSM (writer.go:262-355), one bucket       write_csm  (GetTime incl. Nanoseconds; Remove("Nanoseconds")
                                                                              only when the flag is set; bucket created with the
                                                                              FLAG's record type; column check)
    executor.Writer.WriteRecords (writer.go:67-139)               write_records / group_rows (consecutive rows of one
                                                                              (index, year) merge: FIXED keeps the last row,
                                                                              VARIABLE appends row ++ ticks; prevYear is never updated)
    io.ColumnSeries.GetTime (columnseries.go:73)                  row_time
    io.IndexToTime / TimeToIndex                                  Model/TimeIndex.v (C30), zone = UTC
    primary write of a command (wal.go writePrimary)              apply_write: FIXED slot := data, VARIABLE slot ++= data
    master side: a flushed TG applied to the primary store        master_ws / master_tg

    NOT modelled here (stated, tied by the differential harness): the byte codec of the TG (Model/TGCodec.v,
    builder E1: ParseTGData (serializeTG id cmds) root = map to_wtset cmds), NewTimeBucketKeyFromWalKeyPath
    (the parsed write set carries bucket key, timeframe and year), the column<->row conversions
    (NewRowSeries/ToColumnSeries/ToRowSeries: identity on the row bytes, C29), type coercion of columns
    (outcome [RUnmodelled]), the replica's own WAL.  A write set whose payload is not exactly one row
    (FIXED) / a whole number of varRecLen records (VARIABLE) is [RUnmodelled] too.

    The tick codec (io.GetIntervalTicks32Bit / executor.GetTimeFromTicks, float arithmetic: C10) enters as
    two section parameters [get_ticks], [time_from_ticks]: every theorem holds for ALL functions;
    Model/Ticks.v (Flocq) and Model/TicksPF.v (PrimFloat mirror) are the executable instances used for
    the witnesses and the correspondence. *)
From Coq Require Import ZArith List Bool Lia.
From Coq.Strings Require Import Byte.
Import ListNotations.
Require Import MS.Base.GoInt MS.Base.Res MS.Base.Hex MS.Base.Bytes MS.Base.Tz MS.Model.TimeIndex
               MS.Generated.Src_repl MS.Generated.Src_time.
Local Open Scope Z_scope.

Definition shape := (list byte * Z)%type.        (* io.DataShape: name, EnumElementType *)
Definition sh_name (s : shape) := fst s.
Definition sh_type (s : shape) := snd s.

Fixpoint zlookup (l : list (Z * Z)) (k : Z) : Z :=
  match l with [] => 0 | (k', v) :: r => if Z.eqb k k' then v else zlookup r k end.
Definition tsize (t : Z) : Z := zlookup attr_size t.
Definition rowsize (l : list shape) : Z := fold_right (fun s a => tsize (sh_type s) + a) 0 l.

Definition epoch_name : list byte := [x45; x70; x6f; x63; x68].                              (* "Epoch" *)
Definition nanos_name : list byte := [x4e; x61; x6e; x6f; x73; x65; x63; x6f; x6e; x64; x73]. (* "Nanoseconds" *)
Definition nanos_shape : shape := (nanos_name, ET_INT32).

Definition shape_eqb (a b : shape) : bool := bytes_eqb (sh_name a) (sh_name b) && Z.eqb (sh_type a) (sh_type b).
Fixpoint shapes_eqb (a b : list shape) : bool :=
  match a, b with
  | [], [] => true
  | x :: a', y :: b' => shape_eqb x y && shapes_eqb a' b'
  | _, _ => false
  end.

(** a parsed wal.WTSet *)
Record ws := mkws {
  ws_rt : Z;                  (* RecordType *)
  ws_bucket : list byte;      (* "Symbol/Timeframe/AttributeGroup" from the key path *)
  ws_tf : Z;                  (* that timeframe's duration, ns *)
  ws_year : Z;                (* from the file name *)
  ws_idx : Z;                 (* Buffer.Index() *)
  ws_payload : list byte;     (* Buffer.Payload() *)
  ws_vrl : Z;                 (* VarRecLen *)
  ws_shapes : list shape      (* DataShapes, Epoch first *)
}.

(** * The primary store, abstractly: bucket -> (record type, columns, slot -> bytes) *)
Record bst := mkbst { b_rt : Z; b_tf : Z; b_shapes : list shape; b_slots : list ((Z * Z) * list byte) }.
Definition store := list (list byte * bst).

Fixpoint find_bucket (st : store) (b : list byte) : option bst :=
  match st with
  | [] => None
  | (k, v) :: r => if bytes_eqb b k then Some v else find_bucket r b
  end.

Fixpoint set_bucket (st : store) (b : list byte) (v : bst) : store :=
  match st with
  | [] => [(b, v)]
  | (k, v') :: r => if bytes_eqb b k then (k, v) :: r else (k, v') :: set_bucket r b v
  end.

Definition key_ltb (a b : Z * Z) : bool := (fst a <? fst b) || ((fst a =? fst b) && (snd a <? snd b)).
Definition key_eqb (a b : Z * Z) : bool := (fst a =? fst b) && (snd a =? snd b).

Fixpoint chunks (fuel : nat) (n : nat) (l : list byte) : list (list byte) :=
  match fuel with
  | O => []
  | S f => if (length l <? n)%nat || (n =? 0)%nat then [] else firstn n l :: chunks f n (skipn n l)
  end.

(** the interval ticks of a variable-length record: its last four bytes, little endian *)
Definition rec_ticks (rec : list byte) : Z := le_val (skipn (length rec - 4) rec).

(** sort.Stable(NewByIntervalTicks(...)) (writer.go:226, sort.go): the stable sort is unique; insertion after
    the records that are not greater computes it *)
Fixpoint insert_rec (r : list byte) (l : list (list byte)) : list (list byte) :=
  match l with
  | [] => [r]
  | x :: t => if rec_ticks r <? rec_ticks x then r :: x :: t else x :: insert_rec r t
  end.
Definition sort_recs (l : list (list byte)) : list (list byte) := fold_left (fun acc r => insert_rec r acc) l [].

(** the slot's bytes after WriteBufferToFileIndirect: whole records sorted by ticks, a partial tail stays *)
Definition sort_slot (vrl : nat) (d : list byte) : list byte :=
  let cs := chunks (length d) vrl d in
  concat (sort_recs cs) ++ skipn (length cs * vrl) d.

(** slots are kept ordered by (year, index): file order.  FIXED: the record is overwritten;
    VARIABLE: old ++ new, then sorted by ticks *)
Fixpoint slot_write (fixed : bool) (vrl : nat) (l : list ((Z * Z) * list byte)) (k : Z * Z) (d : list byte) :=
  match l with
  | [] => [(k, if fixed then d else sort_slot vrl d)]
  | (k', d') :: r =>
      if key_eqb k k' then (k', if fixed then d else sort_slot vrl (d' ++ d)) :: r
      else if key_ltb k k' then (k, if fixed then d else sort_slot vrl d) :: (k', d') :: r
      else (k', d') :: slot_write fixed vrl r k d
  end.

(** TimeBucketInfo.GetVariableRecordLength: the columns without Epoch, plus the 4-byte interval ticks *)
Definition bucket_vrl (sh : list shape) : nat := Z.to_nat (rowsize sh - 8 + 4).

(** primary write of one command to an existing bucket *)
Definition apply_write (st : store) (b : list byte) (year idx : Z) (d : list byte) : store :=
  match find_bucket st b with
  | None => st
  | Some v => set_bucket st b (mkbst (b_rt v) (b_tf v) (b_shapes v)
                                      (slot_write (b_rt v =? RT_FIXED) (bucket_vrl (b_shapes v)) (b_slots v) (year, idx) d))
  end.

Definition ensure_bucket (st : store) (b : list byte) (rt tf : Z) (sh : list shape) : store :=
  match find_bucket st b with Some _ => st | None => set_bucket st b (mkbst rt tf sh []) end.

(** * Master: a flushed write set reaches the primary store as it is *)
Definition master_ws (st : store) (w : ws) : store :=
  apply_write (ensure_bucket st (ws_bucket w) (ws_rt w) (ws_tf w) (ws_shapes w)) (ws_bucket w) (ws_year w) (ws_idx w) (ws_payload w).
Definition master_tg (st : store) (tg : list ws) : store := fold_left master_ws tg st.
Definition master_run (st : store) (tgs : list (list ws)) : store := fold_left master_tg tgs st.

(** * Replica *)
Inductive rres :=
| ROk (st : store)
| RErr (st : store)            (* Replay returned an error; the store as it is then *)
| RPanic
| RUnmodelled.

Record row := mkrow { r_epoch : Z; r_data : list byte; r_nanos : option Z }.
Record cs := mkcs { cs_bucket : list byte; cs_tf : Z; cs_shapes : list shape; cs_rows : list row }.

Definition z : tz := tz_utc.

Definition has_name (n : list byte) (l : list shape) : bool := existsb (fun s => bytes_eqb (sh_name s) n) l.
Definition remove_name (n : list byte) (l : list shape) : list shape :=
  filter (fun s => negb (bytes_eqb (sh_name s) n)) l.

Section Repl.
  (** io.GetIntervalTicks32Bit(t, index, intervalsPerDay) with t in ns *)
  Variable get_ticks : Z -> Z -> Z -> Z.
  (** executor.GetTimeFromTicks(intervalStart (s), intervalsPerDay, ticks) = (sec, nanosec) *)
  Variable time_from_ticks : Z -> Z -> Z -> Z * Z.

  (** uint32(utils.Day.Seconds() / tf.Duration.Seconds()) for a timeframe of whole seconds that is at most a day *)
  Definition ipd_of (tf : Z) : Z := wrap U32 (86400 / (tf / NS)).

  (** serializeVariableRecords: one row per varRecLen bytes; every row carries ITS OWN decoded second and
      nanoseconds (fix: "replay variable-length records with the second GetTimeFromTicks returns") *)
  Definition var_rows (epoch ipd vrl : Z) (payload : list byte) : list row :=
    map (fun rec =>
           let n := length rec in
           let '(s, ns) := time_from_ticks epoch ipd (rec_ticks rec) in
           mkrow (wrap I64 s) (firstn (n - 4) rec) (Some (wrap I32 ns)))
        (chunks (length payload) (Z.to_nat vrl) payload).

  Inductive cres := COk (c : cs) | CErr | CPanic | CUnmodelled.

  Definition wtset_to_cs (w : ws) : cres :=
    if ws_tf w =? 0 then CPanic                                   (* IndexToTime: fine; TimeToIndex later divides *)
    else
      let epoch := sec_of (IndexToTime z (ws_idx w) (ws_tf w) (ws_year w)) in
      if ws_rt w =? RT_FIXED then
        if has_name nanos_name (ws_shapes w) then CUnmodelled       (* GetTime would add that column to the Epoch *)
        else if Z.of_nat (length (ws_payload w)) =? rowsize (ws_shapes w) - 8
        then COk (mkcs (ws_bucket w) (ws_tf w) (ws_shapes w) [mkrow epoch (ws_payload w) None])
        else CUnmodelled
      else if ws_rt w =? RT_VARIABLE then
        if ws_vrl w =? 0 then CErr
        else if (ws_vrl w =? rowsize (ws_shapes w) - 8 + 4) && (4 <=? ws_vrl w)
                && (Z.of_nat (length (ws_payload w)) mod ws_vrl w =? 0)
        then COk (mkcs (ws_bucket w) (ws_tf w) (ws_shapes w ++ [nanos_shape])
                       (var_rows epoch (ipd_of (ws_tf w)) (ws_vrl w) (ws_payload w)))
        else CUnmodelled
      else CErr.

  (** ColumnSeries.GetTime: time.Unix(secs, nanos) *)
  Definition row_time (r : row) : Z := r_epoch r * NS + match r_nanos r with Some n => n | None => 0 end.

  (** the bytes of the row without Epoch, as cs.ToRowSeries lays them out *)
  Definition row_bytes (keep_nanos : bool) (r : row) : list byte :=
    r_data r ++ match r_nanos r with Some n => if keep_nanos then le_bytes 4 n else [] | None => [] end.


  (** GetMissingAndTypeCoercionColumns + the length test: 0 ok, 1 error, 2 coercion needed (unmodelled) *)
  Definition schema_check (db csd : list shape) : Z :=
    if negb (length db =? length csd)%nat then 1
    else if forallb (fun d => existsb (shape_eqb d) csd) db then 0
    else if forallb (fun d => has_name (sh_name d) csd) db then 2 else 1.

  (** WriteRecords: one command per run of consecutive rows with the same (index, prevYear) *)
  Record wcmd := mkwcmd { wc_year : Z; wc_idx : Z; wc_data : list byte }.

  Fixpoint group_rows (fixed : bool) (ipd : Z) (tf : Z) (prev_idx prev_year : Z) (cur : wcmd)
           (rows : list (Z * list byte)) : Res (list wcmd) :=
    match rows with
    | [] => Ok [cur]
    | (t, d) :: rest =>
        let year := year_of z t in
        match TimeToIndex z t tf with
        | Ok idx =>
            let d' := if fixed then d else d ++ le_bytes 4 (get_ticks t idx ipd) in
            if (idx =? prev_idx) && (year =? prev_year) then
              group_rows fixed ipd tf prev_idx prev_year
                         (mkwcmd (wc_year cur) (wc_idx cur) (if fixed then d' else wc_data cur ++ d')) rest
            else
              do l <- group_rows fixed ipd tf idx prev_year (mkwcmd year idx d') rest;
              Ok (cur :: l)
        | _ => Panic
        end
    end.

  Definition write_records (fixed : bool) (ipd tf : Z) (rows : list (Z * list byte)) : Res (list wcmd) :=
    match rows with
    | [] => Ok []
    | (t, d) :: rest =>
        match TimeToIndex z t tf with
        | Ok idx =>
            let year := year_of z t in
            let d' := if fixed then d else d ++ le_bytes 4 (get_ticks t idx ipd) in
            group_rows fixed ipd tf idx year (mkwcmd year idx d') rest
        | _ => Panic
        end
    end.

  (** Writer.WriteCSM for a one-bucket csm *)
  Definition write_csm (flag : bool) (st : store) (c : cs) : rres :=
    let times := map row_time (cs_rows c) in
    let had_nanos := has_name nanos_name (cs_shapes c) in
    let shapes := if flag then remove_name nanos_name (cs_shapes c) else cs_shapes c in
    let keep := negb flag in
    match find_bucket st (cs_bucket c), cs_rows c with
    | None, [] => ROk st                                            (* len(t) == 0: continue *)
    | fb, _ =>
        let st1 := match fb with
                   | Some _ => st
                   | None => ensure_bucket st (cs_bucket c) (if flag then RT_VARIABLE else RT_FIXED) (cs_tf c) shapes
                   end in
        match find_bucket st1 (cs_bucket c) with
        | None => RPanic
        | Some v =>
            match schema_check (b_shapes v) shapes with
            | 0 =>
                let fixed := b_rt v =? RT_FIXED in
                if negb fixed && negb (b_rt v =? RT_VARIABLE) then RUnmodelled
                else if b_tf v =? 0 then RPanic
                else
                  match write_records fixed (utils_Day / b_tf v) (cs_tf c)
                                      (combine times (map (row_bytes keep) (cs_rows c))) with
                  | Ok cmds =>
                      ROk (fold_left (fun s w => apply_write s (cs_bucket c) (wc_year w) (wc_idx w) (wc_data w)) cmds st1)
                  | _ => RPanic
                  end
            | 1 => RErr st1
            | _ => RUnmodelled
            end
        end
    end.

  (** Replay: every set is written with ITS OWN record type as the variable-length flag
      (fix: "replay each write set of a transaction group with its own record type") *)
  Fixpoint replay_sets (st : store) (sets : list ws) : rres :=
    match sets with
    | [] => ROk st
    | w :: rest =>
        match wtset_to_cs w with
        | COk c =>
            match write_csm (ws_rt w =? RT_VARIABLE) st c with
            | ROk st' => replay_sets st' rest
            | r => r
            end
        | CErr => RErr st
        | CPanic => RPanic
        | CUnmodelled => RUnmodelled
        end
    end.

  Definition replay_tg (st : store) (tg : list ws) : rres := replay_sets st tg.

  (** replication.Receiver.Run (receiver.go:40-62): the replica applies the transmitted TGs in order and
      STOPS at the first replay error ("There will be data inconsistency between master and replica") *)
  Fixpoint replica_run (st : store) (tgs : list (list ws)) : rres :=
    match tgs with
    | [] => ROk st
    | tg :: rest =>
        match replay_tg st tg with
        | ROk st' => replica_run st' rest
        | r => r
        end
    end.

  (** * Query view: the rows a full-range query returns for a bucket.
      Slot 0 exists only for 1D buckets (January 1st: the 1D index is YearDay-1); IndexToOffset(0) lies
      inside the file header and no read plan covers it (C30's finding daily-jan1-slot0), so whatever was
      written there is invisible -- on the master and on the replica alike. *)
  Record qrow := mkqrow { q_time : Z; q_data : list byte }.      (* ns since the epoch, columns without Epoch/Nanoseconds *)

  Definition slot_rows (v : bst) (k : Z * Z) (d : list byte) : list qrow :=
    let start := IndexToTime z (snd k) (b_tf v) (fst k) in
    if b_rt v =? RT_FIXED then [mkqrow start d]
    else
      let vrl := bucket_vrl (b_shapes v) in
      map (fun rec =>
             let n := length rec in
             let '(s, ns) := time_from_ticks (sec_of start) (utils_Day / b_tf v) (rec_ticks rec) in
             mkqrow (s * NS + ns) (firstn (n - 4) rec))
          (chunks (length d) vrl d).

  Definition query (st : store) (b : list byte) : option (list qrow) :=
    match find_bucket st b with
    | None => None
    | Some v => Some (flat_map (fun kd => if 1 <=? snd (fst kd) then slot_rows v (fst kd) (snd kd) else []) (b_slots v))
    end.

  (** * "The replica has converged to the master": same buckets with the same record type and columns, and
      every bucket's full-range query returns the same number of rows with the same column bytes; FIXED
      rows at the same time, VARIABLE rows within twice the bucket's resolution (one tick = interval / 2^32,
      rounded up to whole nanoseconds) *)
  Definition step_ns (tf : Z) : Z := (tf + 4294967295) / 4294967296.
  Fixpoint all2 {A B} (f : A -> B -> bool) (a : list A) (b : list B) : bool :=
    match a, b with
    | [], [] => true
    | x :: a', y :: b' => f x y && all2 f a' b'
    | _, _ => false
    end.
  (** same rows up to the tolerance: every row of [a] is matched by its own row of [b] (same column bytes, time
      within [tol]); records closer than the resolution may come back in another order *)
  Fixpoint remove_close (tol : Z) (x : qrow) (l : list qrow) : option (list qrow) :=
    match l with
    | [] => None
    | y :: r =>
        if (Z.abs (q_time x - q_time y) <=? tol) && bytes_eqb (q_data x) (q_data y) then Some r
        else match remove_close tol x r with Some r' => Some (y :: r') | None => None end
    end.
  Fixpoint close_rows (tol : Z) (a b : list qrow) : bool :=
    match a with
    | [] => match b with [] => true | _ => false end
    | x :: a' => match remove_close tol x b with Some b' => close_rows tol a' b' | None => false end
    end.

  Definition convergedb (sm sr : store) : bool :=
    (length sm =? length sr)%nat &&
    forallb (fun bv =>
               match find_bucket sr (fst bv) with
               | None => false
               | Some v' =>
                   let v := snd bv in
                   (b_rt v =? b_rt v') && shapes_eqb (b_shapes v) (b_shapes v') &&
                   match query sm (fst bv), query sr (fst bv) with
                   | Some l, Some l' => close_rows (if b_rt v =? RT_FIXED then 0 else 2 * step_ns (b_tf v)) l l'
                   | _, _ => false
                   end
               end) sm.

  (** * Boolean guards of the guarded theorems (evaluated on every harness case) *)
  Definition tf_okb (tf : Z) : bool :=
    (0 <? tf) && (tf <=? utils_Day) && (utils_Day mod tf =? 0) && (tf mod NS =? 0).

  (** (year, index) name a slot: the interval start maps back to them *)
  Definition idx_okb (w : ws) : bool :=
    let t0 := IndexToTime z (ws_idx w) (ws_tf w) (ws_year w) in
    match TimeToIndex z t0 (ws_tf w) with
    | Ok i => (i =? ws_idx w) && (year_of z t0 =? ws_year w)
    | _ => false
    end.

  Definition bucket_fitsb (st : store) (w : ws) : bool :=
    match find_bucket st (ws_bucket w) with
    | None => true
    | Some v => (b_rt v =? ws_rt w) && (b_tf v =? ws_tf w) && shapes_eqb (b_shapes v) (ws_shapes w)
    end.

  Definition fixed_okb (st : store) (w : ws) : bool :=
    (ws_rt w =? RT_FIXED) && tf_okb (ws_tf w) && negb (has_name nanos_name (ws_shapes w))
    && (Z.of_nat (length (ws_payload w)) =? rowsize (ws_shapes w) - 8)
    && idx_okb w && bucket_fitsb st w.

  (** the time GetTimeFromTicks decodes from a record's ticks, in ns *)
  Definition rec_time (epoch ipd : Z) (rec : list byte) : Z :=
    let '(s, ns) := time_from_ticks epoch ipd (rec_ticks rec) in wrap I64 s * NS + wrap I32 ns.

  (** every record's decoded time lies in the record's own interval *)
  Definition time_okb (w : ws) : bool :=
    let t0 := IndexToTime z (ws_idx w) (ws_tf w) (ws_year w) in
    forallb (fun rec => let d := rec_time (sec_of t0) (ipd_of (ws_tf w)) rec - t0 in (0 <=? d) && (d <? ws_tf w))
            (chunks (length (ws_payload w)) (Z.to_nat (ws_vrl w)) (ws_payload w)).

  Definition var_wfb (st : store) (w : ws) : bool :=
    (ws_rt w =? RT_VARIABLE) && tf_okb (ws_tf w) && negb (has_name nanos_name (ws_shapes w))
    && (ws_vrl w =? rowsize (ws_shapes w) - 8 + 4) && (4 <=? ws_vrl w)
    && (Z.of_nat (length (ws_payload w)) mod ws_vrl w =? 0) && (ws_vrl w <=? Z.of_nat (length (ws_payload w)))
    && idx_okb w && bucket_fitsb st w.

  Definition var_okb (st : store) (w : ws) : bool := var_wfb st w && time_okb w.

  (** what the replica makes of one VARIABLE record: the columns, and the ticks RE-ENCODED from the time the
      master's ticks decode to *)
  Definition retick_rec (epoch ipd idx ipd_b : Z) (rec : list byte) : list byte :=
    firstn (length rec - 4) rec ++ le_bytes 4 (get_ticks (rec_time epoch ipd rec) idx ipd_b).

  Definition retick_ws (w : ws) : ws :=
    let epoch := sec_of (IndexToTime tz_utc (ws_idx w) (ws_tf w) (ws_year w)) in
    mkws (ws_rt w) (ws_bucket w) (ws_tf w) (ws_year w) (ws_idx w)
         (concat (map (retick_rec epoch (ipd_of (ws_tf w)) (ws_idx w) (utils_Day / ws_tf w))
                      (chunks (length (ws_payload w)) (Z.to_nat (ws_vrl w)) (ws_payload w))))
         (ws_vrl w) (ws_shapes w).

  Definition retick (w : ws) : ws := if ws_rt w =? RT_VARIABLE then retick_ws w else w.

  (** a well-formed write set, FIXED or VARIABLE; a transaction group may mix them *)
  Definition ws_okb (st : store) (w : ws) : bool := fixed_okb st w || var_okb st w.
  Fixpoint tg_okb (st : store) (tg : list ws) : bool :=
    match tg with [] => true | w :: r => ws_okb st w && tg_okb (master_ws st (retick w)) r end.
  Fixpoint run_okb (st : store) (tgs : list (list ws)) : bool :=
    match tgs with [] => true | tg :: r => tg_okb st tg && run_okb (master_tg st (map retick tg)) r end.
End Repl.
