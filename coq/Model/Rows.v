(** Model of utils/io/columnseries.go:544 SerializeColumnsToRows (as called by ToRowSeries, i.e. with
    the column series' own data shapes) and utils/io/rowseries.go:35 Rows.GetColumn /
    datatypes.go get<T>Column.  Column values are raw little-endian bytes exactly as SwapSliceData
    exposes them, so "value" = bit pattern and no float semantics is involved.

    Go function                      model
    ------------------------------   ------------------------------
    EnumElementType.Size             tsize            (table attr_size: GENERATED from attributeMap)
    AlignedSize                      AlignedSize      (GENERATED from metadata.go)
    EnumElementType.SliceInBytesAt   elem
    SerializeColumnsToRows           serialize
    Rows.GetRowLen/SetRowLen         row_len
    Rows.GetNumRows                  num_rows
    Rows.GetColumn                   get_column
*)
From Coq Require Import ZArith NArith List Bool Lia.
From Coq.Strings Require Import Byte.
Import ListNotations.
Require Import MS.Base.GoInt MS.Base.Res MS.Base.Hex MS.Generated.Src_io.

Record col := mkcol { cname : list byte; ctype : Z; cdata : list byte }.

Fixpoint zlookup (l : list (Z * Z)) (k : Z) : Z :=
  match l with [] => 0%Z | (k', v) :: r => if Z.eqb k k' then v else zlookup r k end.

(** attributeMap[e].size; a missing key yields Go's zero value 0. *)
Definition tsize (t : Z) : nat := Z.to_nat (zlookup attr_size t).

(** the types Rows.GetColumn has a case for *)
Definition getcol_supported (t : Z) : bool :=
  existsb (Z.eqb t)
    [ET_FLOAT32; ET_FLOAT64; ET_INT16; ET_INT32; ET_INT64; ET_UINT8; ET_UINT16; ET_UINT32; ET_UINT64;
     ET_STRING16; ET_BOOL; ET_BYTE].

Definition epoch_name : list byte := [x45; x70; x6f; x63; x68].   (* "Epoch" *)
Definition is_epoch_name (n : list byte) : bool := equal_fold_ascii n epoch_name.

(** Go slice expression l[off : off+len]; out of range panics. *)
Definition slice (l : list byte) (off len : nat) : Res (list byte) :=
  if (off + len <=? length l)%nat then Ok (firstn len (skipn off l)) else Panic.

Definition elem (sz : nat) (d : list byte) (i : nat) : Res (list byte) := slice d (i * sz) sz.

(** inner loop over the data shapes for row [i] (Epoch-like names are skipped with EqualFold) *)
Fixpoint ser_cols (cols : list col) (i : nat) : Res (list byte) :=
  match cols with
  | [] => Ok []
  | c :: r =>
      if is_epoch_name (cname c) then ser_cols r i
      else do w <- elem (tsize (ctype c)) (cdata c) i;
           do rest <- ser_cols r i;
           Ok (w ++ rest)
  end.

Fixpoint ser_rows (ec : list byte) (cols : list col) (pad : nat) (i n : nat) : Res (list byte) :=
  match n with
  | O => Ok []
  | S n' =>
      do e <- elem 8 ec i;
      do w <- ser_cols cols i;
      do rest <- ser_rows ec cols pad (S i) n';
      Ok (e ++ w ++ repeat x00 pad ++ rest)
  end.

Definition sum_sizes (cols : list col) : nat := fold_right (fun c a => tsize (ctype c) + a)%nat 0%nat cols.

Definition aligned (n : nat) : nat := Z.to_nat (AlignedSize (Z.of_nat n)).

(** SerializeColumnsToRows(cs, cs.GetDataShapes(), align) *)
Definition serialize (cols : list col) (align : bool) : Res (list byte * nat) :=
  if negb (existsb (fun c => is_epoch_name (cname c)) cols) then Rejected
  else
    let rl0 := sum_sizes cols in
    let rl := if align then aligned rl0 else rl0 in
    match find (fun c => bytes_eqb (cname c) epoch_name) cols with   (* cs.columns["Epoch"].([]int64) *)
    | None => Rejected
    | Some ec =>
        if negb (Z.eqb (ctype ec) ET_INT64) then Rejected
        else
          do data <- ser_rows (cdata ec) cols (rl - rl0) 0 (length (cdata ec) / 8);
          Ok (data, rl)
    end.

(** reader side *)
Definition shapes (cols : list col) : list (list byte * Z) := map (fun c => (cname c, ctype c)) cols.

Definition sum_shape_sizes (sh : list (list byte * Z)) : nat :=
  fold_right (fun s a => tsize (snd s) + a)%nat 0%nat sh.

(** NewRowSeries -> SetRowLen(recordLen): never below the sum of the shapes' sizes *)
Definition row_len (sh : list (list byte * Z)) (rl : nat) : nat := Nat.max rl (sum_shape_sizes sh).

Definition num_rows (data : list byte) (rl : nat) : nat :=
  if (rl =? 0)%nat || (length data =? 0)%nat then 0%nat else (length data / rl)%nat.

Fixpoint get_rows (data : list byte) (cursor reclen sz n : nat) : Res (list byte) :=
  match n with
  | O => Ok []
  | S n' =>
      do w <- slice data cursor sz;
      do rest <- get_rows data (cursor + reclen) reclen sz n';
      Ok (w ++ rest)
  end.

(** offset search of Rows.GetColumn: a shape whose name matches but whose type has no case falls
    through [default] and the loop continues WITHOUT advancing the offset. *)
Fixpoint find_off (sh : list (list byte * Z)) (name : list byte) (off : nat) : option (nat * Z) :=
  match sh with
  | [] => None
  | (n, t) :: r =>
      if bytes_eqb n name then
        (if getcol_supported t then Some (off, t) else find_off r name off)
      else find_off r name (off + tsize t)
  end.

(** Rows.GetColumn: None = nil (no such column) *)
Definition get_column (sh : list (list byte * Z)) (data : list byte) (rl : nat) (name : list byte)
  : Res (option (Z * list byte)) :=
  let rl' := row_len sh rl in
  match find_off sh name 0 with
  | None => Ok None
  | Some (off, t) =>
      do d <- get_rows data off rl' (tsize t) (num_rows data rl');
      Ok (Some (t, d))
  end.

(** Well-formed column series for the round-trip theorem, as a boolean predicate:
    Epoch (int64) first; names pairwise distinct (AddColumn guarantees it); no other column is
    case-insensitively named "epoch"; every type has a GetColumn case; all columns have [n] values;
    the record length is far from the int64 range. *)
Fixpoint nodup_names (l : list (list byte)) : bool :=
  match l with
  | [] => true
  | x :: r => negb (existsb (bytes_eqb x) r) && nodup_names r
  end.

Definition wf_csb (cols : list col) (n : nat) : bool :=
  match cols with
  | [] => false
  | ec :: rest =>
      bytes_eqb (cname ec) epoch_name && Z.eqb (ctype ec) ET_INT64
      && nodup_names (map cname cols)
      && forallb (fun c => negb (is_epoch_name (cname c))) rest
      && forallb (fun c => getcol_supported (ctype c)) cols
      && forallb (fun c => (length (cdata c) =? n * tsize (ctype c))%nat) cols
      && (Z.of_nat (sum_sizes cols) <? 1000000)%Z
  end.
