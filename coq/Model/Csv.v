(** Model of the CSV import (property C33).

    Go function (file:line at HEAD)                                 model
    -------------------------------------------------------------   -----------------------------
    csv.Reader.Read (encoding/csv, NOT modelled)                     the event stream [list ev]: a record,
                                                                     or an error other than io.EOF; the end
                                                                     of the list is io.EOF
    CSVtoNumpyMulti read loop        cmd/connect/loader/utils.go:43  read_chunk  (io.EOF ends the input; any other
                                                                     Read error is returned — fix 85c538e)
    CSVtoNumpyMulti                  utils.go:35                     chunk_step
    convertCSVtoCSM                  utils.go:228                    conv_chunk  (time failure => error — fix 4016039)
    readTimeColumns / parseTime      read.go:11 / time.go:10         conv_times / parse_timestamp
                                                                     (timeFormat "timestamp" only)
    columnSeriesMapFromCSVData       write.go:11                     conv_cols  (`if index != 0` skip)
    get<T>ColumnFromCSVRows          write.go:108-243                conv_col / parse_cell
    strconv.ParseInt/ParseUint/ParseBool (base 10)                   parse_int / parse_uint / parse_bool
    strconv.ParseFloat (NOT modelled)                                section oracle [pfloat]
    session Client.load loop         cmd/connect/session/load.go:54  load

    Outside the model: time layouts other than "timestamp", the Epoch-date/Epoch-time composition,
    STRING/STRING16 columns, ReadMetadata's column mapping (the mapping it produced is an input,
    [c_cols]); an out-of-range csv column index (unreachable through csv.Reader, whose
    FieldsPerRecord check makes every record as long as the header) is treated as a parse failure. *)
From Coq Require Import String ZArith NArith List Bool Lia.
From Coq.Strings Require Import Byte.
Import ListNotations.
Require Import MS.Base.GoInt MS.Base.Res MS.Base.Hex MS.Base.Bytes MS.Generated.Src_io MS.Generated.Src_wire.

Definition field := list byte.
Definition row := list field.

Inductive ev := ERow (r : row) | EErr.

(** * strconv, base 10 *)
Definition is_digit (b : byte) : bool := let n := Byte.to_N b in (48 <=? n)%N && (n <=? 57)%N.

Fixpoint digits_val (s : list byte) (acc : Z) : option Z :=
  match s with
  | [] => Some acc
  | b :: r => if is_digit b then digits_val r (10 * acc + (Z_of_byte b - 48))%Z else None
  end.

(** ParseUint(s, 10, bits) *)
Definition parse_uint (bits : Z) (s : list byte) : option Z :=
  match s with
  | [] => None
  | _ => match digits_val s 0%Z with
         | Some v => if (v <? 2 ^ bits)%Z then Some v else None
         | None => None
         end
  end.

(** ParseInt(s, 10, bits): optional sign, digits, range *)
Definition parse_int (bits : Z) (s : list byte) : option Z :=
  match s with
  | [] => None
  | b :: r =>
      let '(neg, body) := if Byte.eqb b x2d then (true, r) else if Byte.eqb b x2b then (false, r) else (false, s) in
      match body with
      | [] => None
      | _ => match digits_val body 0%Z with
             | Some v =>
                 if neg then (if (v <=? 2 ^ (bits - 1))%Z then Some (- v)%Z else None)
                 else (if (v <? 2 ^ (bits - 1))%Z then Some v else None)
             | None => None
             end
      end
  end.

Definition bool_true : list (list byte) :=
  map bytes_of_string ["1"; "t"; "T"; "TRUE"; "true"; "True"]%string.
Definition bool_false : list (list byte) :=
  map bytes_of_string ["0"; "f"; "F"; "FALSE"; "false"; "False"]%string.
Definition parse_bool (s : list byte) : option Z :=
  if existsb (bytes_eqb s) bool_true then Some 1%Z
  else if existsb (bytes_eqb s) bool_false then Some 0%Z else None.

(** strings.Split(s, ".") *)
Fixpoint split_dot_aux (s cur : list byte) : list (list byte) :=
  match s with
  | [] => [rev cur]
  | b :: r => if Byte.eqb b x2e then rev cur :: split_dot_aux r [] else split_dot_aux r (b :: cur)
  end.
Definition split_dot (s : list byte) : list (list byte) := split_dot_aux s [].

(** parseTime with format "timestamp", then rowTime.UTC().Unix() / Nanosecond():
    sec = ParseInt(parts[0]); nsec = int64(math.Pow10(9 - len(parts[1]))) * ParseInt(parts[1]);
    time.Unix normalises a negative nsec *)
Definition parse_timestamp (s : list byte) : option (Z * Z) :=
  match split_dot s with
  | [] => None
  | p0 :: rest =>
      match parse_int 64 p0 with
      | None => None
      | Some sec =>
          match rest with
          | [] => Some (sec, 0%Z)
          | p1 :: _ =>
              match parse_int 64 p1 with
              | None => None
              | Some frac =>
                  let l := Z.of_nat (length p1) in
                  let mult := if (l <=? 9)%Z then (10 ^ (9 - l))%Z else 0%Z in   (* int64(Pow10(negative)) = 0 *)
                  let nsec := wrap I64 (mult * frac) in
                  if (nsec <? 0)%Z then Some (wrap I64 (sec - 1), (nsec + 1000000000)%Z) else Some (sec, nsec)
              end
          end
      end
  end.

Section WithFloat.
  (** strconv.ParseFloat(s, bits) followed by the conversion the loader applies, as little-endian
      bytes of the stored value; [None] = parse error.  bits is 32 or 64. *)
  Variable pfloat : Z -> list byte -> option (list byte).

  (** one cell of a column of element type [t] *)
  Definition parse_cell (t : Z) (s : list byte) : option (list byte) :=
    if Z.eqb t ET_FLOAT32 then pfloat 32 s
    else if Z.eqb t ET_FLOAT64 then pfloat 64 s
    else if Z.eqb t ET_BYTE then option_map (le_bytes 1) (parse_int 8 s)
    else if Z.eqb t ET_INT16 then option_map (le_bytes 2) (parse_int 16 s)
    else if Z.eqb t ET_INT32 then option_map (le_bytes 4) (parse_int 32 s)
    else if Z.eqb t ET_INT64 then option_map (le_bytes 8) (parse_int 64 s)
    else if Z.eqb t ET_UINT8 then option_map (le_bytes 1) (parse_uint 8 s)
    else if Z.eqb t ET_UINT16 then option_map (le_bytes 2) (parse_uint 16 s)
    else if Z.eqb t ET_UINT32 then option_map (le_bytes 4) (parse_uint 32 s)
    else if Z.eqb t ET_UINT64 then option_map (le_bytes 8) (parse_uint 64 s)
    else if Z.eqb t ET_BOOL then option_map (le_bytes 1) (parse_bool s)
    else None.

  Fixpoint mapM {A B} (f : A -> option B) (l : list A) : option (list B) :=
    match l with
    | [] => Some []
    | x :: r => match f x with
                | None => None
                | Some y => match mapM f r with None => None | Some ys => Some (y :: ys) end
                end
    end.

  (** import configuration: the csv column holding the time, and for every bucket column after Epoch
      its element type and csv column (ReadMetadata's ColumnIndex) *)
  Record cfg := mkcfg { c_time : nat; c_cols : list (Z * nat); c_chunk : nat }.

  Definition cell (r : row) (i : nat) : option field := nth_error r i.

  Definition time_of (c : cfg) (r : row) : option (Z * Z) :=
    match cell r (c_time c) with Some s => parse_timestamp s | None => None end.

  Definition cell_of (t : Z) (i : nat) (r : row) : option (list byte) :=
    match cell r i with Some s => parse_cell t s | None => None end.

  (** a loaded dataset, column-wise: (epoch, nanoseconds) per row, and per bucket column the cell bytes *)
  Record ds := mkds { d_times : list (Z * Z); d_cols : list (list (list byte)) }.

  (** columnSeriesMapFromCSVData skips a shape whose csv column is 0 ("the Epoch, parsed independently") *)
  Definition used_cols (c : cfg) : list (Z * nat) := filter (fun p => negb (snd p =? 0)%nat) (c_cols c).

  Definition conv_cols (c : cfg) (rows : list row) : option (list (list (list byte))) :=
    mapM (fun p => mapM (cell_of (fst p) (snd p)) rows) (used_cols c).

  (** io.NewNumpyDataset refuses a column whose element type has no type string in typeMap (BOOL) *)
  Definition has_typestr (t : Z) : bool := existsb (fun p => Z.eqb (fst p) t) type_map.
  Definition wire_ok (c : cfg) : bool := forallb (fun p => has_typestr (fst p)) (used_cols c).

  (** convertCSVtoCSM + NewNumpyDataset *)
  Definition conv_chunk (c : cfg) (rows : list row) : Res ds :=
    match mapM (time_of c) rows with
    | None => Rejected                    (* "error building time columns from csv data" *)
    | Some ts => match conv_cols c rows with
                 | None => Rejected
                 | Some cs => if wire_ok c then Ok (mkds ts cs) else Rejected
                 end
    end.

  (** the read loop: up to [n] records; io.EOF ends the input, any other Read error is returned *)
  Fixpoint read_chunk (evs : list ev) (n : nat) {struct n} : Res (list row * list ev * bool) :=
    match n with
    | O => Ok ([], evs, false)
    | S n' =>
        match evs with
        | [] => Ok ([], [], true)
        | EErr :: _ => Rejected
        | ERow r :: rest => do x <- read_chunk rest n'; let '(rows, rest', e) := x in Ok (r :: rows, rest', e)
        end
    end.

  Fixpoint zip_app (a b : list (list (list byte))) : list (list (list byte)) :=
    match a, b with
    | x :: a', y :: b' => (x ++ y) :: zip_app a' b'
    | _, _ => []
    end.
  Definition ds_app (a b : ds) : ds := mkds (d_times a ++ d_times b) (zip_app (d_cols a) (d_cols b)).
  Definition ds_empty (c : cfg) : ds := mkds [] (map (fun _ => []) (used_cols c)).

  Inductive outcome := Loaded (d : ds) | Error | Crash.

  (** session.load's loop; every non-nil dataset is written (appended to what is loaded) *)
  Fixpoint load_loop (c : cfg) (fuel : nat) (evs : list ev) (acc : ds) : outcome :=
    match fuel with
    | O => Loaded acc
    | S fuel' =>
        match read_chunk evs (c_chunk c) with
        | Panic => Crash
        | Rejected => Error                      (* the csv read error is returned *)
        | Ok (rows, rest, ended) =>
            match rows with
            | [] => Loaded acc                   (* (nil, true, nil): nothing to write, end reached *)
            | _ => match conv_chunk c rows with
                   | Panic => Crash
                   | Rejected => Error
                   | Ok d => if (ended : bool) then Loaded (ds_app acc d) else load_loop c fuel' rest (ds_app acc d)
                   end
            end
        end
    end.

  Definition load (c : cfg) (evs : list ev) : outcome := load_loop c (S (length evs)) evs (ds_empty c).

  (** * specification side *)
  Fixpoint rows_of (evs : list ev) : list row :=
    match evs with [] => [] | ERow r :: rest => r :: rows_of rest | EErr :: rest => rows_of rest end.
  Definition no_err (evs : list ev) : bool := forallb (fun e => match e with ERow _ => true | EErr => false end) evs.
  Definition times_ok (c : cfg) (evs : list ev) : bool :=
    forallb (fun r => match time_of c r with Some _ => true | None => false end) (rows_of evs).

  (** every row converted (timestamps and cells parsed), independent of any chunking *)
  Definition conv_spec (c : cfg) (rows : list row) : option ds :=
    match mapM (time_of c) rows, conv_cols c rows with
    | Some ts, Some cs => Some (mkds ts cs)
    | _, _ => None
    end.

  (** every data row of the file loaded with its parsed values *)
  Definition all_loaded (c : cfg) (evs : list ev) (d : ds) : Prop :=
    no_err evs = true /\ conv_spec c (rows_of evs) = Some d.
End WithFloat.
