(** Go's [time.Time] exactly as the query path uses it, for an instance timezone of UTC
    (utils.InstanceConfig.Timezone = time.UTC, the default; the harness runs with TZ=UTC so
    time.Local, used by metadata.go nanosecondsInYear, is UTC too).

    A [time.Time] without monotonic reading is (ext, nsec): ext = int64 seconds since 0001-01-01
    ("internal" seconds), nsec in [0, 1e9).  All int64 operations wrap explicitly.

    Go (go1.23 src/time/time.go)            here
    -------------------------------------   -------------------------------
    time.Unix(sec, nsec)                    go_unix
    Time.Unix()                             t_unix
    Time.Equal / Before / After             t_eq / t_before / t_after      (sec then nsec)
    Time.abs() / absDate -> year, yday      go_days, t_year, t_yday0       (via Base/Civil.v)
    time.Date(y, January, 1+n, 0,0,0,0,UTC) go_jan_day y n   (go_jan1 y = go_jan_day y 0)
    Time.Sub (saturating)                   t_sub
    Time.Add                                t_add
    utils/io/timeindex.go TimeToIndex       TimeToIndex
    utils/io/timeindex.go IndexToTime       IndexToTime
    utils/io/timeindex.go TimeToOffset      TimeToOffset     (same expression as IndexToOffset: GENERATED)
    utils/io/metadata.go nanosecondsInYear  nanosecondsInYear
    utils/io/metadata.go FileSize           file_size        (FileSize: GENERATED, extern nanosecondsInYear)

    The calendar part (year / day-of-year of a day number, days before a year) is Base/Civil.v, which
    is stated on mathematical integers; [go_days] maps Go's wrapped uint64 "absolute seconds" to a day
    number relative to 1970-01-01, so the wrap of out-of-range instants (time.Unix(math.MaxInt64, 0),
    the default upper bound of the query API) is in the model.  Stdlib behaviour is not proved; it is
    compared with the real [time] package on every run (Corr/C11.v, time cases). *)
From Coq Require Import ZArith List Bool Lia.
Import ListNotations.
Require Import MS.Base.GoInt MS.Base.Civil MS.Generated.Src_query.
Local Open Scope Z_scope.

Definition unixToInternal : Z := 62135596800.
Definition internalToAbsolute : Z := 9223371966579724800.
(** (unixToInternal + internalToAbsolute) / 86400: the absolute day number of 1970-01-01 *)
Definition absDayOfUnixEpoch : Z := 106751991073094.
Definition nsPerSec : Z := 1000000000.
Definition minDuration : Z := - 2 ^ 63.
Definition maxDuration : Z := 2 ^ 63 - 1.

Record gtime := mkT { g_ext : Z; g_ns : Z }.

(** time.Unix(sec, nsec): nsec is normalised into [0, 1e9) carrying into sec (int64 wrap) *)
Definition go_unix (sec nsec : Z) : gtime :=
  mkT (wrap I64 (wrap I64 (sec + nsec / nsPerSec) + unixToInternal)) (nsec mod nsPerSec).

Definition t_unix (t : gtime) : Z := wrap I64 (g_ext t - unixToInternal).

Definition t_eq (a b : gtime) : bool := (g_ext a =? g_ext b) && (g_ns a =? g_ns b).
Definition t_before (a b : gtime) : bool :=
  (g_ext a <? g_ext b) || ((g_ext a =? g_ext b) && (g_ns a <? g_ns b)).
Definition t_after (a b : gtime) : bool := t_before b a.
(** t.Equal(u) || t.After(u)   and   t.Equal(u) || t.Before(u) *)
Definition t_ge (a b : gtime) : bool := t_eq a b || t_after a b.
Definition t_le (a b : gtime) : bool := t_eq a b || t_before a b.

(** day number relative to 1970-01-01 of Go's uint64 absolute seconds *)
Definition go_days (t : gtime) : Z :=
  ((g_ext t + internalToAbsolute) mod 2 ^ 64) / 86400 - absDayOfUnixEpoch.
Definition t_year (t : gtime) : Z := year_of_days (go_days t).
Definition t_yday0 (t : gtime) : Z := yday_of_days (go_days t).     (* YearDay() - 1 *)

Definition go_jan_day (y n : Z) : gtime := mkT (wrap I64 (86400 * (dby y + n) + unixToInternal)) 0.
Definition go_jan1 (y : Z) : gtime := go_jan_day y 0.

(** Time.Sub: the difference when it fits an int64 of nanoseconds, else saturated *)
Definition t_sub (t u : gtime) : Z :=
  let d := (g_ext t - g_ext u) * nsPerSec + (g_ns t - g_ns u) in
  if (minDuration <=? d) && (d <=? maxDuration) then d
  else if t_before t u then minDuration else maxDuration.

(** Time.Add(d) *)
Definition t_add (t : gtime) (d : Z) : gtime :=
  let dsec := Z.quot d nsPerSec in
  let ns := g_ns t + Z.rem d nsPerSec in
  if nsPerSec <=? ns then mkT (wrap I64 (g_ext t + (dsec + 1))) (ns - nsPerSec)
  else if ns <? 0 then mkT (wrap I64 (g_ext t + (dsec - 1))) (ns + nsPerSec)
  else mkT (wrap I64 (g_ext t + dsec)) ns.

(** utils/io/timeindex.go:32 TimeToIndex (tf = time.Duration in ns; tf = 0 would panic, never modelled) *)
Definition TimeToIndex (t : gtime) (tf : Z) : Z :=
  if tf =? utils_Day then wrap I64 (t_yday0 t)
  else wrap I64 (1 + Z.quot (t_sub t (go_jan1 (t_year t))) tf).

(** utils/io/timeindex.go:11 IndexToTime(index, tf, year int16) *)
Definition IndexToTime (index tf year : Z) : gtime :=
  if tf =? utils_Day then go_jan_day year index
  else t_add (go_jan1 year) (wrap I64 (tf * wrap I64 (index - 1))).

(** utils/io/timeindex.go:50 TimeToOffset *)
Definition TimeToOffset (t : gtime) (tf recsize : Z) : Z := IndexToOffset (TimeToIndex t tf) recsize.

(** utils/io/metadata.go:37 *)
Definition nanosecondsInYear (year : Z) : Z := t_sub (go_jan1 (year + 1)) (go_jan1 year).
Definition file_size (tf year recsize : Z) : Z := FileSize nanosecondsInYear tf year recsize.

(** total nanoseconds since the Unix epoch of an un-normalised (sec, nsec) pair: the "full-precision
    timestamp" of the property statement *)
Definition tns (sec nsec : Z) : Z := sec * nsPerSec + nsec.
