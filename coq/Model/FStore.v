(** Fixed-length bucket storage: write path and read path, at the level
    (year file -> byte offset of the slot -> (stored index, row bytes)).

    Go function                                          model
    --------------------------------------------------   -------------------------------
    executor/writer.go:67  Writer.WriteRecords           write_records / wr_loop  (as of /repo commit 49eddda:
                                                          prevYear follows every new command)
    executor/writer.go:44  formatRecord (fixed)           the payload = row bytes after the 8-byte Epoch
    executor/wal.go:190    WriteCommand                   cmd
    executor/wal.go:380    writeFixedBuffer /
    executor/writer.go:149 WriteBufferToFile              apply_cmd  (WriteAt(index ++ payload, offset))
    catalog/catalog.go:417 GetSubDirectoryAndAddFile      add_year   (a year file exists once a row of that
                                                          year was seen by WriteRecords, or at creation)
    utils/io/timeindex.go:54 IndexToOffset                Src_fstore.IndexToOffset  (GENERATED)
    utils/io/timeindex.go:50 TimeToOffset                 TimeToOffset
    utils/io/metadata.go:44 FileSize                      FileSize
    executor/scanner.go:57 NewIOPlan                      plan       (per year file: Offset, Length)
    executor/scanner.go:417 packingReader                 slot_rows  (index <> 0 test, epoch rewritten from
                                                          the STORED index with IndexToTime)
    executor/scanner.go:486 readForward + read (FIRST)    fwd        (clip at limitBytes after each file)
    executor/scanner.go:525 readBackward + read (LAST)    bwd        (fill from the right, file by file)
    planner/planner.go:200 Query.Parse (one key)          Rejected when the bucket has no year file
    frontend/query.go:304  QueryService.ExecuteQuery      query

    Not in the model (exercised by the correspondence only): the 8192-record chunking of
    packingReader/readBackward/seekBackward, buffile (>= 100 writes to one file in one flush), the
    WAL bytes.  Domain: UTC; epoch seconds in [0, tmax); the record length is small enough that no
    int64 offset wraps; an unlimited result below 2^31 bytes; recLen < ~1000 so that the pseudo
    slot at Headersize - recLen (1D buckets, range starting on Jan 1) lies in the zero-filled tail
    of the header. *)
From Coq Require Import ZArith List Bool Lia.
From Coq.Strings Require Import Byte.
Import ListNotations.
Require Import MS.Base.GoInt MS.Base.Res MS.Base.SortedAList MS.Generated.Src_io MS.Generated.Src_fstore MS.Model.UTime.
Local Open Scope Z_scope.

Definition row := (Z * list byte)%type.      (* epoch second, row bytes after the Epoch column *)

Record cmd := mkcmd { c_year : Z; c_off : Z; c_idx : Z; c_data : list byte }.

(** the command WriteRecords builds for a row that starts a new command *)
Definition cmd_of (tfs recLen : Z) (r : row) : cmd :=
  let idx := TimeToIndex tfs (fst r) in
  mkcmd (year_of (fst r)) (IndexToOffset idx recLen) idx (snd r).

Definition set_data (c : cmd) (d : list byte) : cmd := mkcmd (c_year c) (c_off c) (c_idx c) d.

(** WriteRecords, rows 1.. : [y0] = prevYear, [prevIndex] (both of the row that started the command
    under construction [cc]).  Emits the queued commands in order.  (Before /repo commit 49eddda
    prevYear stayed at the first row's year — finding prevyear-misfire, now `fixed:`.) *)
Fixpoint wr_loop (tfs recLen y0 prevIndex : Z) (cc : cmd) (rows : list row) : list cmd :=
  match rows with
  | [] => [cc]
  | r :: rest =>
      let idx := TimeToIndex tfs (fst r) in
      if (idx =? prevIndex) && (year_of (fst r) =? y0)
      then wr_loop tfs recLen y0 prevIndex (set_data cc (snd r)) rest      (* cc.Data = outBuf *)
      else cc :: wr_loop tfs recLen (year_of (fst r)) idx (cmd_of tfs recLen r) rest
  end.

Definition write_records (tfs recLen : Z) (rows : list row) : list cmd :=
  match rows with
  | [] => []
  | r :: rest => wr_loop tfs recLen (year_of (fst r)) (TimeToIndex tfs (fst r)) (cmd_of tfs recLen r) rest
  end.

(** one stored slot: ((year file, byte offset), (stored index, payload)).  The read path is generic in
    the payload [A]: row bytes for a fixed bucket; for a variable bucket the slot is the 24-byte
    {index, offset, len} triple, abstracted to the records it points to (Model/VRead.v). *)
Definition entryA (A : Type) : Type := ((Z * Z) * (Z * A))%type.
Definition entry := entryA (list byte).
Record storeA (A : Type) := mkstore { s_years : list Z; s_data : list (entryA A) }.
Arguments mkstore {A} _ _.
Arguments s_years {A} _.
Arguments s_data {A} _.
Definition store := storeA (list byte).
Definition empty_store : store := mkstore [] [].

Definition apply_cmd (s : list entry) (c : cmd) : list entry :=
  ins kcmp (c_year c, c_off c) (c_idx c, c_data c) s.

Definition add_year (ys : list Z) (y : Z) : list Z := if existsb (Z.eqb y) ys then ys else y :: ys.

(** Writer.WriteCSM for one fixed bucket (schema already matching), followed by the synchronous flush *)
Definition write_fixed (tfs recLen : Z) (st : store) (rows : list row) : store :=
  mkstore (fold_left add_year (map (fun r => year_of (fst r)) rows) (s_years st))
          (fold_left apply_cmd (write_records tfs recLen rows) (s_data st)).

(** * read path *)
Definition TimeToOffset (tfs t recLen : Z) : Z := IndexToOffset (TimeToIndex tfs t) recLen.
Definition FileSize (tfs y recLen : Z) : Z := Headersize + nslots tfs y * recLen.

(** int16(planner.MaxTime.Year()) — the end year of an unbounded range *)
Definition max_year16 : Z := 30579.
Definition end_year (re : option Z) : Z := match re with Some e => year_of e | None => max_year16 end.

(** NewIOPlan for the year file [y]: Some (Offset, Length) when the file is date-qualified *)
Definition plan (tfs recLen rs : Z) (re : option Z) (y : Z) : option (Z * Z) :=
  if (year_of rs <=? y) && (y <=? end_year re) then
    let so := if y =? year_of rs then TimeToOffset tfs rs recLen else Headersize in
    let eo := match re with
              | Some e => if y =? year_of e then TimeToOffset tfs e recLen + recLen else FileSize tfs y recLen
              | None => FileSize tfs y recLen
              end in
    let len := eo - so in
    let maxlen := (FileSize tfs y recLen - Headersize) + recLen in
    Some (so, if maxlen <? len then maxlen else len)
  else None.

(** the slots packingReader visits: offsets o, o+recLen, ... while a whole slot fits in Length *)
Definition in_plan (recLen o len off : Z) : bool :=
  (o <=? off) && (off + recLen <=? o + len) && ((off - o) mod recLen =? 0).

Section Read.
Context {A : Type}.

Definition stamp (tfs : Z) (e : entryA A) : Z * A :=
  (IndexToTime (fst (snd e)) tfs (fst (fst e)), snd (snd e)).

(** packed rows of one year file, ascending offset *)
Definition slot_rows (tfs recLen rs : Z) (re : option Z) (s : list (entryA A)) (y : Z) : list (Z * A) :=
  match plan tfs recLen rs re y with
  | None => []
  | Some (o, len) =>
      map (stamp tfs)
          (filter (fun e => (fst (fst e) =? y) && in_plan recLen o len (snd (fst e))
                            && negb (fst (snd e) =? 0)) s)
  end.

(** sort.Sort(SortedFileList): years ascending (years are distinct, so the unstable sort is a function) *)
Fixpoint insert_year (y : Z) (l : list Z) : list Z :=
  match l with [] => [y] | x :: r => if y <=? x then y :: l else x :: insert_year y r end.
Definition sort_years (l : list Z) : list Z := fold_right insert_year [] l.

Definition is_some {B} (o : option B) : bool := match o with Some _ => true | None => false end.

(** per-file packed rows of the qualified files, ascending year *)
Definition file_rows (tfs recLen rs : Z) (re : option Z) (st : storeA A) : list (list (Z * A)) :=
  map (slot_rows tfs recLen rs re (s_data st))
      (filter (fun y => is_some (plan tfs recLen rs re y)) (sort_years (s_years st))).

(** forward scan: after each file, clip the accumulated result to [n] rows and stop *)
Fixpoint fwd (n : nat) (acc : list (Z * A)) (files : list (list (Z * A))) : list (Z * A) :=
  match files with
  | [] => acc
  | f :: r => let acc' := acc ++ f in
              if (n <=? length acc')%nat then firstn n acc' else fwd n acc' r
  end.

Definition lastn {B} (n : nat) (l : list B) : list B := skipn (length l - n) l.

(** backward scan over the files in descending year: [left] rows still to fill, [acc] the filled
    right part of the result buffer *)
Fixpoint bwd (left : nat) (acc : list (Z * A)) (files_desc : list (list (Z * A))) : list (Z * A) :=
  match files_desc with
  | [] => acc                                    (* resultBuffer[bytesLeftToFill:] *)
  | f :: r => if (length f <? left)%nat then bwd (left - length f) (f ++ acc) r
              else lastn left f ++ acc           (* finished *)
  end.

Inductive dir := First | Last.

Definition max_int32 : Z := 2147483647.

(** QueryService.ExecuteQuery on one fixed bucket.  [lim] = (direction, RowLimit.Number) *)
Definition query (tfs recLen : Z) (st : storeA A) (rs : Z) (re : option Z) (lim : option (dir * Z))
  : Res (list (Z * A)) :=
  match s_years st with
  | [] => Rejected                               (* "no files returned from query parse" *)
  | _ =>
      let files := file_rows tfs recLen rs re st in
      match lim with
      | None => Ok (concat files)
      | Some (d, n) =>
          let n32 := wrap I32 n in
          if n32 =? max_int32 then
            match d with First => Ok (concat files) | Last => Rejected end
          else
            let lb := wrap I32 (recLen * n32) in          (* limitBytes *)
            if lb <? 0 then Panic                         (* slice / makeslice with a negative length *)
            else match d with
                 | First => Ok (fwd (Z.to_nat (lb / recLen)) [] files)
                 | Last => Ok (bwd (Z.to_nat (lb / recLen)) [] (rev files))
                 end
      end
  end.

End Read.

(** the all-time query of property C08: start = Unix(0,0), end = planner.MaxTime, no limit *)
Definition query_all (tfs recLen : Z) (st : store) : Res (list row) := query tfs recLen st 0 None None.

(** * guards (executable) *)

(** F2: a daily bar dated January 1 gets index 0 *)
Definition no_index0 (tfs : Z) (rows : list row) : bool :=
  forallb (fun r => negb (TimeToIndex tfs (fst r) =? 0)) rows.

Definition rows_valid (rows : list row) : bool := forallb (fun r => valid_time (fst r)) rows.

Definition valid_reclen (recLen : Z) : bool := (16 <=? recLen) && (recLen <? 1048576).

(** * timeframe rewriting of ExecuteQuery (frontend/query.go:313-319, utils/timeframe.go:188)
    utils.Timeframes in source order, as seconds (as of /repo commit d275195, which moved "4H"
    behind "2H"; before it a 4H request was answered from the 2H bucket).  QueryableTimeframe walks
    the table from the END and returns the first entry dividing the requested duration. *)
Definition timeframes_s : list Z := [1; 10; 30; 60; 300; 900; 1800; 3600; 7200; 14400; 86400].
Definition queryable_tfs (d : Z) : Z :=
  match find (fun x => d mod x =? 0) (rev timeframes_s) with Some x => x | None => 86400 end.

(** the all-time query through ExecuteQuery when the catalog holds just this bucket *)
Definition query_bucket_all (tfs recLen : Z) (st : store) : Res (list row) :=
  if queryable_tfs tfs =? tfs then query_all tfs recLen st else Rejected.

(** the guard of the C08 theorem: the defect class daily-jan1-index0 is excluded;
    [queryable_tfs tfs =? tfs] holds for every entry of utils.Timeframes since d275195
    (Properties/C08.v C08_timeframes_queryable) *)
Definition guard_C08 (tfs recLen : Z) (reqs : list (list row)) : bool :=
  valid_tf tfs && valid_reclen recLen && (queryable_tfs tfs =? tfs)
  && forallb (fun rows => rows_valid rows && no_index0 tfs rows) reqs.
