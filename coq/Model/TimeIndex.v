(** Model of utils/io/timeindex.go (TimeToIndex :31, IndexToTime :11, EpochToIndex :46, TimeToOffset :50,
    IndexToOffset :54, EpochToOffset :58) and utils/io/metadata.go (nanosecondsInYear :37, FileSize :44).

    Instants are [Z] nanoseconds since the Unix epoch, zones are transition tables (Base/Tz.v),
    durations are [Z] nanoseconds (time.Duration = int64).  The configured zone
    utils.InstanceConfig.Timezone is the parameter [z]; FileSize uses time.Local, parameter [loc].

    Go                                    model
    -----------------------------------   ---------------------------------------------
    utils.Day                             utils_Day            (GENERATED, Src_time)
    io.Headersize                         Headersize           (GENERATED, Src_io)
    IndexToOffset                         IndexToOffset        (GENERATED, Src_time)
    FileSize                              Src_time.FileSize    (GENERATED, nanosecondsInYear a parameter)
    nanosecondsInYear                     nanosecondsInYear
    TimeToIndex / EpochToIndex            TimeToIndex / EpochToIndex
    IndexToTime                           IndexToTime
    TimeToOffset / EpochToOffset          TimeToOffset / EpochToOffset

    Quirks kept: the 1D index is YearDay-1 (0-based) while every other timeframe's index is 1-based,
    and IndexToOffset subtracts 1 from both; the integer division is Go's truncating one; a zero
    timeframe panics (integer divide by zero); FileSize measures the year in time.Local, not in the
    configured zone.  Time.Sub saturates at +-2^63 ns: never reached within one year, not modelled.
    UTC users: instantiate [z := tz_utc] (see the _utc lemmas in Proofs/TimeIndex_facts.v). *)
From Coq Require Import ZArith List Bool Lia.
Import ListNotations.
Require Import MS.Base.GoInt MS.Base.Res MS.Base.Civil MS.Base.Tz MS.Generated.Src_io MS.Generated.Src_time.
Local Open Scope Z_scope.

Definition IndexToOffset := Src_time.IndexToOffset.

(** TimeToIndex(t, tf) *)
Definition TimeToIndex (z : tz) (t tf : Z) : Res Z :=
  if tf =? utils_Day then Ok (wrap I64 (yearday z t - 1))
  else if tf =? 0 then Panic
  else Ok (wrap I64 (1 + wrap I64 (Z.quot (t - year_start z (year_of z t)) tf))).

(** IndexToTime(index, tf, year) *)
Definition IndexToTime (z : tz) (index tf year : Z) : Z :=
  let t0 := year_start z year in
  if tf =? utils_Day then add_days z t0 index
  else t0 + wrap I64 (tf * wrap I64 (index - 1)).

Definition EpochToIndex (z : tz) (epoch tf : Z) : Res Z := TimeToIndex z (epoch * NS) tf.

Definition TimeToOffset (z : tz) (t tf recsize : Z) : Res Z :=
  do i <- TimeToIndex z t tf; Ok (IndexToOffset i recsize).

Definition EpochToOffset (z : tz) (epoch tf recsize : Z) : Res Z :=
  do i <- EpochToIndex z epoch tf; Ok (IndexToOffset i recsize).

(** nanosecondsInYear(year), in time.Local = [loc] *)
Definition nanosecondsInYear (loc : tz) (year : Z) : Z :=
  year_start loc (year + 1) - year_start loc year.

(** FileSize(tf, year, recordSize) *)
Definition FileSize (loc : tz) (tf year recsize : Z) : Res Z :=
  if tf =? 0 then Panic else Ok (Src_time.FileSize (nanosecondsInYear loc) tf year recsize).

(** the on-disk timeframes (utils.Timeframes) *)
Definition timeframe_durations : list Z := map snd Timeframes.
Definition is_timeframe (tf : Z) : bool := existsb (Z.eqb tf) timeframe_durations.

(** a timeframe that tiles the day *)
Definition divides_day (tf : Z) : bool := (0 <? tf) && (utils_Day mod tf =? 0).

(** boolean guards of the C30 theorems, evaluated on every harness case:
    both local-midnight ends of year [y] are shown exactly once by the clock of [z] (Tz.cross_okb),
    carry offsets within a day, and the two offsets are equal (the year is 365/366 days long) *)
Definition year_okb (z : tz) (y : Z) : bool :=
  cross_okb z (dby y * SPD) && cross_okb z (dby (y + 1) * SPD)
  && off_okb (day_off z (dby y)) && off_okb (day_off z (dby (y + 1)))
  && (day_off z (dby y) =? day_off z (dby (y + 1))).

(** the local midnights bounding t's calendar day are regular (not inside a DST gap or overlap) *)
Definition day_okb (z : tz) (t : Z) : bool :=
  cross_okb z (local_days z t * SPD) && cross_okb z ((local_days z t + 1) * SPD).
