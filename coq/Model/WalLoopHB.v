(** Happens-before over schedules of the WalLoop LTS, for the data-race clause of C18.

    Shared variables of the flush protocol: haveWALWriter (executor/wal.go; written by the SyncWAL
    goroutine at its start and in its shutdown branch, read by every RequestFlush) and *shutdownPending
    (written by Shutdown, read by the loop at the top of every iteration).  Go's memory model orders two
    accesses only through program order and synchronisation edges.  The synchronisation objects are the
    three channels — writeChannel (writer -> flusher), flushChannel (writer -> loop), each token channel f
    (loop <-> its writer, unbuffered) — and, since the fix of F18 (known_findings.txt), the RWMutex
    walFlagsMu inside which EVERY access to the two flags happens: critical sections of one mutex are
    totally ordered, an earlier one happens-before a later one.  [edge] has that mutex edge under the
    switch [mutexed]; with [mutexed = false] it is the relation of the code before the fix, kept to state
    the regression (C18_race_before_fix).

    [hb ls i j] OVER-approximates happens-before between the labels at positions i < j of a schedule:
    program order of every goroutine, plus an edge from EVERY earlier send on a channel to EVERY later
    receive step on the same channel (the true relation only links a send to the receive that takes
    that very element).  More edges mean fewer races, so a pair this relation leaves unordered is
    unordered in the real relation as well: [races] never reports a false race (no vector clocks needed). *)
From Coq Require Import List Arith Bool.
Import ListNotations.
Require Import MS.Model.WalLoop.

Inductive thread := TW (w : nat) | TL | TEnv.
Definition thread_eqb (a b : thread) : bool :=
  match a, b with TW x, TW y => x =? y | TL, TL => true | TEnv, TEnv => true | _, _ => false end.

Inductive chanid := CWrite | CFlush | CTok.   (* token channels are merged: an over-approximation again *)
Definition chan_eqb (a b : chanid) : bool :=
  match a, b with CWrite, CWrite | CFlush, CFlush | CTok, CTok => true | _, _ => false end.

(** which goroutines take part in a label (LAckL is the rendezvous of the loop with the token's owner;
    the owner is not named by the label, so it is attributed to the loop and, conservatively, to every writer) *)
Definition in_thread (l : label) (t : thread) : bool :=
  match l, t with
  | Enq w, TW x | RdHave w _, TW x | SendTok w, TW x | InlFl w, TW x => w =? x
  | LAckL, TW _ => true
  | (LStart | LRecv | LTick | LCkpt | LFl | LAckL | LShut | LShutC), TL => true
  | EnvShut, TEnv => true
  | _, _ => false
  end.
Definition same_thread (a b : label) (nw : nat) : bool :=
  existsb (fun t => in_thread a t && in_thread b t) (TL :: TEnv :: map TW (seq 0 nw)).

Definition sends_on (l : label) : option chanid :=
  match l with Enq _ => Some CWrite | SendTok _ => Some CFlush | LAckL => Some CTok | _ => None end.
Definition recvs_on (l : label) : option chanid :=
  match l with LFl | InlFl _ => Some CWrite | LRecv => Some CFlush | LAckL => Some CTok | _ => None end.

Inductive acc := ARead | AWrite.
(** accesses to haveWALWriter *)
Definition have_access (l : label) : option acc :=
  match l with RdHave _ _ => Some ARead | LStart | LShut => Some AWrite | _ => None end.
(** accesses to *shutdownPending: the loop reads it at the top of every iteration — every return to the
    select, modelled at the labels that end an iteration *)
Definition shut_access (l : label) : option acc :=
  match l with EnvShut => Some AWrite | LShut | LAckL | LCkpt => Some ARead | _ => None end.
(** the label contains a critical section of walFlagsMu *)
Definition flag_access (l : label) : bool :=
  match have_access l, shut_access l with None, None => false | _, _ => true end.

Definition edge (mutexed : bool) (a b : label) (nw : nat) : bool :=
  same_thread a b nw ||
  match sends_on a, recvs_on b with Some c, Some d => chan_eqb c d | _, _ => false end ||
  (mutexed && flag_access a && flag_access b).

(** reach.(j) for the prefix processed so far: positions that happen-before position j *)
Fixpoint hb_from (mx : bool) (nw : nat) (src : label) (rest : list label) (reached : list (label * bool)) : list bool :=
  match rest with
  | [] => map snd reached
  | l :: r =>
      let r_here := edge mx src l nw || existsb (fun p => snd p && edge mx (fst p) l nw) reached in
      hb_from mx nw src r (reached ++ [(l, r_here)])
  end.
(** hb ls i = for each j > i whether ls[i] happens-before ls[j] *)
Definition hb_row (mx : bool) (nw : nat) (ls : list label) (i : nat) : list bool :=
  match skipn i ls with
  | src :: rest => hb_from mx nw src rest []
  | [] => []
  end.

Definition conflicting (a b : option acc) : bool :=
  match a, b with
  | Some AWrite, Some _ | Some _, Some AWrite => true
  | _, _ => false
  end.

(** pairs (i, j), i < j, of conflicting accesses by different goroutines that are not ordered *)
Definition races (mx : bool) (access : label -> option acc) (nw : nat) (ls : list label) : list (nat * nat) :=
  flat_map (fun i =>
    let li := nth i ls LCkpt in
    let row := hb_row mx nw ls i in
    flat_map (fun k =>
      let j := i + 1 + k in
      let lj := nth j ls LCkpt in
      if conflicting (access li) (access lj) && negb (same_thread li lj nw) && negb (nth k row false)
      then [(i, j)] else []) (seq 0 (length row)))
  (seq 0 (length ls)).
