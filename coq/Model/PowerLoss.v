(** Model/PowerLoss.v — power loss at the level of the protocol's events (Model/FS.v's [pl_image] lifted).

    At crash point [k] a DATA write (WAL append, WAL status write, fixed-slot pwrite, variable data block,
    index triple) is durable iff a barrier covering it was issued after it and before [k]: an fsync of the
    same WAL file, or a global sync.  A write that is not durable may be lost.  Metadata (file creation,
    truncation, rename, unlink) is ordered and durable.  File LENGTHS are not durable beyond the durable data
    (variant "lengths follow data"): losing a WAL append loses every later append to that file, losing a data
    block of a variable file leaves a short file.  The other variant (lengths durable, lost data reads as
    zeros) needs the byte-level scanner (a zero length field makes Replay panic: C06's class) and is not
    modelled here.  Tearing inside one write is explored by the harness on the byte level only. *)
From Coq Require Import ZArith NArith List Bool Lia.
Import ListNotations.
Require Import MS.Base.Res MS.Model.Wal MS.Model.Replay.
Local Open Scope Z_scope.

Definition is_data_write (e : event) : bool :=
  match e with
  | EWalApp _ _ | EWalStatus _ _ _ _ | EPW _ _ _ _ | EVData _ _ _ _ | EVIndex _ _ _ _ _ => true
  | _ => false
  end.

(** does barrier [b] make write [e] durable? *)
Definition covers_write (e b : event) : bool :=
  match b with
  | ESync => true
  | EWalFsync w => match e with EWalApp w' _ | EWalStatus w' _ _ _ => N.eqb w w' | _ => false end
  | _ => false
  end.

(** [e] at position [i] is durable at crash point [k] of [tr] *)
Definition durable_at (tr : list event) (i k : nat) (e : event) : bool :=
  negb (is_data_write e) || existsb (covers_write e) (firstn (k - S i) (skipn (S i) tr)).

(** the events that reach the disk: position by position; [drop i] = the write at position i is lost *)
Fixpoint pl_from (rest full : list event) (i k : nat) (drop : nat -> bool) : list event :=
  match rest with
  | [] => []
  | e :: r =>
      if (i <? k)%nat then
        (if drop i && negb (durable_at full i k e) then [] else [e]) ++ pl_from r full (S i) k drop
      else []
  end.
Definition pl_events (tr : list event) (k : nat) (drop : nat -> bool) : list event := pl_from tr tr 0 k drop.
Definition pl_img (tr : list event) (k : nat) (drop : nat -> bool) : img := apply_events img0 (pl_events tr k drop).

(** lengths follow data: a lost append to WAL [w] takes every later append to [w] with it *)
Definition wal_of_append (e : event) : option wid := match e with EWalApp w _ => Some w | _ => None end.
Definition suffix_closed (tr : list event) (k : nat) (drop : nat -> bool) : bool :=
  forallb (fun i =>
    match nth_error tr i with
    | Some (EWalApp w _) =>
        negb (drop i) ||
        forallb (fun j => match nth_error tr j with
                          | Some (EWalApp w' _) => negb (N.eqb w w') || drop j
                          | _ => true end) (seq (S i) (k - S i))
    | _ => true
    end) (seq 0 k).
