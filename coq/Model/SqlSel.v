(** Model of SQL projection, alias, LIMIT and INSERT INTO (C20), on top of Model/Sql.v (WHERE, C19).

    Go functions mirrored here (quirks included):
      sqlparser/selectrelation.go:49-614        SelectRelation.Materialize: IsFalse exit (a series with NO columns),
                                                 SourceValidator, LIMIT pushed to the scan only when there is no
                                                 static predicate, EARLY RETURN of the unprojected series when the scan
                                                 is empty, post-filter, Project(keepList), Rename(alias, primary) per
                                                 aliased item in select-list order, RestrictLength(limit, FIRST) when
                                                 limit != 0 (LIMIT 0 is indistinguishable from no LIMIT)
      sqlparser/selectrelation.go:892-941       SourceValidator (every selected name must be a source column or Epoch)
      utils/io/columnseries.go:131-169          ColumnSeries.Rename: the source column must exist; an existing column
                                                 named like the alias is REMOVED first; names are replaced in place
      utils/io/columnseries.go:181-194          Remove: drops every ordered name that EqualFolds the target, deletes
                                                 the exact key
      utils/io/columnseries.go:196-215          Project: ordered names = keepList (duplicates kept), map = kept columns
      utils/io/columnseries.go:217-225 + generics.go:191-218   RestrictLength / DownSizeSlice (FIRST)
      sqlparser/insertintostatement.go:31-121   InsertIntoStatement.Materialize: nothing written for an empty result;
                                                 the target's columns (or the INSERT column list) must all be present in
                                                 the result; Project to them; executor.WriteCSM
      executor/writer.go:262-365                WriteCSM on a fixed-length bucket, as the slot map it produces: a row
                                                 lands in the slot of the target timeframe containing its Epoch (the
                                                 later row wins), and reads back with the slot's start time

    A ColumnSeries is [tbl]: the ordered names plus the name -> column map (association list). *)
From Coq Require Import ZArith List Bool String Ascii Lia.
From Flocq Require Import IEEE754.BinarySingleNaN.
Require Import MS.Base.GoInt MS.Base.Res MS.Base.FGen MS.Base.F32 MS.Base.F64.
Require Import MS.Generated.Src_io MS.Generated.Src_sql MS.Model.Sql.
Import ListNotations.
Local Open Scope Z_scope.

(** ---------- ColumnSeries ---------- *)
Record tbl := mktbl { t_names : list string; t_cols : list (string * list cell) }.

Fixpoint assoc {A} (n : string) (l : list (string * A)) : option A :=
  match l with
  | [] => None
  | (k, v) :: r => if String.eqb k n then Some v else assoc n r
  end.
Definition assoc_del {A} (n : string) (l : list (string * A)) : list (string * A) :=
  filter (fun kv => negb (String.eqb (fst kv) n)) l.

Definition t_get (n : string) (t : tbl) : option (list cell) := assoc n (t_cols t).
Definition t_exists (n : string) (t : tbl) : bool := match t_get n t with Some _ => true | None => false end.

(** strings.EqualFold on ASCII names *)
Definition lower_ascii (a : ascii) : ascii :=
  let n := nat_of_ascii a in if ((65 <=? n) && (n <=? 90))%nat then ascii_of_nat (n + 32) else a.
Fixpoint lower (s : string) : string :=
  match s with EmptyString => EmptyString | String a r => String (lower_ascii a) (lower r) end.
Definition eqfold (a b : string) : bool := String.eqb (lower a) (lower b).

(** ColumnSeries.Remove *)
Definition t_remove (target : string) (t : tbl) : option tbl :=
  if t_exists target t
  then Some (mktbl (filter (fun n => negb (eqfold n target)) (t_names t)) (assoc_del target (t_cols t)))
  else None.

(** ColumnSeries.AddColumn (a colliding name gets the suffix "0" on its first collision; never reached from
    Rename, which removes the name first) *)
Definition t_add (n : string) (col : list cell) (t : tbl) : tbl :=
  let n' := if t_exists n t then (n ++ "0")%string else n in
  mktbl (t_names t ++ [n']) ((n', col) :: assoc_del n' (t_cols t)).

(** ColumnSeries.Project *)
Definition t_project (keep : list string) (t : tbl) : tbl :=
  let kept := filter (fun n => t_exists n t) keep in
  mktbl kept (flat_map (fun n => match t_get n t with Some c => [(n, c)] | None => [] end) kept).

(** ColumnSeries.Rename(newName, oldName) *)
Definition t_rename (newn oldn : string) (t : tbl) : Res tbl :=
  match t_get oldn t with
  | None => Rejected
  | Some col =>
      let t1 := if t_exists newn t then (match t_remove newn t with Some x => x | None => t end) else t in
      let new_names := map (fun n => if String.eqb n oldn then newn else n) (t_names t1) in
      let t2 := t_add newn col t1 in
      match t_remove oldn t2 with
      | None => Rejected
      | Some t3 => Ok (mktbl new_names (t_cols t3))
      end
  end.

(** RestrictLength(n, FIRST): every column of the map is cut to its first n elements *)
Definition t_restrict (n : nat) (t : tbl) : tbl :=
  mktbl (t_names t) (map (fun kv => (fst kv, firstn n (snd kv))) (t_cols t)).

(** what a client sees: for each ordered name, GetColumn(name) (nil when the map has no such key) *)
Definition t_view (t : tbl) : list (string * option (list cell)) := map (fun n => (n, t_get n t)) (t_names t).

(** the series the reader hands to Materialize: Epoch then the schema's columns; each column is the image of
    the rows under the column's getter *)
Fixpoint getters_from (j : nat) (sc : schema) : list (string * (row -> cell)) :=
  match sc with
  | [] => []
  | (n, _) :: r => (n, fun rw => nth j (r_vals rw) (VI 0)) :: getters_from (S j) r
  end.
Definition getters (sc : schema) : list (string * (row -> cell)) :=
  (epoch_name, fun rw => VI (r_epoch rw)) :: getters_from 0 sc.
Definition cs_of (sc : schema) (rows : list row) : tbl :=
  mktbl (map fst (getters sc)) (map (fun nf => (fst nf, map (snd nf) rows)) (getters sc)).

(** ---------- the SELECT ---------- *)
Definition sel_item := (string * option string)%type.          (* PrimaryName, alias *)
Inductive sel := SelAll | SelList (l : list sel_item).

Definition out_name (it : sel_item) : string := match snd it with Some a => a | None => fst it end.

Fixpoint apply_renames (l : list sel_item) (t : tbl) : Res tbl :=
  match l with
  | [] => Ok t
  | (p, Some a) :: r => do t' <- t_rename a p t; apply_renames r t'
  | (_, None) :: r => apply_renames r t
  end.

(** [limit] is sr.Limit (0 = no LIMIT clause or LIMIT 0) *)
Definition materialize_q (tfs : Z) (sc : schema) (rows : list row) (ps : list pred) (s : sel) (limit : Z) : Res tbl :=
  let g := build_group ps in
  if existsb (fun ks => is_false (snd ks)) g then Ok (mktbl [] [])
  else
    let all := epoch_name :: map fst sc in
    let keep := match s with SelAll => [] | SelList l => map fst l end in
    if negb (forallb (fun n => existsb (String.eqb n) all) keep) then Rejected      (* "Query columns not found" *)
    else
      do se <- pushdown g;
      let scanned0 := scan tfs (fst se) (snd se) rows in
      (* LIMIT is pushed to the reader only when there is no static predicate at all *)
      let scanned := match g with [] => if limit =? 0 then scanned0 else firstn (Z.to_nat limit) scanned0 | _ => scanned0 end in
      match scanned with
      | [] => Ok (cs_of sc [])                                   (* returned as read: NOT projected *)
      | _ =>
          let eb := match g_get epoch_name g with
                    | Some sp => ep_bitmap sp (map r_epoch scanned)
                    | None => falses (List.length scanned)
                    end in
          let kept := restrict (bm_or eb (map (fun r => rm_row g sc (r_vals r)) scanned)) scanned in
          let t0 := cs_of sc kept in
          do t1 <- match s with
                   | SelAll => Ok t0
                   | SelList l => apply_renames l (t_project keep t0)
                   end;
          Ok (if limit =? 0 then t1 else t_restrict (Z.to_nat limit) t1)
      end.

(** ---------- specification: the relational SELECT ---------- *)
Definition col_of (sc : schema) (rows : list row) (n : string) : list cell :=
  match t_get n (cs_of sc rows) with Some c => c | None => [] end.

(** [lim] is the LIMIT clause as written (None = absent) *)
Definition spec_rows (sc : schema) (rows : list row) (ps : list pred) (lim : option nat) : list row :=
  let f := spec_select sc rows ps in
  match lim with None => f | Some n => firstn n f end.

Definition spec_q (sc : schema) (rows : list row) (ps : list pred) (s : sel) (lim : option nat)
  : list (string * option (list cell)) :=
  let rs := spec_rows sc rows ps lim in
  match s with
  | SelAll => map (fun n => (n, Some (col_of sc rs n))) (epoch_name :: map fst sc)
  | SelList l => map (fun it => (out_name it, Some (col_of sc rs (fst it)))) l
  end.

Definition lim_int (lim : option nat) : Z := match lim with None => 0 | Some n => Z.of_nat n end.

(** ---------- INSERT INTO t SELECT ... (target: fixed-length bucket with timeframe [ttfs]) ---------- *)
Fixpoint lww (e : Z) (vals : list cell) (store : list row) : list row :=
  match store with
  | [] => [mkrow e vals]
  | r :: rest =>
      if e <? r_epoch r then mkrow e vals :: store
      else if e =? r_epoch r then mkrow e vals :: rest
      else r :: lww e vals rest
  end.

Definition trunc_tf (ttfs e : Z) : Z := e - e mod ttfs.

(** rows of a projected result table, in target column order: (Epoch, values) *)
Fixpoint tbl_rows (n : nat) (epochs : list cell) (cols : list (list cell)) : list (Z * list cell) :=
  match n with
  | O => []
  | S n' =>
      let rest := tbl_rows n' (tl epochs) (map (@tl cell) cols) in
      match epochs with
      | VI e :: _ => (e, map (fun c => hd (VI 0) c) cols) :: rest
      | _ => rest
      end
  end.

(** [tsc] target schema; [tnames] the columns to fill (INSERT column list, else Epoch + all target columns) *)
Definition insert_into (ttfs : Z) (tsc : schema) (tstore : list row) (tnames : list string) (res : tbl) : Res (list row) :=
  match t_names res with
  | [] => Ok tstore                                              (* Len() = 0 : nothing returned, nothing written *)
  | n0 :: _ =>
      match t_get n0 res with
      | None => Panic                                             (* reflect.ValueOf(nil).Len() *)
      | Some c0 =>
          if (List.length c0 =? 0)%nat then Ok tstore
          else if negb (forallb (fun n => existsb (String.eqb n) (t_names res)) tnames) then Rejected   (* "Unable to find these columns" *)
          else
            let p := t_project tnames res in
            (* WriteCSM: the projected columns must be exactly Epoch + the bucket's columns, in any order; the rows
               are then laid out in the BUCKET's column order, columns fetched by name (SerializeColumnsToRows with
               the bucket's data shapes, /repo commit 0d39b4d; before it the series' own order was used) *)
            if negb ((List.length (t_names p) =? S (List.length tsc))%nat
                     && forallb (fun n => existsb (String.eqb n) (t_names p)) (epoch_name :: map fst tsc)) then Rejected
            else
              let ep := match t_get epoch_name p with Some c => c | None => [] end in
              let cols := map (fun n => match t_get n p with Some c => c | None => [] end) (map fst tsc) in
              (* WriteCSM starts with cs.GetTime(): the Epoch column must be a []int64 ("unexpected data type for
                 Epoch column"); the model sees float cells, not the width of integer cells *)
              if negb (forallb (fun c => match c with VI _ => true | _ => false end) ep) then Rejected else
              Ok (fold_left (fun st ev => lww (trunc_tf ttfs (fst ev)) (snd ev) st)
                            (tbl_rows (List.length ep) ep cols) tstore)
      end
  end.

(** ---------- specification of INSERT INTO: by column NAME, from the relational SELECT result ---------- *)
Definition view := list (string * option (list cell)).
Definition view_col (v : view) (n : string) : list cell := match assoc n v with Some (Some c) => c | _ => [] end.

Definition write_rows (ttfs : Z) (evs : list (Z * list cell)) (store : list row) : list row :=
  fold_left (fun st ev => lww (trunc_tf ttfs (fst ev)) (snd ev) st) evs store.

Definition spec_insert (ttfs : Z) (tsc : schema) (tstore : list row) (v : view) : list row :=
  let ep := view_col v epoch_name in
  write_rows ttfs (tbl_rows (List.length ep) ep (map (view_col v) (map fst tsc))) tstore.

(** ---------- guards ---------- *)
Definition aliases (l : list sel_item) : list string := flat_map (fun it => match snd it with Some a => [a] | None => [] end) l.

Fixpoint fold_distinct (l : list string) : bool :=
  match l with
  | [] => true
  | x :: r => negb (existsb (eqfold x) r) && fold_distinct r
  end.

Definition count_eq (p : string) (l : list string) : nat := List.length (filter (String.eqb p) l).

(** alias-collision: an alias that (case-insensitively) equals a selected column's name, Epoch or another alias,
    or a column selected twice of which one occurrence is aliased: Rename removes / replaces the wrong columns *)
Definition alias_collision (s : sel) : bool :=
  match s with
  | SelAll => false
  | SelList l =>
      let prims := map fst l in
      negb (forallb (fun a => forallb (fun p => negb (eqfold a p)) (epoch_name :: prims)) (aliases l)
            && fold_distinct (aliases l)
            && forallb (fun it => match snd it with Some _ => (count_eq (fst it) prims =? 1)%nat | None => true end) l)
  end.

(** limit-zero: LIMIT 0 is indistinguishable from no LIMIT and returns every row *)
Definition limit_zero (lim : option nat) : bool := match lim with Some O => true | _ => false end.

Definition sel_wf (sc : schema) (s : sel) : bool :=
  match s with
  | SelAll => true
  | SelList l => negb (match l with [] => true | _ => false end)
                 && forallb (fun it => existsb (String.eqb (fst it)) (epoch_name :: map fst sc)) l
  end.

Definition max_limit : Z := 1000000.

Definition guard_q (tfs : Z) (sc : schema) (rows : list row) (ps : list pred) (s : sel) (lim : option nat) : bool :=
  guard tfs sc rows ps
  && fold_distinct (epoch_name :: map fst sc)
  && sel_wf sc s && negb (alias_collision s) && negb (limit_zero lim)
  && match lim with Some n => Z.of_nat n <=? max_limit | None => true end.

(** the target of an INSERT: an existing fixed-length bucket on the grid of its own timeframe, whose columns
    (names and element types) all occur in the SELECT's result *)
Fixpoint sorted_epochs (l : list row) : bool :=
  match l with
  | a :: ((b :: _) as r) => (r_epoch a <? r_epoch b) && sorted_epochs r
  | _ => true
  end.

Definition sel_type (sc : schema) (s : sel) (n : string) : option Z :=
  let src := match s with
             | SelAll => Some n
             | SelList l => option_map fst (find (fun it => String.eqb (out_name it) n) l)
             end in
  match src with
  | Some p => if String.eqb p epoch_name then Some ET_INT64 else col_type p sc
  | None => None
  end.

Fixpoint strs_eqb (a b : list string) : bool :=
  match a, b with
  | [], [] => true
  | x :: a', y :: b' => String.eqb x y && strs_eqb a' b'
  | _, _ => false
  end.

(** an INSERT column list must name exactly Epoch and the target's columns, in any order
    (a strict subset always fails WriteCSM's length check) *)
Definition insert_list_ok (tsc : schema) (icols : option (list string)) : bool :=
  match icols with
  | None => true
  | Some l => (List.length l =? S (List.length tsc))%nat
              && forallb (fun n => existsb (String.eqb n) l) (epoch_name :: map fst tsc)
              && forallb (fun n => existsb (String.eqb n) (epoch_name :: map fst tsc)) l
  end.

Definition guard_ins (sc : schema) (s : sel) (ttfs : Z) (tsc : schema) (tstore : list row) (icols : option (list string)) : bool :=
  (0 <? ttfs) && nodup_names (epoch_name :: map fst tsc)
  && forallb (fun r => (r_epoch r mod ttfs =? 0) && cells_ok tsc (r_vals r)) tstore && sorted_epochs tstore
  && insert_list_ok tsc icols
  && forallb (fun nt => match sel_type sc s (fst nt) with Some ty => ty =? snd nt | None => false end) tsc
  && match sel_type sc s epoch_name with Some _ => (match s with SelAll => true | SelList l =>
          String.eqb (match find (fun it => String.eqb (out_name it) epoch_name) l with Some it => fst it | None => EmptyString end) epoch_name end)
     | None => false end.
