(** Model/FS.v — the file system as the durability group sees it (DESIGN §5.1).

    Byte level: files are sparse byte maps (a list of written extents, newest first, over zeros) with a length;
    the system calls the server issues on them; [apply]; the PROCESS-CRASH image of a trace = the first k calls
    applied; the POWER-LOSS images = the durable state overlaid with an arbitrary choice, per not-yet-synced
    write, of keep / drop / keep a subset of its 512-byte sectors ([pl_image]).  Metadata operations (create,
    truncate, rename, unlink) are ordered and durable — the property texts speak of file DATA.

    The protocol models (Model/Wal.v, Model/Replay.v) work one level up: one event per system call with a
    structured payload.  The harness re-applies recorded calls to real directories with exactly the rules of
    [apply] (harness/internal/crash/image.go), so a materialised image and a model image are the same object
    built twice; Model/PowerLoss.v lifts the power-loss relation to events. *)
From Coq Require Import ZArith NArith List Bool Lia.
From Coq.Strings Require Import Byte.
Import ListNotations.
Local Open Scope Z_scope.

Definition path := N.

Record bfile := { bf_len : Z; bf_ext : list (Z * list byte) }.   (* extents newest first *)
Definition bfile0 : bfile := {| bf_len := 0; bf_ext := [] |}.

(** byte [i] of a file: the newest extent covering it, else zero (holes and extensions read as zeros) *)
Fixpoint ext_byte (exts : list (Z * list byte)) (i : Z) : byte :=
  match exts with
  | [] => x00
  | (off, bs) :: r =>
      if (off <=? i) && (i <? off + Z.of_nat (length bs)) then nth (Z.to_nat (i - off)) bs x00 else ext_byte r i
  end.
Definition read_byte (f : bfile) (i : Z) : byte := if (0 <=? i) && (i <? bf_len f) then ext_byte (bf_ext f) i else x00.
Definition read_range (f : bfile) (off : Z) (n : nat) : list byte :=
  map (fun j => read_byte f (off + Z.of_nat j)) (seq 0 n).

Inductive sys :=
| SCreat (p : path)                                (* openat(O_CREAT) of a file that did not exist *)
| SWriteAt (p : path) (off : Z) (bs : list byte)   (* write at the tracked offset / pwrite64 *)
| STrunc (p : path) (len : Z)                      (* ftruncate *)
| SRename (p q : path)
| SUnlink (p : path)
| SFsync (p : path)
| SSyncAll.                                        (* sync(2) *)

Definition bfs := list (path * bfile).

Fixpoint flookup (p : path) (fs : bfs) : option bfile :=
  match fs with [] => None | (q, f) :: r => if N.eqb p q then Some f else flookup p r end.
Fixpoint fset (p : path) (f : bfile) (fs : bfs) : bfs :=
  match fs with
  | [] => [(p, f)]
  | (q, g) :: r => if N.eqb p q then (q, f) :: r else (q, g) :: fset p f r
  end.
Fixpoint fdel (p : path) (fs : bfs) : bfs :=
  match fs with [] => [] | (q, g) :: r => if N.eqb p q then r else (q, g) :: fdel p r end.

Definition write_at (f : bfile) (off : Z) (bs : list byte) : bfile :=
  {| bf_len := Z.max (bf_len f) (off + Z.of_nat (length bs)); bf_ext := (off, bs) :: bf_ext f |}.
(** truncation: bytes beyond the new length are gone (a later extension reads zeros) *)
Definition cut_ext (len : Z) (e : Z * list byte) : Z * list byte :=
  let '(off, bs) := e in (off, firstn (Z.to_nat (Z.max 0 (len - off))) bs).
Definition trunc_to (f : bfile) (len : Z) : bfile :=
  {| bf_len := len; bf_ext := map (cut_ext len) (bf_ext f) |}.

Definition apply (fs : bfs) (s : sys) : bfs :=
  match s with
  | SCreat p => match flookup p fs with Some _ => fs | None => fset p bfile0 fs end
  | SWriteAt p off bs => match flookup p fs with Some f => fset p (write_at f off bs) fs | None => fs end
  | STrunc p len => match flookup p fs with Some f => fset p (trunc_to f len) fs | None => fs end
  | SRename p q => match flookup p fs with Some f => fset q f (fdel p fs) | None => fs end
  | SUnlink p => fdel p fs
  | SFsync _ | SSyncAll => fs
  end.
Definition applys (fs : bfs) (tr : list sys) : bfs := fold_left apply tr fs.

(** process crash at [k]: everything issued reached the kernel; all of it is in the image *)
Definition crash_image (tr : list sys) (k : nat) : bfs := applys [] (firstn k tr).

(* ------------------------------------------------------------------ power loss *)

Definition sector : Z := 512.

(** what may become of one not-yet-synced write *)
Inductive fate := Keep | Drop | Torn (keep_sector : Z -> bool).

(** the bytes of a write that survive a tear: whole 512-byte-aligned sectors (of the FILE) are kept or lost;
    a lost sector keeps what was there before, so the write is split into the kept runs *)
Fixpoint torn_runs (off : Z) (bs : list byte) (keep : Z -> bool) (cur : option (Z * list byte)) : list (Z * list byte) :=
  match bs with
  | [] => match cur with Some (o, acc) => [(o, rev acc)] | None => [] end
  | b :: r =>
      if keep (off / sector) then
        match cur with
        | Some (o, acc) => torn_runs (off + 1) r keep (Some (o, b :: acc))
        | None => torn_runs (off + 1) r keep (Some (off, [b]))
        end
      else
        match cur with
        | Some (o, acc) => (o, rev acc) :: torn_runs (off + 1) r keep None
        | None => torn_runs (off + 1) r keep None
        end
  end.

(** the calls a write turns into under a fate *)
Definition fate_calls (p : path) (off : Z) (bs : list byte) (f : fate) : list sys :=
  match f with
  | Keep => [SWriteAt p off bs]
  | Drop => []
  | Torn keep => map (fun '(o, run) => SWriteAt p o run) (torn_runs off bs keep None)
  end.

(** is the write at position [i] of the trace already durable at crash point [k]?  (an fsync of its file or
    a global sync was issued after it and before the crash) *)
Definition synced_after (tr : list sys) (i k : nat) (p : path) : bool :=
  existsb (fun s => match s with SFsync q => N.eqb p q | SSyncAll => true | _ => false end)
          (firstn (k - S i) (skipn (S i) tr)).

(** a power-loss image of the first [k] calls: every call is applied in order; a write that is not yet
    durable is applied according to the fate chosen for its position *)
Fixpoint pl_calls (tr : list sys) (full : list sys) (i k : nat) (fates : nat -> fate) : list sys :=
  match tr with
  | [] => []
  | s :: r =>
      if (i <? k)%nat then
        (match s with
         | SWriteAt p off bs => if synced_after full i k p then [s] else fate_calls p off bs (fates i)
         | _ => [s]
         end) ++ pl_calls r full (S i) k fates
      else []
  end.
Definition pl_image (tr : list sys) (k : nat) (fates : nat -> fate) : bfs := applys [] (pl_calls tr tr 0 k fates).

(** the process-crash image is the power-loss image in which every write is kept *)
Lemma pl_calls_keep tr : forall full i k, pl_calls tr full i k (fun _ => Keep) = firstn (k - i) tr.
Proof.
  induction tr as [|s r IH]; intros full i k; [rewrite firstn_nil; reflexivity|].
  cbn [pl_calls]. destruct (Nat.ltb_spec i k) as [H|H].
  - replace (k - i)%nat with (S (k - S i)) by lia. cbn [firstn]. rewrite IH.
    destruct s; try reflexivity. destruct (synced_after full i k p); reflexivity.
  - replace (k - i)%nat with 0%nat by lia. reflexivity.
Qed.

Theorem pl_image_process_crash tr k : pl_image tr k (fun _ => Keep) = crash_image tr k.
Proof. unfold pl_image, crash_image. rewrite pl_calls_keep, Nat.sub_0_r. reflexivity. Qed.

(** read-after-write on the byte level: what [apply] of a write makes of the written range *)
Lemma ext_byte_head off bs r i :
  off <= i < off + Z.of_nat (length bs) -> ext_byte ((off, bs) :: r) i = nth (Z.to_nat (i - off)) bs x00.
Proof.
  intros H. cbn [ext_byte].
  assert ((off <=? i) && (i <? off + Z.of_nat (length bs)) = true) as ->; [|reflexivity].
  apply andb_true_intro. split; [apply Z.leb_le|apply Z.ltb_lt]; lia.
Qed.

Theorem read_after_write f off bs j :
  0 <= off -> (j < length bs)%nat ->
  read_byte (write_at f off bs) (off + Z.of_nat j) = nth j bs x00.
Proof.
  intros Ho Hj. unfold read_byte, write_at. cbn [bf_len bf_ext].
  assert ((0 <=? off + Z.of_nat j) && (off + Z.of_nat j <? Z.max (bf_len f) (off + Z.of_nat (length bs))) = true) as ->.
  { apply andb_true_intro. split; [apply Z.leb_le|apply Z.ltb_lt]; lia. }
  rewrite ext_byte_head by lia. f_equal. lia.
Qed.
