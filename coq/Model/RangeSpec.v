(** Specification side of C11: what "in range" means (the property statement), which file states are
    well-formed, and the boolean guards of the guarded theorems.  Everything here is executable so
    that the harness' cases can be classified inside Coq. *)
From Coq Require Import ZArith List Bool Lia.
From Coq.Strings Require Import Byte.
Import ListNotations.
Require Import MS.Base.GoInt MS.Base.Res MS.Base.Hex MS.Base.Bytes MS.Base.Civil
               MS.Generated.Src_query MS.Model.QTime MS.Model.Trim MS.Model.RangeRead.
Local Open Scope Z_scope.

(** a query bound as the API gives it: (unix seconds, nanoseconds) *)
Definition qtime : Type := (Z * Z)%type.
Definition q_go (t : qtime) : gtime := go_unix (fst t) (snd t).
Definition q_ns (t : qtime) : Z := tns (fst t) (snd t).

(** nanoseconds from the Unix epoch to Jan 1 00:00 UTC of year [y] *)
Definition year_start_ns (y : Z) : Z := 86400 * nsPerSec * dby y.

(** bounds inside years 1..9999, nanoseconds normalised: far from every int16/int64 wrap *)
Definition sane_time (t : qtime) : bool :=
  (86400 * dby 1 <=? fst t) && (fst t <? 86400 * dby 10000) && (0 <=? snd t) && (snd t <? nsPerSec).

Definition is_tf (tf : Z) : bool := existsb (Z.eqb tf) (map snd Timeframes).

(** start (ns) of the interval of timeframe [tf] that contains instant [t]; intervals are anchored at
    Jan 1 of each year (TimeToIndex) *)
Definition istart_ns (tf : Z) (t : qtime) : Z :=
  let j := year_start_ns (year_of_days (fst t / 86400)) in
  j + (q_ns t - j) / tf * tf.

(** the property's range predicates *)
Definition in_range_fixed (tf : Z) (s e : qtime) (r : frow) : bool :=
  (istart_ns tf s <=? fst r * nsPerSec) && (fst r * nsPerSec <=? q_ns e).
Definition in_range_var (s e : qtime) (r : vrow) : bool :=
  (q_ns s <=? row_tns r) && (row_tns r <=? q_ns e).

(* ------------------------------------------------------------------ well-formed file states *)

Definition nslots (tf year : Z) : Z := days_in_year year * utils_Day / tf.

(** 0-based interval number of slot position [pos]: TimeToIndex is 1 + n, except for 1D where it is
    YearDay()-1 = n (so Jan 1 has index 0 and no slot: finding F2, not C11's concern) *)
Definition slot_num (tf pos : Z) : Z := if tf =? utils_Day then pos else pos - 1.
Definition slot_start_ns (tf year pos : Z) : Z := year_start_ns year + slot_num tf pos * tf.

Definition pos_ok (tf year pos : Z) : bool := (1 <=? pos) && (slot_num tf pos <? nslots tf year).

Fixpoint strictly_asc (l : list Z) : bool :=
  match l with
  | [] => true
  | a :: r => match r with [] => true | b :: _ => (a <? b) && strictly_asc r end
  end.

Definition sane_row (r : vrow) : bool :=
  (- 2 ^ 62 <=? r_sec r) && (r_sec r <=? 2 ^ 62) && (- 2 ^ 31 <=? r_ns r) && (r_ns r <? 2 ^ 31).

Fixpoint sorted_tns (rows : list vrow) : bool :=
  match rows with
  | [] => true
  | a :: rest => match rest with [] => true | b :: _ => (row_tns a <=? row_tns b) && sorted_tns rest end
  end.

Definition wf_slot (b : bucket) (year : Z) (sl : slot) : bool :=
  pos_ok (b_tf b) year (s_pos sl) && (s_idx sl =? s_pos sl) &&
  if b_var b then
    forallb (fun r => wf_rowb (Z.to_nat (b_vrl b) - 4) r && sane_row r
                      && (slot_start_ns (b_tf b) year (s_pos sl) <=? row_tns r)
                      && (row_tns r <? slot_start_ns (b_tf b) year (s_pos sl) + b_tf b)) (s_recs sl)
    && sorted_tns (s_recs sl)
  else (Z.of_nat (length (s_pay sl)) =? b_reclen b - 8).

Definition wf_file (b : bucket) (f : yfile) : bool :=
  (1 <=? y_year f) && (y_year f <=? 9999)
  && strictly_asc (map s_pos (y_slots f)) && forallb (wf_slot b (y_year f)) (y_slots f).

Definition wf_bucket (b : bucket) : bool :=
  is_tf (b_tf b)
  && (if b_var b then (b_reclen b =? 24) && (4 <=? b_vrl b) && (b_vrl b <=? 65536)
      else (8 <=? b_reclen b) && (b_reclen b <=? 65536))
  && strictly_asc (map y_year (b_files b)) && forallb (wf_file b) (b_files b).

(* ------------------------------------------------------------------ guards *)

(** what is left of the guard after the fixes of F11 and F4: the candidates stay below the int32 row
    limit of trimResultsToLimit ([var_candidates] is always [Ok] now) *)
Definition guard_C11 (b : bucket) (s e : qtime) : bool :=
  if b_var b then
    match var_candidates b (q_go s) (q_go e) with
    | Ok c => Z.of_nat (length c) <=? maxInt32
    | _ => false
    end
  else true.

Definition in_domain_C11 (b : bucket) (s e : qtime) : bool :=
  wf_bucket b && sane_time s && sane_time e && guard_C11 b s e.

(** the property, as an executable predicate on the model *)
Definition prop_C11 (b : bucket) (s e : qtime) : bool :=
  if b_var b then
    match read_var b (q_go s) (q_go e) with
    | Ok out => bytes_eqb out (enc_rows (filter (in_range_var s e) (var_rows_all b)))
    | _ => false
    end
  else
    bytes_eqb (concat (map enc_frow (read_fixed_rows b (q_go s) (q_go e))))
              (concat (map enc_frow (filter (in_range_fixed (b_tf b) s e) (fixed_rows_all b)))).
