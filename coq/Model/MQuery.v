(** Multi-symbol and column-projected queries at the DataService level (property C13).

    Go function                                               model
    -------------------------------------------------------   ----------------------------------
    frontend/query.go:143 DataService.executeQuery             exec  (symbol list -> per-key column series
      GetMultiItemInCategory("Symbol") (split on ",")           -> projection -> NumpyMultiDataset)
    frontend/query.go:164-173 "*" -> gatherAllSymbols           exec_star (all symbols of the catalog)
    planner/planner.go:200 Query.Parse / getFileList            hits: restriction list walked in request
      (one QualifiedFile per (key, year) PER OCCURRENCE of       order, unknown symbols skipped, a symbol
       the symbol in the restriction list)                        named k times is scanned k times
    executor/scanner.go:148 NewReader (sortedFileMap by key)    rep_rows k  (rows k-fold; modelled for
                                                                 symbols whose rows sit in ONE year file)
    utils/io/columnseries.go:430 ColumnSeriesMap.FilterColumns  filter_columns
    utils/io/columnseries.go:196 ColumnSeries.Project           project  (request order, duplicates kept,
                                                                 unknown names skipped)
    frontend/query.go:231-250 + utils/io/numpy.go:147,176       assemble: NewNumpyMultiDataset of one series,
      NewNumpyMultiDataset / NumpyMultiDataset.Append            Append of the others: rejected unless the
                                                                 column names AND types are equal
    utils/io/numpy.go:97 ToColumnSeries(start, len)             each key reads back its own rows (the
                                                                 dataset's types are those of the FIRST
                                                                 series in map order: equal under the guard
                                                                 "same column name => same type")

    The stored rows of a symbol are NOT re-derived here: the state of a case is, per catalogued
    symbol, the column series the single unprojected query returns for the range (names, types,
    column-major bytes).  This file models what happens between those series and the response. *)
From Coq Require Import ZArith List Bool Lia.
From Coq.Strings Require Import Byte.
Import ListNotations.
Require Import MS.Base.Res MS.Base.Hex.

Definition name := list byte.

(** one column: name, element type, all values little-endian back to back *)
Definition column := (name * Z * list byte)%type.
Definition cname' (c : column) : name := fst (fst c).

(** a column series: ordered columns (Epoch first for stored data) *)
Definition cser := list column.

Fixpoint find_col (n : name) (cs : cser) : option column :=
  match cs with
  | [] => None
  | c :: r => if bytes_eqb (cname' c) n then Some c else find_col n r
  end.

(** ColumnSeries.Project(keepList) *)
Definition project (keep : list name) (cs : cser) : cser :=
  flat_map (fun n => match find_col n cs with Some c => [c] | None => [] end) keep.

Definition epoch_n : name := [x45; x70; x6f; x63; x68].                                   (* "Epoch" *)
Definition nanos_n : name := [x4e; x61; x6e; x6f; x73; x65; x63; x6f; x6e; x64; x73].     (* "Nanoseconds" *)

(** ColumnSeriesMap.FilterColumns(columns) for one series *)
Definition filter_columns (cols : list name) (cs : cser) : cser :=
  match cols with
  | [] => cs
  | _ => project (epoch_n :: cols ++ [nanos_n]) cs
  end.

(** catalog of one (timeframe, attribute group): symbol -> its unprojected series for the range *)
Definition catalog := list (name * cser).

Fixpoint find_sym (s : name) (cat : catalog) : option cser :=
  match cat with
  | [] => None
  | (s', c) :: r => if bytes_eqb s' s then Some c else find_sym s r
  end.

Fixpoint count_sym (s : name) (l : list name) : nat :=
  match l with [] => O | x :: r => (if bytes_eqb x s then 1 else 0) + count_sym s r end.

Fixpoint rep_bytes (k : nat) (d : list byte) : list byte :=
  match k with O => [] | S k' => d ++ rep_bytes k' d end.

(** a symbol named k times in the key is scanned k times *)
Definition rep_rows (k : nat) (cs : cser) : cser :=
  map (fun c => (fst c, rep_bytes k (snd c))) cs.

(** distinct symbols of the request, in order of first occurrence *)
Fixpoint dedup (l : list name) : list name :=
  match l with
  | [] => []
  | x :: r => x :: filter (fun y => negb (bytes_eqb y x)) (dedup r)
  end.

(** the per-key series the Reader + FilterColumns produce *)
Definition hits (cat : catalog) (syms cols : list name) : list (name * cser) :=
  flat_map (fun s => match find_sym s cat with
                     | Some c => [(s, filter_columns cols (rep_rows (count_sym s syms) c))]
                     | None => []
                     end) (dedup syms).

Fixpoint names_eqb (a b : list name) : bool :=
  match a, b with
  | [], [] => true
  | x :: a', y :: b' => bytes_eqb x y && names_eqb a' b'
  | _, _ => false
  end.

Definition cs_names (cs : cser) : list name := map cname' cs.

(** column names and element types, pointwise (Append as of /repo commit 0e33ed2 compares the type
    strings as well as the names) *)
Fixpoint shapes_eqb (a b : cser) : bool :=
  match a, b with
  | [], [] => true
  | x :: a', y :: b' => bytes_eqb (cname' x) (cname' y) && Z.eqb (snd (fst x)) (snd (fst y)) && shapes_eqb a' b'
  | _, _ => false
  end.

(** NewNumpyMultiDataset + Append: all series must carry the same column names and types *)
Definition assemble (hs : list (name * cser)) : Res (list (name * cser)) :=
  match hs with
  | [] => Rejected                                    (* "no files returned from query parse" *)
  | (_, c0) :: _ =>
      if forallb (fun h => shapes_eqb (snd h) c0) hs then Ok hs else Rejected
  end.

(** DataService.Query for one request with an explicit symbol list *)
Definition exec (cat : catalog) (syms cols : list name) : Res (list (name * cser)) :=
  assemble (hits cat syms cols).

(** ... with the symbol "*": [allsyms] = every symbol of the whole catalog *)
Definition exec_star (cat : catalog) (allsyms cols : list name) : Res (list (name * cser)) :=
  exec cat allsyms cols.

Fixpoint find_key (s : name) (r : list (name * cser)) : option cser :=
  match r with
  | [] => None
  | (s', c) :: t => if bytes_eqb s' s then Some c else find_key s t
  end.

(** * guards (executable) *)
Fixpoint nodup_b (l : list name) : bool :=
  match l with [] => true | x :: r => negb (existsb (bytes_eqb x) r) && nodup_b r end.

(** every catalogued symbol that is hit projects to the same column names and types *)
Definition compat (cat : catalog) (syms cols : list name) : bool :=
  match hits cat syms cols with
  | [] => true
  | (_, c0) :: hs => forallb (fun h => shapes_eqb (snd h) c0) hs
  end.
