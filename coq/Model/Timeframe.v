(** Model of utils/timeframe.go:
      TimeframeFromString :64, TimeframeFromDuration :82, CandleDuration.IsWithin :112, Truncate :158,
      Ceil :172, QueryableTimeframe :192, CandleDurationFromString :224, tables timeframeDefs /
      Timeframes / suffixDefs (GENERATED: Generated/Src_time.v).

    Strings are Coq [string]s (the harness only generates printable ASCII); instants are nanoseconds
    since the Unix epoch, zones are transition tables (Base/Tz.v).  A *Timeframe is [option (string * Z)],
    a *CandleDuration is the record [cdur].

    Go library behaviour that is modelled (not verified): strings.Contains / Split(...)[0],
    strconv.ParseInt(s, 10, 32) (sign, decimal digits, int32 range), strconv.Atoi on a digit string
    (clamped to MaxInt64 on overflow, the error is ignored by the caller), fmt "%v" of an int,
    regexp `(\d+)(Sec|Min|H|D|W|M|Y)` leftmost-first matching (hand scanner), Time.Truncate (absolute
    time since 0001-01-01 UTC), Time.ISOWeek, time.Date.

    Quirks kept: "S" is tried before "Sec" (same unit, so harmless); TimeframeFromDuration prints the
    coefficient by truncating division, so 90 s prints as "1Min"; suffixDefs has no "M", so a month
    candle has duration 0; Ceil for "D" adds 24 h and takes the calendar date; IsWithin for "W"
    compares ISO weeks of the local dates while Truncate aligns to Monday 00:00 UTC; durations wrap in
    int64. *)
From Coq Require Import ZArith List Bool Lia String Ascii.
Import ListNotations.
Require Import MS.Base.GoInt MS.Base.Res MS.Base.Civil MS.Base.Tz MS.Generated.Src_time.
Local Open Scope string_scope.
Local Open Scope Z_scope.

(* ---------- strings ---------- *)
Fixpoint is_prefix (p s : string) : bool :=
  match p, s with
  | EmptyString, _ => true
  | String a p', String b s' => Ascii.eqb a b && is_prefix p' s'
  | _, EmptyString => false
  end.

(** strings.Contains(s, sub) for non-empty [sub] *)
Fixpoint contains (s sub : string) : bool :=
  is_prefix sub s || match s with EmptyString => false | String _ s' => contains s' sub end.

(** strings.Split(s, sub)[0]: the part before the first occurrence of [sub] (all of [s] if none) *)
Fixpoint before_first (s sub : string) : string :=
  if is_prefix sub s then EmptyString
  else match s with EmptyString => EmptyString | String a s' => String a (before_first s' sub) end.

Definition digit_val (c : ascii) : option Z :=
  let n := Z.of_nat (nat_of_ascii c) in if (48 <=? n) && (n <=? 57) then Some (n - 48) else None.
Definition is_digit (c : ascii) : bool := match digit_val c with Some _ => true | None => false end.

(** value of a string of decimal digits, [None] if empty or a non-digit occurs *)
Fixpoint digits_val (s : string) (acc : Z) : option Z :=
  match s with
  | EmptyString => Some acc
  | String c s' => match digit_val c with Some d => digits_val s' (acc * 10 + d) | None => None end
  end.
Definition udec (s : string) : option Z :=
  match s with EmptyString => None | _ => digits_val s 0 end.

(** strconv.ParseInt(s, 10, 32): [None] = any error *)
Definition parse_int32 (s : string) : option Z :=
  let '(neg, body) :=
    match s with
    | String "+"%char r => (false, r)
    | String "-"%char r => (true, r)
    | _ => (false, s)
    end in
  match udec body with
  | None => None
  | Some v => let v' := if neg then - v else v in
              if (- 2147483648 <=? v') && (v' <=? 2147483647) then Some v' else None
  end.

(** strconv.Atoi on a non-empty digit string; the caller drops the error, keeping the clamped value *)
Definition atoi_digits (s : string) : Z :=
  match udec s with
  | Some v => if v <=? 9223372036854775807 then v else 9223372036854775807
  | None => 0
  end.

(** decimal rendering of a non-negative int (fmt "%v"); negative numbers get a leading '-' *)
Fixpoint dec_digits (fuel : nat) (n : Z) (acc : string) : string :=
  match fuel with
  | O => acc
  | S f => let acc' := String (ascii_of_nat (Z.to_nat (48 + n mod 10))) acc in
           if n <? 10 then acc' else dec_digits f (n / 10) acc'
  end.
Definition show_int (n : Z) : string :=
  if n <? 0 then String "-"%char (dec_digits 20 (- n) EmptyString) else dec_digits 20 n EmptyString.

(* ---------- Timeframe ---------- *)
Definition timeframe := option (string * Z).

(** TimeframeFromString *)
Fixpoint tf_from_string_defs (defs : list (string * Z)) (tf : string) : timeframe :=
  match defs with
  | [] => None
  | (name, dur) :: r =>
      if contains tf name then
        match parse_int32 (before_first tf name) with
        | Some t => if t <=? 0 then None else Some (tf, wrap I64 (dur * t))
        | None => None
        end
      else tf_from_string_defs r tf
  end.
Definition TimeframeFromString (tf : string) : timeframe := tf_from_string_defs timeframeDefs tf.

(** TimeframeFromDuration *)
Fixpoint tf_from_duration_defs (defs : list (string * Z)) (lowerDur : Z) (lowerStr : string) (tf : Z) : timeframe :=
  match defs with
  | [] => None
  | (name, dur) :: r =>
      if dur =? tf then Some ("1" ++ name, tf)
      else if tf <? dur then Some (show_int (Z.quot tf lowerDur) ++ lowerStr, tf)
      else tf_from_duration_defs r dur name tf
  end.
Definition TimeframeFromDuration (tf : Z) : timeframe :=
  if tf <? 1000000000 then None else tf_from_duration_defs timeframeDefs 1000000000 "Sec" tf.

(* ---------- CandleDuration ---------- *)
Record cdur := mkcd { cd_string : string; cd_duration : Z; cd_suffix : string; cd_mult : Z }.

Definition suffixes : list string := ["Sec"; "Min"; "H"; "D"; "W"; "M"; "Y"].

Fixpoint take_digits (s : string) : string * string :=
  match s with
  | EmptyString => (EmptyString, EmptyString)
  | String c s' => if is_digit c then let '(d, r) := take_digits s' in (String c d, r) else (EmptyString, s)
  end.

Definition match_suffix (s : string) : option string := find (fun x => is_prefix x s) suffixes.

(** leftmost match of (\d+)(Sec|Min|H|D|W|M|Y): (digits, suffix) *)
Fixpoint regex_find (fuel : nat) (s : string) : option (string * string) :=
  match fuel with
  | O => None
  | S f =>
      match s with
      | EmptyString => None
      | String c s' =>
          if is_digit c then
            let '(d, r) := take_digits s in
            match match_suffix r with
            | Some sx => Some (d, sx)
            | None => regex_find f r
            end
          else regex_find f s'
      end
  end.

Fixpoint slookup (l : list (string * Z)) (k : string) : Z :=
  match l with [] => 0 | (k', v) :: r => if String.eqb k k' then v else slookup r k end.

(** CandleDurationFromString: [None] = error *)
Definition CandleDurationFromString (tf : string) : option cdur :=
  match regex_find (S (String.length tf)) tf with
  | None => None
  | Some (prefix, suffix) =>
      let mult := atoi_digits prefix in
      Some (mkcd tf (wrap I64 (mult * slookup suffixDefs suffix)) suffix mult)
  end.

(** Time.Truncate(d): absolute time since 0001-01-01 00:00 UTC *)
Definition abs_epoch_ns : Z := 62135596800 * NS.
Definition time_truncate (t d : Z) : Z := if d <=? 0 then t else t - (t + abs_epoch_ns) mod d.

(** local calendar fields *)
Definition local_civil (z : tz) (t : Z) : Z * Z * Z := civil_of_days (local_days z t).
Definition midnight (z : tz) (y m d : Z) : Z := go_date z y m d 0 0 0 0.

(** CandleDuration.Truncate *)
Definition cd_truncate (z : tz) (cd : cdur) (ts : Z) : Z :=
  if String.eqb (cd_suffix cd) "D" then let '(y, m, d) := local_civil z ts in midnight z y m d
  else if String.eqb (cd_suffix cd) "M" then let '(y, m, _) := local_civil z ts in midnight z y m 1
  else time_truncate ts (cd_duration cd).

(** CandleDuration.Ceil *)
Definition cd_ceil (z : tz) (cd : cdur) (ts : Z) : Z :=
  if String.eqb (cd_suffix cd) "D" then let '(y, m, d) := local_civil z (ts + utils_Day) in midnight z y m d
  else if String.eqb (cd_suffix cd) "M" then
    let '(y, m, _) := local_civil z ts in
    if m =? 12 then midnight z (y + 1) 1 1 else midnight z y (m + 1) 1
  else time_truncate (ts + cd_duration cd) (cd_duration cd).

(** CandleDuration.IsWithin(ts, start); both times carry the zone [z] *)
Definition cd_is_within (z : tz) (cd : cdur) (ts start : Z) : bool :=
  let sx := cd_suffix cd in
  if String.eqb sx "D" then
    let '(y0, m0, d0) := local_civil z ts in let '(y1, m1, d1) := local_civil z start in
    (y0 =? y1) && (m0 =? m1) && (d0 =? d1)
  else if String.eqb sx "W" then
    let '(ya, wa) := iso_week (local_days z ts) in let '(yb, wb) := iso_week (local_days z start) in
    (ya =? yb) && (wa =? wb)
  else if String.eqb sx "M" then
    let '(y0, m0, _) := local_civil z ts in let '(y1, m1, _) := local_civil z start in
    if y0 =? y1 then
      (if m0 =? m1 then true else if m0 <? m1 then false else m0 - m1 <? cd_mult cd)
    else if y1 <? y0 then m0 - (12 - m1) <? cd_mult cd
    else false
  else if String.eqb sx "Y" then
    year_of z ts - year_of z start <=? cd_mult cd
  else time_truncate ts (cd_duration cd) =? start.

(** CandleDuration.QueryableTimeframe: the last entry of utils.Timeframes whose duration divides *)
Definition QueryableTimeframe (cd : cdur) : string :=
  if String.eqb (cd_suffix cd) "M" then "1D"
  else match find (fun p => Z.rem (cd_duration cd) (snd p) =? 0) (rev Timeframes) with
       | Some (name, _) => name
       | None => "1D"
       end.

(* ---------- boolean guards of the C31 theorems (evaluated on every harness case) ---------- *)

(** the multiplier is at least 1 and multiplier * unit does not overflow int64 *)
Definition mult_okb (cd : cdur) : bool :=
  (1 <=? cd_mult cd) && (cd_mult cd * slookup suffixDefs (cd_suffix cd) <=? 9223372036854775807).

(** "D": the local midnights of ts's day and of (ts + 24 h)'s day are regular, and adding 24 h does
    change the calendar date (false in the first hour(s) of a 25-hour day) *)
Definition day_window_okb (z : tz) (ts : Z) : bool :=
  let d := local_days z ts in let d' := local_days z (ts + utils_Day) in
  cross_okb z (d * SPD) && cross_okb z (d' * SPD) && (d <? d').

(** "W": one week, and the location is at UTC offset 0 both at ts and at the window start *)
Definition week_window_okb (z : tz) (cd : cdur) (ts : Z) : bool :=
  (cd_mult cd =? 1)
  && (offset_at z (sec_of ts) =? 0) && (offset_at z (sec_of (time_truncate ts (cd_duration cd))) =? 0).

(** "M": the local midnights of the first of ts's month and of the first of the next month are regular *)
Definition month_window_okb (z : tz) (ts : Z) : bool :=
  let '(y, m, _) := local_civil z ts in
  let d0 := days_of_civil y m 1 in
  let d1 := if m =? 12 then days_of_civil (y + 1) 1 1 else days_of_civil y (m + 1) 1 in
  cross_okb z (d0 * SPD) && cross_okb z (d1 * SPD).

(** "Y": the location has the same UTC offset at ts and at the window start (Truncate is absolute) *)
Definition year_window_okb (z : tz) (cd : cdur) (ts : Z) : bool :=
  offset_at z (sec_of ts) =? offset_at z (sec_of (time_truncate ts (cd_duration cd))).

(** domain of C31_window_* : which (zone, candle duration, timestamp) triples are covered *)
Definition window_okb (z : tz) (cd : cdur) (ts : Z) : bool :=
  let sx := cd_suffix cd in
  mult_okb cd &&
  (if String.eqb sx "D" then day_window_okb z ts
   else if String.eqb sx "W" then week_window_okb z cd ts
   else if String.eqb sx "M" then month_window_okb z ts
   else if String.eqb sx "Y" then year_window_okb z cd ts
   else true).

(** TimeframeFromDuration prints [d] without loss: d is an exact multiple of the unit it is printed in
    (mirrors the walk of TimeframeFromDuration over timeframeDefs) *)
Fixpoint print_ok_defs (defs : list (string * Z)) (lower d : Z) : bool :=
  match defs with
  | [] => false
  | (_, dur) :: r => if dur =? d then true else if d <? dur then d mod lower =? 0 else print_ok_defs r dur d
  end.
Definition print_okb (d : Z) : bool := (1000000000 <=? d) && print_ok_defs timeframeDefs 1000000000 d.
