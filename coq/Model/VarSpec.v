(** Specification side of C09 (executable): the guard of the guarded theorem and the property evaluated
    on the model.  Parametric in the tick encoder/decoder like Model/VarStore.v. *)
From Coq Require Import ZArith List Bool Lia.
From Coq.Strings Require Import Byte.
Import ListNotations.
Require Import MS.Base.GoInt MS.Base.Res MS.Base.Hex MS.Base.Bytes MS.Base.Civil
               MS.Generated.Src_query MS.Model.QTime MS.Model.Trim MS.Model.RangeRead MS.Model.RangeSpec
               MS.Model.VarStore.
Local Open Scope Z_scope.

(** "a query over all time" as the query API issues it when no bound is given
    (frontend/query.go:186-199): time.Unix(0, 0) .. time.Unix(math.MaxInt64, 0) *)
Definition all_start : gtime := go_unix 0 0.
Definition all_end : gtime := go_unix 9223372036854775807 0.

Section WithTicks.
Variable encf : Z -> Z -> Z.
Variable decf : Z -> Z -> Z -> Z * Z.
Variable tf : Z.
Variable plen : Z.                 (* payload bytes per record *)
Variable clen : key -> Z.          (* stored block length per slot (recorded from the real encoder) *)

Definition final (hist : list (list wrow)) : store := run encf tf hist.
Definition final_bucket (hist : list (list wrow)) : bucket := bucket_of decf tf plen clen (final hist).

(** the query over all time on the final state *)
Definition query_all (hist : list (list wrow)) : Res (list byte) :=
  exec_query (final_bucket hist) all_start all_end.

Definition all_rows (hist : list (list wrow)) : list wrow := concat hist.

(** one resolution step in whole nanoseconds: ceil(tf / 2^32) *)
Definition step_ns : Z := (tf + 4294967295) / 4294967296.

(** C10's bound on the tick codec, as far as C09 needs it: the decoded time of a written row is not later
    than the written time and at most one resolution step (C10's reading: ceil(tf / 2^32) ns) earlier.
    (Finding F1 — seconds rounded up independently of the nanoseconds — is fixed in /repo, 551fdb4; C10
    proves the bound only partially, so it stays a hypothesis evaluated per history, not a finding.) *)
Definition bound_ok (r : wrow) : bool :=
  let q := quantise encf decf tf r in
  let d := tns (w_sec r) (w_ns r) - row_tns q in
  (0 <=? d) && (d <=? step_ns).

Definition row_ok (r : wrow) : bool :=
  (Z.of_nat (length (w_pay r)) =? plen) && (0 <=? w_sec r) && (w_sec r <? 86400 * dby 10000)
  && (0 <=? w_ns r) && (w_ns r <? nsPerSec).

(** the guard: well-formed rows dated 1970..9999; no F2 row; the codec
    hypothesis (every row decodes within C10's bound; in the final file state decoded times lie inside
    their intervals and follow tick order — [wf_bucket], which also demands a queryable timeframe: not
    4H); files dated 1970+; fewer than 2^31 rows.  (F4 — second-stage buffer panic —, F1 and F3 — cross-year merge — are fixed.) *)
Definition guard_C09 (hist : list (list wrow)) : bool :=
  forallb row_ok (all_rows hist)
  && negb (existsb (f2_row tf) (all_rows hist))
  && forallb bound_ok (all_rows hist)
  && wf_bucket (final_bucket hist)
  && forallb (fun f => 1970 <=? y_year f) (b_files (final_bucket hist))
  && match var_candidates (final_bucket hist) all_start (clamp_end all_end) with
     | Ok c => Z.of_nat (length c) <=? maxInt32
     | _ => false
     end.

Definition vrow_eqb (a b : vrow) : bool :=
  (r_sec a =? r_sec b) && (r_ns a =? r_ns b) && bytes_eqb (r_pay a) (r_pay b).
Definition count_row (x : vrow) (l : list vrow) : nat := length (filter (vrow_eqb x) l).

(** the property on the model: the query succeeds and returns, in non-decreasing time order, exactly the
    multiset of the written records as quantised by the tick codec *)
Definition prop_C09 (hist : list (list wrow)) : bool :=
  let want := map (quantise encf decf tf) (all_rows hist) in
  let got := var_rows_all (final_bucket hist) in
  match query_all hist with
  | Ok out => bytes_eqb out (enc_rows got) && sorted_tns got
              && (length got =? length want)%nat
              && forallb (fun q => (count_row q got =? count_row q want)%nat) want
              && forallb bound_ok (all_rows hist)
  | _ => false
  end.

End WithTicks.
