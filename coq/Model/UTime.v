(** UTC-only time arithmetic used by the storage/query models (C08, C12, C13).

    NOTE (deviation from DESIGN §5): the full [Model/TimeIndex.v] + [Base/Civil.v] (arbitrary time
    zones, Go's normalisation) belongs to the C30 builder and was not available when this was
    written; this file is the minimal UTC instance the storage model needs.  The harness runs the
    implementation with utils.InstanceConfig.Timezone = time.UTC and time.Local = time.UTC.

    Go function (UTC, whole seconds)            model
    -----------------------------------------   ----------------------------
    time.Time.Year() of time.Unix(t,0)          year_of t         (1970 <= year < 1970+400)
    time.Date(y,1,1,0,0,0,0,UTC).Unix()         jan1 y
    utils/io/timeindex.go:32 TimeToIndex        TimeToIndex tfs t
    utils/io/timeindex.go:11 IndexToTime.Unix() IndexToTime idx tfs y
    utils/io/metadata.go:37-46 FileSize         nslots tfs y  ((FileSize-Headersize)/recordSize)

    Timestamps are epoch seconds in [0, tmax); a timeframe is its duration [tfs] in seconds
    (1 <= tfs <= 86400, the `tf == utils.Day` test of the Go code is [tfs =? 86400]). *)
From Coq Require Import ZArith List Bool Lia.
Import ListNotations.
Local Open Scope Z_scope.

Definition is_leap (y : Z) : bool :=
  (y mod 4 =? 0) && (negb (y mod 100 =? 0) || (y mod 400 =? 0)).
Definition days_in_year (y : Z) : Z := if is_leap y then 366 else 365.

(** number of leap years in 1..y *)
Definition leaps (y : Z) : Z := y / 4 - y / 100 + y / 400.
(** days from 1970-01-01 to y-01-01 *)
Definition jan1_days (y : Z) : Z := 365 * (y - 1970) + (leaps (y - 1) - leaps 1969).
Definition jan1 (y : Z) : Z := 86400 * jan1_days y.

(** year of a day number: walk forward a year at a time *)
Fixpoint year_loop (fuel : nat) (y d : Z) : Z :=
  match fuel with
  | O => y
  | S f => let n := days_in_year y in if d <? n then y else year_loop f (y + 1) (d - n)
  end.

Definition year_fuel : nat := 400.
(** start the walk at 1970 + d/366 (never after the true year): one or two steps suffice *)
Definition year_of_days (d : Z) : Z :=
  let y0 := 1970 + d / 366 in year_loop year_fuel y0 (d - jan1_days y0).
Definition year_of (t : Z) : Z := year_of_days (t / 86400).

(** first instant NOT covered by the model: 2370-01-01 *)
Definition tmax : Z := jan1 (1970 + Z.of_nat year_fuel).

Definition day_s : Z := 86400.

(** TimeToIndex (timeindex.go:32): 1D -> YearDay()-1 ; otherwise 1 + (t - Jan 1) / tf *)
Definition TimeToIndex (tfs t : Z) : Z :=
  let y := year_of t in
  if tfs =? day_s then (t - jan1 y) / day_s
  else 1 + (t - jan1 y) / tfs.

(** IndexToTime(index, tf, year).Unix() (timeindex.go:11): 1D -> t0.AddDate(0,0,index) *)
Definition IndexToTime (idx tfs y : Z) : Z :=
  if tfs =? day_s then jan1 y + idx * day_s
  else jan1 y + tfs * (idx - 1).

(** number of slots of a year file: nanosecondsInYear(year) / tf *)
Definition nslots (tfs y : Z) : Z := (days_in_year y * day_s) / tfs.

(** the start of the interval a timestamp falls in, as the property states it *)
Definition istart (tfs t : Z) : Z :=
  let y := year_of t in jan1 y + ((t - jan1 y) / tfs) * tfs.

Definition valid_time (t : Z) : bool := (0 <=? t) && (t <? tmax).
(** the timeframes of utils.Timeframes all divide a day *)
Definition valid_tf (tfs : Z) : bool := (1 <=? tfs) && (tfs <=? day_s) && (day_s mod tfs =? 0).

(** three-way comparison of (year, slot) pairs: year files ascending, then ascending within a file *)
Definition kcmp (a b : Z * Z) : comparison :=
  match fst a ?= fst b with Eq => snd a ?= snd b | c => c end.
