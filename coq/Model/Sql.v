(** Model of the SQL WHERE pipeline of sqlparser (C19), from the predicate list the visitor feeds to the
    StaticPredicateGroup down to the rows ExecutableStatement.Materialize returns.

    Go functions mirrored here (quirks included):
      sqlparser/executablestatement.go:444-503  VisitBooleanExpressionParse  (one pending StaticPredicate per
                                                 comparison / BETWEEN, then StaticPredicateGroup.Merge)
      sqlparser/executablestatement.go:519-573  VisitBetweenParse (GT lower, LT upper), VisitComparisonParse
      sqlparser/selectrelation.go:652-706       StaticPredicateGroup.Add / Merge
      sqlparser/selectrelation.go:726-732       StaticPredicate.IsFalse
      sqlparser/selectrelation.go:734-753       SetMin / SetMax (the INCLUSIVE flag is only ever added)
      sqlparser/selectrelation.go:811-846       StaticPredicate.AddComparison (keeps the LOOSER bound)
      sqlparser/selectrelation.go:83-87,154-175 early IsFalse exit, Epoch push-down into planner.Query
      sqlparser/selectrelation.go:220-459       post-filter removal bitmap per Go column type
      sqlparser/selectrelation.go:34-47         isNanosec / convertUnitToNanosec   (TRANSLATED: Generated/Src_sql.v)
      utils/io/generics.go:220-313              GenericComparison (always compares as float64),
                                                 GetValueAsFloat64, GetValueAsInt64
      executor/scanner.go:57-146 + utils/io/timeindex.go:32-52   the fixed-record scan range: the rows whose
                                                 interval slot lies between the slots of Range.Start and Range.End

    Scope: fixed-length buckets, timeframe dividing a day, instance timezone UTC, SELECT * (no select list,
    no LIMIT: those are C20's), WHERE = a conjunction of comparisons / BETWEEN on one column each.
    Literals are what the visitor holds after CoerceToNumeric: int64 (integer literal, or the UnixNano of a
    datetime string) or float64 (decimal literal).  Negative literals do not parse. *)
From Coq Require Import ZArith List Bool String Lia.
From Flocq Require Import IEEE754.BinarySingleNaN.
Require Import MS.Base.GoInt MS.Base.Res MS.Base.FGen MS.Base.F32 MS.Base.F64.
Require Import MS.Generated.Src_io MS.Generated.Src_sql.
Import ListNotations.
Local Open Scope Z_scope.

(** ---------- values ---------- *)
Inductive lit := LInt (z : Z) | LFlt (x : f64).
Inductive cop := CEq | CNeq | CLt | CLte | CGt | CGte.
Inductive pred :=
| PCmp (c : string) (o : cop) (l : lit)
| PBetween (c : string) (lo hi : lit).

Definition pred_col (p : pred) : string := match p with PCmp c _ _ => c | PBetween c _ _ => c end.

Inductive cell := VI (z : Z) | VF32 (x : f32) | VF64 (x : f64).
Record row := mkrow { r_epoch : Z; r_vals : list cell }.

Definition epoch_name : string := "Epoch".
Definition nanos_name : string := "Nanoseconds".

(** Go [int64(f)] on amd64 (CVTTSD2SQ): truncation toward zero; the "integer indefinite" value -2^63 when
    the result does not fit or f is NaN/Inf. *)
Definition f64_to_i64 (x : f64) : Z :=
  match x with
  | B754_zero _ => 0
  | B754_finite s m e _ =>
      let a := if 0 <=? e then Zpos m * 2 ^ e else Zpos m / 2 ^ (- e) in
      let v := if s then - a else a in
      if in_ityb I64 v then v else - 2 ^ 63
  | _ => - 2 ^ 63
  end.

(** utils/io/generics.go GetValueAsFloat64 / GetValueAsInt64 on the two literal kinds *)
Definition as_f64 (l : lit) : f64 := match l with LInt z => f64_of_Z z | LFlt x => x end.
Definition as_i64 (l : lit) : Z := match l with LInt z => z | LFlt x => f64_to_i64 x end.

Definition f64_le : f64 -> f64 -> bool := f_le 53 1024.
Definition f64_eq : f64 -> f64 -> bool := f_eq 53 1024.

(** GenericComparison(left, right, op) for op in LT LTE GT GTE: GetValueAsFloat64 succeeds on every numeric
    value, so the comparison is ALWAYS made in float64 (int64 operands are rounded to 53 bits). *)
Definition generic_cmp (l r : lit) (o : cop) : bool :=
  match o with
  | CLt => f64_lt (as_f64 l) (as_f64 r)
  | CLte => f64_le (as_f64 l) (as_f64 r)
  | CGt => f64_lt (as_f64 r) (as_f64 l)
  | CGte => f64_le (as_f64 r) (as_f64 l)
  | _ => false
  end.

(** ---------- StaticPredicate ---------- *)
Record sp := mksp {
  s_min : option lit; s_max : option lit; s_eq : option lit;
  h_min : bool; h_imin : bool; h_max : bool; h_imax : bool; h_eq : bool }.

Definition sp_empty : sp := mksp None None None false false false false false.

Definition set_min (s : sp) (v : lit) (incl : bool) : sp :=
  mksp (Some v) (s_max s) (s_eq s) true (h_imin s || incl) (h_max s) (h_imax s) (h_eq s).
Definition set_max (s : sp) (v : lit) (incl : bool) : sp :=
  mksp (s_min s) (Some v) (s_eq s) (h_min s) (h_imin s) true (h_imax s || incl) (h_eq s).

Definition is_lte (o : cop) : bool := match o with CLte => true | _ => false end.
Definition is_gte (o : cop) : bool := match o with CGte => true | _ => false end.

(** StaticPredicate.AddComparison: the existing bound is REPLACED when the new value is NOT within it. *)
Definition sp_add (s : sp) (o : cop) (v : lit) : sp :=
  match o with
  | CEq => mksp (s_min s) (s_max s) (Some v) (h_min s) (h_imin s) (h_max s) (h_imax s) true
  | CLt | CLte =>
      match s_max s with
      | None => set_max s v (is_lte o)
      | Some m => if generic_cmp v m o then s else set_max s v (is_lte o)
      end
  | CGt | CGte =>
      match s_min s with
      | None => set_min s v (is_gte o)
      | Some m => if generic_cmp v m o then s else set_min s v (is_gte o)
      end
  | CNeq => s
  end.

(** the pending predicate the visitor builds for one WHERE conjunct *)
Definition pending (p : pred) : sp :=
  match p with
  | PCmp _ o l => sp_add sp_empty o l
  | PBetween _ lo hi => sp_add (sp_add sp_empty CGt lo) CLt hi
  end.

Definition with_flags (t : sp) (fmin fimin fmax fimax feq : bool) : sp :=
  mksp (s_min t) (s_max t) (s_eq t) (h_min t || fmin) (h_imin t || fimin) (h_max t || fmax) (h_imax t || fimax) (h_eq t || feq).

Definition lit0 (o : option lit) : lit := match o with Some l => l | None => LInt 0 end.

(** StaticPredicateGroup.Merge(p) into the target predicate of the same column *)
Definition sp_merge (p t : sp) : sp :=
  let t1 := if h_min p then
              (if h_imin p then sp_add (with_flags t true true false false false) CGte (lit0 (s_min p))
               else sp_add (with_flags t true false false false false) CGt (lit0 (s_min p)))
            else t in
  let t2 := if h_max p then
              (if h_imax p then sp_add (with_flags t1 false false true true false) CLte (lit0 (s_max p))
               else sp_add (with_flags t1 false false true false false) CLt (lit0 (s_max p)))
            else t1 in
  if h_eq p then sp_add (with_flags t2 false false false false true) CEq (lit0 (s_eq p)) else t2.

Definition group := list (string * sp).

Fixpoint g_get (n : string) (g : group) : option sp :=
  match g with
  | [] => None
  | (k, s) :: r => if String.eqb k n then Some s else g_get n r
  end.

Fixpoint g_set (n : string) (s : sp) (g : group) : group :=
  match g with
  | [] => [(n, s)]
  | (k, s0) :: r => if String.eqb k n then (k, s) :: r else (k, s0) :: g_set n s r
  end.

Definition merge_pred (g : group) (p : pred) : group :=
  let c := pred_col p in
  g_set c (sp_merge (pending p) (match g_get c g with Some s => s | None => sp_empty end)) g.

Definition build_group (ps : list pred) : group := fold_left merge_pred ps [].

(** StaticPredicate.IsFalse: GenericComparison(min, max, GT); an error (nil operand) counts as "not false". *)
Definition is_false (s : sp) : bool :=
  match s_min s, s_max s with
  | Some a, Some b => generic_cmp a b CGt
  | _, _ => false
  end.

(** ---------- Epoch push-down (selectrelation.go:154-175) ----------
    [time.Unix(val/nanosec, val%nanosec)] is the instant [val] ns whatever the literal's unit was. *)
Definition pd_bound (has incl : bool) (v : option lit) (delta : Z) : Res (option Z) :=
  if has then
    match v with
    | None => Rejected                                  (* GetValueAsInt64(nil): "non date predicate" *)
    | Some l => Ok (Some (wrap I64 (as_i64 l + (if incl then delta else 0))))
    end
  else Ok None.

Definition pushdown (g : group) : Res (option Z * option Z) :=
  match g_get epoch_name g with
  | None => Ok (None, None)
  | Some s =>
      do st <- pd_bound (h_min s) (h_imin s) (s_min s) 1;
      do en <- pd_bound (h_max s) (h_imax s) (s_max s) (-1);
      Ok (st, en)
  end.

(** ---------- the scan (fixed-length records, UTC, timeframe [tfs] seconds dividing a day) ----------
    NewIOPlan reads, of every year file between the years of Range.Start and Range.End, the slots from
    TimeToIndex(Start) to TimeToIndex(End) inclusive; year starts are multiples of the timeframe, so this
    is the set of rows whose absolute slot number lies between those of Start and End. *)
Definition slot (tfs : Z) (ns : Z) : Z := ns / (tfs * nanosec).

Definition in_scan (tfs : Z) (st en : option Z) (r : row) : bool :=
  let s := slot tfs (r_epoch r * nanosec) in
  (match st with Some a => slot tfs a <=? s | None => true end)
  && (match en with Some b => s <=? slot tfs b | None => true end).

Definition scan (tfs : Z) (st en : option Z) (rows : list row) : list row := filter (in_scan tfs st en) rows.

(** ---------- post-filter (selectrelation.go:223-459); [true] = the row is removed ---------- *)
Definition f32_of_lit (l : lit) : f32 := f32_of_f64 (as_f64 l).     (* float32(GetValueAsFloat64(lit)) *)

Definition rm_f32 (s : sp) (v : f32) : bool :=
  (h_eq s && negb (f32_eq v (f32_of_lit (lit0 (s_eq s)))))
  || (h_min s && (if h_imin s then f32_lt v (f32_of_lit (lit0 (s_min s))) else f32_le v (f32_of_lit (lit0 (s_min s)))))
  || (h_max s && (if h_imax s then f32_gt v (f32_of_lit (lit0 (s_max s))) else f32_le (f32_of_lit (lit0 (s_max s))) v)).

Definition rm_f64 (s : sp) (v : f64) : bool :=
  (h_eq s && negb (f64_eq v (as_f64 (lit0 (s_eq s)))))
  || (h_min s && (if h_imin s then f64_lt v (as_f64 (lit0 (s_min s))) else f64_le v (as_f64 (lit0 (s_min s)))))
  || (h_max s && (if h_imax s then f64_gt v (as_f64 (lit0 (s_max s))) else f64_le (as_f64 (lit0 (s_max s))) v)).

(** integer columns: [conv] is the Go conversion of the int64 literal to the column's type
    (int32(x) wraps; int64 is the identity) *)
Definition rm_int (conv : Z -> Z) (s : sp) (v : Z) : bool :=
  (h_eq s && negb (v =? conv (as_i64 (lit0 (s_eq s)))))
  || (h_min s && (if h_imin s then v <? conv (as_i64 (lit0 (s_min s))) else v <=? conv (as_i64 (lit0 (s_min s)))))
  || (h_max s && (if h_imax s then v >? conv (as_i64 (lit0 (s_max s))) else v >=? conv (as_i64 (lit0 (s_max s))))).

(** the Go type switch: []float32, []float64, []int32, []int64 have a case ([]int matches no column type);
    every other element type falls through and its predicates are IGNORED. *)
Definition rm_cell (ty : Z) (s : sp) (c : cell) : bool :=
  match c with
  | VF32 x => if ty =? ET_FLOAT32 then rm_f32 s x else false
  | VF64 x => if ty =? ET_FLOAT64 then rm_f64 s x else false
  | VI z => if ty =? ET_INT32 then rm_int (wrap I32) s z
            else if ty =? ET_INT64 then rm_int (fun x => x) s z
            else false
  end.

Definition schema := list (string * Z).          (* value columns (name, EnumElementType), Epoch excluded *)

Fixpoint rm_row (g : group) (sc : schema) (vals : list cell) : bool :=
  match sc, vals with
  | (n, ty) :: sc', c :: vals' =>
      (match g_get n g with Some s => rm_cell ty s c | None => false end) || rm_row g sc' vals'
  | _, _ => false
  end.

(** the Epoch column: the literal is re-converted by convertUnitToNanosec on EVERY loop iteration
    (the converted value is assigned back to the loop-carried variable) *)
Fixpoint ep_loop (test : Z -> Z -> bool) (l : Z) (es : list Z) : list bool :=
  match es with
  | [] => []
  | e :: r => let l' := convertUnitToNanosec l in
              test (convertUnitToNanosec e) l' :: ep_loop test l' r
  end.

Fixpoint bm_or (a b : list bool) : list bool :=
  match a, b with
  | x :: a', y :: b' => (x || y) :: bm_or a' b'
  | _, _ => []
  end.

Definition falses (n : nat) : list bool := repeat false n.

Definition ep_bitmap (s : sp) (es : list Z) : list bool :=
  let b1 := if h_eq s then ep_loop (fun v l => negb (v =? l)) (as_i64 (lit0 (s_eq s))) es else falses (List.length es) in
  let b2 := if h_min s then ep_loop (fun v l => if h_imin s then v <? l else v <=? l) (as_i64 (lit0 (s_min s))) es
            else falses (List.length es) in
  let b3 := if h_max s then ep_loop (fun v l => if h_imax s then v >? l else v >=? l) (as_i64 (lit0 (s_max s))) es
            else falses (List.length es) in
  bm_or (bm_or b1 b2) b3.

Fixpoint restrict (bm : list bool) (rows : list row) : list row :=
  match bm, rows with
  | b :: bm', r :: rows' => if b then restrict bm' rows' else r :: restrict bm' rows'
  | _, _ => []
  end.

(** ---------- SelectRelation.Materialize for SELECT * FROM bucket WHERE preds ---------- *)
Definition materialize (tfs : Z) (sc : schema) (rows : list row) (ps : list pred) : Res (list row) :=
  let g := build_group ps in
  if existsb (fun ks => is_false (snd ks)) g then Ok []
  else
    do se <- pushdown g;
    let scanned := scan tfs (fst se) (snd se) rows in
    match scanned with
    | [] => Ok []
    | _ =>
        let eb := match g_get epoch_name g with
                  | Some s => ep_bitmap s (map r_epoch scanned)
                  | None => falses (List.length scanned)
                  end in
        Ok (restrict (bm_or eb (map (fun r => rm_row g sc (r_vals r)) scanned)) scanned)
    end.

(** ================= specification: the relational filter ================= *)

(** exact comparison of an integer with a float64 literal (value = +-m * 2^e) *)
Definition zcmp_f64 (v : Z) (x : f64) : option comparison :=
  match x with
  | B754_zero _ => Some (v ?= 0)
  | B754_infinity s => Some (if s then Gt else Lt)
  | B754_nan => None
  | B754_finite s m e _ =>
      let mz := if s then Zneg m else Zpos m in
      if 0 <=? e then Some (v ?= mz * 2 ^ e) else Some (v * 2 ^ (- e) ?= mz)
  end.

Definition sem_op (o : cop) (c : option comparison) : bool :=
  match c with
  | None => false
  | Some c =>
      match o, c with
      | CEq, Eq => true
      | CNeq, (Lt | Gt) => true
      | CLt, Lt => true
      | CLte, (Lt | Eq) => true
      | CGt, Gt => true
      | CGte, (Gt | Eq) => true
      | _, _ => false
      end
  end.

(** Epoch literals: an integer not above 32503680000 is epoch seconds, anything larger epoch nanoseconds
    (a datetime string arrives as its UnixNano) *)
Definition lit_epoch_ns (l : lit) : option Z :=
  match l with
  | LInt z => Some (if isNanosec z then z else z * nanosec)
  | LFlt _ => None
  end.

Definition cmp_epoch (e : Z) (l : lit) : option comparison :=
  match lit_epoch_ns l with Some n => Some (e * nanosec ?= n) | None => None end.

(** a value column, compared in the column's own precision: float columns against the literal converted
    to the column's float type, integer columns exactly *)
Definition cmp_cell (ty : Z) (c : cell) (l : lit) : option comparison :=
  match c with
  | VF32 x => Bcompare x (f32_of_lit l)
  | VF64 x => Bcompare x (as_f64 l)
  | VI v => match l with LInt z => Some (v ?= z) | LFlt x => zcmp_f64 v x end
  end.

Fixpoint lookup_cell (n : string) (sc : schema) (vals : list cell) : option (Z * cell) :=
  match sc, vals with
  | (k, ty) :: sc', c :: vals' => if String.eqb k n then Some (ty, c) else lookup_cell n sc' vals'
  | _, _ => None
  end.

Definition cmp_col (sc : schema) (r : row) (c : string) (l : lit) : option comparison :=
  if String.eqb c epoch_name then cmp_epoch (r_epoch r) l
  else match lookup_cell c sc (r_vals r) with
       | Some (ty, v) => cmp_cell ty v l
       | None => None
       end.

(** BETWEEN a AND b selects values STRICTLY between a and b ("as this server defines it") *)
Definition sem_pred (sc : schema) (r : row) (p : pred) : bool :=
  match p with
  | PCmp c o l => sem_op o (cmp_col sc r c l)
  | PBetween c lo hi => sem_op CGt (cmp_col sc r c lo) && sem_op CLt (cmp_col sc r c hi)
  end.

Definition spec_select (sc : schema) (rows : list row) (ps : list pred) : list row :=
  filter (fun r => forallb (sem_pred sc r) ps) rows.

(** ================= domains and guards (boolean, evaluated on every harness case) ================= *)

(** per-column contributions of a WHERE list: lower bounds (literal, inclusive?), upper bounds, equalities *)
Definition lows_of (c : string) (p : pred) : list (lit * bool) :=
  match p with
  | PCmp k CGt l => if String.eqb k c then [(l, false)] else []
  | PCmp k CGte l => if String.eqb k c then [(l, true)] else []
  | PBetween k lo _ => if String.eqb k c then [(lo, false)] else []
  | _ => []
  end.
Definition ups_of (c : string) (p : pred) : list (lit * bool) :=
  match p with
  | PCmp k CLt l => if String.eqb k c then [(l, false)] else []
  | PCmp k CLte l => if String.eqb k c then [(l, true)] else []
  | PBetween k _ hi => if String.eqb k c then [(hi, false)] else []
  | _ => []
  end.
Definition eqs_of (c : string) (p : pred) : list lit :=
  match p with
  | PCmp k CEq l => if String.eqb k c then [l] else []
  | _ => []
  end.
Definition lows (c : string) (ps : list pred) := flat_map (lows_of c) ps.
Definition ups (c : string) (ps : list pred) := flat_map (ups_of c) ps.
Definition eqs (c : string) (ps : list pred) := flat_map (eqs_of c) ps.

Definition all_lits (c : string) (ps : list pred) : list lit :=
  map fst (lows c ps) ++ map fst (ups c ps) ++ eqs c ps.

Fixpoint col_type (n : string) (sc : schema) : option Z :=
  match sc with
  | [] => None
  | (k, ty) :: r => if String.eqb k n then Some ty else col_type n r
  end.

Fixpoint nodup_names (l : list string) : bool :=
  match l with
  | [] => true
  | x :: r => negb (existsb (String.eqb x) r) && nodup_names r
  end.

Definition int_type_range (ty : Z) : option (Z * Z) :=
  if ty =? ET_INT32 then Some (- 2 ^ 31, 2 ^ 31 - 1)
  else if ty =? ET_INT64 then Some (- 2 ^ 63, 2 ^ 63 - 1)
  else if ty =? ET_INT16 then Some (- 2 ^ 15, 2 ^ 15 - 1)
  else if ty =? ET_BYTE then Some (- 2 ^ 7, 2 ^ 7 - 1)
  else if ty =? ET_UINT8 then Some (0, 2 ^ 8 - 1)
  else if ty =? ET_UINT16 then Some (0, 2 ^ 16 - 1)
  else if ty =? ET_UINT32 then Some (0, 2 ^ 32 - 1)
  else if ty =? ET_UINT64 then Some (0, 2 ^ 64 - 1)
  else None.

Definition cell_ok (ty : Z) (c : cell) : bool :=
  match c with
  | VF32 _ => ty =? ET_FLOAT32
  | VF64 _ => ty =? ET_FLOAT64
  | VI z => match int_type_range ty with Some (lo, hi) => (lo <=? z) && (z <=? hi) | None => false end
  end.

Fixpoint cells_ok (sc : schema) (vals : list cell) : bool :=
  match sc, vals with
  | [], [] => true
  | (_, ty) :: sc', c :: vals' => cell_ok ty c && cells_ok sc' vals'
  | _, _ => false
  end.

Definition max_epoch_sec : Z := 9223372036.       (* the last whole second whose nanoseconds fit in int64 *)

(** a stored history the model speaks about: realistic bar times on the timeframe grid, typed cells *)
Definition wf_store (tfs : Z) (sc : schema) (rows : list row) : bool :=
  (0 <? tfs)
  && nodup_names (map fst sc)
  && forallb (fun kt => negb (String.eqb (fst kt) epoch_name) && negb (String.eqb (fst kt) nanos_name)) sc
  && forallb (fun r => (33 <=? r_epoch r) && (r_epoch r <=? max_epoch_sec) && (r_epoch r mod tfs =? 0)
                       && cells_ok sc (r_vals r)) rows.

Definition lit_finite (l : lit) : bool :=
  match l with LInt z => (0 <=? z) && (z <? 2 ^ 63) | LFlt x => is_finite x end.

(** an Epoch literal the statement gives a meaning to: a non-negative integer whose nanosecond value fits *)
Definition epoch_lit_ok (l : lit) : bool :=
  match l with
  | LInt z => (0 <=? z) && (if isNanosec z then z <? 2 ^ 63 - 1 else z <=? max_epoch_sec)
  | LFlt _ => false
  end.

Definition pred_lits (p : pred) : list lit := match p with PCmp _ _ l => [l] | PBetween _ a b => [a; b] end.
Definition pred_is_neq (p : pred) : bool := match p with PCmp _ CNeq _ => true | _ => false end.

(** the property's own domain: comparisons < <= > >= = and BETWEEN over Epoch and existing value columns *)
Definition wf_query (sc : schema) (ps : list pred) : bool :=
  forallb (fun p =>
    negb (pred_is_neq p)
    && (if String.eqb (pred_col p) epoch_name then forallb epoch_lit_ok (pred_lits p)
        else match col_type (pred_col p) sc with Some _ => forallb lit_finite (pred_lits p) | None => false end)) ps.

(** ---- the defect classes (each one a finding in known_findings.txt) ---- *)

(** epoch-seconds-literal: an integer Epoch literal in epoch SECONDS is pushed down as if it were nanoseconds
    (an upper bound empties the scan) and, below 33, is re-converted on every row of the post-filter *)
Definition epoch_seconds_bad (ps : list pred) : bool :=
  existsb (fun lb => negb (isNanosec (as_i64 (fst lb)))) (ups epoch_name ps)
  || existsb (fun l => negb (isNanosec (as_i64 l)) && (as_i64 l <? 33))
             (map fst (lows epoch_name ps) ++ eqs epoch_name ps).

(** epoch-inclusive-upper-on-bar: Epoch <= T is pushed down as end = T - 1ns, which lies in the previous
    interval when T is a bar's time: that bar is never scanned *)
Definition epoch_incl_upper_on_bar (rows : list row) (ps : list pred) : bool :=
  existsb (fun lb => snd lb && existsb (fun r => r_epoch r * nanosec =? as_i64 (fst lb)) rows) (ups epoch_name ps).

(** repeated-bound: two bounds of the same direction (or two equalities) on one column: AddComparison keeps
    the looser bound, the INCLUSIVE flag sticks, a second equality overwrites the first *)
Definition repeated_bound (ps : list pred) : bool :=
  existsb (fun p => let c := pred_col p in
     (1 <? Z.of_nat (List.length (lows c ps))) || (1 <? Z.of_nat (List.length (ups c ps)))
     || (1 <? Z.of_nat (List.length (eqs c ps)))) ps.

Definition filtered_type (ty : Z) : bool :=
  (ty =? ET_FLOAT32) || (ty =? ET_FLOAT64) || (ty =? ET_INT32) || (ty =? ET_INT64).

(** unfiltered-column-type: the post-filter type switch has no case for int16/uint8/16/32/64/byte columns *)
Definition unfiltered_type (sc : schema) (ps : list pred) : bool :=
  existsb (fun p => match col_type (pred_col p) sc with Some ty => negb (filtered_type ty) | None => false end) ps.

Definition lit_in_int_type (ty : Z) (l : lit) : bool :=
  match l with
  | LInt z => if ty =? ET_INT32 then (- 2 ^ 31 <=? z) && (z <=? 2 ^ 31 - 1) else (- 2 ^ 63 <=? z) && (z <=? 2 ^ 63 - 1)
  | LFlt _ => false
  end.

(** non-int-literal-on-int-column: a decimal literal is truncated toward zero, an integer literal outside
    int32 wraps, before the comparison with an int32/int64 column *)
Definition bad_int_literal (sc : schema) (ps : list pred) : bool :=
  existsb (fun p => match col_type (pred_col p) sc with
                    | Some ty => ((ty =? ET_INT32) || (ty =? ET_INT64)) && negb (forallb (lit_in_int_type ty) (pred_lits p))
                    | None => false end) ps.

Fixpoint nth_cell (n : string) (sc : schema) (vals : list cell) : option cell :=
  match sc, vals with
  | (k, _) :: sc', c :: vals' => if String.eqb k n then Some c else nth_cell n sc' vals'
  | _, _ => None
  end.

Definition cell_is_nan (c : cell) : bool :=
  match c with VF32 x => is_nan x | VF64 x => is_nan x | VI _ => false end.

(** nan-value: a NaN cell compares false with every bound, so the row is KEPT by < <= > >= predicates *)
Definition nan_value (sc : schema) (rows : list row) (ps : list pred) : bool :=
  existsb (fun p => existsb (fun r => match nth_cell (pred_col p) sc (r_vals r) with
                                      | Some c => cell_is_nan c | None => false end) rows) ps.

(** domain restriction (not a finding): on a float32 column, a lower and an upper bound that IsFalse orders
    in float64 must stay ordered after conversion to float32 *)
Definition f32_bounds_ordered (sc : schema) (ps : list pred) : bool :=
  forallb (fun p => let c := pred_col p in
    match col_type c sc with
    | Some ty => if ty =? ET_FLOAT32 then
        forallb (fun a => forallb (fun b =>
            implb (generic_cmp (fst a) (fst b) CGt) (f32_gt (f32_of_lit (fst a)) (f32_of_lit (fst b)))) (ups c ps)) (lows c ps)
        else true
    | None => true end) ps.

Definition guard (tfs : Z) (sc : schema) (rows : list row) (ps : list pred) : bool :=
  wf_store tfs sc rows && wf_query sc ps
  && negb (epoch_seconds_bad ps) && negb (epoch_incl_upper_on_bar rows ps) && negb (repeated_bound ps)
  && negb (unfiltered_type sc ps) && negb (bad_int_literal sc ps) && negb (nan_value sc rows ps)
  && f32_bounds_ordered sc ps.
