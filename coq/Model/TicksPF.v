(** Primitive-float mirror of Model/Ticks.v (Coq's [PrimFloat] = the host's IEEE-754 binary64, evaluated
    by the VM).  Same operations in the same order; used for the exhaustive 1-second sweep (theorems C10_1sec_...)
    where the inductive Flocq floats are three orders of magnitude too slow.  Every harness case is
    evaluated with BOTH models and compared bit-exactly with the Go implementation (Corr/C10.agrees). *)
From Coq Require Import ZArith List Bool Lia Floats Uint63.
Require Import MS.Base.GoInt MS.Generated.Src_ticks.
Local Open Scope Z_scope.

Definition pf_of_Z (z : Z) : float := PrimFloat.of_uint63 (Uint63.of_Z z).        (* 0 <= z < 2^63 *)
Definition pf_cst (m e : Z) : float :=
  match m with Zpos p => SF2Prim (S754_finite false p e) | _ => PrimFloat.zero end.

(** truncation toward zero of a finite NON-NEGATIVE float, as an integer:
    x = m * 2^e with m in [0.5, 1) (frshiftexp); normfr_mantissa m = m * 2^53 *)
Definition pf_trunc (x : float) : Z :=
  let '(m, e) := PrimFloat.frshiftexp x in
  let ez := Uint63.to_Z e - FloatOps.shift in
  if ez <=? 0 then 0
  else if ez <=? 53 then Uint63.to_Z (Uint63.lsr (PrimFloat.normfr_mantissa m) (Uint63.of_Z (53 - ez)))
  else Uint63.to_Z (PrimFloat.normfr_mantissa m) * 2 ^ (ez - 53).

(** math.Floor / math.Round for 0 <= x < 2^53 *)
Definition pf_floor (x : float) : float := pf_of_Z (pf_trunc x).
Definition pf_round (x : float) : float :=
  let t := pf_of_Z (pf_trunc x) in
  if PrimFloat.leb (pf_cst 4503599627370496 (-53)) (PrimFloat.sub x t) then PrimFloat.add t PrimFloat.one else t.

Definition pc_enc_tpi : float := pf_cst enc_tpi_m enc_tpi_e.
Definition pc_dec_tpi : float := pf_cst dec_tpi_m dec_tpi_e.
Definition pc_1e9 : float := pf_cst dec_nanosecond_m dec_nanosecond_e.
Definition pc_1e8 : float := pf_cst dec_subnanosecond_m dec_subnanosecond_e.
Definition pc_half : float := pf_cst dec_round_m dec_round_e.

Definition duration_seconds_pf (d : Z) : float :=
  PrimFloat.add (pf_of_Z (Z.quot d 1000000000))
                (PrimFloat.div (pf_of_Z (Z.rem d 1000000000)) (pf_of_Z 1000000000)).

Definition enc_pf (ipd d : Z) : Z :=
  wrap U32 (wrap I64 (pf_trunc (PrimFloat.mul (PrimFloat.mul (pf_of_Z ipd) pc_enc_tpi) (duration_seconds_pf d)))).

Definition dec_pf (start ipd ticks : Z) : Z * Z :=
  let fs := PrimFloat.div (pf_of_Z ticks) (PrimFloat.mul (pf_of_Z ipd) pc_dec_tpi) in
  let sub := PrimFloat.mul pc_1e9 (PrimFloat.sub fs (pf_floor fs)) in
  let '(sub, fs) := (if PrimFloat.leb pc_1e9 sub then (PrimFloat.sub sub pc_1e9, PrimFloat.add fs PrimFloat.one)
                     else (sub, fs)) in
  let sec := wrap U64 (start + wrap U64 (pf_trunc (PrimFloat.div (pf_round (PrimFloat.mul fs pc_1e8)) pc_1e8))) in
  let nsec := wrap U32 (wrap I64 (pf_trunc (PrimFloat.add sub pc_half))) in
  (sec, nsec).

Definition dec_offset_pf (ipd ticks : Z) : Z := let '(s, n) := dec_pf 0 ipd ticks in s * 1000000000 + n.
