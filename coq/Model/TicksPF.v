(** Primitive-float mirror of Model/Ticks.v (Coq's [PrimFloat] = the host's IEEE-754 binary64, evaluated
    by the VM).  Same operations in the same order (proved equal to Model/Ticks.v in
    Proofs/Ticks_equiv.v); used for the exhaustive 1-second sweep (theorems C10_1sec_...)
    where the inductive Flocq floats are three orders of magnitude too slow.  Every harness case is
    evaluated with BOTH models and compared bit-exactly with the Go implementation (Corr/C10.agrees). *)
From Coq Require Import ZArith List Bool Lia Floats Uint63.
From Flocq Require Import IEEE754.BinarySingleNaN IEEE754.PrimFloat.
Require Import MS.Base.GoInt MS.Generated.Src_ticks.
Local Open Scope Z_scope.

Definition pf_of_Z (z : Z) : float := PrimFloat.of_uint63 (Uint63.of_Z z).        (* 0 <= z < 2^63 *)
Definition pf_cst (m e : Z) : float :=
  match m with Zpos p => SF2Prim (S754_finite false p e) | _ => PrimFloat.zero end.

(** float -> integer rounding is delegated to the SAME Flocq functions the inductive model uses, applied to
    the exact image [Prim2B x] of the primitive float (computable: Prim2SF + SF2B), so that the
    equivalence with Model/Ticks.v (Proofs/Ticks_equiv.v) needs only Flocq's own equivalence lemmas
    for + - * / <= and int -> float. *)
Definition pf_trunc (x : float) : Z := Btrunc (Prim2B x).
Definition pf_floor (x : float) : float := B2Prim (Bnearbyint (prec_lt_emax_ := Hmax) mode_DN (Prim2B x)).
Definition pf_round (x : float) : float := B2Prim (Bnearbyint (prec_lt_emax_ := Hmax) mode_NA (Prim2B x)).

Definition pc_enc_tpi : float := pf_cst enc_tpi_m enc_tpi_e.
Definition pc_dec_tpi : float := pf_cst dec_tpi_m dec_tpi_e.
Definition pc_1e9 : float := pf_cst dec_nanosecond_m dec_nanosecond_e.
Definition pc_half : float := pf_cst dec_round_m dec_round_e.

Definition duration_seconds_pf (d : Z) : float :=
  PrimFloat.add (pf_of_Z (Z.quot d 1000000000))
                (PrimFloat.div (pf_of_Z (Z.rem d 1000000000)) (pf_of_Z 1000000000)).

Definition enc_pf (ipd d : Z) : Z :=
  wrap U32 (wrap I64 (pf_trunc (PrimFloat.mul (PrimFloat.mul (pf_of_Z ipd) pc_enc_tpi) (duration_seconds_pf d)))).

Definition dec_pf (start ipd ticks : Z) : Z * Z :=
  let fs := PrimFloat.div (pf_of_Z ticks) (PrimFloat.mul (pf_of_Z ipd) pc_dec_tpi) in
  let sub := PrimFloat.mul pc_1e9 (PrimFloat.sub fs (pf_floor fs)) in
  let '(sub, fs) := (if PrimFloat.leb pc_1e9 sub then (PrimFloat.sub sub pc_1e9, PrimFloat.add fs (pf_of_Z 1))
                     else (sub, fs)) in
  let sec := wrap U64 (start + wrap U64 (pf_trunc (pf_floor fs))) in
  let nsec := wrap U32 (wrap I64 (pf_trunc (PrimFloat.add sub pc_half))) in
  if 1000000000 <=? nsec then (wrap U64 (sec + 1), wrap U32 (nsec - 1000000000)) else (sec, nsec).

Definition dec_offset_pf (ipd ticks : Z) : Z := let '(s, n) := dec_pf 0 ipd ticks in s * 1000000000 + n.
