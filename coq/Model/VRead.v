(** Row limits through QueryService.ExecuteQuery (property C12), fixed and variable buckets.

    Go function                                              model
    ------------------------------------------------------   ------------------------------
    frontend/query.go:304 ExecuteQuery (timeframe rewriting,  exec_fixed / exec_var
      SetRowLimit(direction, QueryableNrecords(...)))
    utils/timeframe.go:200 CandleDuration.QueryableNrecords   nrecords_eff   (suffixes Sec/Min/H/D/W/Y)
    executor/scanner.go:181 Reader.Read (variable branch)     exec_var: index-slot scan WITH the limit
                                                               (FStore.query on 24-byte slots), second
                                                               stage, trimResultsToRange, trimResultsToLimit
    executor/scanner.go:210 trimResultsToRange                trim_range  (drop before Start, cut after the
                                                               last row <= End, nil if none)
    executor/scanner.go:249 trimResultsToLimit                trim_limit
    executor/readvariable.go:12 readSecondStage +             concat of the slots' records; a record is
      rewritebuffer.go RewriteBuffer                           (epoch second, nanoseconds, data) as decoded

    A variable bucket's stored state is the same slot store as a fixed one (FStore.storeA) with
    record length 24 and payload = the records of the interval, in on-disk (tick) order.
    Not modelled: snappy, the tick decoding (C10), the x4/x2 buffer arithmetic of readSecondStage. *)
From Coq Require Import ZArith List Bool Lia.
From Coq.Strings Require Import Byte.
Import ListNotations.
Require Import MS.Base.GoInt MS.Base.Res MS.Generated.Src_fstore MS.Model.UTime MS.Model.FStore.
Local Open Scope Z_scope.

(** QueryableNrecords(tf, n) with cd = the requested candle duration [req] (seconds) and tf the
    queryable timeframe [q]: n when the strings are equal, else n * int(cd.duration / tf.Duration) —
    the same number when the durations are equal. *)
Definition nrecords_eff (req q n : Z) : Z := n * (req / q).

Definition eff_limit (req q : Z) (lim : option (dir * Z)) : option (dir * Z) :=
  match lim with None => None | Some (d, n) => Some (d, nrecords_eff req q n) end.

(** ExecuteQuery on a catalog holding one FIXED bucket of timeframe [tfs]; [req] = duration of the
    timeframe named in the query's key *)
Definition exec_fixed {A} (tfs recLen : Z) (st : storeA A) (req rs : Z) (re : option Z)
  (lim : option (dir * Z)) : Res (list (Z * A)) :=
  let q := queryable_tfs req in
  if q =? tfs then query tfs recLen st rs re (eff_limit req q lim) else Rejected.

(** * variable buckets *)
Record vrec := mkvrec { v_sec : Z; v_ns : Z; v_data : list byte }.
Definition vtime (r : vrec) : Z * Z := (v_sec r, v_ns r).

(** time.Time comparison of (second, nanosecond) pairs: a <= b *)
Definition tle (a b : Z * Z) : bool := (fst a <? fst b) || ((fst a =? fst b) && (snd a <=? snd b)).

(** first loop of trimResultsToRange: drop records before the start; nil if none is >= start *)
Fixpoint drop_before (s : Z * Z) (l : list vrec) : list vrec :=
  match l with
  | [] => []
  | r :: rest => if tle s (vtime r) then l else drop_before s rest
  end.

(** second loop: cut after the LAST record <= end; None when no record is <= end *)
Fixpoint cut_end (e : Z * Z) (l : list vrec) : option (list vrec) :=
  match l with
  | [] => None
  | r :: rest =>
      match cut_end e rest with
      | Some p => Some (r :: p)
      | None => if tle (vtime r) e then Some [r] else None
      end
  end.

(** [e = None] is planner.MaxTime (every record is before it).  trimResultsToRange as of /repo commit
    75bdceb: every remaining row is checked against End; nil when no row is <= End. *)
Definition trim_range (s : Z * Z) (e : option (Z * Z)) (l : list vrec) : list vrec :=
  let d := drop_before s l in
  match e with
  | None => d
  | Some e' => match cut_end e' d with Some p => p | None => [] end
  end.

Definition trim_limit (d : dir) (n : Z) (l : list vrec) : list vrec :=
  if Z.of_nat (length l) >? n then
    match d with First => firstn (Z.to_nat n) l | Last => lastn (Z.to_nat n) l end
  else l.

Definition vstore := storeA (list vrec).

(** the slot of the interval containing second [t], holding [a] (used to write stores down) *)
Definition slot_entry {A} (tfs recLen : Z) (t : Z) (a : A) : entryA A :=
  ((year_of t, IndexToOffset (TimeToIndex tfs t) recLen), (TimeToIndex tfs t, a)).

(** The bufferMeta bookkeeping of a backward scan over several year files (scanner.go:349-378) is,
    as of /repo commit ca55ae9, transparent: each file's metadata is the part of the result buffer
    that file filled, so the second stage expands exactly the slots [query] returns.  (Before it, a
    file in which readBackward over-read was given the whole buffer: class
    variable-last-limit-spans-year-files, now `fixed:`.) *)

(** ExecuteQuery on a catalog holding one VARIABLE bucket of timeframe [tfs]; range bounds carry
    nanoseconds; the index-slot scan sees only their seconds *)
Definition exec_var (tfs : Z) (st : vstore) (req : Z) (rs : Z * Z) (re : option (Z * Z))
  (lim : option (dir * Z)) : Res (list vrec) :=
  let q := queryable_tfs req in
  if q =? tfs then
    let lim' := eff_limit req q lim in
    do slots <- query tfs 24 st (fst rs) (option_map fst re) lim';
    let recs := trim_range rs re (concat (map snd slots)) in
    Ok (match lim' with None => recs | Some (d, n) => trim_limit d (wrap I32 n) recs end)
  else Rejected.

(** * guards for the variable theorem (executable) *)
Fixpoint time_sorted (l : list vrec) : bool :=
  match l with
  | [] => true
  | r :: rest => match rest with [] => true | r' :: _ => tle (vtime r) (vtime r') end && time_sorted rest
  end.

Definition all_ge (s : Z * Z) (l : list vrec) : bool := forallb (fun r => tle s (vtime r)) l.
Definition all_le (e : option (Z * Z)) (l : list vrec) : bool :=
  match e with None => true | Some e' => forallb (fun r => tle (vtime r) e') l end.

(** the slots the unlimited index scan visits *)
Definition scanned (tfs : Z) (st : vstore) (rs : Z * Z) (re : option (Z * Z)) : list (Z * list vrec) :=
  concat (file_rows tfs 24 (fst rs) (option_map fst re) st).

(** F12: the limit counts index slots (intervals) before the range trim.  The guard: every
    interval holds a record, the candidates are in time order, and either the limit covers all
    scanned intervals or the range bound on the side the limit counts from cuts no candidate. *)
Definition guard_var (tfs : Z) (st : vstore) (rs : Z * Z) (re : option (Z * Z)) (d : dir) (n : Z) : bool :=
  let S := scanned tfs st rs re in
  let L := concat (map snd S) in
  forallb (fun s => negb (match snd s with [] => true | _ => false end)) S
  && time_sorted L
  && ((Z.of_nat (length S) <=? n)
      || match d with First => all_ge rs L | Last => all_le re L end).
