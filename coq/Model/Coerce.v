(** Model of the schema validation of a write (C14):
      utils/io/generics.go          AnySet (NewAnySet, Contains, Intersect, Subtract) - order preserving
      utils/io/columnseries.go:486  GetMissingAndTypeCoercionColumns, ExtractDatashapesByNames
      utils/io/coercecolumn.go      CoerceColumnType, toInt / toUint / toFloat
      executor/writer.go:262        WriteCSM: the bucket loop in a GIVEN iteration order of the request map,
                                    schema check, coercion, SerializeColumnsToRows in the BUCKET's column order,
                                    queueing of the rows; the flush
                                    (RequestFlush) only at the end of a fully accepted request.

    Go function                         model
    --------------------------------    ----------------------------
    AnySet.Contains / Subtract          set_contains / set_subtract
    ExtractDatashapesByNames            extract_by_names
    GetMissingAndTypeCoercionColumns    missing_and_coercion
    reflect Value.Int/Uint/Float        v_int / v_uint / v_float  (of a decoded element)
    toInt / toUint / toFloat            to_int / to_uint / to_float   (panic on bool / string16 elements)
    int64(float64), uint64(float64)     cvt_f64_i64 / cvt_f64_u64  (amd64: CVTTSD2SQ "indefinite" outside the range)
    CoerceColumnType                    coerce_column
    Writer.WriteCSM                     write_csm (one bucket: write_one)

    Column data are raw little-endian bytes as in Model/Rows.v; floats are Flocq binary32/64 values
    (Base/F32.v, Base/F64.v) decoded from / encoded to their bit patterns. *)
From Coq Require Import ZArith NArith List Bool Lia.
From Coq.Strings Require Import Byte.
Import ListNotations.
From Flocq Require Import IEEE754.BinarySingleNaN.
Require Import MS.Base.GoInt MS.Base.Res MS.Base.Hex MS.Base.Bytes MS.Base.F32 MS.Base.F64
               MS.Generated.Src_io MS.Model.Rows.
Local Open Scope Z_scope.

(* ------------------------------------------------------------------ shapes and the set algebra *)
Definition shape : Type := list byte * Z.                        (* DataShape{Name, Type} *)
Definition shape_eqb (a b : shape) : bool := bytes_eqb (fst a) (fst b) && Z.eqb (snd a) (snd b).

Section AnySet.
  Context {A : Type} (eqb : A -> A -> bool).
  Definition mem (x : A) (l : list A) : bool := existsb (eqb x) l.
  (** Intersect(input): the elements of the input that are in the set, in input order, duplicates kept *)
  Definition set_intersect (set input : list A) : list A := filter (fun x => mem x set) input.
  (** Contains(input): false for an empty input, else every input element is in the set *)
  Definition set_contains (set input : list A) : bool :=
    match input with
    | [] => false
    | _ => Nat.eqb (length (set_intersect set input)) (length input)
    end.
  (** Subtract(input): the ordered elements of the set that are not in set ∩ input; an empty input returns
      the ordered elements unchanged *)
  Definition set_subtract (set input : list A) : list A :=
    match input with
    | [] => set
    | _ => let inter := set_intersect set input in filter (fun x => negb (mem x inter)) set
    end.
End AnySet.

(** ExtractDatashapesByNames: the LAST shape of each name wins in the map *)
Fixpoint last_shape (dsv : list shape) (n : list byte) (acc : option shape) : option shape :=
  match dsv with
  | [] => acc
  | s :: r => last_shape r n (if bytes_eqb (fst s) n then Some s else acc)
  end.
Definition extract_by_names (dsv : list shape) (names : list (list byte)) : list shape :=
  flat_map (fun n => match last_shape dsv n None with Some s => [s] | None => [] end) names.

(** GetMissingAndTypeCoercionColumns(required, available) -> (missing, coercion); Rejected = error *)
Definition missing_and_coercion (required available : list shape) : Res (list shape * list shape) :=
  match available with
  | [] => Rejected                                                   (* NewAnySet: empty input *)
  | _ =>
      if set_contains shape_eqb available required then Ok ([], [])
      else
        match required with
        | [] => Rejected
        | _ =>
            let missing_dsv := set_subtract shape_eqb required available in
            let req_names := map fst required in
            let all_missing_names := set_subtract bytes_eqb req_names (map fst available) in
            if Nat.eqb (length missing_dsv) (length all_missing_names)
            then Ok (extract_by_names required all_missing_names, [])
            else
              let need := set_subtract bytes_eqb (map fst missing_dsv) all_missing_names in
              Ok (extract_by_names required all_missing_names, extract_by_names required need)
        end
  end.

(* ------------------------------------------------------------------ element kinds *)
Inductive kind := KInt (t : ity) | KF32 | KF64 | KBool | KStr16 | KNone.

(** attributeMap[e].typ; BYTE has reflect.Int8 as its Kind: a BYTE source column is an []int8 (a []byte
    slice is a UINT8 column), a BYTE destination is filled with byte(toInt(v)) *)
Definition kind_of (t : Z) : kind :=
  if t =? ET_FLOAT32 then KF32 else if t =? ET_FLOAT64 then KF64
  else if t =? ET_INT16 then KInt I16 else if t =? ET_INT32 then KInt I32 else if t =? ET_INT64 then KInt I64
  else if t =? ET_UINT8 then KInt U8 else if t =? ET_UINT16 then KInt U16 else if t =? ET_UINT32 then KInt U32
  else if t =? ET_UINT64 then KInt U64 else if t =? ET_BYTE then KInt I8
  else if t =? ET_BOOL then KBool else if t =? ET_STRING16 then KStr16 else KNone.

(** a decoded element as reflect sees it *)
Inductive elem := EInt (z : Z) (signed : bool) | EFloat (x : f64) | EOther.

Definition decode_elem (k : kind) (b : list byte) : elem :=
  match k with
  | KInt t => EInt (wrap t (le_val b)) (ity_signed t)
  | KF32 => EFloat (f64_of_f32 (f32_of_bits (le_val b)))          (* Value.Float() widens exactly *)
  | KF64 => EFloat (f64_of_bits (le_val b))
  | _ => EOther
  end.

(** amd64 float64 -> int64: truncation when representable, else the "integer indefinite" -2^63 *)
Definition cvt_f64_i64 (x : f64) : Z :=
  match x with
  | B754_finite _ _ _ _ => let t := Btrunc x in if (- 2 ^ 63 <=? t) && (t <? 2 ^ 63) then t else - 2 ^ 63
  | B754_zero _ => 0
  | _ => - 2 ^ 63
  end.

(** amd64 float64 -> uint64 as the Go compiler emits it: below 2^63 through int64, otherwise
    int64(x - 2^63) OR 2^63 (NaN compares false and takes the second branch; the indefinite value is 2^63) *)
Definition cvt_f64_u64 (x : f64) : Z :=
  match x with
  | B754_zero _ => 0
  | B754_nan => 2 ^ 63
  | B754_infinity _ => 2 ^ 63
  | B754_finite _ _ _ _ =>
      let t := Btrunc x in
      if t <? 2 ^ 63 then wrap U64 (if - 2 ^ 63 <=? t then t else - 2 ^ 63)
      else let t' := t - 2 ^ 63 in if t' <? 2 ^ 63 then t' + 2 ^ 63 else 2 ^ 63
  end.

Definition to_int (e : elem) : Res Z :=                 (* an int64 *)
  match e with
  | EInt z true => Ok z
  | EFloat x => Ok (cvt_f64_i64 x)
  | EInt z false => Ok (wrap I64 z)
  | EOther => Panic
  end.
Definition to_uint (e : elem) : Res Z :=                (* a uint64 *)
  match e with
  | EInt z false => Ok z
  | EInt z true => Ok (wrap U64 z)
  | EFloat x => Ok (cvt_f64_u64 x)
  | EOther => Panic
  end.
Definition to_float (e : elem) : Res f64 :=
  match e with
  | EFloat x => Ok x
  | EInt z _ => Ok (f64_of_Z z)
  | EOther => Panic
  end.

(** one element converted to the destination kind, as bytes *)
Definition coerce_elem (dst : kind) (via_int : bool) (e : elem) : Res (list byte) :=
  match dst with
  | KInt t =>
      do v <- (if via_int then to_int e else to_uint e);
      Ok (le_bytes (ity_width t) (wrap t v))
  | KF32 => do x <- to_float e; Ok (le_bytes 4 (f32_bits (f32_of_f64 x)))
  | KF64 => do x <- to_float e; Ok (le_bytes 8 (f64_bits x))
  | _ => Rejected
  end.

Fixpoint chunks (sz : nat) (n : nat) (d : list byte) : list (list byte) :=
  match n with O => [] | S n' => firstn sz d :: chunks sz n' (skipn sz d) end.

Fixpoint coerce_all (dst : kind) (via_int : bool) (src : kind) (els : list (list byte)) : Res (list byte) :=
  match els with
  | [] => Ok []
  | b :: r => do x <- coerce_elem dst via_int (decode_elem src b); do rest <- coerce_all dst via_int src r; Ok (x ++ rest)
  end.

(** which integer destinations go through toInt: the signed ones and BYTE ([byte(toInt(v))], Kind Int8) *)
Definition dst_via_int (dstT : Z) : bool :=
  (dstT =? ET_BYTE) || match kind_of dstT with KInt t => ity_signed t | _ => false end.

(** CoerceColumnType(name, dstType) on a column of type [srcT] holding [data] *)
Definition coerce_column (srcT dstT : Z) (data : list byte) : Res (list byte) :=
  if (dstT =? ET_BOOL) || (dstT =? ET_STRING) || (dstT =? ET_STRING16) then Rejected
  else match kind_of dstT with
       | KNone => Ok data                                   (* default: log.Error, column unchanged *)
       | dk => let sz := tsize srcT in
               coerce_all dk (dst_via_int dstT) (kind_of srcT) (chunks sz (length data / sz)%nat data)
       end.

(** the element type a coerced column has afterwards (BYTE columns are []byte = UINT8 slices) *)
Definition coerced_type (dstT : Z) : Z := if dstT =? ET_BYTE then ET_UINT8 else dstT.

(* ------------------------------------------------------------------ WriteCSM *)
Record bucket := mkB { b_key : list byte; b_shapes : list shape; b_rows : list (list byte) }.
Record wstate := mkS { w_buckets : list bucket; w_queue : list (list byte * list byte) }.
Record breq := mkR { r_key : list byte; r_cols : list col }.

Definition find_bucket (bs : list bucket) (k : list byte) : option bucket :=
  find (fun b => bytes_eqb (b_key b) k) bs.

Definition cs_shapes (cols : list col) : list shape := map (fun c => (cname c, ctype c)) cols.

(** cs.GetTime: the "Epoch" column must be an []int64; its length is the number of rows *)
Definition num_rows_of (cols : list col) : Res nat :=
  match find (fun c => bytes_eqb (cname c) epoch_name) cols with
  | Some c => if ctype c =? ET_INT64 then Ok (length (cdata c) / 8)%nat else Rejected
  | None => Rejected
  end.

(** NewTimeBucketInfo(... cs.GetDataShapes() ...).GetDataShapesWithEpoch(): Epoch first, every other
    column called exactly "Epoch" dropped *)
Definition new_bucket_shapes (cols : list col) : list shape :=
  (epoch_name, ET_INT64) :: filter (fun s => negb (bytes_eqb (fst s) epoch_name)) (cs_shapes cols).

(** the coercion loop of WriteCSM over the shapes returned by GetMissingAndTypeCoercionColumns *)
Fixpoint apply_coercions (cols : list col) (cs : list shape) : Res (list col) :=
  match cs with
  | [] => Ok cols
  | (n, t) :: r =>
      match find (fun c => bytes_eqb (cname c) n) cols with
      | None => Panic                                            (* reflect.TypeOf(nil).Kind() *)
      | Some c =>
          do d <- coerce_column (ctype c) t (cdata c);
          let cols' := map (fun c' => if bytes_eqb (cname c') n then mkcol n (coerced_type t) d else c') cols in
          apply_coercions cols' r
      end
  end.

(** io.SerializeColumnsToRows(cs, dataShapes, align=false) as WriteCSM calls it with the bucket's shapes
    (columnseries.go:544): columns still of another type are coerced (errors only logged), the rows are laid
    out in the order of [db], every shape's column looked up by name; an "Epoch"-like shape is skipped
    (the epoch leads each row).  Missing columns would be added by AddNullColumn, which panics in reflect
    (MakeSlice of a non-slice type); WriteCSM never gets there. *)
Fixpoint coerce_logged (cols : list col) (cs : list shape) : Res (list col) :=
  match cs with
  | [] => Ok cols
  | (n, t) :: r =>
      match find (fun c => bytes_eqb (cname c) n) cols with
      | None => Panic
      | Some c =>
          match coerce_column (ctype c) t (cdata c) with
          | Ok d => coerce_logged (map (fun c' => if bytes_eqb (cname c') n then mkcol n (coerced_type t) d else c') cols) r
          | Rejected => coerce_logged cols r
          | Panic => Panic
          end
      end
  end.

Fixpoint in_order (db : list shape) (cols : list col) : Res (list col) :=
  match db with
  | [] => Ok []
  | (n, t) :: r =>
      match find (fun c => bytes_eqb (cname c) n) cols with
      | Some c => do rest <- in_order r cols; Ok (mkcol n t (cdata c) :: rest)
      | None => Rejected
      end
  end.

Definition serialize_as (db : list shape) (cols : list col) : Res (list byte) :=
  match missing_and_coercion db (cs_shapes cols) with
  | Rejected => Rejected | Panic => Panic
  | Ok (_ :: _, _) => Panic
  | Ok ([], coercion) =>
      do cols1 <- coerce_logged cols coercion;
      do ordered <- in_order db cols1;
      if negb (existsb (fun sh => is_epoch_name (fst sh)) db) then Rejected
      else match find (fun c => bytes_eqb (cname c) epoch_name) cols1 with
           | Some ec => if ctype ec =? ET_INT64
                        then ser_rows (cdata ec) ordered 0 0 (length (cdata ec) / 8)
                        else Rejected
           | None => Rejected
           end
  end.

Definition split_rows (data : list byte) (n : nat) : list (list byte) :=
  match n with O => [] | _ => chunks (length data / n) n data end.

(** one bucket of the request: Ok (state, was-it-created) / Rejected / Panic; on failure the state may
    already contain an auto-created bucket *)
Definition write_one (st : wstate) (r : breq) : wstate * nat :=
  match num_rows_of (r_cols r) with
  | Rejected => (st, 1%nat) | Panic => (st, 2%nat)
  | Ok n =>
      let lookup := find_bucket (w_buckets st) (r_key r) in
      match lookup, n with
      | None, O => (st, 0%nat)                                            (* nothing to create from *)
      | _, _ =>
          let '(st1, db) :=
            match lookup with
            | Some b => (st, b_shapes b)
            | None => let sh := new_bucket_shapes (r_cols r) in
                      (mkS (w_buckets st ++ [mkB (r_key r) sh []]) (w_queue st), sh)
            end in
          let csd := cs_shapes (r_cols r) in
          if negb (Nat.eqb (length db) (length csd)) then (st1, 1%nat)
          else match missing_and_coercion db csd with
               | Rejected => (st1, 1%nat) | Panic => (st1, 2%nat)
               | Ok (missing, coercion) =>
                   match missing with
                   | _ :: _ => (st1, 1%nat)
                   | [] =>
                       match apply_coercions (r_cols r) coercion with
                       | Rejected => (st1, 1%nat) | Panic => (st1, 2%nat)
                       | Ok cols' =>
                           match serialize_as db cols' with
                           | Rejected => (st1, 1%nat) | Panic => (st1, 2%nat)
                           | Ok data =>
                               (mkS (w_buckets st1)
                                    (w_queue st1 ++ map (fun row => (r_key r, row)) (split_rows data n)), 0%nat)
                           end
                       end
                   end
               end
      end
  end.

(** the flush at the end of an accepted request: every queued row reaches its bucket *)
Definition flush (st : wstate) : wstate :=
  mkS (map (fun b => mkB (b_key b) (b_shapes b)
                        (b_rows b ++ map snd (filter (fun q => bytes_eqb (fst q) (b_key b)) (w_queue st))))
           (w_buckets st)) [].

(** WriteCSM over the request map iterated in the order [reqs] *)
Fixpoint write_loop (st : wstate) (reqs : list breq) : wstate * nat :=
  match reqs with
  | [] => (st, 0%nat)
  | r :: rest => let '(st', code) := write_one st r in
                 match code with O => write_loop st' rest | _ => (st', code) end
  end.

Definition write_csm (st : wstate) (reqs : list breq) : wstate * nat :=
  let '(st', code) := write_loop st reqs in
  match code with O => (flush st', 0%nat) | _ => (st', code) end.

(** what a query of bucket [k] returns: the rows that reached the file *)
Definition stored (st : wstate) (k : list byte) : list (list byte) :=
  match find_bucket (w_buckets st) k with Some b => b_rows b | None => [] end.
