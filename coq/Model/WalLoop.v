(** WalLoop — interleaving model (labelled transition system) of the write path's flush protocol.

    Mirrors (marketstore @ /repo):
      executor/writer.go:137-140,356   WriteRecords -> QueueWriteCommand (one send on writeChannel per
                                       command), then WriteCSM -> RequestFlush
      executor/wal.go:218-220          QueueWriteCommand          writeChannel <- wc
      executor/wal.go:226-261          FlushToWAL                 WTCount := len(writeChannel); WTCount==0 -> return;
                                                                  WTCount receives; FlushCommandsToWAL
      executor/wal.go:263-340          FlushCommandsToWAL         WAL write + fsync (+ ReplicationSender.Send), THEN primary writes
      executor/wal.go:712-785          haveWALWriter, SyncWAL     the background loop: select { ticker | token | checkpoint }, shutdown branch
      executor/wal.go:787-797          RequestFlush               read haveWALWriter; send token, wait   (the early return on a queued
                                                                  token was removed by the fix of F10, see known_findings.txt)
      executor/cache.go:15,27-34       channel capacities (WriteChannelCommandDepth, generated: Src_sched)

    One labelled step per point at which Go may interleave goroutines: every channel send/receive,
    every read/write of a shared variable (haveWALWriter, *shutdownPending), the
    WAL fsync and the primary write.  The state is first-order and [step] is executable, so a schedule
    is a [list label] and [run_labels] decides whether the model can perform it.

    Assumptions of this LTS (DESIGN §10, "partial"): Go's channel semantics (FIFO, send blocks iff
    full, receive blocks iff empty, unbuffered send = rendezvous), sequentially consistent shared
    variables.  The race on haveWALWriter is the subject of C18, not hidden here: every read returns
    the current value. *)
From Coq Require Import List Arith Bool NArith.
Import ListNotations.

(** a write command = (writer id, index of the command within that writer's request) *)
Definition cmd := (nat * nat)%type.
Definition cmd_eqb (a b : cmd) : bool := Nat.eqb (fst a) (fst b) && Nat.eqb (snd a) (snd b).

(** progress of one FlushToWAL call (wal.go:226-340) *)
Inductive fl :=
| FCount                              (* about to evaluate WTCount := len(writeChannel)           l.234 *)
| FDrain (n : nat) (acc : list cmd)   (* n receives from writeChannel left                         l.256-258 *)
| FWal (acc : list cmd)               (* TG serialised; about to write it to the WAL and fsync     l.291-315 *)
| FPrim (acc : list cmd).             (* WAL synced (replication Send done); primary writes next   l.326-339 *)

Inductive rkind := RAcked | RInline.

(** program counter of a writer goroutine inside WriteCSM *)
Inductive wpc :=
| WEnq (d : nat)      (* d commands queued so far; when d = k: about to read haveWALWriter (wal.go:788) *)
| WSend               (* haveWALWriter was true; about to send its own token f                (wal.go:795) *)
| WWait               (* token sent; blocked in <-f                                           (wal.go:796) *)
| WInl (f : fl)       (* haveWALWriter was false: FlushToWAL in the writer's own goroutine, under wf.syncFlushMu *)
| WRet (r : rkind).   (* WriteCSM returned nil *)

Inductive lkind := KTok (f : nat) | KTick | KShut.

(** program counter of the SyncWAL goroutine *)
Inductive lpc :=
| LNotStarted                  (* go SyncWAL(...) not yet scheduled: haveWALWriter still false *)
| LIdle                        (* at the top of the for loop / blocked in select *)
| LFlush (k : lkind) (f : fl)  (* inside FlushToWAL called from the token arm / a ticker arm / the shutdown branch *)
| LAck (f : nat)               (* FlushToWAL returned; about to  f <- struct{}{}            (wal.go:739) *)
| LShutCkpt                    (* shutdown branch: CreateCheckpoint, Done, return           (wal.go:775-780) *)
| LExited.

Record st := mkst {
  ks : list nat;        (* static: number of commands of each writer *)
  capW : N;             (* static: cap(writeChannel) *)
  capF : N;             (* static: cap(flushChannel) *)
  ws : list wpc;
  lp : lpc;
  wch : list cmd;       (* writeChannel, head = oldest *)
  fch : list nat;       (* flushChannel: a token is identified with the writer that made it *)
  have : bool;          (* haveWALWriter *)
  shut : bool;          (* *shutdownPending *)
  synced : list cmd;    (* commands in TGs written to the WAL and fsynced, in WAL order *)
  tgs : list (list cmd);(* the same, TG by TG (ghost; not used by any theorem) *)
  vis : list cmd        (* commands whose primary-file writes have completed *)
}.

Definition init (ks0 : list nat) (cw cf : N) : st :=
  mkst ks0 cw cf (map (fun _ => WEnq 0) ks0) LNotStarted [] [] false false [] [] [].

Inductive label :=
| Enq (w : nat)                 (* writeChannel <- wc *)
| RdHave (w : nat) (b : bool)   (* the read of haveWALWriter returned b *)
| SendTok (w : nat)             (* flushChannel <- f *)
| InlFl (w : nat)               (* one step of FlushToWAL in writer w's goroutine *)
| LStart                        (* haveWALWriter = true *)
| LRecv                         (* select arm  f := <-flushChannel *)
| LTick                         (* select arm  tickerWAL / tickerCheck above threshold: FlushToWAL without a token *)
| LCkpt                         (* select arm  tickerPrimary: CreateCheckpoint (+rotation); no effect on this projection *)
| LFl                           (* one step of the loop's FlushToWAL *)
| LAckL                         (* f <- struct{}{}  together with the owner's <-f *)
| EnvShut                       (* Shutdown(): *shutdownPending = true *)
| LShut                         (* loop read shutdownPending = true: haveWALWriter = false *)
| LShutC.                       (* CreateCheckpoint; Done; return *)

Fixpoint upd {A} (n : nat) (v : A) (l : list A) : list A :=
  match l, n with
  | [], _ => []
  | _ :: r, 0 => v :: r
  | x :: r, S n' => x :: upd n' v r
  end.

Definition set_ws (s : st) (x : list wpc) : st :=
  mkst (ks s) (capW s) (capF s) x (lp s) (wch s) (fch s) (have s) (shut s) (synced s) (tgs s) (vis s).
Definition set_lp (s : st) (x : lpc) : st :=
  mkst (ks s) (capW s) (capF s) (ws s) x (wch s) (fch s) (have s) (shut s) (synced s) (tgs s) (vis s).
Definition set_wch (s : st) (x : list cmd) : st :=
  mkst (ks s) (capW s) (capF s) (ws s) (lp s) x (fch s) (have s) (shut s) (synced s) (tgs s) (vis s).
Definition set_fch (s : st) (x : list nat) : st :=
  mkst (ks s) (capW s) (capF s) (ws s) (lp s) (wch s) x (have s) (shut s) (synced s) (tgs s) (vis s).
Definition set_have (s : st) (x : bool) : st :=
  mkst (ks s) (capW s) (capF s) (ws s) (lp s) (wch s) (fch s) x (shut s) (synced s) (tgs s) (vis s).
Definition set_shut (s : st) (x : bool) : st :=
  mkst (ks s) (capW s) (capF s) (ws s) (lp s) (wch s) (fch s) (have s) x (synced s) (tgs s) (vis s).
Definition add_synced (s : st) (a : list cmd) : st :=
  mkst (ks s) (capW s) (capF s) (ws s) (lp s) (wch s) (fch s) (have s) (shut s) (synced s ++ a) (tgs s ++ [a]) (vis s).
Definition add_vis (s : st) (a : list cmd) : st :=
  mkst (ks s) (capW s) (capF s) (ws s) (lp s) (wch s) (fch s) (have s) (shut s) (synced s) (tgs s) (vis s ++ a).
Definition set_w (s : st) (w : nat) (p : wpc) : st := set_ws s (upd w p (ws s)).

(** One step of FlushToWAL.  [None]: blocked (receive on an empty writeChannel).
    [Some (None, s')]: FlushToWAL returned.  A drain of [n] commands is [n] separate receives, the
    last of which hands the batch to FlushCommandsToWAL. *)
Definition fl_step (f : fl) (s : st) : option (option fl * st) :=
  match f with
  | FCount => match length (wch s) with
              | 0 => Some (None, s)
              | n => Some (Some (FDrain n []), s)
              end
  | FDrain 0 _ => None
  | FDrain (S n) acc =>
      match wch s with
      | [] => None
      | c :: r => Some (Some (match n with 0 => FWal (acc ++ [c]) | _ => FDrain n (acc ++ [c]) end), set_wch s r)
      end
  | FWal acc => Some (Some (FPrim acc), add_synced s acc)
  | FPrim acc => Some (None, add_vis s acc)
  end.

Definition after_flush (k : lkind) : lpc :=
  match k with KTok f => LAck f | KTick => LIdle | KShut => LShutCkpt end.

(** wf.syncFlushMu (since /repo 39160a5): the flushes RequestFlush runs in its callers' goroutines take
    turns.  A writer at [WInl FCount] has not acquired the mutex yet; it may start only when no OTHER writer is
    inside its inline FlushToWAL.  (The loop goroutine's own flushes do not take this mutex.) *)
Definition inl_blocked (f : fl) (w : nat) (l : list wpc) : bool :=
  match f with
  | FCount => existsb (fun p => match snd p with
                                | WInl FCount => false
                                | WInl _ => negb (fst p =? w)
                                | _ => false
                                end) (combine (seq 0 (length l)) l)
  | _ => false
  end.

Definition step (l : label) (s : st) : option st :=
  match l with
  | Enq w =>
      match nth_error (ws s) w with
      | Some (WEnq d) =>
          if (d <? nth w (ks s) 0) && (N.of_nat (length (wch s)) <? capW s)%N
          then Some (set_w (set_wch s (wch s ++ [(w, d)])) w (WEnq (S d))) else None
      | _ => None
      end
  | RdHave w b =>
      match nth_error (ws s) w with
      | Some (WEnq d) =>
          if (d =? nth w (ks s) 0) && Bool.eqb b (have s)
          then Some (set_w s w (if b then WSend else WInl FCount)) else None
      | _ => None
      end
  | SendTok w =>
      match nth_error (ws s) w with
      | Some WSend =>
          if (N.of_nat (length (fch s)) <? capF s)%N
          then Some (set_w (set_fch s (fch s ++ [w])) w WWait) else None
      | _ => None
      end
  | InlFl w =>
      match nth_error (ws s) w with
      | Some (WInl f) =>
          if inl_blocked f w (ws s) then None else
          match fl_step f s with
          | None => None
          | Some (None, s') => Some (set_w s' w (WRet RInline))
          | Some (Some f', s') => Some (set_w s' w (WInl f'))
          end
      | _ => None
      end
  | LStart => match lp s with LNotStarted => Some (set_lp (set_have s true) LIdle) | _ => None end
  | LRecv =>
      match lp s, fch s with
      | LIdle, f :: r => Some (set_lp (set_fch s r) (LFlush (KTok f) FCount))
      | _, _ => None
      end
  | LTick => match lp s with LIdle => Some (set_lp s (LFlush KTick FCount)) | _ => None end
  | LCkpt => match lp s with LIdle => Some s | _ => None end
  | LFl =>
      match lp s with
      | LFlush k f =>
          match fl_step f s with
          | None => None
          | Some (None, s') => Some (set_lp s' (after_flush k))
          | Some (Some f', s') => Some (set_lp s' (LFlush k f'))
          end
      | _ => None
      end
  | LAckL =>
      match lp s with
      | LAck f =>
          match nth_error (ws s) f with
          | Some WWait => Some (set_lp (set_w s f (WRet RAcked)) LIdle)
          | _ => None
          end
      | _ => None
      end
  | EnvShut => Some (set_shut s true)
  | LShut =>
      match lp s with
      | LIdle => if shut s then Some (set_lp (set_have s false) (LFlush KShut FCount)) else None
      | _ => None
      end
  | LShutC => match lp s with LShutCkpt => Some (set_lp s LExited) | _ => None end
  end.

Fixpoint run_labels (s : st) (ls : list label) : option st :=
  match ls with
  | [] => Some s
  | l :: r => match step l s with Some s' => run_labels s' r | None => None end
  end.

Definition enabled (l : label) (s : st) : bool :=
  match step l s with Some _ => true | None => false end.

(** observables *)
Definition returned (s : st) (w : nat) : bool :=
  match nth_error (ws s) w with Some (WRet _) => true | _ => false end.
Definition mem_cmd (c : cmd) (l : list cmd) : bool := existsb (cmd_eqb c) l.
(** every command of writer w is in l *)
Definition all_in (s : st) (w : nat) (l : list cmd) : bool :=
  forallb (fun i => mem_cmd (w, i) l) (seq 0 (nth w (ks s) 0)).
Definition flushed (s : st) (w : nat) : bool := all_in s w (synced s) && all_in s w (vis s).

(** schedule guards (the defect classes, as predicates on a schedule) *)
(** steady: no writer ever read haveWALWriter = false, i.e. FlushToWAL runs only in the loop goroutine *)
Definition steady (l : label) : bool :=
  match l with RdHave _ false => false | InlFl _ => false | _ => true end.
