(** Model of the trigger dispatch path.

    Go function (file:line at HEAD)                          model
    ------------------------------------------------------   ---------------------------------
    trigger.Matcher.Match (plugins/trigger/trigger.go:176)   parse_on / match_here / match_search / Match
    serializeTG's writesPerFile (executor/wal.go:343-376)     writes_per_file
    FlushCommandsToWAL, loop at wal.go:326-338                flush_m    (AppendRecord per buffer, in map order)
    TriggerPluginDispatcher.AppendRecord (written.go:51)      append_record
    TriggerPluginDispatcher.DispatchRecords (written.go:62)   dispatch   (map order = any permutation)
    TriggerPluginDispatcher.run (written.go:37)               run_entry  (Match loop over the matchers, in order)
    TriggerPluginDispatcher.fire (written.go:69)              one [fire] value per call of Trigger.Fire
    wal.OffsetIndexBuffer.IndexAndPayload (wal/oib.go:22)     [rec] = (index, payload)

    Quirks kept: Match replaces every '*' by the regexp [^/]+ and then SEARCHES the key for the resulting
    regexp: the match is unanchored on both sides, '.' stays a regexp wildcard (any byte but '\n').  Go
    maps iterate in an unspecified order: wherever the code ranges over a map the model takes an
    explicit order argument and the theorems quantify over every permutation.

    Go's regexp engine itself is not modelled: [lang] below is the textbook language of the regexp
    restricted to the tokens literal / '.' / [^/]+, over ASCII bytes (Go matches runes; for bytes < 0x80 a
    rune is a byte).  Patterns with any other regexp metacharacter are outside the model ([parse_on] =
    None). *)
From Coq Require Import ZArith NArith List Bool Lia Permutation.
From Coq.Strings Require Import Byte.
Import ListNotations.
Require Import MS.Base.Hex.

(** * Matcher.Match *)
Inductive tok := Lit (b : byte) | Dot | Star.

Definition slash : byte := x2f.
Definition newline : byte := x0a.

(** regexp metacharacters other than '*' and '.' :  \ + ? ( ) | [ ] { } ^ $  *)
Definition other_meta (b : byte) : bool :=
  existsb (Byte.eqb b) [x5c; x2b; x3f; x28; x29; x7c; x5b; x5d; x7b; x7d; x5e; x24].
Definition is_ascii (b : byte) : bool := (Byte.to_N b <? 128)%N.

(** strings.Replace(on, "*", "[^/]+", -1) followed by regexp parsing, for the supported alphabet *)
Fixpoint parse_on (on : list byte) : option (list tok) :=
  match on with
  | [] => Some []
  | b :: r =>
      if other_meta b || negb (is_ascii b) then None
      else match parse_on r with
           | None => None
           | Some p => Some ((if Byte.eqb b x2a then Star else if Byte.eqb b x2e then Dot else Lit b) :: p)
           end
  end.

(** does the pattern match a PREFIX of s *)
Fixpoint match_here (p : list tok) (s : list byte) : bool :=
  match p with
  | [] => true
  | Lit b :: p' => match s with c :: s' => Byte.eqb b c && match_here p' s' | [] => false end
  | Dot :: p' => match s with c :: s' => negb (Byte.eqb c newline) && match_here p' s' | [] => false end
  | Star :: p' =>
      (fix star (s : list byte) : bool :=
         match s with
         | [] => false
         | c :: s' => negb (Byte.eqb c slash) && (match_here p' s' || star s')
         end) s
  end.

(** regexp.MatchString: is there a match starting anywhere *)
Fixpoint match_search (p : list tok) (s : list byte) : bool :=
  match_here p s || match s with [] => false | _ :: s' => match_search p s' end.

(** Matcher.Match(keyPath) for a matcher whose On condition is [on]; None = pattern outside the model *)
Definition Match (on key : list byte) : option bool :=
  match parse_on on with Some p => Some (match_search p key) | None => None end.

(** the language of the regexp (specification of the two functions above) *)
Inductive lang : list tok -> list byte -> Prop :=
| L_nil : lang [] []
| L_lit b p w : lang p w -> lang (Lit b :: p) (b :: w)
| L_dot c p w : c <> newline -> lang p w -> lang (Dot :: p) (c :: w)
| L_star u p w : u <> [] -> Forall (fun c => c <> slash) u -> lang p w -> lang (Star :: p) (u ++ w).

Definition Matches (p : list tok) (key : list byte) : Prop :=
  exists pre w post, key = pre ++ w ++ post /\ lang p w.

(** * Records, commands, the accumulation map *)
Definition key := list byte.
Definition rec := (Z * list byte)%type.          (* interval index, payload (= buffer[16:]) *)
Record cmd := mkcmd { c_key : key; c_rec : rec }. (* WriteCommand projected on WALKeyPath, Index, Data *)

(** map[string][]T as an association list in order of first insertion *)
Definition smap (T : Type) := list (key * list T).

Fixpoint map_append {T} (m : smap T) (k : key) (r : T) : smap T :=
  match m with
  | [] => [(k, [r])]
  | (k', rs) :: m' => if bytes_eqb k k' then (k', rs ++ [r]) :: m' else (k', rs) :: map_append m' k r
  end.

(** tpd.m[keyPath] = append(tpd.m[keyPath], record)  (nil map and empty map behave alike here) *)
Definition append_record (m : smap rec) (k : key) (r : rec) : smap rec := map_append m k r.

(** serializeTG: writesPerFile[keyPath] = append(writesPerFile[keyPath], buffer), in command order *)
Definition writes_per_file (cmds : list cmd) : smap rec :=
  fold_left (fun m c => map_append m (c_key c) (c_rec c)) cmds [].

(** FlushCommandsToWAL wal.go:326-338: [for keyPath, writes := range writesPerFile { for _, buffer :=
    range writes { tpd.AppendRecord(keyPath, buffer.IndexAndPayload()) } }]; [wpf] is writesPerFile in
    the order the range statement happens to visit it *)
Definition flush_m (wpf : smap rec) (m0 : smap rec) : smap rec :=
  fold_left (fun m (e : key * list rec) => fold_left (fun m r => append_record m (fst e) r) (snd e) m) wpf m0.

(** one message on tpd.c *)
Notation wrecs := (key * list rec)%type.

(** * The dispatcher goroutine *)
Record fire := mkfire { f_trig : nat; f_key : key; f_recs : list rec }.   (* one Trigger.Fire call *)

(** [for _, tmatcher := range tpd.triggerMatchers { if tmatcher.Match(wr.key) { go fire(...) } }];
    the matchers are given by their parsed On patterns, a trigger is named by its position *)
Fixpoint run_from (i : nat) (trigs : list (list tok)) (wr : wrecs) : list fire :=
  match trigs with
  | [] => []
  | p :: r => (if match_search p (fst wr) then [mkfire i (fst wr) (snd wr)] else []) ++ run_from (S i) r wr
  end.
Definition run_entry (trigs : list (list tok)) (wr : wrecs) : list fire := run_from 0 trigs wr.

(** * One flush and a history of flushes, with the map orders as explicit choices *)
(** [ord1] = order in which wal.go:326 visits writesPerFile, [ord2] = order in which DispatchRecords
    visits tpd.m; a choice is admissible when it is a permutation of the map's entries. *)
Definition flush_ok (cmds : list cmd) (ord1 ord2 : smap rec) : Prop :=
  Permutation ord1 (writes_per_file cmds) /\ Permutation ord2 (flush_m ord1 []).

(** messages put on tpd.c by one FlushCommandsToWAL (deferred DispatchRecords; tpd.m is nil again after) *)
Definition flush_msgs (ord2 : smap rec) : list wrecs := ord2.

(** deterministic instance: both ranges visit in insertion order *)
Definition flush_det (cmds : list cmd) : list wrecs := flush_m (writes_per_file cmds) [].

Definition fired_of_msgs (trigs : list (list tok)) (msgs : list wrecs) : list fire :=
  flat_map (run_entry trigs) msgs.

(** all Fire calls of a history of flushes, deterministic orders *)
Definition fired_det (trigs : list (list tok)) (flushes : list (list cmd)) : list fire :=
  flat_map (fun cmds => fired_of_msgs trigs (flush_det cmds)) flushes.

(** * Per-record view: what the property talks about *)
Definition event := (nat * key * rec)%type.      (* trigger, bucket key, (index, payload) *)

Definition fire_events (f : fire) : list event := map (fun r => (f_trig f, f_key f, r)) (f_recs f).
Definition events (fs : list fire) : list event := flat_map fire_events fs.

(** triggers (positions) whose pattern matches the key *)
Fixpoint matching_from (i : nat) (trigs : list (list tok)) (k : key) : list nat :=
  match trigs with
  | [] => []
  | p :: r => (if match_search p k then [i] else []) ++ matching_from (S i) r k
  end.
Definition matching (trigs : list (list tok)) (k : key) : list nat := matching_from 0 trigs k.

(** the specification: {(t,k,i,p) | (k,i,p) written in a flushed TG, Match t k} as a list comprehension *)
Definition spec_events (trigs : list (list tok)) (cmds : list cmd) : list event :=
  flat_map (fun c => map (fun t => (t, c_key c, c_rec c)) (matching trigs (c_key c))) cmds.

(** decidable equality on events (for count_occ) *)
Definition rec_eq_dec (a b : rec) : {a = b} + {a <> b}.
Proof. decide equality; [apply (list_eq_dec Byte.byte_eq_dec) | apply Z.eq_dec]. Defined.
Definition event_eq_dec (a b : event) : {a = b} + {a <> b}.
Proof.
  decide equality; [apply rec_eq_dec|].
  decide equality; [apply (list_eq_dec Byte.byte_eq_dec) | apply Nat.eq_dec].
Defined.

(** * The background-mode system as a labelled transition system (all interleavings)

    Threads: any number of writer goroutines (each a list of commands still to be queued by
    WriteRecords -> QueueWriteCommand), the WAL goroutine (SyncWAL -> FlushToWAL), the dispatcher
    goroutine (run), the fire goroutines.  Shared: txnPipe.writeChannel (FIFO [s_q]), tpd.c (FIFO [s_c]).
    tpd.m is touched only inside FlushCommandsToWAL, i.e. only by the WAL goroutine, and is nil outside
    of it; a flush is therefore one atomic step w.r.t. tpd.m.  FlushToWAL reads len(writeChannel) and
    then receives that many commands: it takes a PREFIX of the queue (writers may have appended more in
    the meantime). *)
Record sys := mksys {
  s_writers : list (list cmd);     (* per writer goroutine: commands not yet queued *)
  s_q : list cmd;                  (* txnPipe.writeChannel *)
  s_c : list wrecs;                (* tpd.c *)
  s_launched : list fire;          (* go tpd.fire(...) started, Trigger.Fire not yet called *)
  s_fired : list fire              (* Trigger.Fire calls made, in the order they happened *)
}.

Fixpoint set_nth {A} (l : list A) (i : nat) (x : A) : list A :=
  match l, i with
  | [], _ => []
  | _ :: r, O => x :: r
  | y :: r, S i' => y :: set_nth r i' x
  end.

Inductive step (trigs : list (list tok)) : sys -> sys -> Prop :=
| St_queue : forall s i c rest,                       (* writer i: QueueWriteCommand *)
    nth_error (s_writers s) i = Some (c :: rest) ->
    step trigs s (mksys (set_nth (s_writers s) i rest) (s_q s ++ [c]) (s_c s) (s_launched s) (s_fired s))
| St_flush : forall s taken rest ord1 ord2,           (* WAL goroutine: FlushToWAL of a prefix of the queue *)
    s_q s = taken ++ rest -> taken <> [] ->          (* WTCount = 0: FlushToWAL returns before FlushCommandsToWAL *)
    flush_ok taken ord1 ord2 ->
    step trigs s (mksys (s_writers s) rest (s_c s ++ flush_msgs ord2) (s_launched s) (s_fired s))
| St_dispatch : forall s wr rest,                     (* dispatcher: one iteration of [for wr := range tpd.c] *)
    s_c s = wr :: rest ->
    step trigs s (mksys (s_writers s) (s_q s) rest (s_launched s ++ run_entry trigs wr) (s_fired s))
| St_fire : forall s l1 f l2,                         (* some fire goroutine reaches trig.Fire *)
    s_launched s = l1 ++ f :: l2 ->
    step trigs s (mksys (s_writers s) (s_q s) (s_c s) (l1 ++ l2) (s_fired s ++ [f])).

Inductive steps (trigs : list (list tok)) : sys -> sys -> Prop :=
| Steps_refl : forall s, steps trigs s s
| Steps_step : forall s1 s2 s3, step trigs s1 s2 -> steps trigs s2 s3 -> steps trigs s1 s3.

Definition init_sys (writers : list (list cmd)) : sys := mksys writers [] [] [] [].

(** everything written has been queued, flushed, dispatched and fired *)
Definition quiescent (s : sys) : Prop :=
  Forall (fun w => w = []) (s_writers s) /\ s_q s = [] /\ s_c s = [] /\ s_launched s = [].

(** * Synchronous mode (no SyncWAL goroutine: background sync disabled) with triggers that WRITE

    Without a WAL goroutine RequestFlush runs FlushToWAL in the caller.  A trigger whose Fire writes
    (contrib/ondiskagg: Fire -> executor.WriteCSM) therefore flushes from its FIRE goroutine, on the same
    dispatcher, concurrently with whoever else is flushing.  Since the fix "RequestFlush serialises the flushes
    it runs in its callers' goroutines" (WALFileType.syncFlushMu, wal.go RequestFlush) these flushes take turns:
    a whole FlushToWAL -- AppendRecord loop, DispatchRecords' sends, tpd.m = nil -- is one atomic step w.r.t.
    tpd.m, exactly as in background mode, and tpd.m is nil between flushes.  Threads: the callers and the fire
    goroutines of writing triggers, each with the commands of its pending flush ([] = done). *)
Record ssys := mkssys {
  y_c : list wrecs;               (* tpd.c *)
  y_threads : list (list cmd);    (* pending synchronous flushes *)
  y_fired : list fire;            (* Trigger.Fire calls made *)
  y_appended : list cmd           (* history variable: every command ever passed to AppendRecord *)
}.

Section SyncMode.
  Variable trigs : list (list tok).
  (** what trigger t's Fire writes when it is fired with message wr ([] = it does not write) *)
  Variable react : nat -> wrecs -> list cmd.

  Definition spawn (fs : list fire) : list (list cmd) :=
    flat_map (fun f => match react (f_trig f) (f_key f, f_recs f) with [] => [] | cmds => [cmds] end) fs.

  Inductive sstep : ssys -> ssys -> Prop :=
  | Ss_flush : forall s i cmds ord1 ord2,    (* one caller holds syncFlushMu for its whole FlushToWAL *)
      nth_error (y_threads s) i = Some cmds -> cmds <> [] -> flush_ok cmds ord1 ord2 ->
      sstep s (mkssys (y_c s ++ flush_msgs ord2) (set_nth (y_threads s) i []) (y_fired s) (y_appended s ++ cmds))
  | Ss_dispatch : forall s wr rest,          (* run: Match loop, go fire; Fire is called, writing triggers queue a flush *)
      y_c s = wr :: rest ->
      sstep s (mkssys rest (y_threads s ++ spawn (run_entry trigs wr)) (y_fired s ++ run_entry trigs wr) (y_appended s)).

  Inductive ssteps : ssys -> ssys -> Prop :=
  | Sss_refl : forall s, ssteps s s
  | Sss_step : forall s1 s2 s3, sstep s1 s2 -> ssteps s2 s3 -> ssteps s1 s3.
End SyncMode.

Definition sinit (callers : list (list cmd)) : ssys := mkssys [] callers [] [].
