(** CatLock — the catalog directory's RWMutex discipline as an LTS, for the data-race clause of C18.

    Mirrors (marketstore @ /repo) catalog/catalog.go: every *Directory embeds a sync.RWMutex that guards its
    maps [datafile] (year files of a bucket) and [subDirs]:
      map WRITES  AddFile l.411-413 (d.Lock(); d.datafile[path] = info; d.Unlock()), addSubdir (called by AddTimeBucket
                  with d.Lock() held, l.172-173,226), removeSubDir l.708-718 (d.Lock(); delete(d.subDirs, ..))
      map READS   GetTimeBucketInfoSlice, GetLatestYearFile, recurse, GetSubDirWithItemName, AddFile's template
                  lookup, ... : d.RLock() ... d.RUnlock()
    (directMap is a *sync.Map and needs no lock.)  checks/C18.py ties this table to the source on every run.

    Each goroutine runs a list of operations on one directory; an operation is
    acquire (Lock or RLock) ; one map access (read or write) ; release.  One label per step.  The lock state
    is explicit: a writer holds it alone, readers share it.  A DATA RACE is a reachable state in which two
    goroutines are both at their map access and at least one of the two accesses is a write (the
    operational definition: two conflicting accesses simultaneously enabled; for programs whose only
    synchronisation is this lock it coincides with "unordered by happens-before").

    [disciplined]: every map write is done under the write lock.  The seeded defect C18-1 is the
    undisciplined operation  RLock; write; RUnlock. *)
From Coq Require Import List Arith Bool.
Import ListNotations.

Inductive lmode := MW | MR.                 (* Lock / RLock *)
Inductive akind := KWrite | KRead.          (* map assignment or delete / map lookup or iteration *)
Record op := mkop { olock : lmode; oacc : akind }.

Inductive phase := PAcq | PAcc | PRel.
(** a goroutine: remaining operations, phase within the first one *)
Record thr := mkthr { ops : list op; ph : phase }.

Record st := mkst {
  thrs : list thr;
  writer : option nat;       (* goroutine holding the write lock *)
  readers : list nat         (* goroutines holding the read lock *)
}.

Definition init (progs : list (list op)) : st := mkst (map (fun p => mkthr p PAcq) progs) None [].

Inductive label := Acq (t : nat) | Acc (t : nat) | Rel (t : nat).

Fixpoint upd {A} (n : nat) (v : A) (l : list A) : list A :=
  match l, n with
  | [], _ => []
  | _ :: r, 0 => v :: r
  | x :: r, S n' => x :: upd n' v r
  end.
Definition remove_nat (t : nat) (l : list nat) : list nat := filter (fun x => negb (x =? t)) l.

Definition step (l : label) (s : st) : option st :=
  match l with
  | Acq t =>
      match nth_error (thrs s) t with
      | Some (mkthr (o :: rest) PAcq) =>
          match olock o with
          | MW => match writer s, readers s with
                  | None, [] => Some (mkst (upd t (mkthr (o :: rest) PAcc) (thrs s)) (Some t) [])
                  | _, _ => None
                  end
          | MR => match writer s with
                  | None => Some (mkst (upd t (mkthr (o :: rest) PAcc) (thrs s)) None (t :: readers s))
                  | Some _ => None
                  end
          end
      | _ => None
      end
  | Acc t =>
      match nth_error (thrs s) t with
      | Some (mkthr (o :: rest) PAcc) => Some (mkst (upd t (mkthr (o :: rest) PRel) (thrs s)) (writer s) (readers s))
      | _ => None
      end
  | Rel t =>
      match nth_error (thrs s) t with
      | Some (mkthr (o :: rest) PRel) =>
          match olock o with
          | MW => Some (mkst (upd t (mkthr rest PAcq) (thrs s)) None (readers s))
          | MR => Some (mkst (upd t (mkthr rest PAcq) (thrs s)) (writer s) (remove_nat t (readers s)))
          end
      | _ => None
      end
  end.

Fixpoint run_labels (s : st) (ls : list label) : option st :=
  match ls with
  | [] => Some s
  | l :: r => match step l s with Some s' => run_labels s' r | None => None end
  end.

(** the map access goroutine t is about to perform, if it is at its access step *)
Definition pending (s : st) (t : nat) : option akind :=
  match nth_error (thrs s) t with
  | Some (mkthr (o :: _) PAcc) => Some (oacc o)
  | _ => None
  end.

Definition conflict (a b : option akind) : bool :=
  match a, b with
  | Some KWrite, Some _ | Some _, Some KWrite => true
  | _, _ => false
  end.

(** a data race is enabled in s: two different goroutines at conflicting accesses *)
Definition racy (s : st) : bool :=
  existsb (fun t => existsb (fun u => negb (t =? u) && conflict (pending s t) (pending s u))
                            (seq 0 (length (thrs s))))
          (seq 0 (length (thrs s))).

Definition disciplined_op (o : op) : bool := match oacc o, olock o with KWrite, MR => false | _, _ => true end.
Definition disciplined (progs : list (list op)) : bool := forallb (forallb disciplined_op) progs.
