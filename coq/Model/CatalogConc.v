(** C17, concurrent half: an interleaving model of catalog.Directory split at its lock boundaries.

    Directory nodes are heap objects (RemoveTimeBucket keeps POINTERS to the nodes it walked, while a
    concurrent AddTimeBucket replaces a whole sub-tree by freshly scanned nodes), so the in-memory catalog
    is a heap here: node ids, [subDirs] : name -> id, the root's directMap : path -> id.

      AddTimeBucket (catalog.go:163)     holds the root lock from start to end: [LCreate] = the whole call,
                                         or [LCreateScan] (takes the lock; disk effects = Model/Catalog.add_time_bucket,
                                         then the NewDirectory scan of the symbol) followed by [LCreateInstall]
                                         (addSubdir; releases the lock)
      RemoveTimeBucket (catalog.go:233)  since "fix: RemoveTimeBucket holds the root lock" ALSO under the root lock:
                                         [LBegin] takes it and walks the tree collecting tree[i]; [LStep] = one
                                         iteration of the bottom-up loop; the last [LStep] is the final
                                         "if deleteMap[0]" block and releases the lock
      the root sync.RWMutex (writers)    [c_lock]: a label that needs the lock while another thread holds it does
                                         not fire (the state is unchanged: the goroutine stays blocked)
      ListTimeBucketKeyNames             [hlist]
      NewDirectory(root) on the disk     Model/Catalog.new_directory

    A schedule is a list of labels; [run_labels] executes it. *)
From Coq Require Import ZArith NArith List Bool Lia.
From Coq.Strings Require Import Byte.
Import ListNotations.
Require Import MS.Base.GoInt MS.Base.Hex MS.Base.Path MS.Model.Catalog.

Record hnode := mkH {
  h_item : name; h_path : list byte; h_cat : list byte;
  h_subs : list (name * nat); h_files : option (list (name * Z))
}.

Record heap := mkHeap { hp_nodes : list (nat * hnode); hp_root : nat; hp_dm : list (list byte * nat); hp_next : nat }.

Fixpoint nget {A} (k : nat) (l : list (nat * A)) : option A :=
  match l with [] => None | (k', v) :: r => if Nat.eqb k k' then Some v else nget k r end.
Fixpoint nset {A} (k : nat) (v : A) (l : list (nat * A)) : list (nat * A) :=
  match l with
  | [] => [(k, v)]
  | (k', v') :: r => if Nat.eqb k k' then (k, v) :: r else (k', v') :: nset k v r
  end.

Definition hget (h : heap) (id : nat) : option hnode := nget id (hp_nodes h).
Definition hset (h : heap) (id : nat) (n : hnode) : heap :=
  mkHeap (nset id n (hp_nodes h)) (hp_root h) (hp_dm h) (hp_next h).

(** copy a scanned tree into fresh heap objects *)
Fixpoint halloc (fuel : nat) (n : cnode) (h : heap) : nat * heap :=
  match fuel with
  | O => (0%nat, h)
  | S f =>
      let '(subs, h1) :=
        fold_left (fun '(acc, hh) '(nm, m) => let '(id, hh') := halloc f m hh in (acc ++ [(nm, id)], hh'))
                  (cn_subs n) ([], h) in
      let id := hp_next h1 in
      (id, mkHeap (nset id (mkH (cn_item n) (cn_path n) (cn_cat n) subs (cn_files n)) (hp_nodes h1))
                  (hp_root h1) (hp_dm h1) (S id))
  end.

Fixpoint hwalk (fuel : nat) (h : heap) (id : nat) (addr : list name) : option nat :=
  match addr with
  | [] => Some id
  | c :: r =>
      match fuel with
      | O => None
      | S f => match hget h id with
               | Some n => match aget c (h_subs n) with Some id' => hwalk f h id' r | None => None end
               | None => None
               end
      end
  end.

(** the initial catalog: NewDirectory(root) *)
Definition hinit (w : world) (root : list byte) : heap :=
  let '(n, dm, _) := new_directory w root in
  let '(id, h) := halloc 8 n (mkHeap [] 0 [] 1) in
  mkHeap (hp_nodes h) id
         (flat_map (fun '(k, a) => match hwalk 8 h id a with Some i => [(k, i)] | None => [] end) dm) (hp_next h).

(** a value catalog carrying only what add_time_bucket reads from the root node (its path and category) *)
Definition root_view (h : heap) : catalog :=
  match hget h (hp_root h) with
  | Some n => mkCat (CNode (h_item n) (h_path n) (h_cat n) [] None) []
  | None => mkCat (CNode [] [] [] [] None) []
  end.

(** AddTimeBucket in two halves, both under the root lock (which RemoveTimeBucket's loop does not take):
    [h_create_scan]: the mkdir chain, category files, year file and the NewDirectory scan of the symbol's
    directory; [h_create_install]: addSubdir - the symbol's sub-tree is replaced by freshly allocated nodes and
    their directMap entries are stored over the old ones *)
Definition pending : Type := name * cnode * dmap * list byte.     (* symbol, scanned tree, its directMap, root category *)

Definition h_create_scan (root : list byte) (w : world) (h : heap) (key : list byte) (year : Z) (tag : list byte)
  : world * option pending * nat :=
  match split_on colon key with
  | [i; ck] =>
      let k := new_tbk i ck in
      let '(w1, c1, o) := add_time_bucket w (root_view h) k (tbi_path root k year) tag in
      match o with
      | Done _ =>
          let nm := hd [] (key_items k) in
          let rootp := cn_path (croot (root_view h)) in
          let '(ch, dmc, _) := new_directory w1 (join2 rootp nm) in
          (w1, Some (nm, ch, dmc, cn_cat (croot c1)), 0%nat)
      | Fail _ => (w1, None, 1%nat)
      | Crash => (w1, None, 2%nat)
      end
  | _ => (w, None, 1%nat)
  end.

Definition h_create_install (h : heap) (p : pending) : heap :=
  let '(nm, ch, dmc, rcat) := p in
  let '(cid, h1) := halloc 8 ch h in
  let h2 := match hget h1 cid with
            | Some cn => hset h1 cid (mkH nm (h_path cn) (h_cat cn) (h_subs cn) (h_files cn))
            | None => h1
            end in
  let h3 := match hget h2 (hp_root h2) with
            | Some rn => hset h2 (hp_root h2) (mkH (h_item rn) (h_path rn) rcat (aset nm cid (h_subs rn)) (h_files rn))
            | None => h2
            end in
  let dm' := fold_left (fun d '(kk, a) => match hwalk 8 h3 cid a with Some i => aset kk i d | None => d end) dmc (hp_dm h3) in
  mkHeap (hp_nodes h3) (hp_root h3) dm' (hp_next h3).

(* ------------------------------------------------------------------ RemoveTimeBucket, step by step *)
Record dthread := mkD {
  d_levels : list (nat * option name);   (* (tree[i], itemName of tree[i+1]) still to process, deepest first *)
  d_top : option nat;                    (* tree[0] *)
  d_deleted : bool;                      (* deleteMap[i+1] *)
  d_final : bool;                        (* the loop is over, the final block is still to run *)
  d_done : bool
}.

Fixpoint hwalk_ids (fuel : nat) (h : heap) (id : nat) (items : list name) : option (list nat) :=
  match items with
  | [] => Some []
  | c :: r =>
      match fuel with
      | O => None
      | S f => match hget h id with
               | Some n => match aget c (h_subs n) with
                           | Some id' => match hwalk_ids f h id' r with Some l => Some (id' :: l) | None => None end
                           | None => None
                           end
               | None => None
               end
      end
  end.

(** the walk at the top of RemoveTimeBucket: tree[i] = the node found by name at each level *)
Definition d_begin (h : heap) (key : list byte) : option dthread :=
  let items := key_items (match split_on colon key with i :: ck :: _ => new_tbk i ck | i :: _ => new_tbk i [] | [] => [] end) in
  match hwalk_ids 8 h (hp_root h) items with
  | Some ids =>
      let childs := map Some (tl items) ++ [None] in
      Some (mkD (rev (combine ids childs)) (hd_error ids) false false false)
  | None => None
  end.

Definition h_has_subs (h : heap) (id : nat) : bool :=
  match hget h id with Some n => match h_subs n with [] => false | _ => true end | None => false end.

Definition h_rm_files (w : world) (h : heap) (id : nat) : world :=
  match hget h id with
  | Some n => match do_rmall w (h_path n) with Some w' => w' | None => w end
  | None => w
  end.

(** node.removeSubDir(name, directMap): only that node's map and the SHARED directMap change *)
Definition h_remove_sub (h : heap) (id : nat) (nm : name) : heap :=
  match hget h id with
  | Some n =>
      let dm' := match aget nm (h_subs n) with
                 | Some sid => match hget h sid with Some sn => adel (h_path sn) (hp_dm h) | None => hp_dm h end
                 | None => hp_dm h
                 end in
      let h' := hset h id (mkH (h_item n) (h_path n) (h_cat n) (adel nm (h_subs n)) (h_files n)) in
      mkHeap (hp_nodes h') (hp_root h') dm' (hp_next h')
  | None => h
  end.

Definition d_step (w : world) (h : heap) (t : dthread) : world * heap * dthread :=
  if d_done t then (w, h, t)
  else match d_levels t with
       | (id, child) :: rest =>
           let '(w1, h1, del_here) :=
             match child with
             | None => (h_rm_files w h id, h, true)
             | Some ch => if d_deleted t then (w, h_remove_sub h id ch, false) else (w, h, false)
             end in
           if negb (h_has_subs h1 id) then (h_rm_files w1 h1 id, h1, mkD rest (d_top t) true (match rest with [] => true | _ => false end) false)
           else (w1, h1, mkD rest (d_top t) del_here (match rest with [] => true | _ => false end) false)
       | [] =>
           (* if deleteMap[0] { removeDirFiles(tree[0]); d.removeSubDir(tree[0].itemName, d.directMap) } *)
           match d_deleted t, d_top t with
           | true, Some id =>
               let w1 := h_rm_files w h id in
               let nm := match hget h id with Some n => h_item n | None => [] end in
               (w1, h_remove_sub h (hp_root h) nm, mkD [] (d_top t) true false true)
           | _, _ => (w, h, mkD [] (d_top t) (d_deleted t) false true)
           end
       end.

(* ------------------------------------------------------------------ schedules *)
Inductive label :=
| LCreate (key : list byte) (year : Z) (tag : list byte)              (* a whole AddTimeBucket, uninterrupted *)
| LCreateScan (tid : nat) (key : list byte) (year : Z) (tag : list byte)
| LCreateInstall (tid : nat)
| LBegin (tid : nat) (key : list byte)
| LStep (tid : nat).

Record cstate := mkC { c_world : world; c_heap : heap; c_threads : list (nat * dthread); c_pending : list (nat * pending);
                       c_lock : option nat (* the thread holding the root lock *) }.

Definition lock_free (s : cstate) : bool := match c_lock s with None => true | Some _ => false end.

Definition run_label (root : list byte) (s : cstate) (l : label) : cstate :=
  match l with
  | LCreate k y t =>
      if lock_free s then
        let '(w, p, _) := h_create_scan root (c_world s) (c_heap s) k y t in
        mkC w (match p with Some p' => h_create_install (c_heap s) p' | None => c_heap s end) (c_threads s) (c_pending s) None
      else s
  | LCreateScan tid k y t =>
      if lock_free s then
        let '(w, p, _) := h_create_scan root (c_world s) (c_heap s) k y t in
        match p with
        | Some p' => mkC w (c_heap s) (c_threads s) (nset tid p' (c_pending s)) (Some tid)
        | None => mkC w (c_heap s) (c_threads s) (c_pending s) None          (* error return: the deferred Unlock *)
        end
      else s
  | LCreateInstall tid =>
      match nget tid (c_pending s) with
      | Some p => mkC (c_world s) (h_create_install (c_heap s) p) (c_threads s)
                      (filter (fun e => negb (Nat.eqb (fst e) tid)) (c_pending s)) None
      | None => s
      end
  | LBegin tid k =>
      if lock_free s then
        match d_begin (c_heap s) k with
        | Some t => mkC (c_world s) (c_heap s) (nset tid t (c_threads s)) (c_pending s) (Some tid)
        | None => s                                                          (* "Unable to find level item" *)
        end
      else s
  | LStep tid =>
      match nget tid (c_threads s) with
      | Some t => let '(w, h, t') := d_step (c_world s) (c_heap s) t in
                  mkC w h (nset tid t' (c_threads s)) (c_pending s) (if d_done t' then None else c_lock s)
      | None => s
      end
  end.

(* ------------------------------------------------------------------ canonical node ids *)
(** Node ids are opaque: after every label the heap is garbage-collected and its nodes renumbered in the
    order of a depth-first walk from the root, then from the nodes the directMap points to, then from the
    nodes destroy threads hold.  Finished destroy threads are dropped.  States thus have ONE representation,
    which makes the reachable set of a bounded alphabet finite and comparable by structural equality. *)
Fixpoint visit (fuel : nat) (h : heap) (id : nat) (acc : list nat) : list nat :=
  if existsb (Nat.eqb id) acc then acc
  else match fuel with
       | O => acc
       | S f => match hget h id with
                | Some n => fold_left (fun a '(_, cid) => visit f h cid a) (h_subs n) (acc ++ [id])
                | None => acc ++ [id]
                end
       end.

Fixpoint index_nat (x : nat) (l : list nat) (i : nat) : nat :=
  match l with [] => 0%nat | y :: r => if Nat.eqb x y then i else index_nat x r (S i) end.

Definition thread_ids (t : dthread) : list nat :=
  map fst (d_levels t) ++ match d_top t with Some i => [i] | None => [] end.

Definition cnorm (s : cstate) : cstate :=
  let h := c_heap s in
  let threads := filter (fun e => negb (d_done (snd e))) (c_threads s) in
  let roots := hp_root h :: map snd (hp_dm h) ++ flat_map (fun e => thread_ids (snd e)) threads in
  let order := fold_left (fun a id => visit 8 h id a) roots [] in
  let rn (id : nat) := index_nat id order 1 in
  let nodes := flat_map (fun id => match hget h id with
                                   | Some n => [(rn id, mkH (h_item n) (h_path n) (h_cat n)
                                                           (map (fun '(nm, c) => (nm, rn c)) (h_subs n)) (h_files n))]
                                   | None => []
                                   end) order in
  let h' := mkHeap nodes (rn (hp_root h)) (map (fun '(k, i) => (k, rn i)) (hp_dm h)) (S (length order)) in
  let threads' := map (fun '(tid, t) => (tid, mkD (map (fun '(i, c) => (rn i, c)) (d_levels t))
                                                  (option_map rn (d_top t)) (d_deleted t) (d_final t) (d_done t))) threads in
  mkC (c_world s) h' threads' (c_pending s) (c_lock s).

(** the trace of system calls is not part of the comparable state *)
Definition cforget (s : cstate) : cstate := mkC (mkW (wfs (c_world s)) []) (c_heap s) (c_threads s) (c_pending s) (c_lock s).

Definition cinit (root : list byte) : cstate :=
  cnorm (mkC (init_world root) (hinit (init_world root) root) [] [] None).

Definition nstep (root : list byte) (s : cstate) (l : label) : cstate := cnorm (run_label root s l).

Definition run_labels (root : list byte) (ls : list label) : cstate := fold_left (nstep root) ls (cinit root).

Definition all_done (s : cstate) : bool :=
  forallb (fun e => d_done (snd e)) (c_threads s) && match c_pending s with [] => true | _ => false end.

(** ListTimeBucketKeyNames on the heap *)
Definition hlist (h : heap) : list (name * name * name) :=
  match hget h (hp_root h) with
  | Some rn =>
      flat_map (fun '(s, sid) => match hget h sid with
        | Some sn => flat_map (fun '(t, tid) => match hget h tid with
            | Some tn => map (fun '(g, _) => (s, t, g)) (h_subs tn)
            | None => [] end) (h_subs sn)
        | None => [] end) (h_subs rn)
  | None => []
  end.

(** what a restart would list: NewDirectory(root) on the disk as it is *)
Definition disk_list (root : list byte) (w : world) : list (name * name * name) :=
  let '(n, dm, _) := new_directory w root in list_tbk (mkCat n dm).

Definition tbk_of (x : name * name * name) : list byte := let '(a, b, c) := x in a ++ slash :: b ++ slash :: c.
