(** Model of the two post-filters Reader.Read applies to the packed result buffer of a
    variable-length bucket (executor/scanner.go):

      trimResultsToRange   scanner.go:210-241      trim_range     (EXACTLY as written, see below)
      TimeOfVariableRecord scanner.go:243-247      rec_time
      trimResultsToLimit   scanner.go:249-263      trim_limit

    The buffer is a byte string of rows  [Epoch int64 | payload | Nanoseconds int32], each
    rowLength = rowlen + epochLenBytes + nanosecLenBytes - intervalTicksLenBytes bytes (constants
    GENERATED from executor/scanner.go), rowlen = the bucket's variable record length.

    trimResultsToRange (after the fix of finding F11, class no-candidate-le-end):
      loop 1  scans forward for the first row with t >= Start and keeps the suffix from there
              (dest stays nil when there is none);
      loop 2  scans backward for the last row with t <= End and returns dest cut after it; when NO row
              is <= End it returns nil.
    (Before the fix a single remaining row was returned unchecked and, when no row was <= End, the
    result was left uncut.)

    Domain: rowlen >= 0 (a nat), so rowLength >= 8 and every slice expression of the Go code is in
    bounds (cursor + rowLength <= len by construction of nrecords): no panic is reachable, the model
    is a total function.  Times are compared as Go does (Model/QTime.v). *)
From Coq Require Import ZArith List Bool Lia.
From Coq.Strings Require Import Byte.
Import ListNotations.
Require Import MS.Base.GoInt MS.Base.Hex MS.Base.Bytes MS.Generated.Src_query MS.Model.QTime.

(** utils/io/byteconversions.go ToInt64 / ToInt32 on a slice that holds at least 8 / 4 bytes *)
Definition le_i64 (l : list byte) : Z := wrap I64 (le_val (firstn 8 l)).
Definition le_i32 (l : list byte) : Z := wrap I32 (le_val (firstn 4 l)).

Definition row_length (rowlen : nat) : nat :=
  Z.to_nat (Z.of_nat rowlen + epochLenBytes + nanosecLenBytes - intervalTicksLenBytes).

(** TimeOfVariableRecord(buf, cursor, rowLength) *)
Definition rec_time (buf : list byte) (cursor rl : nat) : gtime :=
  go_unix (le_i64 (skipn cursor buf))
          (le_i32 (skipn (cursor + rl - Z.to_nat nanosecLenBytes) buf)).

(** loop 1: [n] rows left to examine from [cursor]; Some dest = src[cursor:] at the first row with
    t.Equal(Start) || t.After(Start); None = dest stays nil *)
Fixpoint drop_before (start : gtime) (rl : nat) (src : list byte) (cursor n : nat) : option (list byte) :=
  match n with
  | O => None
  | S n' =>
      if t_ge (rec_time src cursor rl) start then Some (skipn cursor src)
      else drop_before start rl src (cursor + rl) n'
  end.

(** loop 2: for i := nrecords; i > 0; i-- ; falling out of the loop returns nil *)
Fixpoint cut_after (endt : gtime) (rl : nat) (dest : list byte) (i : nat) : list byte :=
  match i with
  | O => []
  | S i' =>
      if t_le (rec_time dest (i' * rl) rl) endt then firstn (i' * rl + rl) dest
      else cut_after endt rl dest i'
  end.

Definition trim_range (start endt : gtime) (rowlen : nat) (src : list byte) : list byte :=
  let rl := row_length rowlen in
  let n := (length src / rl)%nat in
  if (n =? 0)%nat then []
  else match drop_before start rl src 0 n with
       | None => []
       | Some dest => cut_after endt rl dest (length dest / rl)%nat
       end.

(** trimResultsToLimit(l, rowLen, src): [first] = (l.Direction == FIRST); limit = int(l.Number).
    A negative limit makes the slice expression panic; Number comes from QueryableNrecords (> 0) or is
    math.MaxInt32, so limit >= 0 is the modelled domain. *)
Definition trim_limit (limit : Z) (first : bool) (rowlen : nat) (src : list byte) : list byte :=
  let rl := row_length rowlen in
  let n := (length src / rl)%nat in
  if (limit <? Z.of_nat n)%Z then
    let k := (Z.to_nat limit * rl)%nat in
    if first then firstn k src else skipn (length src - k) src
  else src.

(* ------------------------------------------------------------------------------------------ *)
(** * Row-level view (the specification side) *)

Record vrow := mkRow { r_sec : Z; r_ns : Z; r_pay : list byte }.

Definition enc_row (r : vrow) : list byte := le_bytes 8 (r_sec r) ++ r_pay r ++ le_bytes 4 (r_ns r).
Definition enc_rows (rows : list vrow) : list byte := concat (map enc_row rows).

(** the Go time of a row, and its full-precision timestamp in nanoseconds *)
Definition row_time (r : vrow) : gtime := go_unix (r_sec r) (r_ns r).
Definition row_tns (r : vrow) : Z := tns (r_sec r) (r_ns r).

(** list-level mirror of the two loops *)
Fixpoint drop_rows (start : gtime) (rows : list vrow) : list vrow :=
  match rows with
  | [] => []
  | r :: rest => if t_ge (row_time r) start then rows else drop_rows start rest
  end.

Fixpoint cut_rows (endt : gtime) (rows : list vrow) (i : nat) : list vrow :=
  match i with
  | O => []
  | S i' =>
      match nth_error rows i' with
      | Some r => if t_le (row_time r) endt then firstn (S i') rows else cut_rows endt rows i'
      | None => cut_rows endt rows i'
      end
  end.

Definition trim_rows (start endt : gtime) (rows : list vrow) : list vrow :=
  let d := drop_rows start rows in cut_rows endt d (length d).

(** well-formed rows of a bucket with payload length [plen]: values in their Go types *)
Definition wf_row (plen : nat) (r : vrow) : Prop :=
  length (r_pay r) = plen /\ in_ity I64 (r_sec r) /\ in_ity I32 (r_ns r).
Definition wf_rowb (plen : nat) (r : vrow) : bool :=
  (length (r_pay r) =? plen)%nat && in_ityb I64 (r_sec r) && in_ityb I32 (r_ns r).

(** rows in non-decreasing time order, as Go compares them *)
Fixpoint sorted_rows (rows : list vrow) : bool :=
  match rows with
  | [] => true
  | a :: rest => match rest with [] => true | b :: _ => t_le (row_time a) (row_time b) && sorted_rows rest end
  end.

Definition in_range_row (start endt : gtime) (r : vrow) : bool :=
  t_ge (row_time r) start && t_le (row_time r) endt.
