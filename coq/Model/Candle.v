(** Model of the candle aggregates (commit compared: HEAD of the task tree):
      contrib/candler/candler.go:178-233   Candler.Output, Candler.GetCandle
      contrib/candler/candler.go:272-343   NewCandle, Candle.IsWithin, Candle.AddCandle, SerializeToRowData
      contrib/candler/candler.go:352-383   GetAverageColumnFloat32
      contrib/candler/tickcandler/tickcandler.go:58-105      TickCandler.Accum
      contrib/candler/candlecandler/candlecandler.go:60-124  CandleCandler.Accum
      utils/timeframe.go:112-167           CandleDuration.IsWithin / Truncate   for the suffixes Sec, Min, H, D
      utils/io/columnseries.go:73-95       ColumnSeries.GetTime (in the system timezone)
    Instants are nanoseconds since the Unix epoch (Z).  Time.Truncate(d) is absolute time since
    0001-01-01 00:00 UTC; the "D" suffix truncates to the LOCAL calendar day of the system timezone ([cd_ds];
    executable instances: zones at a fixed UTC offset, UTC = offset 0, where it is the floor to a multiple of
    24 h of local time) — a "2D" candle therefore still has one-day windows: quirk kept.
    Quirks kept: a candle whose OpenTime is the zero time.Time counts as not yet initialised
    ([zero_time]); open/close change only on strictly earlier/later timestamps (the first row in input
    order wins among equal timestamps); high/low use [>]/[<] only (NaN semantics of Go); sums are
    float64 left folds; Count and sums advance even when AddCandle declines the row; the per-Accum
    candle cache of GetCandle; the output is sorted by window start; Epoch = start in seconds. *)
From Coq Require Import ZArith Bool Lia String List.
Import ListNotations.
Require Import MS.Base.GoInt MS.Base.Res MS.Base.F32 MS.Base.F64 MS.Model.Uda MS.Generated.Src_agg.
Local Open Scope Z_scope.

Definition NS : Z := 1000000000.
Definition abs_epoch_ns : Z := 62135596800 * NS.       (* 0001-01-01 00:00 UTC .. 1970-01-01, in ns *)
Definition zero_time : Z := - abs_epoch_ns.             (* time.Time{} *)

(** time.Time.Truncate(d) *)
Definition time_truncate (t d : Z) : Z := if d <=? 0 then t else t - (t + abs_epoch_ns) mod d.

(** a *utils.CandleDuration for the suffixes Sec, Min, H (absolute truncation) and D (calendar day), together
    with the system timezone as far as candles see it: [cd_ds t] = the instant of local midnight of t's local
    calendar day (time.Date(y, m, d, 0, 0, 0, 0, loc) of t.In(loc).Date()) *)
Record cdur := { cd_day : bool; cd_dur : Z; cd_ds : Z -> Z }.

Fixpoint slookup (l : list (string * Z)) (k : string) : Z :=
  match l with [] => 0 | (k', v) :: r => if String.eqb k k' then v else slookup r k end.

(** local midnight in a zone at the fixed UTC offset [off] (ns; east positive) *)
Definition day_start (off t : Z) : Z := t - (t + off) mod agg_Day.

(** utils/timeframe.go:224 after the regexp matched (mult, suffix); system zone at fixed offset [off] *)
Definition cd_of_zone (off mult : Z) (suffix : string) : cdur :=
  {| cd_day := String.eqb suffix "D"; cd_dur := wrap I64 (mult * slookup agg_suffixDefs suffix); cd_ds := day_start off |}.
Definition cd_of : Z -> string -> cdur := cd_of_zone 0.          (* UTC, the default *)

(** utils/timeframe.go:158 *)
Definition truncate (cd : cdur) (t : Z) : Z :=
  if cd_day cd then cd_ds cd t else time_truncate t (cd_dur cd).

(** utils/timeframe.go:112 ("D": equal local calendar dates, i.e. equal local midnights) *)
Definition is_within (cd : cdur) (ts start : Z) : bool :=
  if cd_day cd then (cd_ds cd ts =? cd_ds cd start) else (time_truncate ts (cd_dur cd) =? start).

(** one input row after column extraction: a tick has o = h = l = c = price *)
Record bar := { b_t : Z; b_o : f32; b_h : f32; b_l : f32; b_c : f32; b_acc : list f32 }.

Record candle := {
  c_start : Z;
  c_o : f32; c_h : f32; c_l : f32; c_c : f32;
  c_ot : Z; c_ct : Z;                       (* OpenTime, CloseTime *)
  c_sums : list f64;                         (* SumMap, one entry per accumulated column *)
  c_n : Z                                    (* Count *)
}.

(** candler.go:272 *)
Definition new_candle (cd : cdur) (nacc : nat) (t : Z) : candle :=
  {| c_start := truncate cd t; c_o := f32_zero; c_h := f32_zero; c_l := f32_zero; c_c := f32_zero;
     c_ot := zero_time; c_ct := zero_time; c_sums := repeat f64_zero nacc; c_n := 0 |}.

Definition set_ohlc (c : candle) (o h l cl : f32) (ot ct : Z) : candle :=
  {| c_start := c_start c; c_o := o; c_h := h; c_l := l; c_c := cl; c_ot := ot; c_ct := ct;
     c_sums := c_sums c; c_n := c_n c |}.

(** candler.go:297 AddCandle — returns the updated candle (the boolean result is ignored by the callers) *)
Definition add_candle (cd : cdur) (c : candle) (r : bar) : candle :=
  if negb (is_within cd (b_t r) (c_start c)) then c else
  let t := b_t r in
  let c1 := if c_ot c =? zero_time then set_ohlc c (b_o r) (b_h r) (b_l r) (b_c r) t t else c in
  let c2 := if t <? c_ot c1 then set_ohlc c1 (b_o r) (c_h c1) (c_l c1) (c_c c1) t (c_ct c1) else c1 in
  let c3 := if c_ct c2 <? t then set_ohlc c2 (c_o c2) (c_h c2) (c_l c2) (b_c r) (c_ot c2) t else c2 in
  let c4 := if f32_gt (b_h r) (c_h c3) then set_ohlc c3 (c_o c3) (b_h r) (c_l c3) (c_c c3) (c_ot c3) (c_ct c3) else c3 in
  if f32_lt (b_l r) (c_l c4) then set_ohlc c4 (c_o c4) (c_h c4) (b_l r) (c_c c4) (c_ot c4) (c_ct c4) else c4.

Fixpoint add_sums (s : list f64) (a : list f32) : list f64 :=
  match s, a with
  | x :: s', y :: a' => f64_add x (f64_of_f32 y) :: add_sums s' a'
  | _, _ => s
  end.

(** the body of the row loop of Accum: AddCandle, SumMap[name] += ..., Count++ *)
Definition add_bar (cd : cdur) (c : candle) (r : bar) : candle :=
  let c' := add_candle cd c r in
  {| c_start := c_start c'; c_o := c_o c'; c_h := c_h c'; c_l := c_l c'; c_c := c_c c'; c_ot := c_ot c'; c_ct := c_ct c';
     c_sums := add_sums (c_sums c') (b_acc r); c_n := wrap I64 (c_n c' + 1) |}.

(** CandleMap: association list keyed by the window start, in insertion order *)
Definition cmap : Type := list (Z * candle).

Fixpoint lookup (k : Z) (m : cmap) : option candle :=
  match m with [] => None | (k', c) :: r => if k' =? k then Some c else lookup k r end.

Fixpoint upd (k : Z) (f : candle -> candle) (dflt : candle) (m : cmap) : cmap :=
  match m with
  | [] => [(k, f dflt)]
  | (k', c) :: r => if k' =? k then (k', f c) :: r else (k', c) :: upd k f dflt r
  end.

(** candler.go:212 GetCandle(t, cached): the key of the candle it returns *)
Definition get_key (cd : cdur) (m : cmap) (cache : option Z) (t : Z) : Z :=
  let ct := truncate cd t in
  match cache with
  | Some kc => match lookup kc m with
               | Some c => if c_start c =? ct then kc else ct
               | None => ct
               end
  | None => ct
  end.

Definition row_step (cd : cdur) (nacc : nat) (st : cmap * option Z) (r : bar) : cmap * option Z :=
  let '(m, cache) := st in
  let k := get_key cd m cache (b_t r) in
  (upd k (fun c => add_bar cd c r) (new_candle cd nacc k) m, Some k).

(** the row loop of one Accum call (the candle cache starts empty in every call) *)
Definition accum_rows (cd : cdur) (nacc : nat) (m : cmap) (rows : list bar) : cmap :=
  fst (fold_left (row_step cd nacc) rows (m, None)).

(** ---- output ---- *)
Fixpoint insert_by_key (x : Z * candle) (l : cmap) : cmap :=
  match l with
  | [] => [x]
  | y :: r => if fst x <=? fst y then x :: l else y :: insert_by_key x r
  end.
Definition sort_by_key (m : cmap) : cmap := fold_right insert_by_key [] m.

Record orow := { o_epoch : Z; o_o : f32; o_h : f32; o_l : f32; o_c : f32; o_sums : list f64; o_avgs : list f64 }.

(** candler.go:343 SerializeToRowData: EOHLC, sums in SumNames order, sum/float64(Count) in AvgNames order *)
Definition out_row (sum_idx avg_idx : list nat) (c : candle) : orow :=
  {| o_epoch := c_start c / NS; o_o := c_o c; o_h := c_h c; o_l := c_l c; o_c := c_c c;
     o_sums := map (fun i => nth i (c_sums c) f64_zero) sum_idx;
     o_avgs := map (fun i => f64_div (nth i (c_sums c) f64_zero) (f64_of_Z (c_n c))) avg_idx |}.

Definition output (sum_idx avg_idx : list nat) (m : cmap) : list orow :=
  map (fun kc => out_row sum_idx avg_idx (snd kc)) (sort_by_key m).

(** ---- column extraction (the head of Accum) ---- *)
Record cinput := {
  in_epoch : list Z;                  (* Epoch column (int64, first column: Len() = its length) *)
  in_nanos : option (list Z);         (* Nanoseconds column (int32) if present *)
  in_price : list (list col);         (* tick: [CandlePrice columns]; candle: [Open cols; High cols; Low cols; Close cols] *)
  in_acc : list col                   (* the distinct columns mapped to Sum / Avg *)
}.

Fixpoint add_cols (n : nat) (acc col : list f32) : Res (list f32) :=     (* avgCol[i] += col[i], i < n *)
  match n, acc with
  | O, _ => Ok acc
  | S n', a :: acc' => match col with
                       | v :: col' => do r <- add_cols n' acc' col'; Ok (f32_add a v :: r)
                       | [] => Panic
                       end
  | S _, [] => Ok []
  end.

Fixpoint avg_cols (n : nat) (acc : list f32) (cols : list col) : Res (list f32) :=
  match cols with
  | [] => Ok acc
  | c :: rest => do v <- column_to_f32 c; do acc' <- add_cols n acc v; avg_cols n acc' rest
  end.

(** candler.go:352 *)
Definition get_average_column (n : nat) (cols : list col) : Res (list f32) :=
  match cols with
  | [c] => column_to_f32 c
  | _ => do s <- avg_cols n (repeat f32_zero n) cols;
         Ok (map (fun x => f32_div x (f32_of_Z (Z.of_nat (List.length cols)))) s)
  end.

Fixpoint mapR {A B} (f : A -> Res B) (l : list A) : Res (list B) :=
  match l with [] => Ok [] | x :: r => do y <- f x; do ys <- mapR f r; Ok (y :: ys) end.

Fixpoint get_time (ep : list Z) (ns : option (list Z)) : Res (list Z) :=
  match ep with
  | [] => Ok []
  | s :: ep' => match ns with
                | None => do r <- get_time ep' None; Ok (s * NS :: r)
                | Some [] => Panic                                  (* ns[i] out of range *)
                | Some (n :: ns') => do r <- get_time ep' (Some ns'); Ok (s * NS + n :: r)
                end
  end.

(** rows i < n from the extracted columns; any column shorter than n makes the loop index out of range *)
Fixpoint build_rows (ts : list Z) (o h l c : list f32) (acc : list (list f32)) : Res (list bar) :=
  match ts with
  | [] => Ok []
  | t :: ts' =>
      match o, h, l, c with
      | vo :: o', vh :: h', vl :: l', vc :: c' =>
          do a <- mapR (fun col => match col with v :: _ => Ok v | [] => Panic end) acc;
          do r <- build_rows ts' o' h' l' c' (map (@tl f32) acc);
          Ok ({| b_t := t; b_o := vo; b_h := vh; b_l := vl; b_c := vc; b_acc := a |} :: r)
      | _, _, _, _ => Panic
      end
  end.

Definition extract (inp : cinput) : Res (list bar) :=
  let n := List.length (in_epoch inp) in
  if (n =? 0)%nat then Rejected else                                  (* "empty input to Accum" *)
  do prices <- mapR (get_average_column n) (in_price inp);
  do ts <- get_time (in_epoch inp) (in_nanos inp);
  do acc <- mapR column_to_f32 (in_acc inp);
  match prices with
  | [p] => build_rows ts p p p p acc
  | [o; h; l; c] => build_rows ts o h l c acc
  | _ => Rejected
  end.

(** one Accum call on a candler object holding [m] *)
Definition accum (cd : cdur) (m : cmap) (inp : cinput) : Res cmap :=
  do rows <- extract inp; Ok (accum_rows cd (List.length (in_acc inp)) m rows).

Fixpoint run_accum (cd : cdur) (m : cmap) (inputs : list cinput) : Res cmap :=
  match inputs with
  | [] => Ok m
  | i :: rest => do m' <- accum cd m i; run_accum cd m' rest
  end.
