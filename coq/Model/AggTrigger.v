(** Model of the on-disk aggregation trigger (commit compared: HEAD of the task tree):
      contrib/ondiskagg/aggtrigger/aggtrigger.go:115-190  Fire (cache validity, union with the cache, query)
      aggtrigger.go:192-230   write, cachedAgg.Valid
      aggtrigger.go:232-316   writeAggregates (slice by window, cache refresh on the upper-bound destination)
      aggtrigger.go:372-430   aggregate (bars to bars), getParams
      aggtrigger/util.go:9    timeframes.UpperBound
      aggtrigger/functions    First/Max/Min/Last/SumFloat32
      utils/io/columnseries.go:298-341  SliceColumnSeriesByEpoch      :343-396  ColumnSeriesUnion
      plugins/trigger/trigger.go:86     RecordsToColumnSeries
    on top of an abstract fixed-length store (one bar per slot, last writer wins: C08's interval map).
    Times are Unix seconds.  Base bucket: <sym>/1Min/OHLCV with float32 Open, High, Low, Close, Volume;
    destinations: sub-day timeframes (Time.Truncate windows).  System timezone UTC, no market-hours filter.
    Quirks kept: the cache is valid when  tail >= c.tail && head <= c.head  (nothing about head >= c.tail);
    the union lets the CACHED row win on equal epochs; SliceColumnSeriesByEpoch leaves the series
    untouched when no epoch is >= start (resp. < end), and its end is exclusive; a fire whose query
    returns nothing writes nothing and leaves the cache deleted; head/tail are the first/last written
    record, whatever their order. *)
From Coq Require Import ZArith Bool Lia List.
Import ListNotations.
Require Import MS.Base.GoInt MS.Base.Res MS.Base.F32 MS.Base.F64 MS.Model.Uda.
Local Open Scope Z_scope.

Record bar5 := { e5 : Z; o5 : f32; h5 : f32; l5 : f32; c5 : f32; v5 : f32 }.

(** ---- window arithmetic in seconds (Time.Truncate on whole seconds; utils/timeframe.go:158,172,112) ---- *)
Definition abs_epoch_s : Z := 62135596800.
Definition trunc_s (d t : Z) : Z := if d <=? 0 then t else t - (t + abs_epoch_s) mod d.
Definition ceil_s (d t : Z) : Z := trunc_s d (t + d).
Definition within_s (d t start : Z) : bool := trunc_s d t =? start.

(** ---- the fixed-length store: sorted by epoch, one bar per epoch, last writer wins ---- *)
Fixpoint put (s : list bar5) (b : bar5) : list bar5 :=
  match s with
  | [] => [b]
  | x :: r => if e5 b <? e5 x then b :: s
              else if e5 b =? e5 x then b :: r
              else x :: put r b
  end.
Definition put_all (s : list bar5) (l : list bar5) : list bar5 := fold_left put l s.

(** the range query of Fire (frontend.ExecuteQuery: start <= Epoch <= end) *)
Definition query (s : list bar5) (start end_ : Z) : list bar5 :=
  filter (fun b => (start <=? e5 b) && (e5 b <=? end_)) s.

(** ---- utils/io/columnseries.go:298 ---- *)
Fixpoint drop_until (start : Z) (l : list bar5) : option (list bar5) :=   (* first index with epoch >= start *)
  match l with
  | [] => None
  | x :: r => if start <=? e5 x then Some l else drop_until start r
  end.
Fixpoint keep_upto (end_ : Z) (l : list bar5) : option (list bar5) :=     (* up to the LAST index with epoch < end *)
  match l with
  | [] => None
  | x :: r => match keep_upto end_ r with
              | Some k => Some (x :: k)
              | None => if e5 x <? end_ then Some [x] else None
              end
  end.
Definition slice_by_epoch (cs : list bar5) (start end_ : Z) : list bar5 :=
  let s1 := match drop_until start cs with Some l => l | None => cs end in
  match keep_upto end_ s1 with Some l => l | None => s1 end.

(** ---- utils/io/columnseries.go:343: sorted by epoch, later entries / the right series win ---- *)
Definition union (left right : list bar5) : list bar5 := put_all (put_all [] left) right.

(** ---- aggtrigger.go:372 aggregate (bars to bars) and the accumulator functions ---- *)
Definition agg_bar (w : Z) (first : bar5) (rest : list bar5) : bar5 :=
  {| e5 := w; o5 := o5 first;
     h5 := fold_left max_step (map h5 rest) (h5 first);
     l5 := fold_left min_step (map l5 rest) (l5 first);
     c5 := c5 (last rest first);
     v5 := fold_left f32_add (map v5 (first :: rest)) f32_zero |}.

(** rows of the leading group: the maximal prefix within the window of [key] *)
Fixpoint take_group (d key : Z) (l : list bar5) : list bar5 * list bar5 :=
  match l with
  | [] => ([], [])
  | x :: r => if within_s d (e5 x) key then let '(g, rest) := take_group d key r in (x :: g, rest) else ([], l)
  end.

Fixpoint aggregate_fuel (fuel : nat) (d : Z) (l : list bar5) : list bar5 :=
  match fuel, l with
  | S f, x :: r =>
      let key := trunc_s d (e5 x) in
      let '(g, rest) := take_group d key r in
      agg_bar key x g :: aggregate_fuel f d rest
  | _, _ => []
  end.
Definition aggregate (d : Z) (l : list bar5) : list bar5 := aggregate_fuel (length l) d l.

(** ---- the trigger ---- *)
Record cache := { k_cs : list bar5; k_tail : Z; k_head : Z }.
Record state := {
  base : list bar5;                        (* <sym>/1Min/OHLCV *)
  dest : list (list bar5);                 (* one store per destination, in configuration order *)
  kache : option cache                     (* aggCache[<sym>/1Min/OHLCV] *)
}.

(** util.go:9 UpperBound: the first destination of maximal duration *)
Definition upper_bound (dests : list Z) : Z :=
  match dests with [] => 0 | d :: r => fold_left (fun m x => if m <? x then x else m) r d end.

(** aggtrigger.go:232 writeAggregates for destination number i; returns the new destination store and the
    cache to store afterwards (if this destination is an upper bound) *)
Definition write_aggregates (U d : Z) (cs : list bar5) (head tail : Z) (store : list bar5)
  : list bar5 * option cache :=
  let start := trunc_s d head in
  let end_ := ceil_s d tail - 1 in
  let slc := slice_by_epoch cs start end_ in
  match slc with
  | [] => (store, None)
  | _ =>
      let c := if d =? U then
                 let t := trunc_s d tail in Some {| k_cs := slice_by_epoch cs t end_; k_tail := t; k_head := end_ |}
               else None in
      (put_all store (aggregate d slc), c)
  end.

(** aggtrigger.go:192 write: every destination in order *)
Fixpoint write_all (U : Z) (dests : list Z) (cs : list bar5) (head tail : Z) (stores : list (list bar5)) (k : option cache)
  : list (list bar5) * option cache :=
  match dests, stores with
  | d :: dr, s :: sr =>
      let '(s', c) := write_aggregates U d cs head tail s in
      let k' := match c with Some _ => c | None => k end in
      let '(sr', k'') := write_all U dr cs head tail sr k' in
      (s' :: sr', k'')
  | _, _ => (stores, k)
  end.

(** aggtrigger.go:115 Fire; [recs] = the written records in write order (non-empty), the base store already
    holds them *)
Definition fire (dests : list Z) (st : state) (recs : list bar5) : state :=
  match recs with
  | [] => st
  | r0 :: _ =>
      let head := e5 r0 in
      let tail := e5 (last recs r0) in
      let U := upper_bound dests in
      let from_query (k : option cache) :=
        let cs := query (base st) (trunc_s U head) (ceil_s U tail - 1) in
        let '(ds, k') := write_all U dests cs head tail (dest st) k in
        {| base := base st; dest := ds; kache := k' |} in
      match kache st with
      | Some c =>
          if (k_tail c <=? tail) && (head <=? k_head c) then
            let cs := union recs (k_cs c) in
            let '(ds, k') := write_all U dests cs head tail (dest st) (kache st) in
            {| base := base st; dest := ds; kache := k' |}
          else from_query None
      | None => from_query None
      end
  end.

(** one write to the base bucket followed by the trigger's fire *)
Definition step (dests : list Z) (st : state) (w : list bar5) : state :=
  match w with
  | [] => st
  | _ => fire dests {| base := put_all (base st) w; dest := dest st; kache := kache st |} w
  end.

Definition init (dests : list Z) : state := {| base := []; dest := map (fun _ => []) dests; kache := None |}.
Definition run (dests : list Z) (history : list (list bar5)) : state := fold_left (step dests) history (init dests).
