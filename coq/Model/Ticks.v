(** Model of utils/io/timeindex.go GetIntervalTicks32Bit :69 / IndexToTimeDepr :80 and
    executor/rewritebuffer.go GetTimeFromTicks :67, on IEEE-754 binary64 exactly as Go/amd64 computes
    (Flocq's inductive BinarySingleNaN floats, round to nearest even, one rounding per operation; the
    float constants are GENERATED: Generated/Src_ticks.v).

      encoder  enc ipd d      d = ts.Sub(baseTime) in nanoseconds (time.Duration), ipd = intervalsPerDay
        seconds        := float64(d / 1e9) + float64(d % 1e9) / 1e9          (Duration.Seconds)
        ticksPerSecond := float64(ipd) * 49710.269629629629...
        ticks          := uint32(ticksPerSecond * seconds)                   (truncation)
      decoder  dec start ipd ticks
        fs   := float64(ticks) / (float64(ipd) * 49710.2696...)
        sub  := 1e9 * (fs - Floor(fs));  if sub >= 1e9 { sub -= 1e9; fs++ }
        sec  := start + uint64(Floor(fs))
        nsec := uint32(sub + 0.5);  if nsec >= 1e9 { nsec -= 1e9; sec++ }
      (this is the code after the F1 fix: before it the seconds were Round(fs * 1e8) / 1e8, which carried
      into the next second while the nanoseconds stayed at 99999999x)

    float -> integer conversions are truncations; they are only meaningful in range, which holds for
    every offset inside an interval (ticks < 2^32). *)
From Coq Require Import ZArith List Bool Lia.
Import ListNotations.
From Flocq Require Import Core.FLX IEEE754.BinarySingleNaN.
Require Import MS.Base.GoInt MS.Base.FGen MS.Base.F64 MS.Generated.Src_ticks.
Local Open Scope Z_scope.

Definition f64_mul : f64 -> f64 -> f64 := f_mul 53 1024 p64_gt_0 p64_lt_emax.
Definition f64_cst (m e : Z) : f64 := binary_normalize 53 1024 p64_gt_0 p64_lt_emax mode_NE m e false.
Definition f64_floor (x : f64) : f64 := Bnearbyint mode_DN x.     (* math.Floor *)
Definition f64_round (x : f64) : f64 := Bnearbyint mode_NA x.     (* math.Round: half away from zero *)
Definition f64_trunc (x : f64) : Z := Btrunc x.                   (* int64(x), in range *)
Definition f64_ge (x y : f64) : bool := Bleb y x.

Definition c_enc_tpi : f64 := f64_cst enc_tpi_m enc_tpi_e.
Definition c_dec_tpi : f64 := f64_cst dec_tpi_m dec_tpi_e.
Definition c_1e9 : f64 := f64_cst dec_nanosecond_m dec_nanosecond_e.
Definition c_half : f64 := f64_cst dec_round_m dec_round_e.
Definition c_one : f64 := f64_of_Z 1.

(** time.Duration.Seconds() *)
Definition duration_seconds (d : Z) : f64 :=
  f64_add (f64_of_Z (Z.quot d 1000000000)) (f64_div (f64_of_Z (Z.rem d 1000000000)) (f64_of_Z 1000000000)).

Definition ticks_per_second (ipd : Z) : f64 := f64_mul (f64_of_Z ipd) c_enc_tpi.

(** the product before the conversion to uint32 *)
Definition enc_float (ipd d : Z) : f64 := f64_mul (ticks_per_second ipd) (duration_seconds d).

(** GetIntervalTicks32Bit as a function of the offset d = ts - baseTime *)
Definition enc (ipd d : Z) : Z := wrap U32 (wrap I64 (f64_trunc (enc_float ipd d))).

(** IndexToTimeDepr: seconds from January 1st 00:00 UTC of the year *)
Definition index_to_second_of_year (index ipd : Z) : Z :=
  wrap I64 (f64_trunc (f64_div (f64_mul (f64_of_Z (wrap I64 (index - 1))) (f64_of_Z 86400)) (f64_of_Z ipd))).

(** GetTimeFromTicks: (sec, nanosec) *)
Definition dec (start ipd ticks : Z) : Z * Z :=
  let fs := f64_div (f64_of_Z ticks) (f64_mul (f64_of_Z ipd) c_dec_tpi) in
  let sub := f64_mul c_1e9 (f64_sub fs (f64_floor fs)) in
  let '(sub, fs) := (if f64_ge sub c_1e9 then (f64_sub sub c_1e9, f64_add fs c_one) else (sub, fs)) in
  let sec := wrap U64 (start + wrap U64 (f64_trunc (f64_floor fs))) in
  let nsec := wrap U32 (wrap I64 (f64_trunc (f64_add sub c_half))) in
  if 1000000000 <=? nsec then (wrap U64 (sec + 1), wrap U32 (nsec - 1000000000)) else (sec, nsec).

(** decoded offset in nanoseconds relative to the interval start *)
Definition dec_offset (ipd ticks : Z) : Z := let '(s, n) := dec 0 ipd ticks in s * 1000000000 + n.

Definition interval_ns (ipd : Z) : Z := 86400000000000 / ipd.
(** one resolution step, in whole nanoseconds: ceil(interval / 2^32) *)
Definition step_ns (ipd : Z) : Z := (interval_ns ipd + 4294967295) / 4294967296.

(** intervalsPerDay of the on-disk timeframes *)
Definition ipds : list Z := [86400; 8640; 2880; 1440; 288; 96; 48; 24; 6; 12; 1].

(** exact position of a tick in nanoseconds, floor(ticks * interval / 2^32) (the constant
    49710.2696296... is 2^32 / 86400, not MaxUint32 / 86400 as the source comment says) *)
Definition tick_pos_ns (ipd ticks : Z) : Z := ticks * interval_ns ipd / 4294967296.
(** the former finding class F1 (decoded fraction >= 0.99999999 s), kept as a TAG for the generator's
    regression inputs; since the fix it guards nothing *)
Definition guard_C10 (ipd d : Z) : bool := tick_pos_ns ipd (enc ipd d) mod 1000000000 <? 999999990.
