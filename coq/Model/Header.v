(** Model of the data-file header (property C15).

    Go function (file:line at HEAD)                              model
    ----------------------------------------------------------   ------------------------
    CreateShapesForTimeBucketInfo     utils/io/metadata.go:116   create_shapes
    NewTimeBucketInfo                 metadata.go:91             new_tbi
    Header (struct layout)            metadata.go:354            the field order of encode_header / read_header
    TimeBucketInfo.CheckStorable      metadata.go:120            check_storable  (fixes d005c52, e807cb3 in /repo)
    catalog.AddTimeBucket (the check) catalog/catalog.go:163     create
    Header.Load + WriteHeader         metadata.go:392-419        encode_header   (copy() into [256]byte / [32]byte = [fit])
    readHeader + load                 metadata.go:269-344        read_header     (bytes.Trim(.., "\x00") = [trim])
    IndexToOffset                     timeindex.go:54            IndexToOffset   (GENERATED)
    WriteBufferToFile                 executor/writer.go:149     apply_write (WFixed): WriteAt(index ++ payload, offset)
    WriteBufferToFileIndirect         executor/writer.go:162     apply_write (WVar): the 24-byte {index,offset,len} record at
                                                                 the primary offset (its content is recorded, not modelled)

    Only the first [Headersize] bytes of the year file are modelled (the "header region"); a write is
    its effect on that region.  Sizes come from Generated/Src_header.v. *)
From Coq Require Import ZArith NArith List Bool Lia.
From Coq.Strings Require Import Byte.
Import ListNotations.
Require Import MS.Base.GoInt MS.Base.Res MS.Base.Hex MS.Base.Bytes MS.Generated.Src_io MS.Generated.Src_header MS.Model.Rows.

Definition HS : nat := Z.to_nat Headersize.
Definition DESC : nat := Z.to_nat descriptionHeaderBytes.
Definition NAMEB : nat := Z.to_nat elementNameHeaderBytes.
Definition MAXEL : nat := Z.to_nat maxNumElements.
Definition RES2 : nat := Z.to_nat (reservedHeader2Bytes * 8).

(** TimeBucketInfo without Path/IsRead (set by the catalog) and the lazily recomputed variableRecordLength *)
Record tbi := mktbi {
  t_version : Z;              (* int64 *)
  t_descr : list byte;
  t_year : Z;                 (* int16 *)
  t_tf : Z;                   (* time.Duration, nanoseconds *)
  t_rectype : Z;              (* EnumRecordType (int8) *)
  t_nelems : Z;               (* int32 *)
  t_reclen : Z;               (* int32 *)
  t_names : list (list byte);
  t_types : list Z            (* EnumElementType (byte) *)
}.

Definition epoch_col : list byte := bytes_of_string epochColumnName.

(** CreateShapesForTimeBucketInfo: drops every shape named exactly "Epoch" *)
Definition create_shapes (dsv : list (list byte * Z)) : list (list byte * Z) :=
  filter (fun s => negb (bytes_eqb (fst s) epoch_col)) dsv.

Definition field_len (types : list Z) : Z := fold_right (fun t a => zlookup attr_size t + a)%Z 0%Z types.

Definition new_tbi (tf : Z) (descr : list byte) (year : Z) (dsv : list (list byte * Z)) (rt : Z) : tbi :=
  let sh := create_shapes dsv in
  let types := map snd sh in
  mktbi FileinfoVersion descr year tf rt (wrap I32 (Z.of_nat (length sh)))
        (if Z.eqb rt RT_FIXED then wrap I32 (wrap I32 (AlignedSize (field_len types)) + epochLenBytes)
         else if Z.eqb rt RT_VARIABLE then 24%Z else 0%Z)
        (map fst sh) types.

Definition zeros (n : nat) : list byte := repeat x00 n.

(** copy(dst[:], s) into a zeroed k-byte array *)
Definition fit (k : nat) (s : list byte) : list byte := firstn k s ++ zeros (k - length s).

Definition names_area (k : nat) (names : list (list byte)) : list byte :=
  concat (map (fit NAMEB) (firstn k names)) ++ zeros ((MAXEL - k) * NAMEB).
Definition types_area (k : nat) (types : list Z) : list byte :=
  map byte_of_Z (firstn k types) ++ zeros (MAXEL - k).

(** Header.Load followed by the byte view WriteHeader writes.  The loop
    [for i := 0; i < int(hp.NElements); i++ { copy(hp.ElementNames[i][:], names[i]); hp.ElementTypes[i] = ... }]
    indexes the fixed arrays: more than maxNumElements elements is a run-time panic, not an error. *)
Definition encode_header (f : tbi) : Res (list byte) :=
  let n := t_nelems f in
  if (maxNumElements <? n)%Z then Panic
  else if (Z.of_nat (length (t_names f)) <? n)%Z || (Z.of_nat (length (t_types f)) <? n)%Z then Panic
  else
    let k := Z.to_nat n in
    Ok (le_bytes 8 (t_version f) ++ fit DESC (t_descr f) ++ le_bytes 8 (t_year f) ++ le_bytes 8 (t_tf f)
        ++ le_bytes 8 (t_rectype f) ++ le_bytes 8 n ++ le_bytes 8 (t_reclen f) ++ zeros 8
        ++ names_area k (t_names f) ++ types_area k (t_types f) ++ zeros RES2).

(** bytes.Trim(b, "\x00") *)
Fixpoint drop0 (l : list byte) : list byte :=
  match l with
  | b :: r => if Byte.eqb b x00 then drop0 r else l
  | [] => []
  end.
Definition trim (l : list byte) : list byte := drop0 (rev (drop0 (rev l))).

Definition take (n : nat) (l : list byte) : list byte * list byte := (firstn n l, skipn n l).

Fixpoint chunks (sz k : nat) (l : list byte) : list (list byte) :=
  match k with
  | O => []
  | S k' => firstn sz l :: chunks sz k' (skipn sz l)
  end.

Definition i64 (b : list byte) : Z := wrap I64 (le_val b).

(** readHeader + load on the header region of the file *)
Definition read_header (h : list byte) : Res tbi :=
  if (length h <? HS)%nat then Rejected              (* short read: error return *)
  else
    let '(bv, r) := take 8 h in
    let '(bd, r) := take DESC r in
    let '(byr, r) := take 8 r in
    let '(btf, r) := take 8 r in
    let '(brt, r) := take 8 r in
    let '(bn, r) := take 8 r in
    let '(brl, r) := take 8 r in
    let '(_, r) := take 8 r in
    let '(na, r) := take (MAXEL * NAMEB) r in
    let '(ta, _) := take MAXEL r in
    let n := i64 bn in
    if (n <? 0)%Z || (maxNumElements <? n)%Z then Panic   (* slice bounds / hp.ElementNames[i] out of range *)
    else
      let k := Z.to_nat n in
      Ok (mktbi (i64 bv) (trim bd) (wrap I16 (i64 byr)) (i64 btf) (wrap I8 (i64 brt)) (wrap I32 n)
                (wrap I32 (i64 brl)) (map trim (chunks NAMEB k na)) (map Z_of_byte (firstn k ta))).

(** * data writes, as their effect on the header region *)
Inductive wop :=
| WFixed (idx : Z) (payload : list byte)      (* fixed-length record: WriteAt(le64 idx ++ payload, IndexToOffset idx reclen) *)
| WVar (idx : Z) (rec24 : list byte).         (* variable-length: the 24-byte index record at IndexToOffset idx 24 *)

Definition overlay (h : list byte) (o : nat) (d : list byte) : list byte :=
  firstn o h ++ firstn (length h - o) d ++ skipn (o + length d) h.

(** WriteAt on the region: a negative offset is an error (nothing written); bytes beyond the region are
    outside the model *)
Definition pwrite_region (h : list byte) (off : Z) (d : list byte) : list byte :=
  if (off <? 0)%Z then h
  else if (Z.of_nat (length h) <=? off)%Z then h     (* entirely beyond the region (also keeps Z.to_nat of a
                                                        multi-megabyte offset out of the evaluation) *)
  else overlay h (Z.to_nat off) d.

Definition apply_write (reclen : Z) (h : list byte) (w : wop) : list byte :=
  match w with
  | WFixed idx payload => pwrite_region h (IndexToOffset idx reclen) (le_bytes 8 idx ++ payload)
  | WVar idx rec24 => pwrite_region h (IndexToOffset idx indexOffsetLengthBytes) rec24
  end.

Definition apply_writes (reclen : Z) (h : list byte) (ws : list wop) : list byte :=
  fold_left (apply_write reclen) ws h.

Definition wop_idx (w : wop) : Z := match w with WFixed i _ => i | WVar i _ => i end.

(** TimeBucketInfo.CheckStorable: at most maxNumElements names, each at most elementNameHeaderBytes long
    and neither starting nor ending with a NUL byte *)
Definition head_nonzero (l : list byte) : bool :=
  match l with [] => true | b :: _ => negb (Byte.eqb b x00) end.
Definition name_storable (s : list byte) : bool :=
  (length s <=? NAMEB)%nat && head_nonzero s && head_nonzero (rev s).
Definition check_storable (f : tbi) : bool :=
  (Z.of_nat (length (t_names f)) <=? maxNumElements)%Z && forallb name_storable (t_names f).

(** catalog.AddTimeBucket: the schema check, then the year file with its header *)
Definition create (f : tbi) : Res (list byte) :=
  if check_storable f then encode_header f else Rejected.

(** create the year file, apply the writes, restart and read the header back *)
Definition create_write_reload (f : tbi) (ws : list wop) : Res tbi :=
  do h <- create f; read_header (apply_writes (t_reclen f) h ws).

(** * histories over several year files
    catalog.AddFile (catalog.go:355): the first record of another year creates that year's file from a
    deep copy of an existing file's TimeBucketInfo (GetDeepCopy, metadata.go:171) with Year := the new
    year, through newTimeBucketInfoFromTemplate -> WriteHeader (no CheckStorable there).  All in-memory
    infos of one bucket carry the created schema, so the new header is [encode_header (set_year f y)].
    After a restart the catalog reports the LATEST year file's header (GetLatestYearFile: maximal year). *)
Definition set_year (f : tbi) (y : Z) : tbi :=
  mktbi (t_version f) (t_descr f) y (t_tf f) (t_rectype f) (t_nelems f) (t_reclen f) (t_names f) (t_types f).

Definition files := list (Z * list byte).        (* year -> header region of <year>.bin *)

Fixpoint flookup (y : Z) (st : files) : option (list byte) :=
  match st with [] => None | (y', h) :: r => if Z.eqb y y' then Some h else flookup y r end.
Fixpoint fset (y : Z) (h : list byte) (st : files) : files :=
  match st with
  | [] => [(y, h)]
  | (y', h') :: r => if Z.eqb y y' then (y', h) :: r else (y', h') :: fset y h r
  end.

(** one record of year [y]: WriteRecords adds the year file when it is missing, then the primary write *)
Definition ystep (f : tbi) (st : files) (w : Z * wop) : Res files :=
  let (y, op) := w in
  match flookup y st with
  | Some h => Ok (fset y (apply_write (t_reclen f) h op) st)
  | None => do h <- encode_header (set_year f y); Ok (fset y (apply_write (t_reclen f) h op) st)
  end.

Fixpoint yrun (f : tbi) (st : files) (ws : list (Z * wop)) : Res files :=
  match ws with
  | [] => Ok st
  | w :: r => do st' <- ystep f st w; yrun f st' r
  end.

(** create the bucket (year file of t_year f), then the history *)
Definition run_history (f : tbi) (ws : list (Z * wop)) : Res files :=
  do h <- create f; yrun f [(t_year f, h)] ws.

Fixpoint latest (st : files) : option (Z * list byte) :=
  match st with
  | [] => None
  | (y, h) :: r => match latest r with
                   | Some (y', h') => if (y <? y')%Z then Some (y', h') else Some (y, h)
                   | None => Some (y, h)
                   end
  end.

(** restart: the schema the catalog reports = the header of the latest year file *)
Definition reload_history (f : tbi) (ws : list (Z * wop)) : Res tbi :=
  do st <- run_history f ws;
  match latest st with Some (_, h) => read_header h | None => Rejected end.

(** * guards *)
(** a name / description survives copy-into-fixed-array + Trim *)
Definition field_ok (k : nat) (s : list byte) : bool := (length s <=? k)%nat && bytes_eqb (trim s) s.

Definition storable (f : tbi) : bool :=
  in_ityb I64 (t_version f) && field_ok DESC (t_descr f) && in_ityb I16 (t_year f) && in_ityb I64 (t_tf f)
  && in_ityb I8 (t_rectype f) && in_ityb I32 (t_reclen f) && (0 <=? t_reclen f)%Z
  && (0 <=? t_nelems f)%Z && (t_nelems f <=? maxNumElements)%Z
  && Z.eqb (Z.of_nat (length (t_names f))) (t_nelems f) && Z.eqb (Z.of_nat (length (t_types f))) (t_nelems f)
  && forallb (field_ok NAMEB) (t_names f)
  && forallb (fun t => (0 <=? t)%Z && (t <? 256)%Z) (t_types f).

(** the schema given to NewTimeBucketInfo can be stored faithfully *)
Definition creatable (tf : Z) (descr : list byte) (year : Z) (dsv : list (list byte * Z)) (rt : Z) : bool :=
  let sh := create_shapes dsv in
  field_ok DESC descr && in_ityb I16 year && in_ityb I64 tf && in_ityb I8 rt
  && (Z.of_nat (length sh) <=? maxNumElements)%Z
  && forallb (fun s => field_ok NAMEB (fst s) && (0 <=? snd s)%Z && (snd s <? 256)%Z) sh.

(** what NewTimeBucketInfo may be given at all (the property's domain): description storable, year /
    timeframe / record type in their Go ranges, element types bytes; names and column count are free *)
Definition schema_dom (tf : Z) (descr : list byte) (year : Z) (dsv : list (list byte * Z)) (rt : Z) : bool :=
  field_ok DESC descr && in_ityb I16 year && in_ityb I64 tf && in_ityb I8 rt
  && forallb (fun s => (0 <=? snd s)%Z && (snd s <? 256)%Z) dsv.

(** no write at index 0 (the daily Jan-1 slot); indices bounded so that the int64 offset cannot wrap *)
Definition writes_ok (ws : list wop) : bool :=
  forallb (fun w => (1 <=? wop_idx w)%Z && (wop_idx w <? 2 ^ 31)%Z) ws.

Definition years_ok (ws : list (Z * wop)) : bool :=
  forallb (fun w => in_ityb I16 (fst w)) ws && writes_ok (map snd ws).

Definition tbi_eqb (a b : tbi) : bool :=
  Z.eqb (t_version a) (t_version b) && bytes_eqb (t_descr a) (t_descr b) && Z.eqb (t_year a) (t_year b)
  && Z.eqb (t_tf a) (t_tf b) && Z.eqb (t_rectype a) (t_rectype b) && Z.eqb (t_nelems a) (t_nelems b)
  && Z.eqb (t_reclen a) (t_reclen b)
  && (length (t_names a) =? length (t_names b))%nat
  && forallb (fun p => bytes_eqb (fst p) (snd p)) (combine (t_names a) (t_names b))
  && (length (t_types a) =? length (t_types b))%nat
  && forallb (fun p => Z.eqb (fst p) (snd p)) (combine (t_types a) (t_types b)).
