(** Model of writing to a variable-length bucket (instance timezone UTC):

      executor/writer.go:66-139   Writer.WriteRecords   write_records  (grouping of a request's rows into
                                                         write commands by (index, year) of consecutive rows)
      executor/writer.go:44-63    formatRecord / appendIntervalTicks   rec_of   (payload ++ ticks)
      utils/io/timeindex.go:69    GetIntervalTicks32Bit  row_ticks      (offset from IndexToTimeDepr's base
                                                         time, through the encoder [encf])
      utils/io/timeindex.go:80    IndexToTimeDepr        base_time
      executor/wal.go:263-340     FlushCommandsToWAL -> writeVariableLengthBuffer: the commands of one
                                  file are applied in queue order (files are independent)
      executor/writer.go:158-254  WriteBufferToFileIndirect   apply_cmd: read the slot's index triple;
                                  if its Index != 0 prepend the old block; sort.Stable by ticks
                                  (executor/sort.go ByIntervalTicks.Less: uint32 <); write block and
                                  triple {index, offset, len}.  The "continuation write" test only chooses
                                  WHERE the block goes, not what it holds; offsets are not in the model.
      executor/rewritebuffer.go:27 RewriteBuffer          dec_rec       (through the decoder [decf])

    State: (year, slot position) |-> the slot's records (payload, ticks), kept as an association list
    in ascending key order.  A command with index 0 (a 1D record dated Jan 1: YearDay()-1 = 0) targets
    offset Headersize-24, inside the header: the triple read there has Index 0 (never "existing data"),
    and the triple written there has Index 0 again — the block is unreachable for every later write and
    for every read: the model drops it (finding F2).

    The tick encoder / decoder are PARAMETERS (Section variables [encf], [decf]): every theorem about
    this model holds for all such functions; Corr/C09.v instantiates them with the primitive-float
    mirror Model/TicksPF.v (compared bit-exactly with the Go code by C10's check and again here), the
    property file with the Flocq model Model/Ticks.v.  snappy does not appear: a block's content is its
    record list (decomp (comp x) = x is the assumption on the codec); the compressed LENGTH, which only
    matters for the reader's buffer estimate, reaches the reader model as recorded data. *)
From Coq Require Import ZArith List Bool Lia.
From Coq.Strings Require Import Byte.
Import ListNotations.
Require Import MS.Base.GoInt MS.Base.Res MS.Base.Hex MS.Base.Bytes MS.Base.Civil
               MS.Generated.Src_query MS.Model.QTime MS.Model.Trim MS.Model.RangeRead.
Local Open Scope Z_scope.

(** a written row: Epoch, Nanoseconds, and the other columns' bytes *)
Record wrow := mkW { w_sec : Z; w_ns : Z; w_pay : list byte }.

(** a stored record: payload and interval ticks *)
Definition rec : Type := (list byte * Z)%type.

Definition key : Type := (Z * Z)%type.      (* (file year, slot position) *)
Definition key_ltb (a b : key) : bool := (fst a <? fst b) || ((fst a =? fst b) && (snd a <? snd b)).
Definition key_eqb (a b : key) : bool := (fst a =? fst b) && (snd a =? snd b).

Definition store : Type := list (key * list rec).

Record vcmd := mkCmd { c_year : Z; c_index : Z; c_recs : list rec }.

Section WithTicks.

Variable encf : Z -> Z -> Z.               (* intervalsPerDay -> offset ns -> ticks *)
Variable decf : Z -> Z -> Z -> Z * Z.      (* interval start epoch -> intervalsPerDay -> ticks -> (sec, nsec) *)
Variable tf : Z.                           (* timeframe, ns *)

Definition ipd : Z := Z.quot utils_Day tf.                 (* TimeBucketInfo.GetIntervals *)

Definition w_time (r : wrow) : gtime := go_unix (w_sec r) (w_ns r).
Definition w_year (r : wrow) : Z := wrap I16 (t_year (w_time r)).         (* int16(t.Year()) *)
Definition w_index (r : wrow) : Z := TimeToIndex (w_time r) tf.

(** IndexToTimeDepr(index, intervalsPerDay, year): Jan 1 + Duration(float64(index-1)*86400/ipd) * Second;
    the float expression is exact for the on-disk timeframes (checked against the code on every run) *)
Definition base_time (index year : Z) : gtime :=
  t_add (go_jan1 year)
        (wrap I64 (wrap I64 (Z.quot (wrap I64 (index - 1) * 86400) ipd) * nsPerSec)).

(** GetIntervalTicks32Bit(ts, index, intervalsPerDay) *)
Definition row_ticks (r : wrow) : Z :=
  encf ipd (t_sub (w_time r) (base_time (w_index r) (w_year r))).

Definition rec_of (r : wrow) : rec := (w_pay r, row_ticks r).

(** WriteRecords: [py] = prevYear, [pi] = prevIndex (both of the row that opened the command being
    filled), [cc] = that command.  A row is merged into [cc] iff its index AND its year equal the previous
    ones; otherwise [cc] is queued and the row opens a new command.
    (Before the fix of finding F3, /repo 49eddda, prevYear was set at the first row only, so a row could
    be merged into another year's command.) *)
Fixpoint write_records_loop (py pi : Z) (cc : vcmd) (rows : list wrow) : list vcmd :=
  match rows with
  | [] => [cc]
  | r :: rest =>
      if (w_index r =? pi) && (w_year r =? py)
      then write_records_loop py pi (mkCmd (c_year cc) (c_index cc) (c_recs cc ++ [rec_of r])) rest
      else cc :: write_records_loop (w_year r) (w_index r) (mkCmd (w_year r) (w_index r) [rec_of r]) rest
  end.

Definition write_records (rows : list wrow) : list vcmd :=
  match rows with
  | [] => []
  | r :: rest => write_records_loop (w_year r) (w_index r) (mkCmd (w_year r) (w_index r) [rec_of r]) rest
  end.

(** sort.Stable(ByIntervalTicks): stable insertion sort by ticks (uint32 order) *)
Fixpoint ins (x : rec) (l : list rec) : list rec :=
  match l with
  | [] => [x]
  | y :: r => if snd x <? snd y then x :: l else y :: ins x r
  end.
Definition isort (l : list rec) : list rec := fold_left (fun acc x => ins x acc) l [].

(** WriteBufferToFileIndirect on the slot (year, index) *)
Fixpoint upd (k : key) (recs : list rec) (st : store) : store :=
  match st with
  | [] => [(k, isort recs)]
  | (k', l) :: rest =>
      if key_ltb k k' then (k, isort recs) :: st
      else if key_eqb k k' then (k', isort (l ++ recs)) :: rest
      else (k', l) :: upd k recs rest
  end.

Definition apply_cmd (st : store) (c : vcmd) : store :=
  if c_index c =? 0 then st else upd (c_year c, c_index c) (c_recs c) st.

(** one WriteCSM request (its commands flushed in order), and a whole history *)
Definition write_request (st : store) (rows : list wrow) : store := fold_left apply_cmd (write_records rows) st.
Definition run (hist : list (list wrow)) : store := fold_left write_request hist [].

(** the record as the reader returns it: RewriteBuffer *)
Definition dec_rec (k : key) (r : rec) : vrow :=
  let epoch := t_unix (IndexToTime (snd k) tf (fst k)) in
  let '(s, n) := decf epoch ipd (snd r) in
  mkRow (wrap I64 s) (wrap I32 n) (fst r).

(** the file state the store denotes; [clen k] = the stored (compressed) length of slot k's block *)
Fixpoint group_years (clen : key -> Z) (st : store) : list yfile :=
  match st with
  | [] => []
  | (k, l) :: rest =>
      let sl := mkSlot (snd k) (snd k) [] (clen k) (map (dec_rec k) l) in
      match group_years clen rest with
      | f :: fs => if y_year f =? fst k then mkYF (fst k) (sl :: y_slots f) :: fs
                   else mkYF (fst k) [sl] :: f :: fs
      | [] => [mkYF (fst k) [sl]]
      end
  end.

Definition bucket_of (plen : Z) (clen : key -> Z) (st : store) : bucket :=
  mkBk tf true 24 (plen + 4) (group_years clen st).

(** every stored record with its slot, in key order *)
Definition flatten (st : store) : list (key * rec) := flat_map (fun '(k, l) => map (pair k) l) st.

(** the slot a written row belongs to, and the row as the reader will return it *)
Definition w_key (r : wrow) : key := (w_year r, w_index r).
Definition quantise (r : wrow) : vrow := dec_rec (w_key r) (rec_of r).

(* ------------------------------------------------------------------ guards (executable, on the input) *)

(** F2: a row whose index is 0 (1D bucket, January 1st) *)
Definition f2_row (r : wrow) : bool := w_index r =? 0.

End WithTicks.
