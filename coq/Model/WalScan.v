(** Byte-level model of WAL replay (startup recovery of one WAL file) exactly as written.

    Go function (file:line at HEAD)                         model
    ------------------------------------------------------  ------------------------------
    executor/wal/file.go:40   wal.Read                       wal_read   (EOF / ShortRead / full)
    os.File.Read as used by readTGData                       file_read_full
    executor/walreplay.go:239 readMessageID                  next_msg (first byte)
    executor/walreplay.go:267 readTGData (+ sanityCheckValue  read_tg
              wal.go:705, validateCheckSum wal.go:558)
    executor/wal.go:521       readTransactionInfo            read_txn
    executor/wal/file.go:31   wal.ReadStatus                 read_status
    executor/walreplay.go:219 fullRead                       which events stop the loop ([EvStop]) and which do not
    executor/walreplay.go:26  Replay, first pass             scan   (maps tgData / offsetTGDataInWAL)
    executor/walreplay.go:120 Replay, second pass            schedule, apply_sched
    executor/wal.go:90        TakeOverWALFile, NeedsReplay,  startup_replay
              walclean.go:33  CleanupOldWALFiles size test

    The scanner is split in two layers that the Go code interleaves:
      layer 1  [next_msg bs pos]  frames ONE message at [pos] from the bytes alone (and [md5]);
      layer 2  [scan]             feeds the events to the two maps of Replay's first pass.
    Quirks kept on purpose:
      - readTGData's result is stored BEFORE the error test (walreplay.go:77): every failed TGDATA read
        executes [tgData[0] = nil], also the ones that end the loop;
      - a failed TGDATA read that does not end the loop (insane length, checksum mismatch) continues to
        the duplicate test with tgID 0: the SECOND such failure returns ReplayError "Duplicate TG Data";
      - (repaired by the fix: commits in /repo, see known_findings.txt) readTGData now rejects tgLen < tgIDBytes
        together with the sanity test; the make / [:7] panic outcomes are kept in the model BEHIND that test
        and proved unreachable (WalScan_facts.read_tg_no_panic); wal.ReadStatus returns the read error before
        indexing the (nil on EOF) buffer; an undecodable intact body is an error of parseTGData and skipped;
      - TXNINFO records carry no checksum; a CHECKPOINT/COMMITCOMPLETE record for an id present in tgData
        prunes every id <= it; the WAL-destination states are recorded but never consulted.
    (tgLen = 7 can no longer reach io.ToInt64(tgSerialized[:7]); [tg_id_of] keeps its padding byte for that
    unreachable case.)
    I/O errors other than EOF/short reads are not modelled.  Sizes are below 2^53 so [1000*size] does not wrap.

    [md5], the root directory and the outcome of replayTGData ([apply_ok]: did it return nil) are section
    variables; Corr/C06.v instantiates md5 with Base/Md5.md5. *)
From Coq Require Import ZArith NArith List Bool Lia.
From Coq.Strings Require Import Byte.
Import ListNotations.
Require Import MS.Base.GoInt MS.Base.Res MS.Base.Hex MS.Base.Bytes MS.Generated.Src_wal MS.Model.TGCodec.
Local Open Scope Z_scope.

Definition rd (bs : list byte) (pos n : nat) : list byte := firstn n (skipn pos bs).

Inductive rd_res := RdEOF | RdShort | RdOk (d : list byte).

(** wal.Read(fp, buffer) with len(buffer) = n >= 1 at file offset [pos] *)
Definition wal_read (bs : list byte) (pos n : nat) : rd_res :=
  if (length bs <=? pos)%nat then RdEOF
  else if (length bs - pos <? n)%nat then RdShort
  else RdOk (rd bs pos n).

(** fp.Read(make([]byte, n)) followed by the test [got != n || err != nil]: Some data iff it passes.
    A zero-length read returns (0, nil) even at end of file. *)
Definition file_read_full (bs : list byte) (pos : nat) (n : Z) : option (list byte) :=
  if n =? 0 then Some []
  else if Z.of_nat (length bs - pos) <? n then None
  else Some (rd bs pos (Z.to_nat n)).

(** one framed message *)
Inductive ev :=
| EvStop (tg0 : bool)                      (* loop ends (EOF / short read); tg0: inside readTGData, so tgData[0] = nil ran *)
| EvSkip (pos' : nat)                      (* unknown message id, STATUS record, TXNINFO with invalid fields *)
| EvTxn (pos' : nat) (id dest status : Z)
| EvTGBad (pos' : nat)                     (* insane length or checksum mismatch *)
| EvTG (pos' : nat) (id : Z) (body : list byte)
| EvPanic (cls : nat).                     (* 1 makeslice: len out of range; 2 slice bounds [:7]; 3 index of nil slice *)

Definition size_z (bs : list byte) : Z := Z.of_nat (length bs).

(** io.ToInt64(tgSerialized[:tgIDBytes-1]) on a body of at least 7 bytes *)
Definition tg_id_of (body : list byte) : Z := wrap I64 (le_val (firstn 8 (body ++ [x00]))).

Section Scan.
Variable md5 : list byte -> list byte.
Variable root : list byte.
Variable apply_ok : Z -> list wtset -> bool.

(** readTGData at offset [p] (just after the message id) *)
Definition read_tg (bs : list byte) (p : nat) : ev :=
  match wal_read bs p (Z.to_nat tgLenBytes) with
  | RdOk d =>
      let tgLen := wrap I64 (le_val d) in
      let p1 := (p + Z.to_nat tgLenBytes)%nat in
      (* sanityCheckValue || tgLen < tgIDBytes (fix: a length below the id size is damage, like a too large one) *)
      if negb (tgLen <? safetyFactor * size_z bs) || (tgLen <? tgIDBytes) then EvTGBad p1
      else if tgLen <? 0 then EvPanic 1
      else match file_read_full bs p1 tgLen with
           | None => EvStop true
           | Some body =>
               if tgLen <? tgIDBytes - 1 then EvPanic 2
               else
                 let p2 := (p1 + length body)%nat in
                 match file_read_full bs p2 checkSumBytes with
                 | None => EvStop true
                 | Some ck =>
                     let p3 := (p2 + Z.to_nat checkSumBytes)%nat in
                     if bytes_eqb (md5 (d ++ body)) ck then EvTG p3 (tg_id_of body) body else EvTGBad p3
                 end
           end
  | _ => EvStop true
  end.

(** readTransactionInfo at offset [p]; the buffer is a [10]byte literal in the Go code *)
Definition read_txn (bs : list byte) (p : nat) : ev :=
  match wal_read bs p 10 with
  | RdOk d =>
      let id := wrap I64 (le_val (firstn 8 d)) in
      let dest := wrap I8 (Z_of_byte (nth 8 d x00)) in
      let status := wrap I8 (Z_of_byte (nth 9 d x00)) in
      if negb ((dest =? DEST_CHECKPOINT) || (dest =? DEST_WAL)) then EvSkip (p + 10)
      else if negb ((status =? TXN_PREPARING) || (status =? TXN_COMMITINTENDED) || (status =? TXN_COMMITCOMPLETE))
           then EvSkip (p + 10)
      else EvTxn (p + 10) id dest status
  | _ => EvStop false
  end.

(** wal.ReadStatus at offset [p] (fix: the read error is returned before the buffer — nil on EOF — is indexed) *)
Definition read_status (bs : list byte) (p : nat) : ev :=
  match wal_read bs p 10 with
  | RdOk _ => EvSkip (p + 10)
  | RdShort => EvStop false
  | RdEOF => EvStop false
  end.

(** one iteration of the first-pass loop: readMessageID, then the switch *)
Definition next_msg (bs : list byte) (pos : nat) : ev :=
  match wal_read bs pos 1 with
  | RdOk d =>
      let mid := wrap I8 (Z_of_byte (nth 0 d x00)) in
      if mid =? MID_TGDATA then read_tg bs (pos + 1)
      else if mid =? MID_TXNINFO then read_txn bs (pos + 1)
      else if mid =? MID_STATUS then read_status bs (pos + 1)
      else EvSkip (pos + 1)
  | _ => EvStop false
  end.

(* ------------------------------------------------------------------ layer 2: the maps *)

Definition tgmap := list (Z * option (list byte)).      (* tgData: nil values are [None] *)

Definition mdel (k : Z) (m : tgmap) : tgmap := filter (fun e => negb (fst e =? k)) m.
Definition mset (k : Z) (v : option (list byte)) (m : tgmap) : tgmap := (k, v) :: mdel k m.
Definition mmem (k : Z) (m : tgmap) : bool := existsb (fun e => fst e =? k) m.
Definition zmem (k : Z) (l : list Z) : bool := existsb (Z.eqb k) l.
(** the checkpoint pruning: delete every tgid <= id *)
Definition mprune (id : Z) (m : tgmap) : tgmap := filter (fun e => id <? fst e) m.

Inductive sout := SDone (m : tgmap) | SAbort | SPanic (cls : nat) | SFuel.

Fixpoint scan (fuel : nat) (bs : list byte) (pos : nat) (m : tgmap) (seen : list Z) : sout :=
  match fuel with
  | O => SFuel
  | S f =>
      match next_msg bs pos with
      | EvStop tg0 => SDone (if tg0 then mset 0 None m else m)
      | EvSkip p' => scan f bs p' m seen
      | EvTxn p' id dest status =>
          let m' := if (dest =? DEST_CHECKPOINT) && (status =? TXN_COMMITCOMPLETE) && mmem id m
                    then mprune id m else m in
          scan f bs p' m' seen
      | EvTGBad p' =>
          if zmem 0 seen then SAbort else scan f bs p' (mset 0 None m) (0 :: seen)
      | EvTG p' id body =>
          if zmem id seen then SAbort else scan f bs p' (mset id (Some body) m) (id :: seen)
      | EvPanic c => SPanic c
      end
  end.

(* ------------------------------------------------------------------ second pass *)

Fixpoint insert_key (e : Z * option (list byte)) (l : tgmap) : tgmap :=
  match l with
  | [] => [e]
  | x :: r => if fst e <=? fst x then e :: l else x :: insert_key e r
  end.
Definition sort_keys (m : tgmap) : tgmap := fold_right insert_key [] m.

(** the TG bodies handed to ParseTGData/replayTGData, ascending id, nil entries skipped *)
Definition schedule (m : tgmap) : list (Z * list byte) :=
  flat_map (fun e => match snd e with Some b => [(fst e, b)] | None => [] end) (sort_keys m).

(** exit classes: 0 nil, 1 error returned, 2 panic, 3 file not replayed (removed by the cleaner) *)
Record rout := mkrout { r_code : nat; r_applied : list (Z * nat) }.   (* (tgID, number of WTSets) in order *)

Fixpoint apply_sched (s : list (Z * list byte)) : rout :=
  match s with
  | [] => mkrout 0 []
  | (k, body) :: r =>
      match parseTGData body root with
      | Ok (tgid, wts) =>
          if (length wts =? 0)%nat || apply_ok tgid wts
          then let o := apply_sched r in mkrout (r_code o) ((tgid, length wts) :: r_applied o)
          else mkrout 1 []
      | Rejected => apply_sched r      (* fix: an undecodable body is logged and skipped *)
      | Panic => mkrout 2 []
      end
  end.

(** Replay(false) after NeedsReplay said yes: both passes over the file bytes *)
Definition replay_bytes (bs : list byte) : rout :=
  match scan (S (length bs)) bs 0 [] [] with
  | SDone m => apply_sched (schedule m)
  | SAbort => mkrout 1 []
  | SPanic _ => mkrout 2 []
  | SFuel => mkrout 4 []
  end.

(** CleanupOldWALFiles -> TakeOverWALFile -> Replay(false) for one file: the 11-byte status record is
    read, rewritten (message id, same states, same owner), checked, rewritten as OPEN/REPLAYINPROCESS,
    and the scan starts at offset 0 of the rewritten file. *)
Definition startup_replay (bs : list byte) : rout :=
  if size_z bs <=? walStatusLenBytes then mkrout 3 []
  else
    let owner := rd bs 3 8 in
    let rs := wrap I8 (Z_of_byte (nth 2 bs x00)) in
    if wrap I64 (le_val owner) =? 0 then mkrout 1 []               (* "file is owned by calling process" *)
    else if negb ((rs =? WRS_NOTREPLAYED) || (rs =? WRS_REPLAYINPROCESS)) then mkrout 1 []   (* no replay needed *)
    else replay_bytes ([byte_of_Z MID_STATUS; byte_of_Z WFS_OPEN; byte_of_Z WRS_REPLAYINPROCESS] ++ owner ++ skipn 11 bs).

End Scan.

(* ------------------------------------------------------------------ record builders (what the writer emits) *)

Definition rec_status (fs rs owner : Z) : list byte :=
  [byte_of_Z MID_STATUS; byte_of_Z fs; byte_of_Z rs] ++ le_bytes 8 owner.
Definition rec_txn (id dest status : Z) : list byte :=
  [byte_of_Z MID_TXNINFO] ++ le_bytes 8 id ++ [byte_of_Z dest; byte_of_Z status].
Definition rec_tg (md5 : list byte -> list byte) (body : list byte) : list byte :=
  let l := le_bytes 8 (Z.of_nat (length body)) in
  [byte_of_Z MID_TGDATA] ++ l ++ body ++ md5 (l ++ body).
