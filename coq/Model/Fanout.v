(** Fanout — interleaving model (LTS) of the replication fan-out on the master.

    Mirrors (marketstore @ /repo):
      replication/sender.go:25-52        Sender: channel (cap defaultSenderChannelSize), Run's goroutine
                                         { tg := <-channel; replService.SendReplicationMessage(tg) }, Send { channel <- tg }
      replication/grpc_server.go:42-78   GetWALStream (one goroutine per connected replica):
                                         ch := make(chan []byte, defaultReplicationStreamChannelSize);
                                         rs.StreamChannels[clientAddr] = ch                (map write, NO lock)
                                         for { tg := <-ch; if stream.Send(tg) fails: break }
                                         delete(rs.StreamChannels, clientAddr)             (map write, NO lock)
                                         close(ch)
      replication/grpc_server.go:79-85   SendReplicationMessage: for ip, ch := range rs.StreamChannels { ch <- tg }
                                                                                           (map iteration, NO lock; blocking send)
      executor/wal.go:318-321            the WAL loop calls ReplicationSender.Send after each TG's fsync

    Atomic steps = the points where Go can interleave: channel sends/receives/close, and — because the
    map is not protected — the BEGIN and END of every map write (runtime.mapassign / mapdelete set and
    clear the hashWriting flag) and every advance of the iterator (runtime.mapiternext checks it).
    The runtime faults are explicit outcomes:
      PMapIterWrite   "fatal error: concurrent map iteration and map write"
      PMapWrites      "fatal error: concurrent map writes"
      PClosedSend     "panic: send on closed channel"
    and [race] records that a map write overlapped an iteration in progress (a data race whether or
    not the runtime happens to notice it).  After a fault no step is enabled (the process is dead).

    Assumptions (DESIGN §10, partial): Go channel semantics; the runtime's map-fault detection as just
    described; an entry inserted after the iteration began may or may not be produced (Go spec). *)
From Coq Require Import List Arith Bool NArith.
Import ListNotations.

Definition tg := nat.

Inductive gpc :=
| GNew            (* channel made; about to begin  StreamChannels[addr] = ch *)
| GIns            (* inside mapassign *)
| GLoop           (* blocked in  <-streamChannel *)
| GGot (t : tg)   (* received t; inside stream.Send *)
| GDel            (* stream.Send failed; about to begin delete(StreamChannels, addr) *)
| GDeling         (* inside mapdelete *)
| GClose          (* about to close(streamChannel) *)
| GDone.

Inductive spc :=
| SIdle                                       (* blocked in <-s.channel *)
| SIter (t : tg) (snap vis : list nat)        (* in the range loop, about to call mapiternext *)
| SHold (t : tg) (snap vis : list nat) (c : nat). (* iterator produced channel c; about to  c <- t *)

Inductive pkind := PMapIterWrite | PMapWrites | PClosedSend.

Record chan := mkchan { q : list tg; closed : bool }.

Record st := mkst {
  keys : list nat;           (* static: client address of stream r *)
  capS : N;                  (* static: cap(Sender.channel) *)
  capC : N;                  (* static: cap(streamChannel) *)
  gs : list gpc;
  chs : list chan;           (* the channel made by stream r *)
  smap : list (nat * nat);   (* StreamChannels: address -> channel (identified with the stream that made it) *)
  writing : option nat;      (* the stream currently inside mapassign/mapdelete *)
  sp : spc;
  schan : list tg;           (* Sender.channel *)
  committed : list tg;       (* ghost: TGs handed to Sender.Send, in commit order; TG ids are 0,1,2,... *)
  delivered : list (list tg);(* what stream r's stream.Send has accepted, in order *)
  panic : option pkind;
  race : bool
}.

Fixpoint lookup (m : list (nat * nat)) (k : nat) : option nat :=
  match m with
  | [] => None
  | (k', c) :: r => if k' =? k then Some c else lookup r k
  end.
Definition remove_key (m : list (nat * nat)) (k : nat) : list (nat * nat) :=
  filter (fun e => negb (fst e =? k)) m.
Definition memb (k : nat) (l : list nat) : bool := existsb (Nat.eqb k) l.

Fixpoint upd {A} (n : nat) (v : A) (l : list A) : list A :=
  match l, n with
  | [], _ => []
  | _ :: r, 0 => v :: r
  | x :: r, S n' => x :: upd n' v r
  end.

Definition init (ks : list nat) (cs cc : N) : st :=
  mkst ks cs cc (map (fun _ => GNew) ks) (map (fun _ => mkchan [] false) ks) [] None SIdle [] []
       (map (fun _ => []) ks) None false.

(** the state in which all replicas of [ks] are connected and nothing has been committed yet *)
Definition init_stable (ks : list nat) (cs cc : N) : st :=
  mkst ks cs cc (map (fun _ => GLoop) ks) (map (fun _ => mkchan [] false) ks)
       (combine ks (seq 0 (length ks))) None SIdle [] [] (map (fun _ => []) ks) None false.

Inductive label :=
| Commit                    (* WAL loop: Sender.Send, s.channel <- tg *)
| SRecv                     (* sender goroutine: tg := <-s.channel; the range statement starts *)
| SNext (k : nat)           (* mapiternext produces the entry of address k *)
| SEnd                      (* mapiternext: iteration exhausted *)
| SSend                     (* channel <- tg *)
| GInsB (r : nat) | GInsE (r : nat)   (* begin / end of StreamChannels[addr] = ch *)
| GRecv (r : nat)           (* tg := <-streamChannel *)
| GSend (r : nat) (ok : bool)  (* stream.Send returned nil / an error *)
| GDelB (r : nat) | GDelE (r : nat)   (* begin / end of delete(StreamChannels, addr) *)
| GCloseL (r : nat).        (* close(streamChannel) *)

Definition set_gs s x := mkst (keys s) (capS s) (capC s) x (chs s) (smap s) (writing s) (sp s) (schan s) (committed s) (delivered s) (panic s) (race s).
Definition set_chs s x := mkst (keys s) (capS s) (capC s) (gs s) x (smap s) (writing s) (sp s) (schan s) (committed s) (delivered s) (panic s) (race s).
Definition set_smap s x := mkst (keys s) (capS s) (capC s) (gs s) (chs s) x (writing s) (sp s) (schan s) (committed s) (delivered s) (panic s) (race s).
Definition set_writing s x := mkst (keys s) (capS s) (capC s) (gs s) (chs s) (smap s) x (sp s) (schan s) (committed s) (delivered s) (panic s) (race s).
Definition set_sp s x := mkst (keys s) (capS s) (capC s) (gs s) (chs s) (smap s) (writing s) x (schan s) (committed s) (delivered s) (panic s) (race s).
Definition set_schan s x := mkst (keys s) (capS s) (capC s) (gs s) (chs s) (smap s) (writing s) (sp s) x (committed s) (delivered s) (panic s) (race s).
Definition set_committed s x := mkst (keys s) (capS s) (capC s) (gs s) (chs s) (smap s) (writing s) (sp s) (schan s) x (delivered s) (panic s) (race s).
Definition set_delivered s x := mkst (keys s) (capS s) (capC s) (gs s) (chs s) (smap s) (writing s) (sp s) (schan s) (committed s) x (panic s) (race s).
Definition set_panic s x := mkst (keys s) (capS s) (capC s) (gs s) (chs s) (smap s) (writing s) (sp s) (schan s) (committed s) (delivered s) (Some x) (race s).
Definition set_race s (x : bool) := mkst (keys s) (capS s) (capC s) (gs s) (chs s) (smap s) (writing s) (sp s) (schan s) (committed s) (delivered s) (panic s) x.
Definition set_g s r p := set_gs s (upd r p (gs s)).

Definition iterating (s : st) : bool := match sp s with SIdle => false | _ => true end.

(** begin of a map write by stream r (mapassign / mapdelete): a second writer faults; overlapping an
    iteration is a race *)
Definition map_write_begin (s : st) (r : nat) (p : gpc) : st :=
  match writing s with
  | Some _ => set_panic s PMapWrites
  | None => set_g (set_writing (set_race s (race s || iterating s)) (Some r)) r p
  end.

Definition step (l : label) (s : st) : option st :=
  match panic s with
  | Some _ => None
  | None =>
  match l with
  | Commit =>
      if (N.of_nat (length (schan s)) <? capS s)%N
      then let t := length (committed s) in
           Some (set_committed (set_schan s (schan s ++ [t])) (committed s ++ [t]))
      else None
  | SRecv =>
      match sp s, schan s with
      | SIdle, t :: r => Some (set_sp (set_schan s r) (SIter t (map fst (smap s)) []))
      | _, _ => None
      end
  | SNext k =>
      match sp s with
      | SIter t snap vis =>
          match lookup (smap s) k with
          | Some c =>
              if memb k vis then None
              else match writing s with
                   | Some _ => Some (set_panic s PMapIterWrite)
                   | None => Some (set_sp s (SHold t snap (k :: vis) c))
                   end
          | None => None
          end
      | _ => None
      end
  | SEnd =>
      match sp s with
      | SIter t snap vis =>
          if forallb (fun e => negb (memb (fst e) snap) || memb (fst e) vis) (smap s)
          then match writing s with
               | Some _ => Some (set_panic s PMapIterWrite)
               | None => Some (set_sp s SIdle)
               end
          else None
      | _ => None
      end
  | SSend =>
      match sp s with
      | SHold t snap vis c =>
          match nth_error (chs s) c with
          | Some ch =>
              if closed ch then Some (set_panic s PClosedSend)
              else if (N.of_nat (length (q ch)) <? capC s)%N
                   then Some (set_sp (set_chs s (upd c (mkchan (q ch ++ [t]) false) (chs s))) (SIter t snap vis))
                   else None
          | None => None
          end
      | _ => None
      end
  | GInsB r =>
      match nth_error (gs s) r with
      | Some GNew => Some (map_write_begin s r GIns)
      | _ => None
      end
  | GInsE r =>
      match nth_error (gs s) r with
      | Some GIns =>
          let k := nth r (keys s) 0 in
          Some (set_g (set_writing (set_smap s ((k, r) :: remove_key (smap s) k)) None) r GLoop)
      | _ => None
      end
  | GRecv r =>
      match nth_error (gs s) r, nth_error (chs s) r with
      | Some GLoop, Some ch =>
          match q ch with
          | t :: rest => Some (set_g (set_chs s (upd r (mkchan rest (closed ch)) (chs s))) r (GGot t))
          | [] => None
          end
      | _, _ => None
      end
  | GSend r ok =>
      match nth_error (gs s) r with
      | Some (GGot t) =>
          if ok then Some (set_g (set_delivered s (upd r (nth r (delivered s) [] ++ [t]) (delivered s))) r GLoop)
          else Some (set_g s r GDel)
      | _ => None
      end
  | GDelB r =>
      match nth_error (gs s) r with
      | Some GDel => Some (map_write_begin s r GDeling)
      | _ => None
      end
  | GDelE r =>
      match nth_error (gs s) r with
      | Some GDeling =>
          Some (set_g (set_writing (set_smap s (remove_key (smap s) (nth r (keys s) 0))) None) r GClose)
      | _ => None
      end
  | GCloseL r =>
      match nth_error (gs s) r, nth_error (chs s) r with
      | Some GClose, Some ch => Some (set_g (set_chs s (upd r (mkchan (q ch) true) (chs s))) r GDone)
      | _, _ => None
      end
  end
  end.

Fixpoint run_labels (s : st) (ls : list label) : option st :=
  match ls with
  | [] => Some s
  | l :: r => match step l s with Some s' => run_labels s' r | None => None end
  end.

Definition enabled (l : label) (s : st) : bool :=
  match step l s with Some _ => true | None => false end.

(** schedule guard of the stable theorem: no stream.Send fails (no replica disconnects) *)
Definition stable (l : label) : bool := match l with GSend _ false => false | _ => true end.

(** an internal (master-side, non-WAL-loop) step is enabled: the sender goroutine or some stream
    goroutine can move; [n] bounds the stream ids, keys are searched among [keys s] *)
Definition internal_enabled (s : st) : bool :=
  enabled SRecv s || enabled SEnd s || enabled SSend s
  || existsb (fun k => enabled (SNext k) s) (keys s)
  || existsb (fun r => enabled (GRecv r) s || enabled (GSend r true) s) (seq 0 (length (keys s))).
