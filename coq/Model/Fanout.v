(** Fanout — interleaving model (LTS) of the replication fan-out on the master.

    Mirrors (marketstore @ /repo):
      replication/sender.go:25-52        Sender: channel (cap defaultSenderChannelSize), Run's goroutine
                                         { tg := <-channel; replService.SendReplicationMessage(tg) }, Send { channel <- tg }
      replication/grpc_server.go         GetWALStream (one goroutine per connected replica), AFTER the fix of F22a/b (known_findings.txt):
                                         ch := make(chan []byte, defaultReplicationStreamChannelSize);
                                         mu.Lock(); rs.StreamChannels[clientAddr] = ch; mu.Unlock()
                                         for { tg := <-ch; if stream.Send(tg) fails: break }
                                         go func() { for range ch {} }()                   (drain until closed)
                                         mu.Lock(); delete(rs.StreamChannels, clientAddr); close(ch); mu.Unlock()
      replication/grpc_server.go         SendReplicationMessage: mu.RLock(); defer mu.RUnlock();
                                         for ip, ch := range rs.StreamChannels { ch <- tg }  (blocking send, read lock held)
      executor/wal.go:318-321            the WAL loop calls ReplicationSender.Send after each TG's fsync

    Atomic steps = the points where Go can interleave: channel sends/receives/close, lock/unlock of the
    RWMutex, and — the runtime's fault detection is kept in the model so that "no fault" is a theorem about
    the lock discipline, not an omission — the BEGIN and END of every map write (runtime.mapassign / mapdelete set and
    clear the hashWriting flag) and every advance of the iterator (runtime.mapiternext checks it).
    The runtime faults are explicit outcomes:
      PMapIterWrite   "fatal error: concurrent map iteration and map write"
      PMapWrites      "fatal error: concurrent map writes"
      PClosedSend     "panic: send on closed channel"
    and [race] records that a map write overlapped an iteration in progress (a data race whether or
    not the runtime happens to notice it).  After a fault no step is enabled (the process is dead).

    Assumptions (DESIGN §10, partial): Go channel semantics; the runtime's map-fault detection as just
    described; an entry inserted after the iteration began may or may not be produced (Go spec). *)
From Coq Require Import List Arith Bool NArith.
Import ListNotations.

Definition tg := nat.

Inductive gpc :=
| GNew            (* channel made; about to  mu.Lock()  and begin  StreamChannels[addr] = ch *)
| GIns            (* write lock held, inside mapassign *)
| GLoop           (* blocked in  <-streamChannel *)
| GGot (t : tg)   (* received t; inside stream.Send *)
| GFail           (* stream.Send failed; cleanup begins *)
| GDel            (* drainer goroutine started ( go func(){ for range ch {} }() ); about to  mu.Lock() *)
| GDeling (d : bool)  (* write lock held, inside mapdelete; d: the drainer is running *)
| GClose (d : bool)   (* write lock held; about to close(streamChannel) and unlock *)
| GDone.

Inductive spc :=
| SIdle                                       (* blocked in <-s.channel *)
| SWant (t : tg)                              (* received t; about to  mu.RLock() *)
| SIter (t : tg) (snap vis : list nat)        (* in the range loop, about to call mapiternext *)
| SHold (t : tg) (snap vis : list nat) (c : nat). (* iterator produced channel c; about to  c <- t *)

Inductive pkind := PMapIterWrite | PMapWrites | PClosedSend.

Inductive lockst := LkFree | LkRead | LkWrite (r : nat).

Record chan := mkchan { q : list tg; closed : bool }.

Record st := mkst {
  keys : list nat;           (* static: client address of stream r *)
  capS : N;                  (* static: cap(Sender.channel) *)
  capC : N;                  (* static: cap(streamChannel) *)
  gs : list gpc;
  chs : list chan;           (* the channel made by stream r *)
  smap : list (nat * nat);   (* StreamChannels: address -> channel (identified with the stream that made it) *)
  writing : option nat;      (* the stream currently inside mapassign/mapdelete *)
  lock : lockst;             (* rs.mu: free, read-held by the sender, write-held by stream r *)
  sp : spc;
  schan : list tg;           (* Sender.channel *)
  committed : list tg;       (* ghost: TGs handed to Sender.Send, in commit order; TG ids are 0,1,2,... *)
  delivered : list (list tg);(* what stream r's stream.Send has accepted, in order *)
  panic : option pkind;
  race : bool
}.

Fixpoint lookup (m : list (nat * nat)) (k : nat) : option nat :=
  match m with
  | [] => None
  | (k', c) :: r => if k' =? k then Some c else lookup r k
  end.
Definition remove_key (m : list (nat * nat)) (k : nat) : list (nat * nat) :=
  filter (fun e => negb (fst e =? k)) m.
Definition memb (k : nat) (l : list nat) : bool := existsb (Nat.eqb k) l.

Fixpoint upd {A} (n : nat) (v : A) (l : list A) : list A :=
  match l, n with
  | [], _ => []
  | _ :: r, 0 => v :: r
  | x :: r, S n' => x :: upd n' v r
  end.

Definition init (ks : list nat) (cs cc : N) : st :=
  mkst ks cs cc (map (fun _ => GNew) ks) (map (fun _ => mkchan [] false) ks) [] None LkFree SIdle [] []
       (map (fun _ => []) ks) None false.

(** the state in which all replicas of [ks] are connected and nothing has been committed yet *)
Definition init_stable (ks : list nat) (cs cc : N) : st :=
  mkst ks cs cc (map (fun _ => GLoop) ks) (map (fun _ => mkchan [] false) ks)
       (combine ks (seq 0 (length ks))) None LkFree SIdle [] [] (map (fun _ => []) ks) None false.

Inductive label :=
| Commit                    (* WAL loop: Sender.Send, s.channel <- tg *)
| SRecv                     (* sender goroutine: tg := <-s.channel *)
| SLock                     (* mu.RLock(); the range statement starts *)
| SNext (k : nat)           (* mapiternext produces the entry of address k *)
| SEnd                      (* mapiternext: iteration exhausted; deferred mu.RUnlock() *)
| SSend                     (* channel <- tg *)
| GInsB (r : nat) | GInsE (r : nat)   (* mu.Lock() + begin / end of StreamChannels[addr] = ch + mu.Unlock() *)
| GRecv (r : nat)           (* tg := <-streamChannel *)
| GSend (r : nat) (ok : bool)  (* stream.Send returned nil / an error *)
| GSpawn (r : nat)          (* go func(){ for range ch {} }(): start the drainer of a leaving stream *)
| GDelB (r : nat) | GDelE (r : nat)   (* mu.Lock() + begin / end of delete(StreamChannels, addr); GDelB is taken AFTER GSpawn (the code's order) *)
| GDelBx (r : nat)          (* mu.Lock() BEFORE the drainer is started: not a behaviour of the code (source tie in checks/C26.py);
                               it is the reordering of seeded mutation C26-2 and exists only to state what goes wrong *)
| GCloseL (r : nat)         (* close(streamChannel); mu.Unlock() *)
| GDrain (r : nat).         (* the drainer goroutine of a leaving stream discards one queued TG *)

Definition set_gs s x := mkst (keys s) (capS s) (capC s) x (chs s) (smap s) (writing s) (lock s) (sp s) (schan s) (committed s) (delivered s) (panic s) (race s).
Definition set_chs s x := mkst (keys s) (capS s) (capC s) (gs s) x (smap s) (writing s) (lock s) (sp s) (schan s) (committed s) (delivered s) (panic s) (race s).
Definition set_smap s x := mkst (keys s) (capS s) (capC s) (gs s) (chs s) x (writing s) (lock s) (sp s) (schan s) (committed s) (delivered s) (panic s) (race s).
Definition set_writing s x := mkst (keys s) (capS s) (capC s) (gs s) (chs s) (smap s) x (lock s) (sp s) (schan s) (committed s) (delivered s) (panic s) (race s).
Definition set_sp s x := mkst (keys s) (capS s) (capC s) (gs s) (chs s) (smap s) (writing s) (lock s) x (schan s) (committed s) (delivered s) (panic s) (race s).
Definition set_schan s x := mkst (keys s) (capS s) (capC s) (gs s) (chs s) (smap s) (writing s) (lock s) (sp s) x (committed s) (delivered s) (panic s) (race s).
Definition set_committed s x := mkst (keys s) (capS s) (capC s) (gs s) (chs s) (smap s) (writing s) (lock s) (sp s) (schan s) x (delivered s) (panic s) (race s).
Definition set_delivered s x := mkst (keys s) (capS s) (capC s) (gs s) (chs s) (smap s) (writing s) (lock s) (sp s) (schan s) (committed s) x (panic s) (race s).
Definition set_panic s x := mkst (keys s) (capS s) (capC s) (gs s) (chs s) (smap s) (writing s) (lock s) (sp s) (schan s) (committed s) (delivered s) (Some x) (race s).
Definition set_race s (x : bool) := mkst (keys s) (capS s) (capC s) (gs s) (chs s) (smap s) (writing s) (lock s) (sp s) (schan s) (committed s) (delivered s) (panic s) x.
Definition set_lock s x := mkst (keys s) (capS s) (capC s) (gs s) (chs s) (smap s) (writing s) x (sp s) (schan s) (committed s) (delivered s) (panic s) (race s).
Definition set_g s r p := set_gs s (upd r p (gs s)).

Definition iterating (s : st) : bool := match sp s with SIdle | SWant _ => false | _ => true end.

(** mu.Lock() by stream r followed by the begin of its map write (mapassign / mapdelete).  The lock is
    available only when nobody holds it.  The runtime checks stay: a second writer would fault, overlapping
    an iteration would be a race — the theorems show the lock excludes both. *)
Definition map_write_begin (s : st) (r : nat) (p : gpc) : option st :=
  match lock s with
  | LkFree =>
      Some (match writing s with
            | Some _ => set_panic s PMapWrites
            | None => set_g (set_lock (set_writing (set_race s (race s || iterating s)) (Some r)) (LkWrite r)) r p
            end)
  | _ => None
  end.

Definition step (l : label) (s : st) : option st :=
  match panic s with
  | Some _ => None
  | None =>
  match l with
  | Commit =>
      if (N.of_nat (length (schan s)) <? capS s)%N
      then let t := length (committed s) in
           Some (set_committed (set_schan s (schan s ++ [t])) (committed s ++ [t]))
      else None
  | SRecv =>
      match sp s, schan s with
      | SIdle, t :: r => Some (set_sp (set_schan s r) (SWant t))
      | _, _ => None
      end
  | SLock =>
      match sp s, lock s with
      | SWant t, LkFree => Some (set_sp (set_lock s LkRead) (SIter t (map fst (smap s)) []))
      | _, _ => None
      end
  | SNext k =>
      match sp s with
      | SIter t snap vis =>
          match lookup (smap s) k with
          | Some c =>
              if memb k vis then None
              else match writing s with
                   | Some _ => Some (set_panic s PMapIterWrite)
                   | None => Some (set_sp s (SHold t snap (k :: vis) c))
                   end
          | None => None
          end
      | _ => None
      end
  | SEnd =>
      match sp s with
      | SIter t snap vis =>
          if forallb (fun e => negb (memb (fst e) snap) || memb (fst e) vis) (smap s)
          then match writing s with
               | Some _ => Some (set_panic s PMapIterWrite)
               | None => Some (set_sp (set_lock s LkFree) SIdle)
               end
          else None
      | _ => None
      end
  | SSend =>
      match sp s with
      | SHold t snap vis c =>
          match nth_error (chs s) c with
          | Some ch =>
              if closed ch then Some (set_panic s PClosedSend)
              else if (N.of_nat (length (q ch)) <? capC s)%N
                   then Some (set_sp (set_chs s (upd c (mkchan (q ch ++ [t]) false) (chs s))) (SIter t snap vis))
                   else None
          | None => None
          end
      | _ => None
      end
  | GInsB r =>
      match nth_error (gs s) r with
      | Some GNew => map_write_begin s r GIns
      | _ => None
      end
  | GInsE r =>
      match nth_error (gs s) r with
      | Some GIns =>
          let k := nth r (keys s) 0 in
          Some (set_g (set_lock (set_writing (set_smap s ((k, r) :: remove_key (smap s) k)) None) LkFree) r GLoop)
      | _ => None
      end
  | GRecv r =>
      match nth_error (gs s) r, nth_error (chs s) r with
      | Some GLoop, Some ch =>
          match q ch with
          | t :: rest => Some (set_g (set_chs s (upd r (mkchan rest (closed ch)) (chs s))) r (GGot t))
          | [] => None
          end
      | _, _ => None
      end
  | GSend r ok =>
      match nth_error (gs s) r with
      | Some (GGot t) =>
          if ok then Some (set_g (set_delivered s (upd r (nth r (delivered s) [] ++ [t]) (delivered s))) r GLoop)
          else Some (set_g s r GFail)
      | _ => None
      end
  | GSpawn r =>
      match nth_error (gs s) r with
      | Some GFail => Some (set_g s r GDel)
      | Some (GClose false) => Some (set_g s r (GClose true))
      | _ => None
      end
  | GDelB r =>
      match nth_error (gs s) r with
      | Some GDel => map_write_begin s r (GDeling true)
      | _ => None
      end
  | GDelBx r =>
      match nth_error (gs s) r with
      | Some GFail => map_write_begin s r (GDeling false)
      | _ => None
      end
  | GDelE r =>
      match nth_error (gs s) r with
      | Some (GDeling d) =>
          Some (set_g (set_writing (set_smap s (remove_key (smap s) (nth r (keys s) 0))) None) r (GClose d))
      | _ => None
      end
  | GCloseL r =>
      match nth_error (gs s) r, nth_error (chs s) r with
      | Some (GClose true), Some ch => Some (set_g (set_lock (set_chs s (upd r (mkchan (q ch) true) (chs s))) LkFree) r GDone)
      | _, _ => None
      end
  | GDrain r =>
      match nth_error (gs s) r, nth_error (chs s) r with
      | Some (GDel | GDeling true | GClose true), Some ch =>
          match q ch with
          | _ :: rest => Some (set_chs s (upd r (mkchan rest (closed ch)) (chs s)))
          | [] => None
          end
      | _, _ => None
      end
  end
  end.

Fixpoint run_labels (s : st) (ls : list label) : option st :=
  match ls with
  | [] => Some s
  | l :: r => match step l s with Some s' => run_labels s' r | None => None end
  end.

Definition enabled (l : label) (s : st) : bool :=
  match step l s with Some _ => true | None => false end.

(** schedule guard of the stable theorem: no stream.Send fails (no replica disconnects) *)
Definition stable (l : label) : bool := match l with GSend _ false => false | _ => true end.

(** an internal (master-side, non-WAL-loop) step is enabled: the sender goroutine or some stream
    goroutine can move; [n] bounds the stream ids, keys are searched among [keys s] *)
Definition internal_enabled (s : st) : bool :=
  enabled SRecv s || enabled SLock s || enabled SEnd s || enabled SSend s
  || existsb (fun k => enabled (SNext k) s) (keys s)
  || existsb (fun r => enabled (GRecv r) s || enabled (GSend r true) s) (seq 0 (length (keys s))).

(** a step the MASTER can take by itself (sender goroutine, stream goroutines except the replica's stream.Send,
    drainers), in the code's order (no GDelBx) *)
Definition master_enabled (s : st) : bool :=
  enabled SRecv s || enabled SLock s || enabled SEnd s || enabled SSend s
  || existsb (fun k => enabled (SNext k) s) (keys s)
  || existsb (fun r => enabled (GInsB r) s || enabled (GInsE r) s || enabled (GRecv r) s || enabled (GSpawn r) s
                       || enabled (GDelB r) s || enabled (GDelE r) s || enabled (GCloseL r) s || enabled (GDrain r) s)
             (seq 0 (length (keys s))).
(** some replica is inside stream.Send: the environment's turn *)
Definition in_send (s : st) : bool := existsb (fun g => match g with GGot _ => true | _ => false end) (gs s).
(** nothing left to do: sender idle, nothing queued, every stream waits on an empty channel or is gone *)
Definition quiescent (s : st) : bool :=
  match sp s, schan s with
  | SIdle, [] => forallb (fun r => match nth_error (gs s) r, nth_error (chs s) r with
                                   | Some GLoop, Some c => match q c with [] => true | _ => false end
                                   | Some GDone, _ => true
                                   | _, _ => false
                                   end) (seq 0 (length (gs s)))
  | _, _ => false
  end.
(** guard: the code's order of the cleanup *)
Definition code_order (l : label) : bool := match l with GDelBx _ => false | _ => true end.
