(** C04 — Acknowledged writes survive power loss.                                  *** PARTIAL ***
    Statement file: theorems closed by [exact] of lemmas from Proofs/, then Print Assumptions.

    What is proved: the power-loss relation contains the process crash (so every counterexample of C01-C03
    is one of C04), the two durability facts the protocol rests on (a WAL record followed by an fsync of its
    file, and a primary write followed by the checkpoint's sync, are in EVERY power-loss image), and the
    refutation of the property as given (variable-length data block lost, index triple kept).
    What is NOT proved: the guarded positive statement [C04_guarded_full] below (kept visible as a Definition);
    it is validated, not proved, by the bounded enumeration of power-loss images in the check. *)
From Coq Require Import ZArith NArith List Bool.
Import ListNotations.
Require Import MS.Base.Res MS.Model.Wal MS.Model.Replay MS.Model.FS MS.Model.PowerLoss
  MS.Proofs.Durable_files MS.Proofs.Durable_exec MS.Proofs.Durable_recover MS.Proofs.Durable_sem
  MS.Proofs.Durable_steps3 MS.Proofs.Durable_props MS.Proofs.Durable_refute MS.Proofs.PowerLoss_facts.
Local Open Scope Z_scope.

(** the process crash is the power-loss image that loses nothing (event level and byte level) *)
Theorem C04_contains_process_crash : forall tr k, pl_img tr k (fun _ => false) = crash_img tr k.
Proof. exact pl_img_process_crash. Qed.
Print Assumptions C04_contains_process_crash.
Theorem C04_contains_process_crash_bytes : forall tr k, FS.pl_image tr k (fun _ => FS.Keep) = FS.crash_image tr k.
Proof. exact FS.pl_image_process_crash. Qed.
Print Assumptions C04_contains_process_crash_bytes.

(** WAL durability: a record followed, before the power failure, by an fsync of its WAL file is durable *)
Theorem C04_fsynced_record_durable : forall tr i j k w r,
  nth_error tr i = Some (EWalApp w r) -> nth_error tr j = Some (EWalFsync w) -> (i < j < k)%nat ->
  durable_at tr i k (EWalApp w r) = true.
Proof. exact fsynced_append_survives. Qed.
Print Assumptions C04_fsynced_record_durable.

(** checkpoint soundness: a write followed by the global sync of CreateCheckpoint is durable *)
Theorem C04_synced_write_durable : forall tr i j k e,
  nth_error tr i = Some e -> nth_error tr j = Some ESync -> (i < j < k)%nat -> durable_at tr i k e = true.
Proof. exact synced_write_survives. Qed.
Print Assumptions C04_synced_write_durable.

(** whatever is durable is in every power-loss image, whichever writes are lost *)
Theorem C04_durable_in_every_image : forall tr k drop i e,
  nth_error tr i = Some e -> (i < k)%nat -> durable_at tr i k e = true -> In e (pl_events tr k drop).
Proof. exact durable_event_kept. Qed.
Print Assumptions C04_durable_in_every_image.

(** The property as given (restricted to its first half: the server must come back). *)
Definition C04_full : Prop :=
  forall (clen : list record -> Z), (forall x, 0 < clen x) ->
  forall owner2 owner tgid0 sched tr k drop,
    owner <> 0 -> 0 < tgid0 ->
    run clen 0%N owner tgid0 sched = Ok tr -> wf_sched clen owner tgid0 sched = true ->
    (k <= length tr)%nat -> guard_crash tr k = true -> suffix_closed tr k drop = true ->
    snd (recover clen 1%N owner2 (pl_img tr k drop)) = StartOk.

(** Refuted: the data block of an acknowledged variable-length write is lost, its index triple is not;
    replay cannot read the interval and the start-up fails. *)
Theorem C04_refuted : ~ C04_full.
Proof. exact C04_full_refuted. Qed.
Print Assumptions C04_refuted.

(** The guarded positive statement, NOT proved: if no write to a variable-length file is lost, every power-loss
    image recovers and shows every committed transaction group whose WAL records were fsynced. *)
Definition drops_no_variable (tr : list event) (k : nat) (drop : nat -> bool) : bool :=
  forallb (fun i => match nth_error tr i with
                    | Some (EVData _ _ _ _) | Some (EVIndex _ _ _ _ _) => negb (drop i)
                    | _ => true end) (seq 0 k).
Definition C04_guarded_full : Prop :=
  forall (clen : list record -> Z), (forall x, 0 < clen x) ->
  forall owner2 owner tgid0 sched tr k drop,
    owner <> 0 -> 0 < tgid0 ->
    run clen 0%N owner tgid0 sched = Ok tr -> wf_sched clen owner tgid0 sched = true ->
    (k <= length tr)%nat -> guard_crash tr k = true ->
    suffix_closed tr k drop = true -> drops_no_variable tr k drop = true ->
    snd (recover clen 1%N owner2 (pl_img tr k drop)) = StartOk.

(** the instance of [C04_guarded_full] that IS proved: nothing lost (= C03_guarded) *)
Theorem C04_partial :
  forall (clen : list record -> Z), (forall x, 0 < clen x) ->
  forall owner2 owner tgid0 sched tr k,
    owner <> 0 -> 0 < tgid0 ->
    run clen 0%N owner tgid0 sched = Ok tr -> wf_sched clen owner tgid0 sched = true ->
    (k <= length tr)%nat -> guard_crash tr k = true ->
    snd (recover clen 1%N owner2 (pl_img tr k (fun _ => false))) = StartOk.
Proof. exact nothing_lost_recovers. Qed.
Print Assumptions C04_partial.
