(** C27 — Query/write wire format round-trips.
    Statement file: property theorems closed by [exact] of lemmas proved in Proofs/Wire_facts.v,
    the full statements with their refutations, and non-vacuity examples. *)
From Coq Require Import String ZArith List Bool Permutation.
From Coq.Strings Require Import Byte.
Import ListNotations.
Require Import MS.Base.GoInt MS.Base.Res MS.Base.Hex MS.Generated.Src_io MS.Generated.Src_wire
  MS.Model.Rows MS.Model.Wire MS.Proofs.Wire_facts.

(** Model of the code after the fixes in /repo (zero-row buckets survive ToColumnSeriesMap; Append compares
    the column types as well as the names).

    For EVERY list of buckets of the property's domain [dom] (any number >= 1 of buckets with pairwise
    distinct keys, each a well-formed series of >= 1 columns over the wire-supported types, ANY row counts
    INCLUDING ZERO, ANY mix of shapes) whose keys are canonical, folded in the given order (= any Go map
    iteration order): either the conversion is refused with an error (exactly when the shapes differ:
    C27_mixed_rejected), or the dataset is built and for every structure [w'] equal to it up to the order
    of the StartIndex / Lengths maps BOTH decoders return exactly the input buckets (keys, column names
    in order, types, value bit patterns) as a finite map. *)
Theorem C27_guarded : forall bs, dom bs = true -> keys_canonical bs = true ->
  encode bs = Rejected
  \/ exists w, encode bs = Ok (Some w)
       /\ forall w', wire_equiv w w' ->
          exists m1 m2, to_csm w' = Ok m1 /\ Permutation m1 bs /\ resp_to_csm w' = Ok m2 /\ Permutation m2 bs.
Proof. exact wire_roundtrip_or_rejected. Qed.
Print Assumptions C27_guarded.

(** Buckets sharing one shape are never refused: the dataset is built and round-trips. *)
Theorem C27_same_shapes_roundtrip : forall bs, guard bs = true ->
  exists w, encode bs = Ok (Some w)
    /\ forall w', wire_equiv w w' ->
       exists m1 m2, to_csm w' = Ok m1 /\ Permutation m1 bs /\ resp_to_csm w' = Ok m2 /\ Permutation m2 bs.
Proof. exact wire_roundtrip. Qed.
Print Assumptions C27_same_shapes_roundtrip.

(** Buckets of different shapes (column count, a name, or only a TYPE) are refused with an error. *)
Theorem C27_mixed_rejected : forall bs,
  dom bs = true -> keys_canonical bs = true -> same_shapes bs = false -> encode bs = Rejected.
Proof. exact mixed_shapes_rejected. Qed.
Print Assumptions C27_mixed_rejected.

(** The same through any msgpack codec that returns the structure up to map order (section
    hypothesis; the real codec is what the harness runs). *)
Theorem C27_guarded_msgpack :
  forall (mp_enc : wire -> list byte) (mp_dec : list byte -> option wire),
  (forall w, exists w', mp_dec (mp_enc w) = Some w' /\ wire_equiv w w') ->
  forall bs, guard bs = true ->
  exists w w' m1 m2, encode bs = Ok (Some w) /\ mp_dec (mp_enc w) = Some w'
    /\ to_csm w' = Ok m1 /\ Permutation m1 bs /\ resp_to_csm w' = Ok m2 /\ Permutation m2 bs.
Proof. exact wire_roundtrip_msgpack. Qed.
Print Assumptions C27_guarded_msgpack.

(** Buckets whose column NAMES differ from the dataset's are refused with an error. *)
Theorem C27_names_rejected : forall w cs k,
  length (w_data w) = length (w_names w) -> map cname cs <> w_names w -> append_cs w cs k = Rejected.
Proof. exact append_rejects_names. Qed.
Print Assumptions C27_names_rejected.

(** Full statement (the property as given, over arbitrary distinct bucket keys): inside the property's
    own domain [dom] the conversion is refused with an error or decodes to the input buckets.  Still
    refuted by the one remaining defect class. *)
Definition roundtrips (bs : list bucket) : Prop :=
  encode bs = Rejected
  \/ exists w, encode bs = Ok (Some w) /\ exists m, to_csm w = Ok m /\ Permutation m bs.

Definition C27_full : Prop := forall bs, dom bs = true -> roundtrips bs.

Definition kA : key := bytes_of_string "A/1Min/OHLCV:Symbol/Timeframe/AttributeGroup".
Definition kB : key := bytes_of_string "B/1Min/OHLCV:Symbol/Timeframe/AttributeGroup".
Definition one : list byte := [x01; x00; x00; x00; x00; x00; x00; x00].

(** Regression (formerly C27_refuted): the second bucket has no rows; it now survives with its empty,
    correctly typed column. *)
Definition C27_witness_zero : list bucket :=
  [ (kA, [mkcol epoch_name ET_INT64 one]); (kB, [mkcol epoch_name ET_INT64 []]) ].
Example C27_regression_zero :
  exists w, encode C27_witness_zero = Ok (Some w) /\ to_csm w = Ok C27_witness_zero /\ resp_to_csm w = Ok C27_witness_zero.
Proof. eexists. split; [vm_compute; reflexivity|]. split; vm_compute; reflexivity. Qed.

(** Regression (formerly C27_refuted_types): same names, different types is now refused. *)
Definition C27_witness_types : list bucket :=
  [ (kA, [mkcol [x58] ET_INT32 [x01; x00; x00; x00]]); (kB, [mkcol [x58] ET_FLOAT32 [x00; x00; x80; x3f]]) ].
Example C27_regression_types : encode C27_witness_types = Rejected.
Proof. vm_compute. reflexivity. Qed.

(** class noncanonical-bucket-key: NewTimeBucketKeyFromString keeps only the first two
    colon-separated parts, so the key "A:B:C" comes back as "A:B" *)
Definition C27_witness_key : list bucket :=
  [ ([x41; x3a; x42; x3a; x43], [mkcol epoch_name ET_INT64 one]) ].

Theorem C27_refuted_key : ~ C27_full.
Proof.
  intros H. destruct (H C27_witness_key eq_refl) as [Hr|(w & Hw & m & Hm & Hp)].
  - vm_compute in Hr. discriminate Hr.
  - vm_compute in Hw. inversion Hw; subst w. vm_compute in Hm. inversion Hm; subst m.
    apply Permutation_sym in Hp.
    assert (Hin : In ([x41; x3a; x42; x3a; x43], [mkcol epoch_name ET_INT64 one]) C27_witness_key)
      by (left; reflexivity).
    apply (Permutation_in _ Hp) in Hin. vm_compute in Hin.
    destruct Hin as [Hin|[]]; discriminate Hin.
Qed.
Print Assumptions C27_refuted_key.

(** keys built by NewTimeBucketKey from colon-free parts are canonical (the guard is inhabited by
    every ordinary key) — a concrete instance; and non-vacuity of the guarded theorem: three buckets,
    three columns over different types, different row counts. *)
Example C27_nonvacuous :
  guard [ (kA, [mkcol epoch_name ET_INT64 (repeat x01 16); mkcol [x58] ET_FLOAT32 (repeat x02 8);
                mkcol [x59] ET_STRING16 (repeat x03 128)]);
          (kB, [mkcol epoch_name ET_INT64 []; mkcol [x58] ET_FLOAT32 []; mkcol [x59] ET_STRING16 []]);   (* zero rows *)
          (new_tbk (bytes_of_string "C/1D/TICK") (bytes_of_string "Sym/TF/AG"),
               [mkcol epoch_name ET_INT64 (repeat x07 24); mkcol [x58] ET_FLOAT32 (repeat x08 12);
                mkcol [x59] ET_STRING16 (repeat x09 192)]) ] = true.
Proof. vm_compute. reflexivity. Qed.

Example C27_names_rejected_nonvacuous :
  exists w, encode [ (kA, [mkcol epoch_name ET_INT64 one; mkcol [x58] ET_INT32 [x01; x00; x00; x00]]) ] = Ok (Some w)
    /\ length (w_data w) = length (w_names w)
    /\ map cname [mkcol epoch_name ET_INT64 one; mkcol [x59] ET_INT32 [x01; x00; x00; x00]] <> w_names w.
Proof. eexists. split; [vm_compute; reflexivity|]. split; [reflexivity|]. vm_compute. discriminate. Qed.
