(** C12 — Row limits return the first or last N rows of the range.
    Statement file: theorems closed by [exact] of lemmas proved in Proofs/ (witness refutations by
    computation), followed by Print Assumptions. *)
From Coq Require Import ZArith List Bool.
From Coq.Strings Require Import Byte.
Import ListNotations.
Require Import MS.Base.Res MS.Model.UTime MS.Model.FStore MS.Model.VRead MS.Proofs.Limit_facts.
Local Open Scope Z_scope.

(** Slot level (scanner.go read / readForward / readBackward), for EVERY payload type, stored state
    (any set of year files, any slots — reachable or not), range (also empty and inverted ones),
    direction and N with N * recordLength < 2^31: the limited scan returns the first / last N slots
    of the unlimited scan, or all of them if there are fewer. *)
Theorem C12_slots : forall (A : Type) tfs recLen (st : storeA A) rs re d n,
  2 <= recLen -> 1 <= n -> recLen * n < 2147483648 ->
  query tfs recLen st rs re (Some (d, n))
  = match query tfs recLen st rs re None with
    | Ok l => Ok (lim_of d (Z.to_nat n) l)
    | r => r
    end.
Proof. intros A. exact (@query_limit A). Qed.
Print Assumptions C12_slots.

(** Fixed buckets through ExecuteQuery: guarded by "the key names a queryable timeframe" *)
Theorem C12_fixed : forall (A : Type) tfs recLen (st : storeA A) req rs re d n,
  queryable_tfs req = req -> 0 < req ->
  2 <= recLen -> 1 <= n -> recLen * n < 2147483648 ->
  exec_fixed tfs recLen st req rs re (Some (d, n))
  = match exec_fixed tfs recLen st req rs re None with
    | Ok l => Ok (lim_of d (Z.to_nat n) l)
    | r => r
    end.
Proof. intros A. exact (@exec_fixed_limit A). Qed.
Print Assumptions C12_fixed.

(** Variable buckets through ExecuteQuery: additionally guarded by [guard_var] (every scanned
    interval holds a record, candidates in time order, and the limit covers all scanned intervals
    or the range bound on the side the limit counts from cuts no candidate). *)
Theorem C12_variable : forall tfs (st : vstore) req rs re d n,
  queryable_tfs req = req -> 0 < req -> 1 <= n -> 24 * n < 2147483648 ->
  guard_var tfs st rs re d n = true ->
  exec_var tfs st req rs re (Some (d, n))
  = match exec_var tfs st req rs re None with
    | Ok l => Ok (lim_of d (Z.to_nat n) l)
    | r => r
    end.
Proof. exact exec_var_limit. Qed.
Print Assumptions C12_variable.

(** * The property as stated ("all stored histories (fixed and variable) ... all ranges, all N") *)
Definition C12_full_variable : Prop := forall tfs (st : vstore) req rs re d n,
  queryable_tfs req = req -> 0 < req -> 1 <= n -> 24 * n < 2147483648 ->
  exec_var tfs st req rs re (Some (d, n))
  = match exec_var tfs st req rs re None with
    | Ok l => Ok (lim_of d (Z.to_nat n) l)
    | r => r
    end.

(** class variable-limit-counts-intervals (F12): 1Min bucket, 10:00:10.5 in one interval and
    10:01:20.5 in the next; "first 1 row from 10:00:30" scans one index slot (10:00), whose only
    record is then trimmed away, although 10:01:20.5 is in range *)
Definition w_var : vstore :=
  mkstore [2020]
    [ slot_entry 60 24 1583143210 [mkvrec 1583143210 500000000 [x01]];
      slot_entry 60 24 1583143280 [mkvrec 1583143280 500000000 [x02]] ].

Theorem C12_refuted_variable : ~ C12_full_variable.
Proof.
  intros H. unfold C12_full_variable in H.
  specialize (H 60 w_var 60 (1583143230, 0) None First 1 eq_refl eq_refl).
  assert (H1 : 1 <= 1) by discriminate. assert (H2 : 24 * 1 < 2147483648) by reflexivity.
  specialize (H H1 H2). vm_compute in H. discriminate H.
Qed.
Print Assumptions C12_refuted_variable.

(** Regression (class variable-last-limit-spans-year-files, fixed in /repo commit ca55ae9): 1H bucket
    with three intervals in 2019 and one in 2020.  Before the fix "last 2" and "last 3" failed in the
    implementation (the 2019 file was given the whole result buffer as its index data); they are
    inside the guard and answer the last rows. *)
Definition w_span : vstore :=
  mkstore [2019; 2020]
    [ slot_entry 3600 24 1551435600 [mkvrec 1551435600 500000000 [x01]];
      slot_entry 3600 24 1551439200 [mkvrec 1551439200 500000000 [x02]];
      slot_entry 3600 24 1551442800 [mkvrec 1551442800 500000000 [x03]];
      slot_entry 3600 24 1583058000 [mkvrec 1583058000 500000000 [x04]] ].

Example C12_last_span_regression :
  guard_var 3600 w_span (0, 0) None Last 2 = true /\ guard_var 3600 w_span (0, 0) None Last 3 = true
  /\ exec_var 3600 w_span 3600 (0, 0) None (Some (Last, 2))
     = Ok [mkvrec 1551442800 500000000 [x03]; mkvrec 1583058000 500000000 [x04]]
  /\ exec_var 3600 w_span 3600 (0, 0) None (Some (Last, 3))
     = Ok [mkvrec 1551439200 500000000 [x02]; mkvrec 1551442800 500000000 [x03]; mkvrec 1583058000 500000000 [x04]].
Proof. repeat split; vm_compute; reflexivity. Qed.

Definition C12_full_fixed : Prop := forall (A : Type) tfs recLen (st : storeA A) req rs re d n,
  0 < req -> 2 <= recLen -> 1 <= n -> recLen * n < 2147483648 ->
  exec_fixed tfs recLen st req rs re (Some (d, n))
  = match exec_fixed tfs recLen st req rs re None with
    | Ok l => Ok (lim_of d (Z.to_nat n) l)
    | r => r
    end.

(** class limit-scaled-by-timeframe-ratio: a key naming a non-queryable timeframe (here 2Min on a
    1Min bucket) has its limit multiplied by QueryableNrecords: "first 1" returns 2 rows *)
Definition w_fix : store :=
  mkstore [2020]
    [ slot_entry 60 16 1583143210 [x01]; slot_entry 60 16 1583143280 [x02]; slot_entry 60 16 1583143325 [x03] ].

Theorem C12_refuted_scaled : ~ C12_full_fixed.
Proof.
  intros H. specialize (H (list byte) 60 16 w_fix 120 0 None First 1).
  assert (H0 : 0 < 120) by reflexivity. assert (H1 : 2 <= 16) by discriminate.
  assert (H2 : 1 <= 1) by discriminate. assert (H3 : 16 * 1 < 2147483648) by reflexivity.
  specialize (H H0 H1 H2 H3). vm_compute in H. discriminate H.
Qed.
Print Assumptions C12_refuted_scaled.

(** Non-vacuity: the witness store with a start bound on the interval boundary is inside the guard
    (and the limited answer is the second interval's record); a Last query as well. *)
Example C12_nonvacuous :
  guard_var 60 w_var (1583143260, 0) None First 1 = true
  /\ exec_var 60 w_var 60 (1583143260, 0) None (Some (First, 1)) = Ok [mkvrec 1583143280 500000000 [x02]]
  /\ guard_var 60 w_var (0, 0) (Some (1583143290, 0)) Last 1 = true
  /\ exec_var 3600 w_span 3600 (0, 0) None (Some (Last, 4)) = exec_var 3600 w_span 3600 (0, 0) None None
  /\ exec_fixed 60 16 w_fix 60 0 None (Some (Last, 2))
     = Ok [(1583143260, [x02]); (1583143320, [x03])].
Proof. repeat split; vm_compute; reflexivity. Qed.
