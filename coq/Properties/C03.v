(** C03 — Restart after a crash succeeds and leaves data readable.
    Statement file: theorems closed by [exact] of lemmas from Proofs/, then Print Assumptions. *)
From Coq Require Import ZArith NArith List Bool.
Import ListNotations.
Require Import MS.Base.Res MS.Model.Wal MS.Model.Replay MS.Proofs.Durable_steps3 MS.Proofs.Durable_props
  MS.Proofs.Durable_refute.
Local Open Scope Z_scope.

(** Guarded statement.  For EVERY schedule of the server ([sev]: requests with their catalog calls, flushes
    from any arm of the WAL loop, acknowledgements, checkpoints with or without rotation, shutdown), every
    stored-length function of the block encoder, and EVERY prefix [k] of the file-mutating system calls the
    run issues: if the crash point is not inside one of the two windows named by [guard_crash]
      - between the data write and the index write of an in-place (continuation) indirect write,
      - between the creation of a year file and the write of its header,
    then start-up on the crash image succeeds and the unrestricted query of every bucket succeeds. *)
Theorem C03_guarded :
  forall (clen : list record -> Z), (forall x, 0 < clen x) ->
  forall owner2 owner tgid0 sched tr k,
    owner <> 0 -> 0 < tgid0 ->
    run clen 0%N owner tgid0 sched = Ok tr -> wf_sched clen owner tgid0 sched = true ->
    (k <= length tr)%nat -> guard_crash tr k = true ->
    snd (recover clen 1%N owner2 (crash_img tr k)) = StartOk
    /\ forall bucket, exists rows, bucket_rows (recovered clen 1%N owner2 (crash_img tr k)) bucket = QRows rows.
Proof. exact restart_and_queries_ok. Qed.
Print Assumptions C03_guarded.

(** The property as given: the same for every crash point. *)
Definition C03_full : Prop :=
  forall (clen : list record -> Z), (forall x, 0 < clen x) ->
  forall owner2 owner tgid0 sched tr k,
    owner <> 0 -> 0 < tgid0 ->
    run clen 0%N owner tgid0 sched = Ok tr -> wf_sched clen owner tgid0 sched = true ->
    (k <= length tr)%nat ->
    snd (recover clen 1%N owner2 (crash_img tr k)) = StartOk
    /\ forall bucket, exists rows, bucket_rows (recovered clen 1%N owner2 (crash_img tr k)) bucket = QRows rows.

(** Refuted: two requests append to the same interval of a variable-length bucket; a crash right after the
    data write of the second (continuation) write leaves the index triple describing the overwritten block;
    replay cannot decode it, CleanupOldWALFiles returns a non-ReplayError and internal/di panics. *)
Theorem C03_refuted : ~ C03_full.
Proof. exact C03_full_refuted. Qed.
Print Assumptions C03_refuted.

(** Second class: a crash between the creation of a year file and its header write makes the query of
    that bucket kill the server (log.Fatal in initFromFile), although start-up itself succeeds. *)
Theorem C03_newfile_fatal :
  snd (recover clen0 1%N 2222 (crash_img wit_trace 5)) = StartOk
  /\ bucket_rows (recovered clen0 1%N 2222 (crash_img wit_trace 5)) [0%N] = QFatal.
Proof. exact wit_newfile_fatal. Qed.
Print Assumptions C03_newfile_fatal.

(** Non-vacuity: the witness history satisfies every hypothesis, and 25 of its 28 crash points the guard. *)
Example C03_nonvacuous :
  run clen0 0%N 1111 1000 wit_sched = Ok wit_trace /\ wf_sched clen0 1111 1000 wit_sched = true
  /\ length (filter (guard_crash wit_trace) (seq 0 28)) = 26%nat.
Proof. exact wit_hyps. Qed.
