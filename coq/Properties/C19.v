(** C19 — SQL WHERE predicates select exactly the matching rows.
    Statement file: the property theorems, each closed by [exact] of a lemma proved in Proofs/ (witness
    computations by vm_compute), followed by Print Assumptions. *)
From Coq Require Import ZArith List Bool String Sorted.
From Flocq Require Import IEEE754.BinarySingleNaN.
Import ListNotations.
Require Import MS.Base.GoInt MS.Base.Res MS.Base.FGen MS.Base.F32 MS.Base.F64.
Require Import MS.Generated.Src_io MS.Generated.Src_sql MS.Model.Sql MS.Proofs.Sql_facts.
Local Open Scope Z_scope.
Local Open Scope string_scope.

(** Guarded statement (what holds of the code at HEAD).  For EVERY timeframe, schema, stored history and
    WHERE conjunction inside the guard — typed rows on the timeframe grid; comparisons < <= > >= = / BETWEEN on
    Epoch or existing value columns; and none of the six defect classes below — the model of
    SelectRelation.Materialize returns exactly the relational filter [spec_select]: the stored rows that
    satisfy every comparison (Epoch literal: <= 32503680000 is seconds, larger is nanoseconds; float columns
    against the literal converted to the column's float type, integer columns exactly; BETWEEN strict). *)
Theorem C19_guarded : forall tfs sc rows ps,
  guard tfs sc rows ps = true ->
  materialize tfs sc rows ps = Ok (spec_select sc rows ps).
Proof. exact materialize_spec. Qed.
Print Assumptions C19_guarded.

(** ... in time order: the result is a sub-list of the history, so a history sorted by Epoch stays sorted *)
Theorem C19_time_order : forall tfs sc rows ps out,
  guard tfs sc rows ps = true ->
  StronglySorted (fun a b => r_epoch a < r_epoch b) rows ->
  materialize tfs sc rows ps = Ok out ->
  StronglySorted (fun a b => r_epoch a < r_epoch b) out.
Proof. exact materialize_time_order. Qed.
Print Assumptions C19_time_order.

(** Full statement: the property as given, on its own domain (well-formed store and query, NO class guard). *)
Definition C19_full : Prop := forall tfs sc rows ps,
  wf_store tfs sc rows = true -> wf_query sc ps = true ->
  materialize tfs sc rows ps = Ok (spec_select sc rows ps).

(** ---- witnesses: a 1Min bucket of six bars 10:00 .. 10:05 on 2021-03-01, one value column = 0..5 ---- *)
Definition base : Z := 1614592800.
Definition bars (mk : Z -> cell) : list row := map (fun k => mkrow (base + 60 * k) [mk k]) [0; 1; 2; 3; 4; 5].
Definition sc_i32 : schema := [("V", ET_INT32)].
Definition sc_i16 : schema := [("S", ET_INT16)].
Definition sc_f32 : schema := [("F", ET_FLOAT32)].
Definition epochs (r : Res (list row)) : list Z := match r with Ok l => map (fun x => (r_epoch x - base) / 60) l | _ => [-1] end.

(** the class flags of an input: (seconds, incl-upper-on-bar, repeated, unfiltered type, int literal, NaN) *)
Definition classes tfs (sc : schema) rows ps :=
  (wf_store tfs sc rows && wf_query sc ps && f32_bounds_ordered sc ps,
   [epoch_seconds_bad ps; epoch_incl_upper_on_bar rows ps; repeated_bound ps; unfiltered_type sc ps;
    bad_int_literal sc ps; nan_value sc rows ps]).

(** 1. epoch-seconds-literal:  Epoch < 1614592980 (10:03:00 in epoch seconds) returns nothing *)
Definition w_seconds := [PCmp "Epoch" CLt (LInt (base + 180))].
Theorem C19_refuted_epoch_seconds :
  classes 60 sc_i32 (bars VI) w_seconds = (true, [true; false; false; false; false; false])
  /\ epochs (materialize 60 sc_i32 (bars VI) w_seconds) = []
  /\ map (fun x => (r_epoch x - base) / 60) (spec_select sc_i32 (bars VI) w_seconds) = [0; 1; 2].
Proof. vm_compute. repeat split; reflexivity. Qed.

(** 2. epoch-inclusive-upper-on-bar:  Epoch <= 10:03:00 (nanoseconds) drops the 10:03 bar *)
Definition w_incl := [PCmp "Epoch" CLte (LInt ((base + 180) * 1000000000))].
Theorem C19_refuted_incl_upper :
  classes 60 sc_i32 (bars VI) w_incl = (true, [false; true; false; false; false; false])
  /\ epochs (materialize 60 sc_i32 (bars VI) w_incl) = [0; 1; 2]
  /\ map (fun x => (r_epoch x - base) / 60) (spec_select sc_i32 (bars VI) w_incl) = [0; 1; 2; 3].
Proof. vm_compute. repeat split; reflexivity. Qed.

(** 3. repeated-bound:  V < 4 AND V < 2 keeps the looser bound *)
Definition w_repeat := [PCmp "V" CLt (LInt 4); PCmp "V" CLt (LInt 2)].
Theorem C19_refuted_repeated_bound :
  classes 60 sc_i32 (bars VI) w_repeat = (true, [false; false; true; false; false; false])
  /\ epochs (materialize 60 sc_i32 (bars VI) w_repeat) = [0; 1; 2; 3]
  /\ map (fun x => (r_epoch x - base) / 60) (spec_select sc_i32 (bars VI) w_repeat) = [0; 1].
Proof. vm_compute. repeat split; reflexivity. Qed.

(** 4. unfiltered-column-type:  S < 2 on an int16 column is ignored *)
Definition w_i16 := [PCmp "S" CLt (LInt 2)].
Theorem C19_refuted_unfiltered_type :
  classes 60 sc_i16 (bars VI) w_i16 = (true, [false; false; false; true; false; false])
  /\ epochs (materialize 60 sc_i16 (bars VI) w_i16) = [0; 1; 2; 3; 4; 5]
  /\ map (fun x => (r_epoch x - base) / 60) (spec_select sc_i16 (bars VI) w_i16) = [0; 1].
Proof. vm_compute. repeat split; reflexivity. Qed.

(** 5. non-int-literal-on-int-column:  V < 2.5 behaves as V < 2 *)
Definition w_frac := [PCmp "V" CLt (LFlt (f64_of_bits 4612811918334230528))].   (* 2.5 *)
Theorem C19_refuted_int_literal :
  classes 60 sc_i32 (bars VI) w_frac = (true, [false; false; false; false; true; false])
  /\ epochs (materialize 60 sc_i32 (bars VI) w_frac) = [0; 1]
  /\ map (fun x => (r_epoch x - base) / 60) (spec_select sc_i32 (bars VI) w_frac) = [0; 1; 2].
Proof. vm_compute. repeat split; reflexivity. Qed.

(** 6. nan-value:  F > 0.5 keeps the bars whose F is NaN (bars 1, 3, 5 here; the others hold 1.0) *)
Definition nan_or_one (k : Z) : cell := VF32 (f32_of_bits (if Z.odd k then 2143289344 else 1065353216)).
Definition w_nan := [PCmp "F" CGt (LFlt (f64_of_bits 4602678819172646912))].    (* 0.5 *)
Theorem C19_refuted_nan_value :
  classes 60 sc_f32 (bars nan_or_one) w_nan = (true, [false; false; false; false; false; true])
  /\ epochs (materialize 60 sc_f32 (bars nan_or_one) w_nan) = [0; 1; 2; 3; 4; 5]
  /\ map (fun x => (r_epoch x - base) / 60) (spec_select sc_f32 (bars nan_or_one) w_nan) = [0; 2; 4].
Proof. vm_compute. repeat split; reflexivity. Qed.

Theorem C19_refuted : ~ C19_full.
Proof.
  intros H. specialize (H 60 sc_i32 (bars VI) w_repeat eq_refl eq_refl).
  apply (f_equal epochs) in H. vm_compute in H. discriminate H.
Qed.
Print Assumptions C19_refuted.
Print Assumptions C19_refuted_nan_value.

(** Non-vacuity: a concrete selective query (a range on Epoch given as datetime nanoseconds, an equality-free
    BETWEEN on a float32 column and an inclusive bound on an int32 column) meets the guard, and selects a
    proper non-empty subset. *)
Definition sc_nv : schema := [("V", ET_INT32); ("F", ET_FLOAT32)].
Definition rows_nv : list row :=
  map (fun k => mkrow (base + 60 * k) [VI k; VF32 (f32_of_bits (if Z.odd k then 1069547520 else 1075838976))]) [0; 1; 2; 3; 4; 5].
Definition ps_nv : list pred :=
  [ PCmp "Epoch" CGte (LInt ((base + 60) * 1000000000));
    PCmp "Epoch" CLt (LInt ((base + 300) * 1000000000));
    PBetween "F" (LFlt (f64_of_bits 4607182418800017408)) (LFlt (f64_of_bits 4611686018427387904));  (* 1.0, 2.0 *)
    PCmp "V" CLte (LInt 3) ].
Example C19_nonvacuous :
  guard 60 sc_nv rows_nv ps_nv = true
  /\ epochs (materialize 60 sc_nv rows_nv ps_nv) = [1; 3].
Proof. vm_compute. split; reflexivity. Qed.
