(** C16 — No request can touch files outside the data root.
    Statement file: the property theorems, each closed by [exact] of a lemma proved in Proofs/.
    (After the fix "AddTimeBucket validates the items of the key" the statement holds for ALL keys; the former
    guard [key_guard], the statement C16_full and its refutation are gone.) *)
From Coq Require Import ZArith List Bool String.
From Coq.Strings Require Import Byte.
Import ListNotations.
Require Import MS.Base.Hex MS.Base.Path MS.Model.Catalog MS.Proofs.Path_facts MS.Proofs.Catalog_facts.

(** every mutating system call (mkdir, create/truncate, pwrite, RemoveAll) made during the run has a
    path lexically inside the root *)
Definition confined (root : list byte) (ops : list op) : Prop :=
  let '(w, _, _) := run root ops in forallb (fun s => within root (sys_path s)) (wtr w) = true.

(** For every absolute root and EVERY sequence of create / write / destroy / query / restart requests with
    ARBITRARY key strings ('..', '.', empty and absolute-looking components, extra or missing components, any
    category part), timeframe verdicts, years and schemas, starting from an empty data root, all mutating
    system calls stay inside the root. *)
Theorem C16_confined : forall root ops, is_rooted root = true -> confined root ops.
Proof. intros root ops Hr. exact (run_confined root Hr ops). Qed.
Print Assumptions C16_confined.

Definition s (x : string) : list byte := bytes_of_string x.
Definition C16_root : list byte := s "/a/b/c/r".

(** the former witnesses: a key whose symbol is ".." (create, write with auto-create, destroy) is rejected and
    nothing at all is touched *)
Example C16_hostile_rejected :
  (let '(w, c, codes) := run C16_root
      [ OpCreate (s "../1Min/OHLCV:Symbol/Timeframe/AttributeGroup") true 2026 [x00];
        OpWrite (s "../1Min/OHLCV") true [2021; 2022]%Z [x00];
        OpWrite (s "A/../../1Min/TICK:X/Y/X/Timeframe/AttributeGroup") true [2023]%Z [x00];
        OpCreate (s "/A/./1Min/OHLCV:S/S/T/T/AttributeGroup") true 2026 [x00];
        OpDestroy (s "../1Min/OHLCV") ] in (wtr w, codes))
  = ([], [1; 1; 1; 1; 1]).
Proof. vm_compute. reflexivity. Qed.

(** Non-vacuity: a run that creates, auto-creates, adds a year and destroys does touch the file system. *)
Definition C16_example : list op :=
  [ OpCreate (s "A/1Min/OHLCV:Symbol/Timeframe/AttributeGroup") true 2026 [x00];
    OpWrite (s "B/1Min/TICK") true [2021; 2022]%Z [x01];
    OpDestroy (s "B/1Min/TICK");
    OpDestroy (s "../whatever") ].
Example C16_nonvacuous :
  is_rooted C16_root = true
  /\ (let '(w, _, codes) := run C16_root C16_example in (List.length (wtr w), codes)) = (23, [0; 0; 0; 1]).
Proof. vm_compute. auto. Qed.
