(** C16 — No request can touch files outside the data root.
    Statement file: the property theorems, each closed by [exact] of a lemma proved in Proofs/. *)
From Coq Require Import ZArith List Bool String.
From Coq.Strings Require Import Byte.
Import ListNotations.
Require Import MS.Base.Hex MS.Base.Path MS.Model.Catalog MS.Proofs.Path_facts MS.Proofs.Catalog_facts.

(** every mutating system call (mkdir, create/truncate, pwrite, RemoveAll) made during the run has a
    path lexically inside the root *)
Definition confined (root : list byte) (ops : list op) : Prop :=
  let '(w, _, _) := run root ops in forallb (fun s => within root (sys_path s)) (wtr w) = true.

(** Guarded statement (what holds of the code at HEAD): for every absolute root and EVERY sequence of
    create / write / destroy / query requests with arbitrary key strings, timeframe verdicts, years and
    schemas, starting from an empty data root — provided the item part of every create and write key
    never climbs above the directory it starts from ([key_guard]: counting "" and "." as 0, ".." as -1
    and any other component as +1, no prefix sums below 0) — all mutating system calls stay inside the
    root.  Keys of destroy and query requests are unrestricted. *)
Theorem C16_guarded : forall root ops,
  is_rooted root = true -> forallb op_guard ops = true -> confined root ops.
Proof. intros root ops Hr Hg. exact (run_confined root Hr ops Hg). Qed.
Print Assumptions C16_guarded.

(** Full statement (the property quantifies over ALL key strings): the same without the guard. *)
Definition C16_full : Prop := forall root ops, is_rooted root = true -> confined root ops.

Definition s (x : string) : list byte := bytes_of_string x.
Definition C16_root : list byte := s "/a/b/c/r".
(** DataService.Create with key "../1Min/OHLCV:Symbol/Timeframe/AttributeGroup": the symbol ".." makes
    AddTimeBucket mkdir /a/b/c/1Min, /a/b/c/1Min/OHLCV, write category_name files into /a/b/c and
    below, and create the year file there *)
Definition C16_witness : list op :=
  [OpCreate (s "../1Min/OHLCV:Symbol/Timeframe/AttributeGroup") true 2026 [x00]].

Theorem C16_refuted : ~ C16_full.
Proof.
  intros H. specialize (H C16_root C16_witness eq_refl). vm_compute in H. discriminate H.
Qed.
Print Assumptions C16_refuted.

(** ... and Destroy of the same key then RemoveAll's outside the root *)
Example C16_witness_destroy :
  let '(w, _, _) := run C16_root (C16_witness ++ [OpDestroy (s "../1Min/OHLCV")]) in
  existsb (fun x => match x with SRmAll p => negb (within C16_root p) | _ => false end) (wtr w) = true.
Proof. vm_compute. reflexivity. Qed.

(** the boolean guard means exactly: walking the items from the root never leaves it *)
Theorem C16_guard_walk : forall root key d,
  is_rooted root = true -> depth_ok (key_items key) 0 = true ->
  d = depth_after (key_items key) 0 ->
  inrootd root d (join2 root (key_item_key key)).
Proof.
  intros root key d Hr Hk ->. apply inrootd_join_items; auto. apply inrootd_root; auto.
Qed.
Print Assumptions C16_guard_walk.

(** Non-vacuity: a run with odd but guarded keys (absolute-looking, ".", an inner ".." that stays
    inside, a write that auto-creates and adds a year, destroys incl. one with a climbing key) meets
    the hypotheses of C16_guarded, succeeds, and does touch the file system (25 system calls).
    The same run is replayed on the real code (corpus/C16/odd_guarded.json). *)
Definition C16_example : list op :=
  [ OpCreate (s "/A/5Min/../1Min/./OHLCV:Symbol/Symbol/Timeframe/Q/Timeframe/AttributeGroup/AttributeGroup") true 2026 [x00];
    OpWrite (s "B/1Min/TICK") true [2021; 2022]%Z [x01];
    OpDestroy (s "B/1Min/TICK");
    OpDestroy (s "../whatever") ].
Example C16_nonvacuous :
  is_rooted C16_root = true /\ forallb op_guard C16_example = true
  /\ (let '(w, _, codes) := run C16_root C16_example in (List.length (wtr w), codes)) = (25, [0; 0; 0; 1]).
Proof. vm_compute. auto. Qed.
