(** C35 — Restart after graceful shutdown preserves query results.
    Statement file: theorems closed by [exact] of lemmas from Proofs/, then Print Assumptions. *)
From Coq Require Import ZArith NArith List Bool.
Import ListNotations.
Require Import MS.Base.Res MS.Model.Wal MS.Model.Replay MS.Proofs.Durable_steps3 MS.Proofs.Durable_props MS.Proofs.Durable_c05.
Local Open Scope Z_scope.

(** For every schedule (any interleaving of requests, flushes, checkpoints, rotations) that ends with the
    shutdown branch of the WAL loop (FlushToWAL, CreateCheckpoint): a restart on the final image succeeds,
    replays nothing ([unchecked] is empty: no variable-length record can be duplicated), deletes the old WAL
    and leaves every primary file identical — so every query returns what it returned before. *)
Theorem C35_shutdown_restart :
  forall (clen : list record -> Z), (forall x, 0 < clen x) ->
  forall owner2 owner tgid0 sched ord tr,
    owner <> 0 -> 0 < tgid0 ->
    run clen 0%N owner tgid0 (sched ++ [SShutdown ord]) = Ok tr ->
    wf_sched clen owner tgid0 (sched ++ [SShutdown ord]) = true ->
    snd (recover clen 1%N owner2 (crash_img tr (length tr))) = StartOk
    /\ i_files (recovered clen 1%N owner2 (crash_img tr (length tr))) = i_files (crash_img tr (length tr))
    /\ unchecked tr (length tr) = []
    /\ map fst (i_wals (recovered clen 1%N owner2 (crash_img tr (length tr)))) = [1%N].
Proof. exact shutdown_restart_identity. Qed.
Print Assumptions C35_shutdown_restart.

(** identical files give identical query results *)
Theorem C35_same_queries : forall im im' bucket, i_files im = i_files im' -> bucket_rows im bucket = bucket_rows im' bucket.
Proof. exact same_files_same_queries. Qed.
Print Assumptions C35_same_queries.
