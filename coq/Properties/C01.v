(** C01 — Acknowledged writes survive a process crash.
    Statement file: theorems closed by [exact] of lemmas from Proofs/, then Print Assumptions. *)
From Coq Require Import ZArith NArith List Bool.
Import ListNotations.
Require Import MS.Base.Res MS.Model.Wal MS.Model.Replay MS.Proofs.Durable_files MS.Proofs.Durable_exec
  MS.Proofs.Durable_recover MS.Proofs.Durable_sem MS.Proofs.Durable_ext MS.Proofs.Durable_steps3 MS.Proofs.Durable_props
  MS.Proofs.Durable_refute MS.Proofs.Durable_ack.
Local Open Scope Z_scope.

(** Guarded statement.  For EVERY schedule of the server, every positive block-length function and EVERY
    prefix [k] of the run's file-mutating system calls that is not inside a continuation-write window:
    the restart succeeds, the old WAL is gone, and in the recovered files
      - every fixed slot holds the value of the LAST committed command that wrote it (a transaction group
        is committed once its records through the MD5 sum are in the log, which precedes the
        acknowledgement: [C01_acknowledged_are_committed]),
      - every record of every committed variable-length command is in its interval. *)
Theorem C01_guarded :
  forall (clen : list record -> Z), (forall x, 0 < clen x) ->
  forall owner2 owner tgid0 sched tr k,
    owner <> 0 -> 0 < tgid0 ->
    run clen 0%N owner tgid0 sched = Ok tr -> wf_sched clen owner tgid0 sched = true ->
    (k <= length tr)%nat -> guard_window tr k = true ->
    snd (recover clen 1%N owner2 (crash_img tr k)) = StartOk
    /\ Recovered (recovered_files clen owner2 tr k) (committed tr k) (unchecked tr k)
    /\ map fst (i_wals (recovered clen 1%N owner2 (crash_img tr k))) = [1%N]
    /\ (guard_newfile tr k = true -> no_pnew (recovered_files clen owner2 tr k)).
Proof. exact recovery_succeeds. Qed.
Print Assumptions C01_guarded.

(** the fields of [Recovered] spelled out *)
Theorem C01_contents : forall fs' all replayed, Recovered fs' all replayed ->
  (forall f off, fx_get fs' f off = lastw (cmds_of all) f off)
  /\ (forall c r, In c (cmds_of all) -> c_kind c = KVar -> In r (c_data c) -> In r (content fs' (c_fid c) (c_off c))).
Proof. exact recovered_contents. Qed.
Print Assumptions C01_contents.

(** In a synchronous-mode schedule (every request is [SWrite]: enqueue, flush, return) the commands of a
    request whose acknowledgement marker precedes the crash point belong to a committed TG. *)
Theorem C01_acknowledged_are_committed :
  forall (clen : list record -> Z) owner tgid0 sched tr k pre bs ord i,
    run clen 0%N owner tgid0 sched = Ok tr -> sync_sched sched = true -> ack_ids_distinct sched ->
    In (SWrite pre bs ord i) sched -> In (EAck i) (firstn k tr) ->
    incl (flat_map write_records bs) (cmds_of (committed tr k)).
Proof. exact acked_are_committed. Qed.
Print Assumptions C01_acknowledged_are_committed.

(** a committed fixed value whose index field is not 0 is returned by the unrestricted query
    (index 0 is the reader's "hole": the daily January-1st class, [C01_index0_hole]) *)
Theorem C01_fixed_rows : forall f ws off i p,
  zlookup off ws = Some (i, p) -> i <> 0 -> exists rows, file_rows f (PF ws) = QRows rows /\ In (f, i, p) rows.
Proof. exact fixed_slot_in_rows. Qed.
Theorem C01_index0_hole : forall f off p, file_rows f (PF [(off, (0, p))]) = QRows [].
Proof. exact index0_is_a_hole. Qed.

(** The property as given (every crash point) is refuted by the continuation-write window. *)
Definition C01_full : Prop :=
  forall (clen : list record -> Z), (forall x, 0 < clen x) ->
  forall owner2 owner tgid0 sched tr k,
    owner <> 0 -> 0 < tgid0 ->
    run clen 0%N owner tgid0 sched = Ok tr -> wf_sched clen owner tgid0 sched = true ->
    (k <= length tr)%nat ->
    snd (recover clen 1%N owner2 (crash_img tr k)) = StartOk
    /\ (forall f off, fx_get (recovered_files clen owner2 tr k) f off = lastw (cmds_of (committed tr k)) f off)
    /\ (forall c r, In c (cmds_of (committed tr k)) -> c_kind c = KVar -> In r (c_data c) ->
                    In r (content (recovered_files clen owner2 tr k) (c_fid c) (c_off c))).
Theorem C01_refuted : ~ C01_full.
Proof. exact C01_full_refuted. Qed.
Print Assumptions C01_refuted.

Example C01_nonvacuous :
  run clen0 0%N 1111 1000 wit_sched = Ok wit_trace /\ wf_sched clen0 1111 1000 wit_sched = true
  /\ length (filter (guard_crash wit_trace) (seq 0 28)) = 26%nat.
Proof. exact wit_hyps. Qed.
