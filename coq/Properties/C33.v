(** C33 — CSV import loads every row or reports an error.
    Statement file: theorems closed by [exact] of lemmas of Proofs/Csv_facts.v, the full statements with
    their refutations, non-vacuity examples. *)
From Coq Require Import String ZArith List Bool Lia.
From Coq.Strings Require Import Byte.
Import ListNotations.
Require Import MS.Base.GoInt MS.Base.Res MS.Base.Hex MS.Base.Bytes MS.Generated.Src_io MS.Model.Csv MS.Proofs.Csv_facts.

(** Guarded statement.  For EVERY float parser, column mapping, chunk size >= 1 and event stream WITHOUT a
    csv read error (any number of records, any cell texts): if the import reports success, the loaded
    dataset is exactly the conversion of ALL records of the file (timestamps and cells parsed),
    independent of the chunking. *)
Theorem C33_guarded : forall pf c evs d,
  1 <= c_chunk c -> no_err evs = true -> load pf c evs = Loaded d -> all_loaded pf c evs d.
Proof. exact load_sound. Qed.
Print Assumptions C33_guarded.

(** ... and the import does not crash when every timestamp parses (with or without csv read errors). *)
Theorem C33_no_crash : forall pf c evs, times_ok c evs = true -> load pf c evs <> Crash.
Proof. exact load_no_crash. Qed.
Print Assumptions C33_no_crash.

(** Completeness: a file without read errors whose every row converts (and whose column types have a
    wire type string) IS loaded, for every chunk size >= 1 — the guarded theorem is not vacuous on any such file. *)
Theorem C33_complete : forall pf c evs d,
  1 <= c_chunk c -> wire_ok c = true -> no_err evs = true -> conv_spec pf c (rows_of evs) = Some d ->
  load pf c evs = Loaded d.
Proof. exact load_complete. Qed.
Print Assumptions C33_complete.

(** Full statement (the property as given: all CSV files, rows with wrong field counts or unparsable
    values at any position, all chunk sizes): the import never crashes, and success means every data
    row was loaded.  Refuted twice. *)
Definition C33_full : Prop := forall pf c evs,
  1 <= c_chunk c -> load pf c evs <> Crash /\ forall d, load pf c evs = Loaded d -> all_loaded pf c evs d.
Definition C33_full_noerr : Prop := forall pf c evs,
  1 <= c_chunk c -> no_err evs = true ->
  load pf c evs <> Crash /\ forall d, load pf c evs = Loaded d -> all_loaded pf c evs d.

Definition nofloat : Z -> list byte -> option (list byte) := fun _ _ => None.
Definition cfg1 : cfg := mkcfg 0 [(ET_INT32, 1)] 10.
Definition b (s : string) : list byte := bytes_of_string s.

(** class csv-read-error-treated-as-eof: the second record is malformed (Read returns an error that is
    not io.EOF); the loop treats it as the end of the input: one of three rows is loaded, success *)
Definition C33_witness : list ev := [ERow [b "1600000000"; b "1"]; EErr; ERow [b "1600000120"; b "3"]].

Theorem C33_refuted : ~ C33_full.
Proof.
  intros H. destruct (H nofloat cfg1 C33_witness) as [_ H2]; [cbn; lia|].
  destruct (H2 _ eq_refl) as [Hne _]. vm_compute in Hne. discriminate Hne.
Qed.
Print Assumptions C33_refuted.

(** class unparsable-timestamp-panic: no read error, but the second timestamp does not parse:
    convertCSVtoCSM returns (nil, nil) and the caller dereferences the nil series *)
Definition C33_witness_time : list ev := [ERow [b "1600000000"; b "1"]; ERow [b "x123"; b "2"]].

Theorem C33_refuted_time : ~ C33_full_noerr.
Proof.
  intros H. destruct (H nofloat cfg1 C33_witness_time) as [H1 _]; [cbn; lia|reflexivity|].
  apply H1. vm_compute. reflexivity.
Qed.
Print Assumptions C33_refuted_time.

(** Non-vacuity: a stream of five records over int32/uint8/bool-free columns in permuted csv order, read in
    chunks of two, satisfies the guards and loads all five rows. *)
Definition cfg2 : cfg := mkcfg 0 [(ET_INT32, 2); (ET_UINT8, 1); (ET_INT64, 3)] 2.
Definition evs2 : list ev :=
  [ERow [b "1600000000"; b "7"; b "-5"; b "9"]; ERow [b "1600000060.5"; b "255"; b "2147483647"; b "-1"];
   ERow [b "1600000120"; b "0"; b "0"; b "0"]; ERow [b "+1600000180"; b "1"; b "+1"; b "1"];
   ERow [b "1600000240.-5"; b "2"; b "-2147483648"; b "2"]].
Example C33_nonvacuous :
  (1 <= c_chunk cfg2) /\ no_err evs2 = true /\ times_ok cfg2 evs2 = true
  /\ exists d, load nofloat cfg2 evs2 = Loaded d /\ length (d_times d) = 5.
Proof. split; [cbn; lia|]. split; [reflexivity|]. split; [vm_compute; reflexivity|]. eexists. split; vm_compute; reflexivity. Qed.
