(** C33 — CSV import loads every row or reports an error.
    Statement file (model of the code AFTER the fixes 85c538e and 4016039 in /repo): theorems closed by
    [exact] of lemmas of Proofs/Csv_facts.v, regression and non-vacuity examples. *)
From Coq Require Import String ZArith List Bool Lia.
From Coq.Strings Require Import Byte.
Import ListNotations.
Require Import MS.Base.GoInt MS.Base.Res MS.Base.Hex MS.Base.Bytes MS.Generated.Src_io MS.Model.Csv MS.Proofs.Csv_facts.

(** The property at full strength.  For EVERY float parser, column mapping, chunk size >= 1 and event
    stream (records and read errors in any positions, any cell texts): the import never crashes, and if it
    reports success then no read error occurred anywhere in the file and the loaded dataset is exactly the
    conversion of ALL records (timestamps and cells parsed), independent of the chunking. *)
Definition C33_full : Prop := forall pf c evs,
  1 <= c_chunk c -> load pf c evs <> Crash /\ forall d, load pf c evs = Loaded d -> all_loaded pf c evs d.

Theorem C33_guarded : forall pf c evs d,
  1 <= c_chunk c -> load pf c evs = Loaded d -> all_loaded pf c evs d.
Proof. exact load_sound. Qed.
Print Assumptions C33_guarded.

Theorem C33_no_crash : forall pf c evs, load pf c evs <> Crash.
Proof. exact load_no_crash. Qed.
Print Assumptions C33_no_crash.

Theorem C33_holds : C33_full.
Proof. intros pf c evs Hc. split; [apply load_no_crash|]. intros d. apply load_sound. exact Hc. Qed.
Print Assumptions C33_holds.

(** A csv read error anywhere in the file is reported as an error. *)
Theorem C33_reports_read_error : forall pf c evs,
  1 <= c_chunk c -> no_err evs = false -> load pf c evs = Error.
Proof. exact load_reports_read_error. Qed.
Print Assumptions C33_reports_read_error.

(** Completeness: a file without read errors whose every row converts (and whose column types have a
    wire type string) IS loaded, for every chunk size >= 1. *)
Theorem C33_complete : forall pf c evs d,
  1 <= c_chunk c -> wire_ok c = true -> no_err evs = true -> conv_spec pf c (rows_of evs) = Some d ->
  load pf c evs = Loaded d.
Proof. exact load_complete. Qed.
Print Assumptions C33_complete.

Definition nofloat : Z -> list byte -> option (list byte) := fun _ _ => None.
Definition cfg1 : cfg := mkcfg 0 [(ET_INT32, 1)] 10.
Definition b (s : string) : list byte := bytes_of_string s.

(** Regression: the witnesses of the two defects fixed in /repo (formerly C33_refuted, C33_refuted_time)
    now report an error. *)
Definition C33_witness : list ev := [ERow [b "1600000000"; b "1"]; EErr; ERow [b "1600000120"; b "3"]].
Example C33_regression_read_error : load nofloat cfg1 C33_witness = Error.
Proof. vm_compute. reflexivity. Qed.

Definition C33_witness_time : list ev := [ERow [b "1600000000"; b "1"]; ERow [b "x123"; b "2"]].
Example C33_regression_time : load nofloat cfg1 C33_witness_time = Error.
Proof. vm_compute. reflexivity. Qed.

(** Non-vacuity: five records over int32/uint8/int64 columns in permuted csv order, read in chunks of two,
    load completely. *)
Definition cfg2 : cfg := mkcfg 0 [(ET_INT32, 2); (ET_UINT8, 1); (ET_INT64, 3)] 2.
Definition evs2 : list ev :=
  [ERow [b "1600000000"; b "7"; b "-5"; b "9"]; ERow [b "1600000060.5"; b "255"; b "2147483647"; b "-1"];
   ERow [b "1600000120"; b "0"; b "0"; b "0"]; ERow [b "+1600000180"; b "1"; b "+1"; b "1"];
   ERow [b "1600000240.-5"; b "2"; b "-2147483648"; b "2"]].
Example C33_nonvacuous :
  (1 <= c_chunk cfg2) /\ exists d, load nofloat cfg2 evs2 = Loaded d /\ length (d_times d) = 5.
Proof. split; [cbn; lia|]. eexists. split; vm_compute; reflexivity. Qed.
