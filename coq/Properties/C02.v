(** C02 — Crash recovery adds no duplicate or phantom data.
    Statement file: theorems closed by [exact] of lemmas from Proofs/, then Print Assumptions. *)
From Coq Require Import ZArith NArith List Bool.
Import ListNotations.
Require Import MS.Base.Res MS.Model.Wal MS.Model.Replay MS.Proofs.Durable_files MS.Proofs.Durable_exec
  MS.Proofs.Durable_recover MS.Proofs.Durable_sem MS.Proofs.Durable_ext MS.Proofs.Durable_steps3 MS.Proofs.Durable_props
  MS.Proofs.Durable_refute MS.Proofs.Durable_ack.
Local Open Scope Z_scope.

(** Guarded statement, for every schedule, block-length function and crash prefix outside a
    continuation-write window.  [Recovered fs' all replayed] says of the recovered files:
      rc_fx      every fixed slot holds EXACTLY the value of the last committed command that wrote it, and
                 nothing if no committed command did: no phantom, and the transaction in flight at the crash
                 is either committed (its checksum record is in the log: fully visible) or not (invisible);
      rc_exact   if no variable-length command had to be replayed ([no_var (cmds_of replayed)]: every variable
                 TG that reached the log is covered by a completed checkpoint) every variable interval
                 holds exactly the committed records, each as often as written;
      rc_present otherwise every committed record is still there (the defect adds copies, never loses). *)
Theorem C02_guarded :
  forall (clen : list record -> Z), (forall x, 0 < clen x) ->
  forall owner2 owner tgid0 sched tr k,
    owner <> 0 -> 0 < tgid0 ->
    run clen 0%N owner tgid0 sched = Ok tr -> wf_sched clen owner tgid0 sched = true ->
    (k <= length tr)%nat -> guard_window tr k = true ->
    snd (recover clen 1%N owner2 (crash_img tr k)) = StartOk
    /\ Recovered (recovered_files clen owner2 tr k) (committed tr k) (unchecked tr k)
    /\ map fst (i_wals (recovered clen 1%N owner2 (crash_img tr k))) = [1%N]
    /\ (guard_newfile tr k = true -> no_pnew (recovered_files clen owner2 tr k)).
Proof. exact recovery_succeeds. Qed.
Print Assumptions C02_guarded.

Theorem C02_exact : forall fs' all replayed, Recovered fs' all replayed ->
  (forall f off, fx_get fs' f off = lastw (cmds_of all) f off)
  /\ (no_var (cmds_of replayed) -> forall f slot, content fs' f slot = ct_after (cmds_of all) [] f slot).
Proof. exact recovered_exact. Qed.
Print Assumptions C02_exact.

(** The property as given: exact variable contents at every crash point (outside the C03 window). *)
Definition C02_full : Prop :=
  forall (clen : list record -> Z), (forall x, 0 < clen x) ->
  forall owner2 owner tgid0 sched tr k,
    owner <> 0 -> 0 < tgid0 ->
    run clen 0%N owner tgid0 sched = Ok tr -> wf_sched clen owner tgid0 sched = true ->
    (k <= length tr)%nat -> guard_window tr k = true ->
    forall f slot, content (recovered_files clen owner2 tr k) f slot = ct_after (cmds_of (committed tr k)) [] f slot.

(** Refuted: two acknowledged one-record requests, crash after the last system call, no checkpoint yet:
    the interval holds four records after recovery. *)
Theorem C02_refuted : ~ C02_full.
Proof. exact C02_full_refuted. Qed.
Print Assumptions C02_refuted.

(** the exact multiplicity the model predicts for the witness (compared with the real code on every run) *)
Theorem C02_witness_multiplicity :
  content (recovered_files clen0 2222 wit_trace 27) 0%N 37168 = [rec_b; rec_b; rec_a; rec_a]
  /\ ct_after (cmds_of (committed wit_trace 27)) [] 0%N 37168 = [rec_b; rec_a].
Proof. exact wit_duplicates. Qed.

Example C02_nonvacuous :
  run clen0 0%N 1111 1000 wit_sched = Ok wit_trace /\ wf_sched clen0 1111 1000 wit_sched = true
  /\ length (filter (guard_crash wit_trace) (seq 0 28)) = 26%nat.
Proof. exact wit_hyps. Qed.
