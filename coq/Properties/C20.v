(** C20 — SQL projection, alias, LIMIT and INSERT INTO behave relationally.
    Statement file: the property theorems, each closed by [exact] of a lemma proved in Proofs/ (witness
    computations by vm_compute), followed by Print Assumptions. *)
From Coq Require Import ZArith List Bool String Sorted.
From Flocq Require Import IEEE754.BinarySingleNaN.
Import ListNotations.
Require Import MS.Base.GoInt MS.Base.Res MS.Base.FGen MS.Base.F32 MS.Base.F64.
Require Import MS.Generated.Src_io MS.Generated.Src_sql MS.Model.Sql MS.Model.SqlSel MS.Proofs.Sql_facts MS.Proofs.SqlSel_facts.
Local Open Scope Z_scope.
Local Open Scope string_scope.

(** SELECT list, aliases and LIMIT.  For EVERY store, WHERE conjunction (inside C19's guard), select list
    (SELECT * or any non-empty list of existing columns, with or without aliases, free of alias collisions)
    and LIMIT clause (absent or 1..10^6), the model of SelectRelation.Materialize succeeds and the series it
    returns shows, in select-list order, exactly the named columns under their aliases, holding the values of
    the first n rows of the filtered result ([spec_q]: names = alias or name; rows = firstn n (spec_select ...)).
    When no row qualifies every returned column is empty (the code then returns an unprojected series). *)
Theorem C20_select : forall tfs sc rows ps s lim,
  guard_q tfs sc rows ps s lim = true ->
  exists t, materialize_q tfs sc rows ps s (lim_int lim) = Ok t
    /\ (spec_rows sc rows ps lim <> [] -> t_view t = spec_q sc rows ps s lim)
    /\ (spec_rows sc rows ps lim = [] -> forall n c, In (n, c) (t_view t) -> c = Some []).
Proof. exact select_spec. Qed.
Print Assumptions C20_select.

(** INSERT INTO t [(cols)] SELECT ...: on the guarded domain (existing target on its own grid, every target
    column present in the result under its name and element type, column list absent or ANY arrangement of
    Epoch and the target's columns) the
    model of InsertIntoStatement.Materialize + WriteCSM leaves the target as [spec_insert]: the by-NAME
    last-writer-wins insertion of the relational SELECT result, each row in the slot of t's timeframe that
    contains its Epoch. *)
Theorem C20_insert : forall tfs sc rows ps s lim ttfs tsc tstore icols t,
  guard_q tfs sc rows ps s lim = true ->
  guard_ins sc s ttfs tsc tstore icols = true ->
  materialize_q tfs sc rows ps s (lim_int lim) = Ok t ->
  insert_into ttfs tsc tstore (match icols with Some l => l | None => epoch_name :: map fst tsc end) t
  = Ok (spec_insert ttfs tsc tstore (spec_q sc rows ps s lim)).
Proof. exact insert_spec. Qed.
Print Assumptions C20_insert.

(** ... so that querying t afterwards returns them, truncated to t's timeframe: the target stays a sorted slot
    map, and slot e' holds the values of the LAST selected row whose Epoch falls into it (else its old values) *)
Theorem C20_insert_lookup : forall ttfs tsc tstore V e',
  sorted_store tstore ->
  sorted_store (spec_insert ttfs tsc tstore V)
  /\ find_row e' (spec_insert ttfs tsc tstore V)
     = last_in_slot ttfs e' (tbl_rows (List.length (view_col V epoch_name)) (view_col V epoch_name)
                                     (map (view_col V) (map fst tsc))) (find_row e' tstore).
Proof. exact insert_lookup. Qed.
Print Assumptions C20_insert_lookup.

(** the rows written are the selected rows, column by column *)
Theorem C20_insert_rows : forall (R : list row) (fs : list (row -> cell)),
  tbl_rows (List.length R) (map (fun r => VI (r_epoch r)) R) (map (fun f => map f R) fs)
  = map (fun r => (r_epoch r, map (fun f => f r) fs)) R.
Proof. exact tbl_rows_map. Qed.

Theorem C20_slot_on_grid : forall ttfs e, 0 < ttfs ->
  trunc_tf ttfs e mod ttfs = 0 /\ trunc_tf ttfs e <= e < trunc_tf ttfs e + ttfs.
Proof. exact trunc_tf_aligned. Qed.

(** Full statement (the property as given: ALL select lists with and without aliases, ALL LIMIT values):
    the same without the class guards. *)
Definition C20_full_select : Prop := forall tfs sc rows ps s lim,
  guard tfs sc rows ps = true -> fold_distinct (epoch_name :: map fst sc) = true -> sel_wf sc s = true ->
  exists t, materialize_q tfs sc rows ps s (lim_int lim) = Ok t
    /\ (spec_rows sc rows ps lim <> [] -> t_view t = spec_q sc rows ps s lim)
    /\ (spec_rows sc rows ps lim = [] -> forall n c, In (n, c) (t_view t) -> c = Some []).

(** ---- witnesses: a 1Min bucket of four bars, V = 0..3, W = 10, 11, 12, 13 ---- *)
Definition base : Z := 1614592800.
Definition sc2 : schema := [("V", ET_INT32); ("W", ET_INT32)].
Definition rows2 : list row := map (fun k => mkrow (base + 60 * k) [VI k; VI (10 + k)]) [0; 1; 2; 3].
Definition ints (v : view) : list (string * list Z) :=
  map (fun nc => (fst nc, match snd nc with Some c => map (fun x => match x with VI z => z | _ => -1 end) c | None => [-99] end)) v.
Definition res_view (r : Res tbl) : list (string * list Z) := match r with Ok t => ints (t_view t) | _ => [("error", [])] end.

(** 1. limit-zero: SELECT V ... LIMIT 0 returns every row *)
Theorem C20_refuted_limit_zero :
  guard 60 sc2 rows2 [] = true /\ limit_zero (Some 0%nat) = true
  /\ res_view (materialize_q 60 sc2 rows2 [] (SelList [("V", None)]) (lim_int (Some 0%nat))) = [("V", [0; 1; 2; 3])]
  /\ ints (spec_q sc2 rows2 [] (SelList [("V", None)]) (Some 0%nat)) = [("V", [])].
Proof. vm_compute. repeat split; reflexivity. Qed.

(** 2. alias-collision: SELECT V AS W, W returns ONE column W holding V's values *)
Definition sel_collide : sel := SelList [("V", Some "W"); ("W", None)].
Theorem C20_refuted_alias_collision :
  guard 60 sc2 rows2 [] = true /\ sel_wf sc2 sel_collide = true /\ alias_collision sel_collide = true
  /\ res_view (materialize_q 60 sc2 rows2 [] sel_collide 0) = [("W", [0; 1; 2; 3])]
  /\ ints (spec_q sc2 rows2 [] sel_collide None) = [("W", [0; 1; 2; 3]); ("W", [10; 11; 12; 13])].
Proof. vm_compute. repeat split; reflexivity. Qed.

(** ... and SELECT V AS a, V AS b fails: the second Rename no longer finds V *)
Theorem C20_refuted_alias_twice :
  alias_collision (SelList [("V", Some "a"); ("V", Some "b")]) = true
  /\ materialize_q 60 sc2 rows2 [] (SelList [("V", Some "a"); ("V", Some "b")]) 0 = Rejected.
Proof. vm_compute. split; reflexivity. Qed.

(** 3. (fixed in /repo by commit 0d39b4d, formerly the finding insert-column-list-reordered)
    INSERT INTO t (Epoch, W, V) SELECT * now stores V's values in V and W's in W: rows are laid out in the
    bucket's column order, columns matched by name. *)
Definition stored (r : Res (list row)) : list (Z * list Z) :=
  match r with Ok l => map (fun x => ((r_epoch x - base) / 60, map (fun c => match c with VI z => z | _ => -1 end) (r_vals x))) l | _ => [(-1, [])] end.
Example C20_insert_reordered_list :
  guard_q 60 sc2 rows2 [] SelAll None = true /\ guard_ins sc2 SelAll 60 sc2 [] (Some ["Epoch"; "W"; "V"]) = true
  /\ stored (do t <- materialize_q 60 sc2 rows2 [] SelAll 0; insert_into 60 sc2 [] ["Epoch"; "W"; "V"] t)
     = [(0, [0; 10]); (1, [1; 11]); (2, [2; 12]); (3, [3; 13])].
Proof. vm_compute. repeat split; reflexivity. Qed.

Theorem C20_refuted_select : ~ C20_full_select.
Proof.
  intros H.
  assert (G1 : guard 60 sc2 rows2 [] = true) by (vm_compute; reflexivity).
  assert (G2 : fold_distinct (epoch_name :: map fst sc2) = true) by (vm_compute; reflexivity).
  assert (G3 : sel_wf sc2 sel_collide = true) by (vm_compute; reflexivity).
  destruct (H 60 sc2 rows2 [] sel_collide None G1 G2 G3) as (t & E & Hv & _).
  vm_compute in E. inversion E; subst t. clear E.
  assert (Hne : spec_rows sc2 rows2 [] None <> []) by (vm_compute; discriminate).
  specialize (Hv Hne). apply (f_equal ints) in Hv. vm_compute in Hv. discriminate Hv.
Qed.
Print Assumptions C20_refuted_select.

(** Non-vacuity: a select list with aliases in another order than the bucket's columns, a WHERE, a LIMIT that
    cuts, and an INSERT into a coarser (5Min) bucket with an existing row meet both guards. *)
Definition sel_nv : sel := SelList [("Epoch", None); ("W", Some "px"); ("V", None)].
Definition ps_nv : list pred := [PCmp "V" CGte (LInt 1)].
Definition tsc_nv : schema := [("V", ET_INT32); ("px", ET_INT32)].
Definition tstore_nv : list row := [mkrow (base - 300) [VI 7; VI 70]].
Example C20_nonvacuous :
  guard_q 60 sc2 rows2 ps_nv sel_nv (Some 2%nat) = true
  /\ guard_ins sc2 sel_nv 300 tsc_nv tstore_nv None = true
  /\ res_view (materialize_q 60 sc2 rows2 ps_nv sel_nv 2) = [("Epoch", [base + 60; base + 120]); ("px", [11; 12]); ("V", [1; 2])]
  /\ stored (do t <- materialize_q 60 sc2 rows2 ps_nv sel_nv 2; insert_into 300 tsc_nv tstore_nv (epoch_name :: map fst tsc_nv) t)
     = [(-5, [7; 70]); (0, [2; 12])].
Proof. vm_compute. repeat split; reflexivity. Qed.
