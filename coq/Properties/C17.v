(** C17 — Catalog stays consistent with disk (sequential half; the concurrent half is in
    Properties/C17conc.v).  Statement file: theorems closed by lemmas of Proofs/. *)
From Coq Require Import ZArith List Bool String.
From Coq.Strings Require Import Byte.
Import ListNotations.
Require Import MS.Base.Hex MS.Base.Path MS.Model.Catalog MS.Proofs.Catalog_seq MS.Proofs.Catalog_seq_K1 MS.Proofs.Catalog_seq_K2 MS.Proofs.Catalog_seq_K3.

(** what "consistent" means after a history [ops] from an empty data root:
    - the in-memory catalog (tree AND directMap) is exactly what catalog.NewDirectory(root) builds from the
      disk now, so a restart lists and serves the same;
    - ListTimeBucketKeyNames = the buckets of the specification state, and the (bucket, year) pairs of the
      catalog = those of the specification state [fold_left spec_step ops sp0]. *)
Definition consistent (K : keyspace) (ops : list op) : Prop :=
  let sp := fold_left (spec_step K) ops (sp0 K) in
  let '(w, c, _) := run (ks_root K) ops in
  let '(n, dm, _) := new_directory (mkW (wfs w) []) (ks_root K) in
  (croot c = n /\ cdm c = dm)
  /\ (forall k, In k (map tbk_string (list_tbk c)) <-> In k (spec_buckets K sp))
  /\ (forall k y, In (k, y) (bucket_years 8 [] (croot c)) <-> In (k, y) (spec_years K sp)).

(** Sequential theorem, key space K1 = {A/1Min/G, A/5Min/G, B/1Min/G} x years {2021, 2022} x two schemas:
    for EVERY finite sequence of the 41 requests of the alphabet - create (DataService.Create), write to one
    or two years incl. auto-create and new-year files (WriteCSM), destroy, query, restart; recreation with
    the other schema included - the catalog is consistent.  Induction over the sequence; the step is the
    closure of an explicit table of 730 states, checked by vm_compute (bound = the key space). *)
Theorem C17_seq_K1 : forall ops, Forall (fun o => In o (alphabet K1)) ops -> consistent K1 ops.
Proof. exact (run_consistent K1 tab1 K1_closure K1_init K1_scan K1_listing). Qed.
Print Assumptions C17_seq_K1.

(** The same for K2 = {A/1Min/G, A/1Min/H, B/1Min/G} (two attribute groups under one timeframe). *)
Theorem C17_seq_K2 : forall ops, Forall (fun o => In o (alphabet K2)) ops -> consistent K2 ops.
Proof. exact (run_consistent K2 tab2 K2_closure K2_init K2_scan K2_listing). Qed.
Print Assumptions C17_seq_K2.

(** The same for K3 = {A/1Min/G, A/1Min/GH, AB/1Min/G}: names that are string prefixes of one another at the same
    level (the path index is keyed by path strings). *)
Theorem C17_seq_K3 : forall ops, Forall (fun o => In o (alphabet K3)) ops -> consistent K3 ops.
Proof. exact (run_consistent K3 tab3 K3_closure K3_init K3_scan K3_listing). Qed.
Print Assumptions C17_seq_K3.

(** Non-vacuity: a history that creates, adds a year, destroys, recreates with the other schema and restarts
    is over K1's alphabet; it ends with two buckets and three year files. *)
Definition C17_example : list op :=
  [ OpCreate (sb "A/1Min/G:Symbol/Timeframe/AttributeGroup") true 2021 [x00];
    OpWrite (sb "A/1Min/G") true [2021; 2022]%Z [x00];
    OpWrite (sb "B/1Min/G") true [2022]%Z [x01];
    OpDestroy (sb "A/1Min/G");
    OpCreate (sb "A/1Min/G:Symbol/Timeframe/AttributeGroup") true 2022 [x01];
    OpWrite (sb "A/1Min/G") true [2022; 2021]%Z [x01];
    OpRestart;
    OpWrite (sb "A/1Min/G") true [2021]%Z [x00] ].
Example C17_nonvacuous :
  forallb (fun o => existsb (fun a => match o, a with
                                      | OpCreate k1 _ y1 t1, OpCreate k2 _ y2 t2 => bytes_eqb k1 k2 && Z.eqb y1 y2 && bytes_eqb t1 t2
                                      | OpWrite k1 _ l1 t1, OpWrite k2 _ l2 t2 => bytes_eqb k1 k2 && list_eqb Z.eqb l1 l2 && bytes_eqb t1 t2
                                      | OpDestroy k1, OpDestroy k2 => bytes_eqb k1 k2
                                      | OpRestart, OpRestart => true
                                      | _, _ => false end) (alphabet K1)) C17_example = true
  /\ (let '(w, c, codes) := run (ks_root K1) C17_example in
      (map tbk_string (list_tbk c), List.length (bucket_years 8 [] (croot c)), codes))
     = ([sb "A/1Min/G"; sb "B/1Min/G"], 3%nat, [0; 0; 0; 0; 0; 0; 0; 1]%nat).
Proof. vm_compute. split; reflexivity. Qed.

(** Regression of the former finding reserved-name-metadata-db (fixed: AddTimeBucket rejects the item name that
    catalog.load skips): a create or auto-creating write of "metadata.db/1Min/G" is rejected, touches nothing, and the
    running catalog lists what a restart lists. *)
Example C17_metadata_db_rejected :
  let '(w, c, codes) := run (sb "/a/b/c/r")
      [ OpCreate (sb "metadata.db/1Min/G" ++ s_default_cat) true 2021 [x00];
        OpWrite (sb "A/metadata.db/G") true [2021]%Z [x00];
        OpCreate (sb "A/1Min/G" ++ s_default_cat) true 2021 [x00] ] in
  let '(n, dm, _) := new_directory (mkW (wfs w) []) (sb "/a/b/c/r") in
  (codes, map tbk_string (list_tbk c), map tbk_string (list_tbk (mkCat n dm)))
  = ([1; 1; 0]%nat, [sb "A/1Min/G"], [sb "A/1Min/G"]).
Proof. vm_compute. reflexivity. Qed.

Definition plain_component (c : list byte) : bool :=
  negb (is_nil c) && negb (is_dot c) && negb (is_dotdot c) && negb (existsb (Byte.eqb slash) c) && negb (existsb (Byte.eqb colon) c).

(** The general statement (all bucket names, years and schemas) is not proved symbolically; it is kept here as a
    definition.  See notes/C17.md. *)
Definition ordinary_key (k : list byte) : bool :=
  match split_on slash k with
  | [a; b; c] => forallb (fun x => plain_component x && negb (bytes_eqb x s_metadata_db) && negb (bytes_eqb x s_category_name)) [a; b; c]
  | _ => false
  end.
Definition C17_seq_general : Prop :=
  forall (K : keyspace) ops, is_rooted (ks_root K) = true ->
    forallb ordinary_key (ks_keys K) = true -> forallb (fun y => (1 <=? y)%Z && (y <=? 9999)%Z) (ks_years K) = true ->
    Forall (fun o => In o (alphabet K)) ops -> consistent K ops.
