(** C07 — A write returns only after it is durable and visible.
    Statement file: the property theorems, each closed by [exact] of a lemma of Proofs/WalLoop_facts.v
    (or by evaluation of a concrete schedule), followed by Print Assumptions.

    The statements quantify over ALL schedules of the LTS Model/WalLoop.v: any number of writers with
    any number of commands each ([ks0 : list nat]), any channel capacities, any finite label
    sequence the LTS accepts.  They are claims about the LTS; that Go's scheduler, channels and memory
    behave as the LTS assumes is the trusted part (DESIGN §10: partial).

    History: at the original HEAD RequestFlush returned without waiting when a flush token was already
    queued (F10); the full statement was refuted by a 2-writer schedule.  /repo now carries the fix
    (known_findings.txt, `fixed:` line), the model follows the fixed code (no RdLen step any more) and the
    full statement is a theorem.  The old witness is kept as a regression (C07_old_witness_blocks and
    corpus/C07/). *)
From Coq Require Import List Arith Bool NArith.
Import ListNotations.
Require Import MS.Model.WalLoop MS.Proofs.WalLoop_facts.

(** Full statement.  The property quantifies over "all interleavings of concurrent write requests with
    the background WAL writer: its timer flushes, checkpoints and queued flush requests"; in the LTS these
    are the [steady] schedules (no writer reads haveWALWriter = false, i.e. the background writer
    exists for every request).  For every such schedule, every reachable state and every writer: if its
    WriteCSM has returned, all its commands are fsynced in the WAL and written to the primary files. *)
Theorem C07_full : forall ks0 cw cf ls s w,
  forallb steady ls = true ->
  run_labels (init ks0 cw cf) ls = Some s -> returned s w = true -> flushed s w = true.
Proof. exact returned_flushed. Qed.
Print Assumptions C07_full.

(** the same, stated on the acknowledgement (kept: it is the invariant's own clause) *)
Theorem C07_acked_flushed : forall ks0 cw cf ls s w,
  forallb steady ls = true -> run_labels (init ks0 cw cf) ls = Some s ->
  nth_error (ws s) w = Some (WRet RAcked) -> flushed s w = true.
Proof. exact acked_flushed. Qed.
Print Assumptions C07_acked_flushed.

(** "any query that starts after the return sees it": flushed is stable under every further step. *)
Theorem C07_flushed_stable : forall ls s s' w,
  run_labels s ls = Some s' -> flushed s w = true -> flushed s' w = true.
Proof. exact flushed_stable. Qed.
Print Assumptions C07_flushed_stable.

(** Regression of F10: the schedule that refuted the statement before the fix — W0 queues its token;
    before the loop has received it W1 enqueues and asks for a flush — now leaves W1 BLOCKED on its own
    token; it returns only after a flush that started after its token was received. *)
Definition C07_old_witness : list label :=
  [LStart; Enq 0; RdHave 0 true; SendTok 0; Enq 1; RdHave 1 true; SendTok 1].
Example C07_old_witness_blocks :
  exists s, run_labels (init [1; 1] 1000000%N 1000000%N) C07_old_witness = Some s
            /\ returned s 1 = false /\ nth_error (ws s) 1 = Some WWait /\ fch s = [0; 1].
Proof. eexists. split; [vm_compute; reflexivity|]. vm_compute. auto. Qed.

(** Outside the property's quantifier (a request that finds no background writer): when a writer reads
    haveWALWriter = false, FlushToWAL runs in the writer's goroutine.  Since /repo 39160a5 such flushes take
    turns among writers (wf.syncFlushMu; C07_inline_serialised below: the interleaving of two inline flushes that
    used to lose a write is no longer a schedule), but the loop goroutine's flushes do not take that mutex: in the
    window where the shutdown branch has cleared the flag and is draining, a writer's inline flush finds the
    channel empty and returns while the loop has not written the WAL yet.  Recorded as a remark
    (notes/C07.md), not as a finding of C07: the property presupposes the background writer. *)
Definition C07_inline_witness : list label :=
  [LStart; Enq 0; EnvShut; LShut; LFl; LFl; RdHave 0 false; InlFl 0].

Theorem C07_steady_needed : ~ (forall ks0 cw cf ls s w,
  run_labels (init ks0 cw cf) ls = Some s ->
  returned s w = true -> flushed s w = true).
Proof.
  intros H.
  destruct (run_labels (init [1] 1000000%N 1000000%N) C07_inline_witness) as [s|] eqn:E; [|vm_compute in E; discriminate].
  specialize (H [1] 1000000%N 1000000%N C07_inline_witness s 0 E).
  vm_compute in E. inversion E; subst; clear E. vm_compute in H. specialize (H eq_refl). discriminate H.
Qed.
Print Assumptions C07_steady_needed.

Example C07_inline_serialised :
  run_labels (init [1; 1] 10%N 10%N) [Enq 0; Enq 1; RdHave 0 false; RdHave 1 false; InlFl 0; InlFl 0; InlFl 0; InlFl 1] = None
  /\ exists s, run_labels (init [1; 1] 10%N 10%N)
                 [Enq 0; Enq 1; RdHave 0 false; RdHave 1 false; InlFl 0; InlFl 0; InlFl 0; InlFl 0; InlFl 0; InlFl 1] = Some s
               /\ flushed s 0 = true /\ flushed s 1 = true.
Proof. split; [vm_compute; reflexivity|]. eexists. split; [vm_compute; reflexivity|]. vm_compute. auto. Qed.

(** Non-vacuity: a steady schedule in which two writers (2 and 1 commands) both return, the second one's
    token being answered by a flush that started while it waited. *)
Definition C07_good_schedule : list label :=
  [LStart; Enq 0; Enq 0; RdHave 0 true; SendTok 0; LRecv; LFl; Enq 1; LFl; LFl; LFl;
   RdHave 1 true; SendTok 1; LFl; LAckL; LRecv; LFl; LFl; LFl; LFl; LAckL].

Example C07_nonvacuous :
  forallb steady C07_good_schedule = true /\
  exists s, run_labels (init [2; 1] 10%N 10%N) C07_good_schedule = Some s
            /\ returned s 0 = true /\ returned s 1 = true /\ flushed s 0 = true /\ flushed s 1 = true.
Proof. split; [reflexivity|]. eexists. split; [vm_compute; reflexivity|]. vm_compute. auto. Qed.
