(** C07 — A write returns only after it is durable and visible.
    Statement file: the property theorems, each closed by [exact] of a lemma of Proofs/WalLoop_facts.v
    (or by evaluation of a concrete schedule), followed by Print Assumptions.

    The statements quantify over ALL schedules of the LTS Model/WalLoop.v: any number of writers with
    any number of commands each ([ks0 : list nat]), any channel capacities, any finite label
    sequence the LTS accepts.  They are claims about the LTS; that Go's scheduler, channels and memory
    behave as the LTS assumes is the trusted part (DESIGN §10: partial). *)
From Coq Require Import List Arith Bool NArith.
Import ListNotations.
Require Import MS.Model.WalLoop MS.Proofs.WalLoop_facts.

(** Full statement: in every reachable state every writer whose WriteCSM returned has all its commands
    fsynced in the WAL and written to the primary files. *)
Definition C07_full : Prop := forall ks0 cw cf ls s w,
  run_labels (init ks0 cw cf) ls = Some s -> returned s w = true -> flushed s w = true.

(** The 2-writer schedule of DESIGN §6 C07 (wal.go:795-797): W0 queues its token; before the loop has
    received it W1 enqueues, sees len(flushChannel) = 1 and returns. *)
Definition C07_witness : list label :=
  [LStart; Enq 0; RdHave 0 true; RdLen 0 false; SendTok 0; Enq 1; RdHave 1 true; RdLen 1 true].

Theorem C07_refuted : ~ C07_full.
Proof.
  intros H.
  destruct (run_labels (init [1; 1] 1000000%N 1000000%N) C07_witness) as [s|] eqn:E; [|vm_compute in E; discriminate].
  specialize (H [1; 1] 1000000%N 1000000%N C07_witness s 1 E).
  vm_compute in E. inversion E; subst; clear E. vm_compute in H. specialize (H eq_refl). discriminate H.
Qed.
Print Assumptions C07_refuted.

(** What holds of the code at HEAD (guard: the writer went through its own token): in every steady
    schedule — any interleaving of any number of writers with the loop's token arm, ticker flushes,
    checkpoints and shutdown, early returns of OTHER writers included — a writer that was acknowledged
    is durable and visible. *)
Theorem C07_acked_flushed : forall ks0 cw cf ls s w,
  forallb steady ls = true -> run_labels (init ks0 cw cf) ls = Some s ->
  nth_error (ws s) w = Some (WRet RAcked) -> flushed s w = true.
Proof. exact acked_flushed. Qed.
Print Assumptions C07_acked_flushed.

(** Guarded statement (guard = no label of class [early], i.e. the schedule never takes the
    flush-token-queued return; this is the system with wal.go:795-797 removed): every returned
    writer is durable and visible. *)
Theorem C07_guarded : forall ks0 cw cf ls s w,
  forallb steady ls = true -> forallb no_early ls = true ->
  run_labels (init ks0 cw cf) ls = Some s ->
  returned s w = true -> flushed s w = true.
Proof. exact no_early_all_flushed. Qed.
Print Assumptions C07_guarded.

(** "any query that starts after the return sees it": flushed is stable under every further step. *)
Theorem C07_flushed_stable : forall ls s s' w,
  run_labels s ls = Some s' -> flushed s w = true -> flushed s' w = true.
Proof. exact flushed_stable. Qed.
Print Assumptions C07_flushed_stable.

(** The [steady] guard is necessary: when a writer reads haveWALWriter = false (no background writer,
    or the loop's shutdown branch has just cleared it) FlushToWAL runs in the writer's goroutine, and
    two such calls interleave: W0 drains both commands, W1 finds the channel empty and returns while
    W0 has not written the WAL yet.  No early-return label occurs in this schedule. *)
Definition C07_inline_witness : list label :=
  [Enq 0; Enq 1; RdHave 0 false; RdHave 1 false; InlFl 0; InlFl 0; InlFl 0; InlFl 1].

Theorem C07_steady_needed : ~ (forall ks0 cw cf ls s w,
  forallb no_early ls = true -> run_labels (init ks0 cw cf) ls = Some s ->
  returned s w = true -> flushed s w = true).
Proof.
  intros H.
  destruct (run_labels (init [1; 1] 1000000%N 1000000%N) C07_inline_witness) as [s|] eqn:E; [|vm_compute in E; discriminate].
  specialize (H [1; 1] 1000000%N 1000000%N C07_inline_witness s 1 eq_refl E).
  vm_compute in E. inversion E; subst; clear E. vm_compute in H. specialize (H eq_refl). discriminate H.
Qed.
Print Assumptions C07_steady_needed.

(** Non-vacuity: a steady schedule without early return in which two writers (2 and 1 commands) are
    both acknowledged, the second one's token being answered by a flush that started while it waited;
    and the HEAD theorem's hypothesis is met by a schedule that contains an early return of another
    writer. *)
Definition C07_good_schedule : list label :=
  [LStart; Enq 0; Enq 0; RdHave 0 true; RdLen 0 false; SendTok 0; LRecv; LFl; Enq 1; LFl; LFl; LFl;
   RdHave 1 true; RdLen 1 false; SendTok 1; LFl; LAckL; LRecv; LFl; LFl; LFl; LFl; LAckL].

Example C07_nonvacuous :
  forallb steady C07_good_schedule = true /\ forallb no_early C07_good_schedule = true /\
  exists s, run_labels (init [2; 1] 10%N 10%N) C07_good_schedule = Some s
            /\ returned s 0 = true /\ returned s 1 = true /\ flushed s 0 = true /\ flushed s 1 = true.
Proof. split; [reflexivity|]. split; [reflexivity|]. eexists. split; [vm_compute; reflexivity|]. vm_compute. auto. Qed.

Definition C07_mixed_schedule : list label :=
  C07_witness ++ [LRecv; LFl; LFl; LFl; LFl; LFl; LAckL].

Example C07_nonvacuous_head :
  forallb steady C07_mixed_schedule = true /\
  exists s, run_labels (init [1; 1] 10%N 10%N) C07_mixed_schedule = Some s
            /\ nth_error (ws s) 0 = Some (WRet RAcked) /\ nth_error (ws s) 1 = Some (WRet REarly)
            /\ flushed s 0 = true.
Proof. split; [reflexivity|]. eexists. split; [vm_compute; reflexivity|]. vm_compute. auto. Qed.
