(** C11 — Time-range queries return exactly the rows in range.
    Statement file: the property theorems, each closed by [exact] of a lemma proved in Proofs/ (the
    refutations by evaluating a concrete witness), followed by Print Assumptions.

    The model is Model/RangeRead.v (ExecuteQuery -> Parse -> NewIOPlan -> Reader.Read over a file state)
    with Model/Trim.v (trimResultsToRange exactly as written) and Model/QTime.v (Go time arithmetic, UTC).
    Bounds are (unix seconds, nanoseconds) pairs; "in range" is [in_range_var] / [in_range_fixed] of
    Model/RangeSpec.v, literally the two clauses of the property statement. *)
From Coq Require Import ZArith List Bool.
From Coq.Strings Require Import Byte.
Import ListNotations.
Require Import MS.Base.GoInt MS.Base.Res MS.Base.Hex MS.Base.Bytes MS.Generated.Src_query
               MS.Model.QTime MS.Model.Trim MS.Model.RangeRead MS.Model.RangeSpec
               MS.Proofs.Trim_facts MS.Proofs.RangeRead_facts.
Local Open Scope Z_scope.

(** Guarded statement (what holds of the code at HEAD).  For EVERY well-formed file state [b] of a
    bucket (any of the 10 queryable timeframes, fixed or variable records, any number of year files in
    years 1..9999, any occupied slots, any records) and ALL bounds (s, e) at nanosecond precision inside
    years 1..9999 — inside an interval, on its edges, across years, empty or inverted — the query
    returns exactly the rows of the unrestricted result that are in range, in the same order.
    (Finding F11, class no-candidate-le-end, is FIXED in /repo: the statement no longer carries that
    guard.  What is left of [guard_C11] for variable-length buckets: the second-stage buffer must not
    panic — C09's F4 — and fewer than 2^31 candidate rows.) *)
Theorem C11_range : forall b s e,
  in_domain_C11 b s e = true ->
  exec_query b (q_go s) (q_go e) = Ok (spec_C11 b s e).
Proof. exact exec_query_range. Qed.
Print Assumptions C11_range.

(** the two record types separately, on rows *)
Theorem C11_fixed : forall b s e,
  wf_bucket b = true -> b_var b = false -> sane_time s = true -> sane_time e = true ->
  read_fixed_rows b (q_go s) (q_go e) = filter (in_range_fixed (b_tf b) s e) (fixed_rows_all b).
Proof. exact read_fixed_filter. Qed.
Print Assumptions C11_fixed.

Theorem C11_variable : forall b s e,
  wf_bucket b = true -> b_var b = true -> sane_time s = true -> sane_time e = true ->
  guard_C11 b s e = true ->
  read_var b (q_go s) (q_go e) = Ok (enc_rows (filter (in_range_var s e) (var_rows_all b))).
Proof. exact read_var_filter. Qed.
Print Assumptions C11_variable.

(** a range containing every stored row gives the unrestricted result *)
Theorem C11_whole : forall b s e,
  in_domain_C11 b s e = true ->
  (if b_var b then forallb (in_range_var s e) (var_rows_all b)
   else forallb (in_range_fixed (b_tf b) s e) (fixed_rows_all b)) = true ->
  exec_query b (q_go s) (q_go e) =
  Ok (if b_var b then enc_rows (var_rows_all b) else concat (map enc_frow (fixed_rows_all b))).
Proof. exact exec_query_whole. Qed.
Print Assumptions C11_whole.

(** the selection of NewIOPlan on slots: a well-placed slot is scanned iff its interval start lies
    between the start of the interval containing [s] and [e] *)
Theorem C11_plan : forall tf s e y pos,
  tf_ok tf -> sane_time s = true -> sane_time e = true -> 1 <= y <= 9999 -> pos_ok tf y pos = true ->
  selb tf s e y pos = (istart_ns tf s <=? slot_start_ns tf y pos) && (slot_start_ns tf y pos <=? q_ns e).
Proof. exact selb_range. Qed.
Print Assumptions C11_plan.

(** trimResultsToRange on any buffer of whole rows sorted by time, for ALL Go times s, e: the range
    filter, without any guard (the fix of F11) *)
Theorem C11_trim : forall plen s e rows,
  Forall (wf_row plen) rows -> sorted_rows rows = true ->
  trim_range s e (plen + 4) (enc_rows rows) = enc_rows (filter (in_range_row s e) rows).
Proof. exact trim_range_filter. Qed.
Print Assumptions C11_trim.

(** the former refutation witnesses are regression examples now: a range that ends inside an interval
    before its first record returns nothing *)
Definition C11_witness : bucket :=
  mkBk 60000000000 true 24 8
       [ mkYF 2020 [ mkSlot 1441 1441 [] 14 [ mkRow 1577923230 0 [x2a; x00; x00; x00] ] ] ].
Example C11_former_witness :
  exec_query C11_witness (q_go (1577923200, 0)) (q_go (1577923210, 0)) = Ok []
  /\ trim_range (go_unix 0 0) (go_unix 5 0) 4 (enc_rows [mkRow 10 0 []]) = [].
Proof. split; vm_compute; reflexivity. Qed.

(* ------------------------------------------------------------------------------------------ *)
(** Non-vacuity: concrete non-trivial inputs meet the hypotheses. *)

(** a variable bucket over two years with several records per interval, a range across the year
    boundary that cuts inside intervals on both sides *)
Definition ex_var : bucket :=
  mkBk 60000000000 true 24 8
       [ mkYF 2019 [ mkSlot 525600 525600 [] 20
                       [ mkRow 1577836740 5 [x01; x00; x00; x00]; mkRow 1577836799 999999999 [x02; x00; x00; x00] ] ];
         mkYF 2020 [ mkSlot 1 1 [] 20
                       [ mkRow 1577836800 0 [x03; x00; x00; x00]; mkRow 1577836830 7 [x04; x00; x00; x00] ];
                     mkSlot 3 3 [] 14 [ mkRow 1577836950 1 [x05; x00; x00; x00] ] ] ].

Example C11_nonvacuous_var :
  in_domain_C11 ex_var (1577836750, 0) (1577836830, 7) = true
  /\ length (filter (in_range_var (1577836750, 0) (1577836830, 7)) (var_rows_all ex_var)) = 3%nat.
Proof. split; vm_compute; reflexivity. Qed.

(** a fixed 1D bucket over a leap year and the next, range inside days on both ends *)
Definition ex_fixed : bucket :=
  mkBk 86400000000000 false 16 0
       [ mkYF 2020 [ mkSlot 59 59 (repeat x07 8) 0 []; mkSlot 365 365 (repeat x08 8) 0 [] ];
         mkYF 2021 [ mkSlot 1 1 (repeat x09 8) 0 []; mkSlot 40 40 (repeat x0a 8) 0 [] ] ].

Example C11_nonvacuous_fixed :
  in_domain_C11 ex_fixed (1609400000, 5) (1609600000, 0) = true
  /\ length (filter (in_range_fixed 86400000000000 (1609400000, 5) (1609600000, 0)) (fixed_rows_all ex_fixed)) = 2%nat.
Proof. split; vm_compute; reflexivity. Qed.

Example C11_trim_nonvacuous :
  let rows := [mkRow 10 0 [x01]; mkRow 10 5 [x02]; mkRow 12 0 [x03]] in
  Forall (wf_row 1) rows /\ sorted_rows rows = true.
Proof.
  cbv zeta. split; [|vm_compute; reflexivity].
  repeat constructor; unfold in_ity; vm_compute; intuition discriminate.
Qed.

(** The query API's default upper bound time.Unix(math.MaxInt64, 0) wraps to a negative internal second
    (Go orders it BEFORE every stored row); Query.SetEnd now replaces such a bound by MaxTime, so the
    default range returns every row because every row is <= MaxTime — no longer through the F11 quirk. *)
Example C11_api_default :
  exec_query ex_var (go_unix 0 0) (go_unix 9223372036854775807 0) = Ok (enc_rows (var_rows_all ex_var))
  /\ t_le (go_unix 9223372036854775807 0) (go_unix 0 0) = true
  /\ clamp_end (go_unix 9223372036854775807 0) = planner_MaxTime.
Proof. repeat split; vm_compute; reflexivity. Qed.
