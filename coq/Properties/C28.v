(** C28 — WAL transaction records round-trip.
    Statement file: nothing but the property theorems, each closed by [exact] of a lemma proved in
    Proofs/ (or by evaluation of a concrete witness), followed by Print Assumptions. *)
From Coq Require Import ZArith List Bool Lia.
From Coq.Strings Require Import Byte.
Import ListNotations.
Require Import MS.Base.GoInt MS.Base.Res MS.Base.Hex MS.Base.Bytes MS.Generated.Src_wal
               MS.Model.TGCodec MS.Proofs.TGCodec_facts.
Local Open Scope Z_scope.

(** Guarded statement (what holds of the code at HEAD): for EVERY transaction-group id, every root path
    and every list of write commands each of which is [encodable] — key path shorter than 2^15 bytes,
    payload shorter than 2^31 bytes, VarRecLen an int32, 1..255 data shapes, every column name at most
    255 bytes — parseTGData (the checked decoder behind ParseTGData) applied to the bytes serializeTG produced returns the id and, per command
    in order, exactly the record type, target file, payload length, VarRecLen, (offset, index, payload)
    buffer and column schema it was given.  [length cmds < 2^63] is Go's own bound on [len]. *)
Theorem C28_roundtrip : forall tgid cmds root,
  in_ity I64 tgid -> Z.of_nat (length cmds) < 2 ^ 63 ->
  forallb encodableb cmds = true ->
  parseTGData (serializeTG tgid cmds) root = Ok (tgid, map (to_wtset root) cmds).
Proof. exact parse_serialize_roundtrip_checked. Qed.
Print Assumptions C28_roundtrip.

(** the exported ParseTGData (which returns (0, nil) where parseTGData reports an error) *)
Theorem C28_roundtrip_exported : forall tgid cmds root,
  in_ity I64 tgid -> Z.of_nat (length cmds) < 2 ^ 63 ->
  forallb encodableb cmds = true ->
  ParseTGData_go (serializeTG tgid cmds) root = Ok (tgid, map (to_wtset root) cmds).
Proof.
  intros tgid cmds root H1 H2 H3. unfold ParseTGData_go.
  now rewrite parse_serialize_roundtrip_checked.
Qed.
Print Assumptions C28_roundtrip_exported.

(** the decoder checks every length field (fix in /repo): no byte string makes it index out of range,
    and it accepts exactly what the unguarded sequence of steps decodes without a negative data length *)
Theorem C28_decoder_total : forall bs root, parseTGData bs root <> Panic.
Proof. exact parseTGData_no_panic. Qed.
Print Assumptions C28_decoder_total.

(** ... and the decoded buffer yields offset, interval index and payload through the accessors of
    executor/wal/oib.go *)
Theorem C28_buffer_fields : forall c,
  in_ity I64 (c_off c) -> in_ity I64 (c_idx c) ->
  oib_offset (cmd_buffer c) = Ok (c_off c) /\ oib_index (cmd_buffer c) = Ok (c_idx c)
  /\ oib_payload (cmd_buffer c) = Ok (c_data c).
Proof. exact oib_roundtrip. Qed.
Print Assumptions C28_buffer_fields.

(** the decoder never reports an error value (it has none) and a count field larger than the number of
    bytes always ends in a run-time panic: the loop bound used by the executable model loses nothing *)
Theorem C28_overcount_panics : forall n bs root,
  blen bs < Z.of_nat n -> parse_cmds n bs root (tgIDLenBytes + wtCountLenBytes) = Panic.
Proof. exact parse_cmds_overcount. Qed.
Print Assumptions C28_overcount_panics.

(** the write path's acceptance (Go typing, WriteCommand construction, and CheckStorable at bucket creation —
    fix d005c52) makes every command encodable unless it has more than 255 data shapes *)
Theorem C28_accepted_encodable : forall c,
  acceptableb c = true -> many_shapesb c = false -> encodableb c = true.
Proof. exact accepted_encodable. Qed.
Print Assumptions C28_accepted_encodable.

(** the name half of the property as stated, now a theorem: every ACCEPTED write with at most 255 data
    shapes round-trips (no hypothesis on name lengths: acceptance bounds them by elementNameHeaderBytes) *)
Theorem C28_accepted_roundtrip : forall tgid cmds root,
  in_ity I64 tgid -> Z.of_nat (length cmds) < 2 ^ 63 ->
  forallb acceptableb cmds = true ->
  forallb (fun c => negb (many_shapesb c)) cmds = true ->
  parseTGData (serializeTG tgid cmds) root = Ok (tgid, map (to_wtset root) cmds).
Proof.
  intros tgid cmds root H1 H2 Ha Hm. apply parse_serialize_roundtrip_checked; try assumption.
  rewrite forallb_forall in *. intros c Hc. apply accepted_encodable; [apply Ha; exact Hc|].
  apply negb_true_iff. apply Hm. exact Hc.
Qed.
Print Assumptions C28_accepted_roundtrip.

(** Full statement — the property as given quantifies over "every write that can be accepted".  Acceptance
    still does not bound the number of data shapes by 255 (the header holds maxNumElements = 1024
    elements).  Refuted by the faithful model. *)
Definition C28_full : Prop := forall tgid cmds root,
  in_ity I64 tgid -> Z.of_nat (length cmds) < 2 ^ 63 ->
  forallb acceptableb cmds = true ->
  ParseTGData_go (serializeTG tgid cmds) root = Ok (tgid, map (to_wtset root) cmds).

Definition epoch_shape : shape := mkshape [x45; x70; x6f; x63; x68] x03.        (* "Epoch" : INT64 *)

(** witness: one accepted command with 256 data shapes: uint8(256) = 0, DSVToBytes returns nil, nothing is
    appended, and the decoder finds no shape vector: an error (a panic before fix afc5bfc), ParseTGData
    returns (0, nil) *)
Definition C28_witness_many_shapes : list cmd :=
  [ mkcmd 0 [x61; x2f; x62] 0 37024 1 [x01; x02; x03; x04] (repeat epoch_shape 256) ].

Theorem C28_refuted : ~ C28_full.
Proof.
  intros H.
  assert (H7 : in_ity I64 7) by (apply in_ityb_spec; reflexivity).
  specialize (H 7 C28_witness_many_shapes [x2f; x64] H7 eq_refl eq_refl).
  vm_compute in H. discriminate H.
Qed.
Print Assumptions C28_refuted.

(** the codec OUTSIDE the accepted domain: a command whose second column name has 256 bytes (rejected at
    bucket creation since d005c52, but still constructible by a direct caller of serializeTG): its length
    byte is 0 and the decoder returns the schema [("Epoch",3); ("",0x4e)] — silently wrong *)
Definition C28_witness_long_name : list cmd :=
  [ mkcmd 0 [x61; x2f; x62] 0 37024 1 [x01; x02; x03; x04] [ epoch_shape; mkshape (repeat x4e 256) x00 ] ].

Example C28_codec_outside_accepted_domain :
  forallb acceptableb C28_witness_long_name = false
  /\ existsb long_nameb C28_witness_long_name = true
  /\ ParseTGData_go (serializeTG 7 C28_witness_long_name) [x2f; x64]
     = Ok (7, [ mkwt 0 [x2f; x64; x2f; x61; x2f; x62] 4 0 (cmd_buffer (hd (mkcmd 0 [] 0 0 0 [] []) C28_witness_long_name))
                     [ epoch_shape; mkshape [] x4e ] ]).
Proof. vm_compute. repeat split; reflexivity. Qed.

(** the witness lies in the remaining defect class, and outside the guard only because of it *)
Example C28_witness_classes :
  forallb acceptableb C28_witness_many_shapes = true /\ existsb many_shapesb C28_witness_many_shapes = true
  /\ existsb long_nameb C28_witness_many_shapes = false
  /\ ParseTGData_go (serializeTG 7 C28_witness_many_shapes) [x2f; x64] = Ok (0, []).
Proof. vm_compute. repeat split; reflexivity. Qed.

(** Non-vacuity: a concrete non-trivial transaction group meets the hypotheses of C28_roundtrip
    (two commands, a 255-byte column name, 255 shapes, extreme offsets, an odd path); the second command is
    also ACCEPTED (C28_accepted_roundtrip's hypotheses). *)
Example C28_nonvacuous :
  in_ity I64 (-5) /\
  forallb encodableb
    [ mkcmd 0 [x61; x2f; x2e; x2e; x2f; x62] 0 (-9223372036854775808) 9223372036854775807 [x01; x02]
            [ epoch_shape; mkshape (repeat x41 255) x02 ];
      mkcmd 1 [] 2147483647 37024 1 [] (repeat epoch_shape 255) ] = true
  /\ acceptableb (mkcmd 1 [] 2147483647 37024 1 [] (repeat epoch_shape 255)) = true
  /\ many_shapesb (mkcmd 1 [] 2147483647 37024 1 [] (repeat epoch_shape 255)) = false.
Proof. split; [apply in_ityb_spec; reflexivity | vm_compute; repeat split; reflexivity]. Qed.
