(** C29 — Row serialization round-trips with alignment.
    Statement file: nothing but the property theorems, each closed by [exact] of a lemma proved in
    Proofs/, followed by Print Assumptions. *)
From Coq Require Import ZArith List Bool.
From Coq.Strings Require Import Byte.
Import ListNotations.
Require Import MS.Base.GoInt MS.Base.Res MS.Base.Hex MS.Generated.Src_io MS.Model.Rows MS.Proofs.Rows_facts.

(** Guarded statement (what holds of the code at HEAD): for every well-formed column series — Epoch
    int64 first, distinct names, every type one of the fixed-width types GetColumn knows, [n] values
    per column, and NO other column whose name case-insensitively equals "epoch" — serialization
    succeeds with the stated record length, and reading back every column yields its type and bytes. *)
Theorem C29_roundtrip : forall cols n align,
  wf_cs cols n ->
  exists data rl,
    serialize cols align = Ok (data, rl)
    /\ rl = (if align then aligned (sum_sizes cols) else sum_sizes cols)
    /\ length data = n * rl
    /\ forall c, In c cols -> get_column (shapes cols) data rl (cname c) = Ok (Some (ctype c, cdata c)).
Proof. exact serialize_get_column_roundtrip. Qed.
Print Assumptions C29_roundtrip.

(** the boolean guard used by the harness implies the hypothesis *)
Theorem C29_guard_sound : forall cols n, wf_csb cols n = true -> wf_cs cols n.
Proof. exact wf_csb_spec. Qed.
Print Assumptions C29_guard_sound.

(** aligned record length: a multiple of 8, less than 8 above the unaligned one *)
Theorem C29_aligned : forall z, (0 <= z < 1000000)%Z ->
  (z <= AlignedSize z < z + 8)%Z /\ (AlignedSize z mod 8 = 0)%Z.
Proof. exact AlignedSize_spec. Qed.
Print Assumptions C29_aligned.

(** Full statement (the property as given quantifies over ALL column schemas): the same without the
    epoch-like-name guard.  It is refuted by the faithful model: the serializer skips every column
    whose name EqualFolds "Epoch" while the reader matches names exactly. *)
Definition wf_noguardb (cols : list col) (n : nat) : bool :=
  match cols with
  | [] => false
  | ec :: rest =>
      bytes_eqb (cname ec) epoch_name && Z.eqb (ctype ec) ET_INT64
      && nodup_names (map cname cols)
      && forallb (fun c => getcol_supported (ctype c)) cols
      && forallb (fun c => (length (cdata c) =? n * tsize (ctype c))%nat) cols
      && (Z.of_nat (sum_sizes cols) <? 1000000)%Z
  end.

Definition C29_full : Prop := forall cols n align,
  wf_noguardb cols n = true ->
  exists data rl, serialize cols align = Ok (data, rl)
    /\ forall c, In c cols -> get_column (shapes cols) data rl (cname c) = Ok (Some (ctype c, cdata c)).

Definition C29_witness : list col :=
  [ mkcol epoch_name ET_INT64 [x01; x00; x00; x00; x00; x00; x00; x00];
    mkcol [x45; x50; x4f; x43; x48] ET_UINT8 [x2a] ].     (* "EPOCH" : uint8 = 42 *)

Theorem C29_refuted : ~ C29_full.
Proof.
  intros H. destruct (H C29_witness 1 false eq_refl) as (data & rl & Hs & Hg).
  vm_compute in Hs. inversion Hs; subst.
  specialize (Hg (mkcol [x45; x50; x4f; x43; x48] ET_UINT8 [x2a]) (or_intror (or_introl eq_refl))).
  vm_compute in Hg. discriminate Hg.
Qed.
Print Assumptions C29_refuted.

(** Non-vacuity: a concrete non-trivial column series meets the hypothesis of C29_roundtrip. *)
Example C29_nonvacuous :
  wf_cs [ mkcol epoch_name ET_INT64 (repeat x01 16);
          mkcol [x41] ET_FLOAT32 (repeat x02 8);
          mkcol [x42] ET_INT16 (repeat x03 4) ] 2.
Proof. apply wf_csb_spec. vm_compute. reflexivity. Qed.
