(** C26 — Replication survives replicas connecting and disconnecting.
    Statements about the LTS Model/Fanout.v (sender goroutine, one goroutine per replica stream, the
    unprotected StreamChannels map with multi-step writes and iteration, bounded channels).  They
    quantify over every schedule, any number of replicas and transaction groups, any capacities; Go's
    scheduler, channel and map-fault semantics are the LTS's assumptions (DESIGN §10: partial). *)
From Coq Require Import List Arith Bool NArith.
Import ListNotations.
Require Import MS.Model.Fanout MS.Proofs.Fanout_facts.

(** Full statement, clause 1: no runtime fault ("concurrent map iteration and map write", "concurrent map
    writes", "send on closed channel") and no overlapping map write/iteration is reachable.
    At the original HEAD this clause was refuted (F22a/b: unprotected map, close after delete while the sender
    held the channel).  /repo now carries the fix (known_findings.txt `fixed:` lines): an RWMutex around the map
    — read-held by the sender for its whole iteration, write-held by a stream to register and to
    unregister+close — and a drainer so that a leaving stream never blocks the sender.  The model follows the
    fixed code and keeps the runtime's fault detection, and the clause is a THEOREM for every schedule from
    the empty server, any number of replicas, addresses possibly equal. *)
Theorem C26_no_fault : forall ks cs cc ls s,
  run_labels (init ks cs cc) ls = Some s -> panic s = None /\ race s = false.
Proof. exact no_fault. Qed.
Print Assumptions C26_no_fault.

(** clause 2: a replica that is connected in s1 and still connected and idle in a later quiescent state s2
    has received every TG committed in between. *)
Definition quiescent_at (s : st) (r : nat) : bool :=
  match sp s, schan s, nth_error (gs s) r, nth_error (chs s) r with
  | SIdle, [], Some GLoop, Some c => match q c with [] => true | _ => false end
  | _, _, _, _ => false
  end.
Definition C26_delivery : Prop := forall ks cs cc ls1 ls2 s1 s2 r,
  run_labels (init ks cs cc) ls1 = Some s1 -> nth_error (gs s1) r = Some GLoop ->
  run_labels s1 ls2 = Some s2 ->
  forallb (fun l => match l with GSend r' false => negb (r' =? r) | _ => true end) ls2 = true ->
  quiescent_at s2 r = true ->
  forall t, In t (committed s2) -> ~ In t (committed s1) -> In t (nth r (delivered s2) []).

Definition C26_full : Prop :=
  (forall ks cs cc ls s, run_labels (init ks cs cc) ls = Some s -> panic s = None /\ race s = false) /\ C26_delivery.

(** Regressions of F22a/b: the schedules that reached the faults before the fix are not schedules of the
    fixed system any more.  (a) while a connecting replica is inside mapassign it holds the write lock, the
    sender cannot start its iteration; (b) while the sender holds a channel from its iteration it holds the
    read lock, the failing stream cannot delete/close — it can only drain; it closes after the sender is done. *)
Definition C26_old_iter_write : list label := [GInsB 0; GInsE 0; Commit; SRecv; GInsB 1].
Definition C26_old_closed_send : list label :=
  [GInsB 0; GInsE 0; Commit; SRecv; SLock; SNext 10; SSend; SEnd; GRecv 0; Commit; SRecv; SLock; SNext 10; GSend 0 false; GSpawn 0].
Example C26_old_witnesses_blocked :
  (exists s, run_labels (init [10; 11] 500 500) C26_old_iter_write = Some s
             /\ enabled SLock s = false /\ enabled (GInsB 0) s = false)
  /\ (exists s, run_labels (init [10; 11] 500 500) C26_old_closed_send = Some s
             /\ enabled (GDelB 0) s = false /\ enabled SSend s = true
             /\ exists s', run_labels s [SSend; SEnd; GDrain 0; GDelB 0; GDelE 0; GCloseL 0] = Some s' /\ panic s' = None).
Proof.
  split; eexists; (split; [vm_compute; reflexivity|]).
  - vm_compute. auto.
  - split; [vm_compute; reflexivity|]. split; [vm_compute; reflexivity|].
    eexists. split; vm_compute; reflexivity.
Qed.

(** F22c (same client address): replica 1 connects with the address replica 0 still holds; replica 0's
    failing Send then deletes replica 1's map entry; replica 1 stays connected and idle for ever but TG 1
    never reaches it. *)
Definition C26_witness_same_addr_1 : list label :=
  [GInsB 0; GInsE 0; Commit; SRecv; SLock; SNext 10; SSend; SEnd; GRecv 0; GInsB 1; GInsE 1].
Definition C26_witness_same_addr_2 : list label :=
  [GSend 0 false; GSpawn 0; GDelB 0; GDelE 0; GCloseL 0; Commit; SRecv; SLock; SEnd].

Theorem C26_delivery_refuted : ~ C26_delivery.
Proof.
  intros H.
  destruct (run_labels (init [10; 10] 500 500) C26_witness_same_addr_1) as [s1|] eqn:E1; [|vm_compute in E1; discriminate].
  destruct (run_labels s1 C26_witness_same_addr_2) as [s2|] eqn:E2;
    [|vm_compute in E1; inversion E1; subst; vm_compute in E2; discriminate].
  specialize (H [10; 10] 500%N 500%N C26_witness_same_addr_1 C26_witness_same_addr_2 s1 s2 1 E1).
  vm_compute in E1. inversion E1; subst; clear E1. vm_compute in E2. inversion E2; subst; clear E2.
  specialize (H eq_refl eq_refl eq_refl eq_refl 1 (or_intror (or_introl eq_refl))).
  cbn in H. apply H. intros [X|[]]. discriminate.
Qed.
Print Assumptions C26_delivery_refuted.

Theorem C26_refuted : ~ C26_full.
Proof. intros [_ H]. exact (C26_delivery_refuted H). Qed.
Print Assumptions C26_refuted.

(** Delivery clause, guarded: the stable system — all replicas of [ks] connected with pairwise distinct
    addresses, no stream.Send fails (guard [stable] on the schedule; nobody connects since every stream
    is already connected). *)
Theorem C26_stable_no_fault : forall ks cs cc ls s, NoDup ks -> forallb stable ls = true ->
  run_labels (init_stable ks cs cc) ls = Some s -> panic s = None /\ race s = false.
Proof. exact stable_no_fault. Qed.
Print Assumptions C26_stable_no_fault.

(** FIFO + completeness: delivered(r) ++ in-flight-towards(r) = commit sequence, in every reachable state *)
Theorem C26_stable_delivery : forall ks cs cc ls s r, NoDup ks -> forallb stable ls = true ->
  run_labels (init_stable ks cs cc) ls = Some s -> r < length ks ->
  exists d g c k, nth_error (delivered s) r = Some d /\ nth_error (gs s) r = Some g /\
                  nth_error (chs s) r = Some c /\ nth_error (keys s) r = Some k /\
                  d ++ (got g ++ q c ++ pend (sp s) k r ++ schan s) = committed s.
Proof. exact stable_delivery. Qed.
Print Assumptions C26_stable_delivery.

Theorem C26_stable_complete : forall ks cs cc ls s r c, NoDup ks -> forallb stable ls = true ->
  run_labels (init_stable ks cs cc) ls = Some s ->
  sp s = SIdle -> schan s = [] -> nth_error (gs s) r = Some GLoop -> nth_error (chs s) r = Some c -> q c = [] ->
  nth_error (delivered s) r = Some (committed s).
Proof. exact stable_quiescent_complete. Qed.
Print Assumptions C26_stable_complete.

(** the master never blocks by itself: if the WAL loop's Sender.Send cannot proceed, a sender or stream
    step can *)
Theorem C26_stable_progress : forall ks cs cc ls s, NoDup ks -> forallb stable ls = true ->
  (0 < cs)%N -> (0 < cc)%N ->
  run_labels (init_stable ks cs cc) ls = Some s ->
  enabled Commit s = true \/ internal_enabled s = true.
Proof. exact stable_progress. Qed.
Print Assumptions C26_stable_progress.

(** Deadlock freedom of the master ("without ... blocking"), for the cleanup order of the code — start the drainer,
    THEN take the write lock (GSpawn before GDelB; checks/C26.py ties that order to the source): from the empty
    server, for every schedule, any number of replicas (addresses may coincide), any capacities > 0 for the stream
    channels, in every reachable state either the master can take a step by itself (sender goroutine, stream
    goroutines, drainers), or some replica is inside stream.Send (the environment's turn: a replica that never
    returns is the stalled-replica finding), or nothing is left to do. *)
Theorem C26_no_deadlock : forall ks cs cc ls s, (0 < cc)%N -> forallb code_order ls = true ->
  run_labels (init ks cs cc) ls = Some s ->
  master_enabled s = true \/ in_send s = true \/ quiescent s = true.
Proof. exact no_deadlock. Qed.
Print Assumptions C26_no_deadlock.

(** The order matters (seeded mutation C26-2 = lock first, drainer afterwards, label GDelBx): replica 0 is a full
    channel behind, the sender is blocked on its channel holding the read lock, then replica 0's stream.Send fails.
    With the code's order the drainer starts (GSpawn) and everything resumes; with the swapped order the stream
    waits for the write lock, the sender waits for the channel: every step of the swapped program is disabled,
    no replica is in Send, and work is pending — a deadlock, although replica 0 has DISCONNECTED. *)
Definition C26_behind_then_fails : list label :=
  [GInsB 0; GInsE 0; Commit; SRecv; SLock; SNext 10; SSend; SEnd; GRecv 0;
   Commit; SRecv; SLock; SNext 10; SSend; SEnd; Commit; SRecv; SLock; SNext 10; GSend 0 false].
Example C26_swapped_order_deadlocks :
  exists s, run_labels (init [10] 5 1) C26_behind_then_fails = Some s
    /\ enabled (GDelBx 0) s = false            (* the swapped program's only next step of stream 0 *)
    /\ enabled SSend s = false /\ enabled SRecv s = false /\ enabled SLock s = false /\ enabled SEnd s = false
    /\ enabled (SNext 10) s = false /\ enabled (GRecv 0) s = false /\ enabled (GDrain 0) s = false
    /\ in_send s = false /\ quiescent s = false
    /\ enabled (GSpawn 0) s = true             (* the code's order: the drainer starts ... *)
    /\ exists s', run_labels s [GSpawn 0; GDrain 0; SSend; SEnd; GDrain 0; GDelB 0; GDelE 0; GCloseL 0] = Some s'
                  /\ quiescent s' = true /\ panic s' = None.   (* ... and the system runs to quiescence *)
Proof.
  eexists. split; [vm_compute; reflexivity|]. repeat (split; [vm_compute; reflexivity|]).
  eexists. split; [vm_compute; reflexivity|]. split; vm_compute; reflexivity.
Qed.

(** ... but it does block on a replica that stops reading (its stream.Send never returns): with
    capacities 1/1, after 4 commits the WAL loop is blocked and the ONLY enabled step is that replica's
    GSend, although replica 1 is healthy.  With the real capacities the same needs 500+500+2 commits. *)
Definition C26_stalled_schedule : list label :=
  [Commit; SRecv; SLock; SNext 10; SSend; SNext 11; SSend; SEnd; GRecv 0; GRecv 1; GSend 1 true;
   Commit; SRecv; SLock; SNext 10; SSend; SNext 11; SSend; SEnd; GRecv 1; GSend 1 true;
   Commit; SRecv; SLock; SNext 10; Commit].
Example C26_stalled_replica_blocks :
  forallb stable C26_stalled_schedule = true /\
  exists s, run_labels (init_stable [10; 11] 1 1) C26_stalled_schedule = Some s
    /\ enabled Commit s = false /\ enabled SRecv s = false /\ enabled SLock s = false /\ enabled SEnd s = false /\ enabled SSend s = false
    /\ enabled (SNext 10) s = false /\ enabled (SNext 11) s = false
    /\ enabled (GRecv 0) s = false /\ enabled (GRecv 1) s = false /\ enabled (GSend 1 true) s = false
    /\ enabled (GSend 0 true) s = true.
Proof. split; [reflexivity|]. eexists. split; [vm_compute; reflexivity|]. vm_compute. repeat split. Qed.

(** Non-vacuity of the stable theorems: two replicas, two TGs, everything delivered in order. *)
Definition C26_good_schedule : list label :=
  [Commit; Commit; SRecv; SLock; SNext 11; SSend; SNext 10; SSend; SEnd; GRecv 0; GSend 0 true;
   SRecv; SLock; SNext 10; SSend; GRecv 0; GRecv 1; SNext 11; SSend; SEnd; GSend 1 true; GSend 0 true; GRecv 1; GSend 1 true].
Example C26_nonvacuous :
  NoDup [10; 11] /\ forallb stable C26_good_schedule = true /\
  exists s, run_labels (init_stable [10; 11] 500 500) C26_good_schedule = Some s
            /\ committed s = [0; 1] /\ delivered s = [[0; 1]; [0; 1]] /\ quiescent_at s 0 = true.
Proof.
  split; [repeat constructor; cbn; intuition congruence|]. split; [reflexivity|].
  eexists. split; [vm_compute; reflexivity|]. vm_compute. auto.
Qed.
