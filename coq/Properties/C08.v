(** C08 — Fixed-length buckets behave like last-writer-wins interval maps.
    Statement file: the property theorems, each closed by [exact] of a lemma proved in Proofs/
    (witness refutations by computation), followed by Print Assumptions. *)
From Coq Require Import ZArith List Bool.
From Coq.Strings Require Import Byte.
Import ListNotations.
Require Import MS.Base.Res MS.Base.SortedAList MS.Model.UTime MS.Model.FStore MS.Spec.IntervalMap
  MS.Proofs.FStore_facts.
Local Open Scope Z_scope.

(** Guarded statement (what holds of the code at HEAD).  For every timeframe dividing a day, record
    length, and history of write requests [reqs] (each a list of (epoch second, row bytes), in any
    order, with any duplicates, over any years 1970..2369) that contains at least one row and stays
    outside the defect class named by [guard_C08] (daily bars dated January 1), the all-time query issued through
    ExecuteQuery on the bucket written by folding Writer.WriteCSM over the history returns exactly
    the elements of the last-writer-wins interval map. *)
Theorem C08_lww : forall tfs recLen reqs,
  guard_C08 tfs recLen reqs = true -> has_row reqs ->
  query_bucket_all tfs recLen (fold_left (write_fixed tfs recLen) reqs empty_store) = Ok (lww tfs reqs).
Proof. exact write_read_lww. Qed.
Print Assumptions C08_lww.

(** ... where the interval map lists strictly ascending interval starts (one row per interval, in
    ascending time order) ... *)
Theorem C08_spec_ascending : forall tfs reqs, sorted Z.compare (lww tfs reqs).
Proof. exact lww_sorted. Qed.
Print Assumptions C08_spec_ascending.

(** ... and the row stored at interval start [k] carries the values of the LAST row, in request
    order then row order, whose timestamp falls into that interval (and there is a row at [k] iff
    some row was written to it). *)
Theorem C08_spec_last_write : forall tfs reqs k,
  im_lookup k (lww tfs reqs) = last_write tfs k (flat reqs).
Proof. exact lww_lookup. Qed.
Print Assumptions C08_spec_last_write.

(** the stamp of a stored slot is the start of the interval of the timestamp written to it *)
Theorem C08_stamp : forall tfs t, IndexToTime (TimeToIndex tfs t) tfs (year_of t) = istart tfs t.
Proof. exact MS.Proofs.UTime_facts.IndexToTime_TimeToIndex. Qed.
Print Assumptions C08_stamp.

(** * The property as stated, and why it is refuted at HEAD *)

(** the part of the guard that only fixes the modelled domain: a timeframe of utils.Timeframes,
    a sane record length, timestamps in 1970..2369 *)
Definition domain_ok (tfs recLen : Z) (reqs : list (list row)) : bool :=
  valid_tf tfs && existsb (Z.eqb tfs) timeframes_s && valid_reclen recLen && forallb rows_valid reqs.

Definition C08_stmt (g : Z -> Z -> list (list row) -> bool) : Prop := forall tfs recLen reqs,
  domain_ok tfs recLen reqs = true -> g tfs recLen reqs = true -> has_row reqs ->
  query_bucket_all tfs recLen (fold_left (write_fixed tfs recLen) reqs empty_store) = Ok (lww tfs reqs).

(** "all write histories ... every timeframe from 1Sec to 1D" *)
Definition C08_full : Prop := C08_stmt (fun _ _ _ => true).

Definition g_tf (tfs _ : Z) (_ : list (list row)) : bool := queryable_tfs tfs =? tfs.
Definition g_jan1 (tfs _ : Z) (reqs : list (list row)) : bool := forallb (no_index0 tfs) reqs.
Definition g_and (a b : Z -> Z -> list (list row) -> bool) tfs recLen reqs : bool :=
  a tfs recLen reqs && b tfs recLen reqs.

Definition b4 (a b c d : byte) : list byte := [a; b; c; d].

(** class daily-jan1-index0 (F2): a 1D bar dated January 1 gets index YearDay()-1 = 0, is written
    at Headersize - recLen and skipped by packingReader as a hole *)
Definition w_jan1 : list (list row) :=
  [[(1577836800, b4 x01 x00 x00 x00); (1577959200, b4 x02 x00 x00 x00)]].   (* 2020-01-01, 2020-01-02 *)

Theorem C08_refuted_daily_jan1 : ~ C08_stmt g_tf.
Proof.
  intros H. unfold C08_full, C08_stmt in H. specialize (H 86400 16 w_jan1 eq_refl eq_refl).
  assert (Hr : has_row w_jan1) by apply has_row_cons.
  specialize (H Hr). vm_compute in H. discriminate H.
Qed.
Print Assumptions C08_refuted_daily_jan1.

(** a history that merges rows across a year boundary the way the pre-49eddda WriteRecords did
    ([2017-02-03 04:05; 2018-03-03 04:06; 2017-03-03 04:06], class prevyear-misfire, now `fixed:`) is inside
    the guard and answered correctly *)
Definition w_prevyear : list (list row) :=
  [[(1486094700, b4 x01 x00 x00 x00); (1520049960, b4 x02 x00 x00 x00); (1488513970, b4 x03 x00 x00 x00)]].

Example C08_cross_year_regression : guard_C08 60 16 w_prevyear = true
  /\ query_bucket_all 60 16 (fold_left (write_fixed 60 16) w_prevyear empty_store)
     = Ok [(1486094700, b4 x01 x00 x00 x00); (1488513960, b4 x03 x00 x00 x00); (1520049960, b4 x02 x00 x00 x00)].
Proof. split; vm_compute; reflexivity. Qed.

(** every timeframe of utils.Timeframes is its own queryable timeframe (since /repo commit d275195;
    before it "4H" was answered with "2H": class timeframe-requeried-as-other, now `fixed:`) *)
Theorem C08_timeframes_queryable : forall tfs,
  existsb (Z.eqb tfs) timeframes_s = true -> queryable_tfs tfs = tfs.
Proof.
  intros tfs H. unfold timeframes_s in H. cbn [existsb] in H.
  repeat (apply orb_prop in H as [H|H]; [apply Z.eqb_eq in H; subst; reflexivity|]).
  discriminate H.
Qed.
Print Assumptions C08_timeframes_queryable.

Theorem C08_refuted : ~ C08_full.
Proof.
  intros H. unfold C08_full, C08_stmt in H. specialize (H 86400 16 w_jan1 eq_refl eq_refl).
  assert (Hr : has_row w_jan1) by apply has_row_cons.
  specialize (H Hr). vm_compute in H. discriminate H.
Qed.
Print Assumptions C08_refuted.

(** the guards together are exactly [guard_C08] on the domain *)
Theorem C08_guard_split : forall tfs recLen reqs,
  domain_ok tfs recLen reqs = true ->
  g_and g_tf g_jan1 tfs recLen reqs = true ->
  guard_C08 tfs recLen reqs = true.
Proof.
  intros tfs recLen reqs Hd Hg. unfold domain_ok in Hd. unfold g_and, g_tf, g_jan1 in Hg.
  rewrite !andb_true_iff in *. destruct Hd as [[[D1 D2] D3] D4]. destruct Hg as [G1 G3].
  unfold guard_C08. rewrite !andb_true_iff. repeat split; try assumption.
  rewrite forallb_forall in *. intros x Hx. rewrite !andb_true_iff. auto.
Qed.
Print Assumptions C08_guard_split.

(** Non-vacuity: a history over the 2016/2017 year boundary and a leap day, unsorted, with a
    duplicate interval across requests, meets the hypotheses of C08_lww. *)
Definition ex_hist : list (list row) :=
  [ [(1483228830, b4 x01 x00 x00 x00); (1483228740, b4 x02 x00 x00 x00); (1582977600, b4 x03 x00 x00 x00)];
    [(1483228859, b4 x04 x00 x00 x00); (1577836799, b4 x05 x00 x00 x00)] ].

Example C08_nonvacuous : guard_C08 60 16 ex_hist = true /\ has_row ex_hist
  /\ lww 60 ex_hist = [(1483228740, b4 x02 x00 x00 x00); (1483228800, b4 x04 x00 x00 x00);
                       (1577836740, b4 x05 x00 x00 x00); (1582977600, b4 x03 x00 x00 x00)].
Proof.
  split; [vm_compute; reflexivity|]. split; [|vm_compute; reflexivity].
  apply has_row_cons.
Qed.
