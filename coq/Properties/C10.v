(** C10 — Sub-interval timestamp encoding is monotone and precise.
    Statement file: theorems closed by [exact] of lemmas of Proofs/Ticks_facts.v (Flocq model, real
    analysis: the standard library's real-number axioms appear below) and Proofs/Ticks_sweep_all.v
    (primitive-float mirror, vm_compute reflection: FloatAxioms / primitive ints appear below). *)
From Coq Require Import ZArith List Bool Reals.
From Flocq Require Import Core.Core IEEE754.BinarySingleNaN.
Import ListNotations.
Require Import MS.Base.GoInt MS.Base.F64 MS.Model.Ticks MS.Model.TicksPF MS.Proofs.Ticks_facts MS.Proofs.Ticks_sweep
  MS.Proofs.Ticks_sweep_all MS.Proofs.Ticks_equiv MS.Proofs.Ticks_accuracy.
Local Open Scope Z_scope.

(** Order: for EVERY on-disk timeframe and EVERY pair of offsets inside an interval the encoder
    preserves order, and its result fits uint32 (so the float -> uint32 conversion is in range). *)
Theorem C10_mono : forall ipd d1 d2, In ipd ipds -> 0 <= d1 <= d2 -> d2 < interval_ns ipd ->
  0 <= enc ipd d1 <= enc ipd d2 /\ enc ipd d2 <= 4294967295.
Proof. exact enc_mono. Qed.
Print Assumptions C10_mono.

(** the product before truncation is monotone for every intervalsPerDay up to 2^17 and every offset
    below 2^62 ns (no finite-domain restriction) *)
Theorem C10_mono_raw : forall ipd d1 d2, 0 <= ipd <= 2 ^ 17 -> 0 <= d1 <= d2 -> d2 < 2 ^ 62 ->
  0 <= enc_raw ipd d1 <= enc_raw ipd d2.
Proof. exact enc_raw_mono. Qed.
Print Assumptions C10_mono_raw.

(** Precision, 1-second intervals, STATED FINITE DOMAIN: for every offset o of the eight blocks
    [lo, lo + 100000), lo in block_starts (8 * 10^5 of the 10^9 offsets, including the first and the
    last 2 * 10^5 nanoseconds of the second), inside the guard, the round trip is exact to the
    nanosecond.  Reflection by vm_compute on the primitive-float mirror.  The remaining offsets are
    swept block-wise in the thorough tier (checks/C10.py) — see notes/C10.md. *)
Theorem C10_1sec_blocks : forall o, (exists lo, In lo block_starts /\ lo <= o < lo + block) ->
  guard_1sec_pf o = true -> dec_offset_pf 86400 (enc_pf 86400 o) = o.
Proof. exact sweep_blocks. Qed.
Print Assumptions C10_1sec_blocks.

(** The two models are EQUAL (not only differentially tied): the primitive-float mirror computes the
    same ticks / (sec, nanosec) as the Flocq model for all arguments below 2^63.  Rests on Flocq's
    IEEE754.PrimFloat equivalence lemmas, i.e. on Coq's FloatAxioms. *)
Theorem C10_models_equal : forall start ipd d ticks,
  0 <= ipd < 2 ^ 63 -> 0 <= d < 2 ^ 63 -> 0 <= ticks < 2 ^ 63 ->
  enc_pf ipd d = enc ipd d /\ dec_pf start ipd ticks = dec start ipd ticks.
Proof. intros start ipd d ticks Hi Hd Ht. split; [ apply enc_pf_eq | apply dec_pf_eq ]; assumption. Qed.
Print Assumptions C10_models_equal.

(** ... hence the block sweep is a statement about the Flocq model, with the guard of the bound theorem *)
Theorem C10_1sec_blocks_flocq : forall o, (exists lo, In lo block_starts /\ lo <= o < lo + block) ->
  guard_C10 86400 o = true -> dec_offset 86400 (enc 86400 o) = o.
Proof. exact sweep_blocks_flocq. Qed.
Print Assumptions C10_1sec_blocks_flocq.

(** Full statement (the property as given): for every timeframe and offset the decoded time lies in
    the same interval, not after the original and at most one resolution step before it. *)
Definition C10_full : Prop := forall ipd o, In ipd ipds -> 0 <= o < interval_ns ipd ->
  let o' := dec_offset ipd (enc ipd o) in 0 <= o' <= o /\ o - o' <= step_ns ipd.

(** [Finding decoded-fraction-rounds-up, F1] 1Sec, offset 999999999 ns: ticks 4294967291 decode to
    fractionalSeconds 0.99999999907; Round(fs * 1e8) / 1e8 = 1 carries into the seconds while the
    nanoseconds 999999999 are kept: the decoded time is one second late. *)
Theorem C10_refuted : ~ C10_full.
Proof.
  intros H. destruct (H 86400 999999999 ltac:(cbn; tauto) ltac:(vm_compute; split; [ discriminate | reflexivity ])) as [[_ Hle] _].
  vm_compute in Hle. apply Hle. reflexivity.
Qed.
Print Assumptions C10_refuted.

(** the same defect away from the interval end, 1Min: 27.000000005 s decodes to 27.999999997 s *)
Theorem C10_refuted_1min : ~ C10_full.
Proof.
  intros H. destruct (H 1440 27000000005 ltac:(cbn; tauto) ltac:(vm_compute; split; [ discriminate | reflexivity ])) as [[_ Hle] _].
  vm_compute in Hle. apply Hle. reflexivity.
Qed.
Print Assumptions C10_refuted_1min.

(** The guarded bound for ALL timeframes — stated, NOT proved (partial results below; checked on every
    generated case by in-Coq evaluation: Corr/C10.model_prop under Corr/C10.in_domain). *)
Definition C10_bound_guarded : Prop := forall ipd o, In ipd ipds -> 0 <= o < interval_ns ipd ->
  guard_C10 ipd o = true ->
  let o' := dec_offset ipd (enc ipd o) in
  0 <= o' <= o /\ o - o' <= step_ns ipd /\ (ipd = 86400 -> o' = o).

(** PARTIAL results towards C10_bound_guarded (analytic, for ALL timeframes and ALL offsets; u = 2^-53).

    Encoder: the tick count is the exact count 2^32 * o / interval truncated, up to a relative error
    of 6u (five roundings plus the representation error of the constant 2^32/86400). *)
Theorem C10_enc_accuracy_partial : forall ipd o, In ipd ipds -> (0 <= o < interval_ns ipd)%Z ->
  let X := (4294967296 * IZR o / IZR (interval_ns ipd))%R in
  ((1 - 6 * u) * X - 1 < IZR (enc ipd o) <= (1 + 6 * u) * X)%R.
Proof. exact enc_accuracy. Qed.
Print Assumptions C10_enc_accuracy_partial.

(** ... in nanoseconds: the encoded tick lies at most 6u*o (< 0.06 ns) after the original offset and
    less than one resolution step interval/2^32 (+ 6u*o) before it. *)
Theorem C10_enc_position_partial : forall ipd o, In ipd ipds -> (0 <= o < interval_ns ipd)%Z ->
  let pos := (IZR (enc ipd o) * IZR (interval_ns ipd) / 4294967296)%R in
  ((1 - 6 * u) * IZR o - IZR (interval_ns ipd) / 4294967296 < pos <= (1 + 6 * u) * IZR o)%R.
Proof. exact enc_position. Qed.
Print Assumptions C10_enc_position_partial.

(** Decoder, tick -> time direction: the float fractionalSeconds of GetTimeFromTicks is the exact
    position of the tick (in seconds) up to a relative error of 4u, for every intervalsPerDay <= 2^17
    and every uint32 tick count.  (The extraction of (sec, nanosec) from it — Floor, the 1e8 rounding
    that causes F1, the +0.5 truncation — is NOT covered: that is what C10_bound_guarded still lacks.) *)
Theorem C10_dec_fs_accuracy_partial : forall ipd k, (1 <= ipd <= 2 ^ 17)%Z -> (0 <= k < 2 ^ 32)%Z ->
  let p := (IZR k / tps_exact ipd)%R in
  ((1 - 4 * u) * p <= B2R (dec_fs ipd k) <= (1 + 4 * u) * p)%R.
Proof. exact dec_fs_accuracy. Qed.
Print Assumptions C10_dec_fs_accuracy_partial.

(** Non-vacuity: an offset in a swept block inside the guard; and the guard of the general bound *)
Example C10_nonvacuous :
  (exists lo, In lo block_starts /\ lo <= 499999999 < lo + block) /\ guard_1sec_pf 499999999 = true
  /\ guard_C10 1440 31415926535 = true /\ In 1440 ipds /\ 0 <= 31415926535 < interval_ns 1440.
Proof.
  split; [ exists 499950000; split; [ cbn; tauto | vm_compute; split; [ discriminate | reflexivity ] ] | ].
  split; [ vm_compute; reflexivity | ]. split; [ vm_compute; reflexivity | ].
  split; [ cbn; tauto | vm_compute; split; [ discriminate | reflexivity ] ].
Qed.
