(** C10 — Sub-interval timestamp encoding is monotone and precise.
    Statement file: theorems closed by [exact] of lemmas of Proofs/Ticks_facts.v (Flocq model, real
    analysis: the standard library's real-number axioms appear below) and Proofs/Ticks_sweep_all.v
    (primitive-float mirror, vm_compute reflection: FloatAxioms / primitive ints appear below). *)
From Coq Require Import ZArith List Bool Reals.
From Flocq Require Import Core.Core IEEE754.BinarySingleNaN.
Import ListNotations.
Require Import MS.Base.GoInt MS.Base.F64 MS.Model.Ticks MS.Model.TicksPF MS.Proofs.Ticks_facts MS.Proofs.Ticks_sweep
  MS.Proofs.Ticks_sweep_all MS.Proofs.Ticks_equiv MS.Proofs.Ticks_accuracy MS.Proofs.Ticks_seconds_all MS.Proofs.Ticks_decoder.
Local Open Scope Z_scope.

(** Order: for EVERY on-disk timeframe and EVERY pair of offsets inside an interval the encoder
    preserves order, and its result fits uint32 (so the float -> uint32 conversion is in range). *)
Theorem C10_mono : forall ipd d1 d2, In ipd ipds -> 0 <= d1 <= d2 -> d2 < interval_ns ipd ->
  0 <= enc ipd d1 <= enc ipd d2 /\ enc ipd d2 <= 4294967295.
Proof. exact enc_mono. Qed.
Print Assumptions C10_mono.

(** the product before truncation is monotone for every intervalsPerDay up to 2^17 and every offset
    below 2^62 ns (no finite-domain restriction) *)
Theorem C10_mono_raw : forall ipd d1 d2, 0 <= ipd <= 2 ^ 17 -> 0 <= d1 <= d2 -> d2 < 2 ^ 62 ->
  0 <= enc_raw ipd d1 <= enc_raw ipd d2.
Proof. exact enc_raw_mono. Qed.
Print Assumptions C10_mono_raw.

(** Precision, 1-second intervals, STATED FINITE DOMAIN: for every offset o of the eight blocks
    [lo, lo + 100000), lo in block_starts (8 * 10^5 of the 10^9 offsets, including the first and the
    last 2 * 10^5 nanoseconds of the second — since the F1 fix WITHOUT any guard, so the last 5 ns of
    the second are included), the round trip is exact to the nanosecond.  Reflection by vm_compute on
    the primitive-float mirror.  More blocks are swept in the thorough tier (checks/C10.py). *)
Theorem C10_1sec_blocks : forall o, (exists lo, In lo block_starts /\ lo <= o < lo + block) ->
  dec_offset_pf 86400 (enc_pf 86400 o) = o.
Proof. exact sweep_blocks. Qed.
Print Assumptions C10_1sec_blocks.

(** The two models are EQUAL (not only differentially tied): the primitive-float mirror computes the
    same ticks / (sec, nanosec) as the Flocq model for all arguments below 2^63.  Rests on Flocq's
    IEEE754.PrimFloat equivalence lemmas, i.e. on Coq's FloatAxioms. *)
Theorem C10_models_equal : forall start ipd d ticks,
  0 <= ipd < 2 ^ 63 -> 0 <= d < 2 ^ 63 -> 0 <= ticks < 2 ^ 63 ->
  enc_pf ipd d = enc ipd d /\ dec_pf start ipd ticks = dec start ipd ticks.
Proof. intros start ipd d ticks Hi Hd Ht. split; [ apply enc_pf_eq | apply dec_pf_eq ]; assumption. Qed.
Print Assumptions C10_models_equal.

(** ... hence the block sweep is a statement about the Flocq model *)
Theorem C10_1sec_blocks_flocq : forall o, (exists lo, In lo block_starts /\ lo <= o < lo + block) ->
  dec_offset 86400 (enc 86400 o) = o.
Proof. exact sweep_blocks_flocq. Qed.
Print Assumptions C10_1sec_blocks_flocq.

(** Precision on EVERY whole-second offset of EVERY on-disk timeframe's interval (finite domain: 114701
    offsets; vm_compute reflection on the mirror, lifted by C10_models_equal): decoded time in the same
    interval, not after the original, at most one step before it, exact for 1Sec.  Whole seconds are
    what second-resolution feeds write and the only offsets that reach the decoder's nanosecond carry. *)
Theorem C10_whole_seconds : forall ipd s, In ipd ipds -> 0 <= s -> s * 1000000000 < interval_ns ipd ->
  let o := s * 1000000000 in let o' := dec_offset ipd (enc ipd o) in
  0 <= o' <= o /\ o - o' <= step_ns ipd /\ (ipd = 86400 -> o' = o).
Proof. exact whole_seconds. Qed.
Print Assumptions C10_whole_seconds.

(** the four offsets whose nanoseconds round up to 10^9 (the carry branch): decoded exactly *)
Example C10_carry_cases :
  dec_offset 8640 (enc 8640 2000000000) = 2000000000 /\ dec_offset 8640 (enc 8640 7000000000) = 7000000000
  /\ dec_offset 2880 (enc 2880 2000000000) = 2000000000 /\ dec_offset 2880 (enc 2880 17000000000) = 17000000000.
Proof. vm_compute. repeat split; reflexivity. Qed.

(** Full statement (the property as given): for every timeframe and offset the decoded time lies in
    the same interval, not after the original and at most one resolution step before it; exact for
    1-second intervals.  Before the fix of GetTimeFromTicks (known_findings.txt: fixed, F1) this was
    REFUTED by the model (1Sec offset 999999999 ns decoded one second late; 1Min 27.000000005 s decoded
    as 27.999999997 s); the former witnesses are now regression inputs (corpus/C10) on which the
    statement is evaluated, see C10_regressions.  Since phase 5 it is PROVED (C10_roundtrip below); it is
    also evaluated on every generated case (Corr/C10.model_prop). *)
Definition C10_full : Prop := forall ipd o, In ipd ipds -> 0 <= o < interval_ns ipd ->
  let o' := dec_offset ipd (enc ipd o) in
  0 <= o' <= o /\ o - o' <= step_ns ipd /\ (ipd = 86400 -> o' = o).

(** C10_full is PROVED: for EVERY on-disk timeframe and EVERY offset of its interval (no finite domain,
    no side condition) the decoded time lies in the interval, is not after the original, at most one
    resolution step ceil(interval/2^32) before it, and exact for 1-second intervals.  Analytic proof on
    the Flocq model of the post-fix code: encoder accuracy (6u), decoder fractionalSeconds accuracy
    (4u), exact Floor / fraction (Sterbenz), half-ulp bound showing that the decoder's
    `subseconds >= 1e9` branch is dead code (C10_dec_nowrap), and the integer extraction with carry. *)
Theorem C10_roundtrip : C10_full.
Proof. intros ipd o Hin Ho. exact (roundtrip ipd o Hin Ho). Qed.
Print Assumptions C10_roundtrip.

(** the `subseconds >= 1e9` branch of GetTimeFromTicks is never taken, for every intervalsPerDay <= 2^17
    and every uint32 tick count *)
Theorem C10_dec_nowrap : forall ipd k, (1 <= ipd <= 2 ^ 17)%Z -> (0 <= k < 2 ^ 32)%Z -> dec_nowrapb ipd k = true.
Proof. exact dec_nowrap_always. Qed.
Print Assumptions C10_dec_nowrap.

(** the former refutation witnesses now satisfy the statement *)
Example C10_regressions :
  dec_offset 86400 (enc 86400 999999999) = 999999999
  /\ dec_offset 86400 (enc 86400 999999995) = 999999995
  /\ (let o' := dec_offset 1440 (enc 1440 27000000005) in 0 <= o' <= 27000000005 /\ 27000000005 - o' <= step_ns 1440)
  /\ (let o' := dec_offset 8640 (enc 8640 9999999999) in 0 <= o' <= 9999999999 /\ 9999999999 - o' <= step_ns 8640).
Proof. vm_compute. repeat split; try reflexivity; discriminate. Qed.

(** The ingredients of C10_roundtrip (analytic, for ALL timeframes and ALL offsets; u = 2^-53).

    Encoder: the tick count is the exact count 2^32 * o / interval truncated, up to a relative error
    of 6u (five roundings plus the representation error of the constant 2^32/86400). *)
Theorem C10_enc_accuracy_partial : forall ipd o, In ipd ipds -> (0 <= o < interval_ns ipd)%Z ->
  let X := (4294967296 * IZR o / IZR (interval_ns ipd))%R in
  ((1 - 6 * u) * X - 1 < IZR (enc ipd o) <= (1 + 6 * u) * X)%R.
Proof. exact enc_accuracy. Qed.
Print Assumptions C10_enc_accuracy_partial.

(** ... in nanoseconds: the encoded tick lies at most 6u*o (< 0.06 ns) after the original offset and
    less than one resolution step interval/2^32 (+ 6u*o) before it. *)
Theorem C10_enc_position_partial : forall ipd o, In ipd ipds -> (0 <= o < interval_ns ipd)%Z ->
  let pos := (IZR (enc ipd o) * IZR (interval_ns ipd) / 4294967296)%R in
  ((1 - 6 * u) * IZR o - IZR (interval_ns ipd) / 4294967296 < pos <= (1 + 6 * u) * IZR o)%R.
Proof. exact enc_position. Qed.
Print Assumptions C10_enc_position_partial.

(** Decoder, tick -> time direction: the float fractionalSeconds of GetTimeFromTicks is the exact
    position of the tick (in seconds) up to a relative error of 4u, for every intervalsPerDay <= 2^17
    and every uint32 tick count.  (The extraction of (sec, nanosec) from it — Floor, the 1e8 rounding
    +0.5 truncation and the carry — is NOT covered: that is what C10_full still lacks.) *)
Theorem C10_dec_fs_accuracy_partial : forall ipd k, (1 <= ipd <= 2 ^ 17)%Z -> (0 <= k < 2 ^ 32)%Z ->
  let p := (IZR k / tps_exact ipd)%R in
  ((1 - 4 * u) * p <= B2R (dec_fs ipd k) <= (1 + 4 * u) * p)%R.
Proof. exact dec_fs_accuracy. Qed.
Print Assumptions C10_dec_fs_accuracy_partial.

(** Decoder (post-fix code), every intervalsPerDay <= 2^17 and every uint32 tick: the decoded offset
    sec * 10^9 + nanosec is within 0.7 ns of the exact tick position P = k * interval / 2^32 — under the
    boolean side condition [dec_nowrapb ipd k] (the decoder's `subseconds >= 1e9` branch is not taken;
    it can only be taken when fractionalSeconds is the largest double below 1, where the code's
    `fractionalSeconds++` would round 2 - 2^-53 up to 2). *)
Theorem C10_dec_total_partial : forall ipd k, (1 <= ipd <= 2 ^ 17)%Z -> (0 <= k < 2 ^ 32)%Z ->
  dec_nowrapb ipd k = true ->
  let P := (1000000000 * (IZR k / tps_exact ipd))%R in
  (P - 7 / 10 <= IZR (dec_offset ipd k) <= P + 7 / 10)%R.
Proof. exact dec_total. Qed.
Print Assumptions C10_dec_total_partial.

(** Round trip for ALL timeframes and ALL offsets, analytically (no finite domain): under the same side
    condition on the produced tick, the decoded time is in the interval, NOT AFTER the original,
    less than interval/2^32 + 0.76 ns before it, and EXACT for 1-second intervals.  This is C10_full up
    to (a) the side condition dec_nowrapb and (b) the gap bound interval/2^32 + 0.76 instead of
    ceil(interval/2^32) (which it implies for every on-disk timeframe, not yet stated). *)
Theorem C10_roundtrip_partial : forall ipd o, In ipd ipds -> (0 <= o < interval_ns ipd)%Z ->
  dec_nowrapb ipd (enc ipd o) = true ->
  let o' := dec_offset ipd (enc ipd o) in
  (0 <= o' <= o)%Z
  /\ (IZR (o - o') < IZR (interval_ns ipd) / 4294967296 + 76 / 100)%R
  /\ (ipd = 86400%Z -> o' = o).
Proof. exact roundtrip_nowrap. Qed.
Print Assumptions C10_roundtrip_partial.

(** Non-vacuity: an offset in a swept block (one of the last 5 ns of the second), and an in-range offset of 1Min *)
Example C10_nonvacuous :
  (exists lo, In lo block_starts /\ lo <= 999999997 < lo + block)
  /\ In 1440 ipds /\ 0 <= 31415926535 < interval_ns 1440.
Proof.
  split; [ exists 999900000; split; [ cbn; tauto | vm_compute; split; [ discriminate | reflexivity ] ] | ].
  split; [ cbn; tauto | vm_compute; split; [ discriminate | reflexivity ] ].
Qed.
