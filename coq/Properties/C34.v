(** C34 — WAL files are replayed once and never discarded while needed.
    Statement file: theorems closed by [exact] of lemmas from Proofs/, then Print Assumptions. *)
From Coq Require Import ZArith NArith List Bool.
Import ListNotations.
Require Import MS.Base.Res MS.Generated.Src_durab MS.Model.Wal MS.Model.Replay MS.Proofs.Durable_files MS.Proofs.Durable_exec
  MS.Proofs.Durable_recover MS.Proofs.Durable_sem MS.Proofs.Durable_ext MS.Proofs.Durable_steps3 MS.Proofs.Durable_props
  MS.Proofs.Durable_c05 MS.Proofs.Durable_c34.
Local Open Scope Z_scope.

(** (1) Every WAL left by a crashed run is replayed and only then deleted; the new instance's own WAL (number
    1) is the only one that remains.  For every schedule and crash prefix outside a continuation window. *)
Theorem C34_replayed_then_deleted :
  forall (clen : list record -> Z), (forall x, 0 < clen x) ->
  forall owner2 owner tgid0 sched tr k,
    owner <> 0 -> 0 < tgid0 ->
    run clen 0%N owner tgid0 sched = Ok tr -> wf_sched clen owner tgid0 sched = true ->
    (k <= length tr)%nat -> guard_window tr k = true ->
    snd (recover clen 1%N owner2 (crash_img tr k)) = StartOk
    /\ Recovered (recovered_files clen owner2 tr k) (committed tr k) (unchecked tr k)
    /\ map fst (i_wals (recovered clen 1%N owner2 (crash_img tr k))) = [1%N]
    /\ (guard_newfile tr k = true -> no_pnew (recovered_files clen owner2 tr k)).
Proof. exact recovery_succeeds. Qed.
Print Assumptions C34_replayed_then_deleted.

(** (2) Structure of the start-up's own system calls, for ANY image and ANY set of leftover WAL files: an
    [EWalUnlink w] is issued only (a) for a file no longer than a status message, or (b) directly after the
    status write (CLOSED, REPLAYED) that follows a successful Replay of [w]; a file whose Replay returns
    ReplayError{Cont} is renamed, never unlinked; the own WAL is never touched after its creation. *)
Theorem C34_unlink_discipline :
  forall (clen : list record -> Z) own ws im evs o,
    cleanup clen own im ws = (evs, o) ->
    forall w, In (EWalUnlink w) evs -> w <> own /\ unlink_justified clen own im ws w.
Proof. exact cleanup_unlink_discipline. Qed.
Print Assumptions C34_unlink_discipline.

Theorem C34_own_untouched :
  forall (clen : list record -> Z) own ws im evs o,
    cleanup clen own im ws = (evs, o) -> forall e, In e evs -> touches_wal e <> Some own.
Proof. exact cleanup_own_untouched. Qed.
Print Assumptions C34_own_untouched.

(** (3) A second restart finds no WAL that needs replay. *)
Theorem C34_second_restart :
  forall (clen : list record -> Z) owner2 im owner3,
    i_wals im = [(1%N, {| wf_status := Some (WFS_OPEN, WRS_NOTREPLAYED, owner2); wf_recs := [] |})] -> owner2 <> 0 ->
    snd (recover clen 2%N owner3 im) = StartOk
    /\ i_files (recovered clen 2%N owner3 im) = i_files im
    /\ map fst (i_wals (recovered clen 2%N owner3 im)) = [2%N].
Proof. exact second_restart_noop. Qed.
Print Assumptions C34_second_restart.

(** "replayed ONCE" is refuted for variable-length records by the model: see C02_refuted (every replay of a
    TG already applied to the primary file appends its records again); a crash during replay adds one more
    copy of the TG in flight.  The exact multiplicities are compared with the real code by the check. *)
