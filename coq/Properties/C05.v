(** C05 — WAL protocol: replay, checkpoint and rotation never lose commits.
    Statement file: theorems closed by [exact] of lemmas from Proofs/, then Print Assumptions. *)
From Coq Require Import ZArith NArith List Bool.
Import ListNotations.
Require Import MS.Base.Res MS.Model.Wal MS.Model.Replay MS.Proofs.Durable_wal MS.Proofs.Durable_files MS.Proofs.Durable_exec
  MS.Proofs.Durable_recover MS.Proofs.Durable_sem MS.Proofs.Durable_ext MS.Proofs.Durable_steps3 MS.Proofs.Durable_props
  MS.Proofs.Durable_c05.
Local Open Scope Z_scope.

(** (1) Every interleaving.  A schedule is an arbitrary list over the arms of the WAL writer loop and the
    writers: [SEnqueue] (a writer queues commands, with its catalog calls), [SFlush] (timer flush, requested
    flush, capacity flush: all call FlushToWAL), [SAck], [SWrite] (synchronous request), [SCheckpoint rotate]
    (tickerPrimary arm, with or without WAL truncation), [SShutdown].  For EVERY such schedule and EVERY crash
    prefix outside a continuation-write window: recovery succeeds and the visible state contains every
    committed transaction group ([Recovered]: fixed slots = last committed value, every committed variable
    record present).  The set of committed TGs [committed tr k] contains every TG whose flush completed,
    a fortiori every acknowledged one. *)
Theorem C05_no_commit_lost :
  forall (clen : list record -> Z), (forall x, 0 < clen x) ->
  forall owner2 owner tgid0 sched tr k,
    owner <> 0 -> 0 < tgid0 ->
    run clen 0%N owner tgid0 sched = Ok tr -> wf_sched clen owner tgid0 sched = true ->
    (k <= length tr)%nat -> guard_window tr k = true ->
    snd (recover clen 1%N owner2 (crash_img tr k)) = StartOk
    /\ Recovered (recovered_files clen owner2 tr k) (committed tr k) (unchecked tr k)
    /\ map fst (i_wals (recovered clen 1%N owner2 (crash_img tr k))) = [1%N]
    /\ (guard_newfile tr k = true -> no_pnew (recovered_files clen owner2 tr k)).
Proof. exact recovery_succeeds. Qed.
Print Assumptions C05_no_commit_lost.

(** (2) Commit order.  What recovery does to the primary files is exactly the execution of the TGs that are
    not covered by a completed checkpoint or a rotation, and their ids strictly ascend (ids are assigned by a
    counter that every flush increments, so id order = commit order). *)
Theorem C05_commit_order :
  forall (clen : list record -> Z), (forall x, 0 < clen x) ->
  forall owner2 owner tgid0 sched tr k,
    owner <> 0 -> 0 < tgid0 -> run clen 0%N owner tgid0 sched = Ok tr -> wf_sched clen owner tgid0 sched = true ->
    (k <= length tr)%nat -> guard_window tr k = true ->
    i_files (recovered clen 1%N owner2 (crash_img tr k))
      = fapplys (i_files (crash_img tr k)) (fexec clen (i_files (crash_img tr k)) (cmds_of (unchecked tr k)))
    /\ exists lo, incr_from lo (unchecked tr k).
Proof. exact recovery_is_ordered_replay. Qed.
Print Assumptions C05_commit_order.

(** (3) Checksum.  For ANY list of log records (not only the writer's), a TG is in the replay set the scan
    returns only if the log contains its body followed by a checksum record that matches. *)
Theorem C05_only_intact : forall recs size m',
  scan recs size [] [] = ScanOk m' ->
  forall id cs, In (id, Some cs) m' -> intact_in recs id cs.
Proof. exact scan_only_intact_from_empty. Qed.
Print Assumptions C05_only_intact.
