(** C17, concurrent half — the interleaving model Model/CatalogConc.v (catalog operations split at their lock
    boundaries; directory nodes are heap objects).  Only the refutation is proved; see notes/C17.md. *)
From Coq Require Import ZArith List Bool String.
From Coq.Strings Require Import Byte.
Import ListNotations.
Require Import MS.Base.Hex MS.Base.Path MS.Model.Catalog MS.Model.CatalogConc.

Definition sb (x : string) : list byte := bytes_of_string x.
Definition root : list byte := sb "/a/b/c/r".
Definition dcat : list byte := sb ":Symbol/Timeframe/AttributeGroup".

(** Full statement: for EVERY schedule of creates and (step-wise) destroys, once every operation has finished the
    running catalog lists exactly the buckets a restart would find on disk. *)
Definition C17conc_full : Prop := forall ls,
  let st := run_labels root ls in
  all_done st = true -> hlist (c_heap st) = disk_list root (c_world st).

(** Witness: buckets A/1Min/G and A/5Min/F exist.  Destroy(A/1Min/G) walks the tree (it needs no root lock after
    that); Create(A/5Min/N) - any bucket of the same symbol - takes the root lock, creates its files and scans
    A's directory, which still contains 1Min/G; Destroy removes 1Min/G and the now empty 1Min from the disk and
    from the OLD nodes it holds pointers to; Create installs the scanned sub-tree (addSubdir): the catalog lists
    A/1Min/G, the disk does not have it, the directMap still maps its path. *)
Definition C17conc_witness : list label :=
  [ LCreate (sb "A/1Min/G" ++ dcat) 2021 [x00];
    LCreate (sb "A/5Min/F" ++ dcat) 2021 [x00];
    LBegin 1 (sb "A/1Min/G");
    LCreateScan 2 (sb "A/5Min/N" ++ dcat) 2021 [x00];
    LStep 1; LStep 1; LStep 1; LStep 1;
    LCreateInstall 2 ].

Theorem C17conc_refuted : ~ C17conc_full.
Proof.
  intros H. specialize (H C17conc_witness eq_refl). vm_compute in H. discriminate H.
Qed.
Print Assumptions C17conc_refuted.

(** what exactly differs at the end of the witness *)
Example C17conc_witness_outcome :
  let st := run_labels root C17conc_witness in
  (map tbk_of (hlist (c_heap st)), map tbk_of (disk_list root (c_world st)), map fst (hp_dm (c_heap st)))
  = ([sb "A/1Min/G"; sb "A/5Min/F"; sb "A/5Min/N"], [sb "A/5Min/F"; sb "A/5Min/N"],
     [sb "/a/b/c/r/A/1Min/G"; sb "/a/b/c/r/A/5Min/F"; sb "/a/b/c/r/A/5Min/N"]).
Proof. vm_compute. reflexivity. Qed.

(** a second witness: a whole Create of the SAME bucket between two iterations of Destroy's loop *)
Example C17conc_witness2 :
  let st := run_labels root
    [ LCreate (sb "A/1Min/G" ++ dcat) 2021 [x00]; LCreate (sb "A/5Min/G" ++ dcat) 2021 [x00];
      LBegin 1 (sb "A/1Min/G"); LStep 1; LCreate (sb "A/1Min/G" ++ dcat) 2022 [x00]; LStep 1; LStep 1; LStep 1 ] in
  all_done st = true /\ hlist (c_heap st) <> disk_list root (c_world st).
Proof. vm_compute. split; [reflexivity|discriminate]. Qed.

(** Serial schedules (every destroy's steps contiguous, creates whole) of the same requests are consistent -
    the guard of the finding is "no AddTimeBucket of a symbol overlaps a RemoveTimeBucket below that symbol". *)
Example C17conc_serial :
  let st := run_labels root
    [ LCreate (sb "A/1Min/G" ++ dcat) 2021 [x00]; LCreate (sb "A/5Min/F" ++ dcat) 2021 [x00];
      LBegin 1 (sb "A/1Min/G"); LStep 1; LStep 1; LStep 1; LStep 1;
      LCreateScan 2 (sb "A/5Min/N" ++ dcat) 2021 [x00]; LCreateInstall 2;
      LCreate (sb "A/1Min/G" ++ dcat) 2022 [x00];
      LBegin 3 (sb "A/5Min/F"); LStep 3; LStep 3; LStep 3; LStep 3 ] in
  all_done st = true /\ hlist (c_heap st) = disk_list root (c_world st)
  /\ map tbk_of (hlist (c_heap st)) = [sb "A/1Min/G"; sb "A/5Min/N"].
Proof. vm_compute. repeat split; reflexivity. Qed.

(** The positive direction (consistency for every schedule in which no AddTimeBucket of a symbol overlaps a
    RemoveTimeBucket below that symbol) is NOT proved on this model; the sequential theorems C17_seq_K1/K2 are on
    the value model of Model/Catalog.v, of which the serial schedules of this model are instances (checked above
    by evaluation only). *)

(* ======================================================== the positive direction, bounded *)
Require Import MS.Proofs.CatalogConc_inv MS.Proofs.CatalogConc_K.

(** Guarded theorem, bounded instance (buckets A/1Min/G and B/1Min/G, years 2021/2022; one AddTimeBucket thread - whole
    calls or scan/install halves - and one step-wise RemoveTimeBucket thread): for EVERY schedule, of any length, in
    which each label is enabled where it fires - the guard [enabled]: one AddTimeBucket and one RemoveTimeBucket at a
    time, never both below the same symbol, everything else interleaving freely - whenever all operations have
    finished the catalog lists exactly the buckets a restart finds on disk.
    Proof: induction over the schedule; the invariant is membership in the set RK of states reachable under the guard
    (breadth-first search), closed under all enabled labels and consistent in every quiescent state by vm_compute. *)
Theorem C17conc_guarded_K : forall ls, sched_ok rootK labelsK (cinit rootK) ls ->
  let st := run_labels rootK ls in
  all_done st = true -> map tbk_of (hlist (c_heap st)) = map tbk_of (disk_list rootK (c_world st)).
Proof. exact (guarded_consistent rootK labelsK RK RK_closed RK_init RK_quiet RK_forget). Qed.
Print Assumptions C17conc_guarded_K.

(** Non-vacuity: Destroy(A/1Min/G) genuinely overlaps a split Create(B/1Min/G) - and the witness schedule of
    C17conc_refuted is exactly what the guard excludes (its Create works below the symbol being destroyed). *)
Definition kA : list byte := sbk "A/1Min/G:Symbol/Timeframe/AttributeGroup".
Definition kB : list byte := sbk "B/1Min/G:Symbol/Timeframe/AttributeGroup".
Definition C17conc_overlap : list label :=
  [ LCreate kA 2021 [x00]; LBegin 1 (sbk "A/1Min/G"); LStep 1; LCreateScan 2 kB 2022 [x00]; LStep 1; LStep 1;
    LCreateInstall 2; LStep 1; LCreate kA 2022 [x00]; LBegin 1 (sbk "B/1Min/G"); LCreateScan 2 kA 2021 [x00]; LStep 1;
    LCreateInstall 2; LStep 1; LStep 1; LStep 1 ].

Fixpoint sched_okb (s : cstate) (ls : list label) : bool :=
  match ls with [] => true | l :: r => enabled s l && sched_okb (nstep rootK s l) r end.

Example C17conc_nonvacuous :
  sched_okb (cinit rootK) C17conc_overlap = true
  /\ (let st := run_labels rootK C17conc_overlap in (all_done st, map tbk_of (hlist (c_heap st)))) = (true, [sb "A/1Min/G"])
  /\ sched_okb (cinit rootK)
       [ LCreate kA 2021 [x00]; LBegin 1 (sbk "A/1Min/G"); LStep 1; LCreate kA 2022 [x00] ] = false.
Proof. vm_compute. repeat split; reflexivity. Qed.
