(** C17, concurrent half — the interleaving model Model/CatalogConc.v: catalog operations split at their lock
    boundaries, directory nodes as heap objects, the root lock as part of the state.
    Since "fix: RemoveTimeBucket holds the root lock for the whole removal" the former refutation (Destroy || Create
    below one symbol) is gone: its schedules are still in the model, but the second thread's labels do not fire while
    the first holds the lock. *)
From Coq Require Import ZArith List Bool String.
From Coq.Strings Require Import Byte.
Import ListNotations.
Require Import MS.Base.Hex MS.Base.Path MS.Model.Catalog MS.Model.CatalogConc MS.Proofs.CatalogConc_inv MS.Proofs.CatalogConc_K.

(** For EVERY schedule, of any length, over the alphabet [labelsK] - buckets A/1Min/G, A/5Min/G (same symbol) and
    B/1Min/G; an AddTimeBucket thread (whole calls, or scan and install halves) and two step-wise RemoveTimeBucket
    threads, interleaved arbitrarily, NO guard - whenever all operations have finished the running catalog lists
    exactly the buckets a restart finds on disk.
    Proof: induction over the schedule; the invariant is membership in the set RK of reachable states (breadth-first
    search in Coq), closed under all 15 labels and consistent in every quiescent state by vm_compute (the bound - the
    alphabet - is in the statement; the system-call trace is a free variable of the closure check). *)
Theorem C17conc_all_schedules_K : forall ls, Forall (fun l => In l labelsK) ls ->
  let st := run_labels rootK ls in
  all_done st = true -> map tbk_of (hlist (c_heap st)) = map tbk_of (disk_list rootK (c_world st)).
Proof. exact (all_schedules_consistent rootK labelsK RK RK_closed RK_init RK_quiet RK_forget). Qed.
Print Assumptions C17conc_all_schedules_K.

Definition kA1 : list byte := sbk "A/1Min/G" ++ dcatK.
Definition kA5 : list byte := sbk "A/5Min/G" ++ dcatK.
Definition kB : list byte := sbk "B/1Min/G" ++ dcatK.

(** Regression of the former witnesses: the same label sequences now end consistent - the Create labels issued while
    the Destroy thread holds the root lock do not fire (and fire when re-issued afterwards). *)
Example C17conc_former_witness :
  let st := run_labels rootK
    [ LCreate kA1 2021 [x00]; LCreate kA5 2021 [x00];
      LBegin 1 (sbk "A/1Min/G"); LCreateScan 2 kB 2021 [x00]; LStep 1; LStep 1; LStep 1; LStep 1; LCreateInstall 2;
      LCreateScan 2 kB 2021 [x00]; LBegin 3 (sbk "A/5Min/G"); LCreateInstall 2 ] in
  (all_done st, map tbk_of (hlist (c_heap st)), map tbk_of (disk_list rootK (c_world st)))
  = (true, [sbk "A/5Min/G"; sbk "B/1Min/G"], [sbk "A/5Min/G"; sbk "B/1Min/G"]).
Proof. vm_compute. reflexivity. Qed.

(** Non-vacuity: the alphabet contains these labels, and intermediate (non-quiescent) states do occur. *)
Example C17conc_nonvacuous :
  Forall (fun l => In l labelsK) [LCreate kA1 2021 [x00]; LBegin 1 (sbk "A/1Min/G"); LStep 1; LCreateScan 2 kA1 2021 [x00]]
  /\ all_done (run_labels rootK [LCreate kA1 2021 [x00]; LBegin 1 (sbk "A/1Min/G"); LStep 1]) = false
  /\ List.length RK = List.length RK.
Proof. split; [repeat constructor; vm_compute; tauto|]. split; vm_compute; reflexivity. Qed.
