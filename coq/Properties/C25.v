(** C25 — Replicas converge to the master.
    Statement file: nothing but the property theorems, each closed by [exact] of a lemma proved in
    Proofs/Repl_facts.v (or by evaluation of a concrete witness), followed by Print Assumptions.

    The model (Model/Repl.v) works on PARSED write sets; the byte-level link "what the master serialises is
    what the replica parses" is builder E1's theorem TGCodec_facts.parse_serialize_roundtrip. *)
From Coq Require Import ZArith List Bool String.
From Coq.Strings Require Import Byte.
Import ListNotations.
Require Import MS.Base.GoInt MS.Base.Res MS.Base.Hex MS.Base.Bytes MS.Base.Tz MS.Model.TimeIndex MS.Model.Ticks
               MS.Generated.Src_repl MS.Model.Repl MS.Proofs.Repl_facts MS.Proofs.Ticks_decoder MS.Proofs.Repl_close.
Local Open Scope Z_scope.

(** Guarded statement.  For EVERY tick codec (get_ticks, time_from_ticks: any functions), EVERY initial
    store shared by master and replica and EVERY history of transaction groups whose write sets are well
    formed ([run_okb]: FIXED and VARIABLE sets in any mixture, timeframe of whole seconds tiling the day,
    (year, index) naming a slot, payloads of the bucket's record length, every record's DECODED time inside
    the record's interval): the replica replays the whole history without error, and its store is EXACTLY
    the store of a master that received the same history with every VARIABLE record's ticks re-encoded from
    the time they decode to ([retick]: ticks' = GetIntervalTicks32Bit (GetTimeFromTicks ticks)).  No seconds
    are lost any more, whatever the timeframe. *)
Theorem C25_guarded : forall gt tft tgs st,
  run_okb gt tft st tgs = true ->
  replica_run gt tft st tgs = ROk (master_run st (map (map (retick gt tft)) tgs)).
Proof. exact replica_guarded. Qed.
Print Assumptions C25_guarded.

(** FIXED buckets: full convergence.  The replica's store IS the master's store, hence every query
    returns the same rows. *)
Theorem C25_fixed_converges : forall gt tft tgs st,
  run_okb gt tft st tgs = true -> forallb (forallb (fun w => ws_rt w =? RT_FIXED)) tgs = true ->
  replica_run gt tft st tgs = ROk (master_run st tgs).
Proof. exact replica_fixed_guarded. Qed.
Print Assumptions C25_fixed_converges.

(** re-ticking is re-encoding of the decoded time, by definition, for every codec *)
Theorem C25_retick_reencodes : forall gt tft epoch ipd idx ipd_b rec,
  retick_rec gt tft epoch ipd idx ipd_b rec
  = firstn (List.length rec - 4) rec ++ le_bytes 4 (gt (rec_time tft epoch ipd rec) idx ipd_b).
Proof. reflexivity. Qed.
Print Assumptions C25_retick_reencodes.

(** * The concrete codec (C10's model, Flocq binary64) *)
Definition gt (t idx ipd : Z) : Z :=
  if ipd =? 0 then 0
  else enc ipd (t - (year_start tz_utc (year_of tz_utc t) + index_to_second_of_year idx ipd * NS)).
Definition tft : Z -> Z -> Z -> Z * Z := dec.

(** Not proved (stated, see notes/C25.md): the re-encoded timestamps stay within the bucket's resolution of the
    master's, i.e. the replica CONVERGES on every well-formed history, VARIABLE buckets included.  Given C25_guarded
    this is a statement about the float codec alone (decode after encode after decode is within two ticks of
    decode), C10's general bound; it is checked on the model and on the real code for every generated case.
    Since the decoder fix 551fdb4 (C10 F1) no generated or corpus case contradicts it. *)
Definition C25_variable_close : Prop := forall tgs,
  run_okb gt tft [] tgs = true ->
  exists sr, replica_run gt tft [] tgs = ROk sr /\ convergedb tft (master_run [] tgs) sr = true.

(** Proved part of it, at the level of one record (corollary of builder-B's analytic round-trip bound
    C10_roundtrip_partial, hence under its side condition [dec_nowrapb] on the re-encoded tick; Flocq's Reals
    axioms).  The master shows a record with ticks k at offset o_m = dec_offset ipd k from the interval start; the
    replica stores k' = enc ipd o_m (by C25_guarded / C25_retick_reencodes, with [gt] below being enc of the offset
    from the interval base) and shows it at o_r = dec_offset ipd k'.  Then o_r is in the interval, NOT AFTER o_m, at
    most ONE resolution step (ceil(interval/2^32) ns) before it, and EQUAL to it for 1Sec buckets.
    What is still missing for the store-level [C25_variable_close]: GetTimeFromTicks with a non-zero interval start
    ([dec start] vs [dec 0]), exactness of IndexToTimeDepr's float quotient (base of [gt] = interval start), and the
    bookkeeping through the tick-sorted slots and the row matching of [convergedb]. *)
Theorem C25_variable_close_partial : forall ipd k,
  In ipd ipds ->
  let o_m := dec_offset ipd k in
  0 <= o_m < interval_ns ipd ->
  dec_nowrapb ipd (enc ipd o_m) = true ->
  let o_r := dec_offset ipd (enc ipd o_m) in
  0 <= o_r <= o_m /\ o_m - o_r <= Ticks.step_ns ipd /\ (ipd = 86400 -> o_r = o_m).
Proof. exact reencode_close. Qed.
Print Assumptions C25_variable_close_partial.

(** the model's concrete get_ticks is enc of the offset from the base IndexToTimeDepr computes *)
Theorem C25_gt_is_enc : forall t idx ipd, ipd <> 0 ->
  gt t idx ipd = enc ipd (t - (year_start tz_utc (year_of tz_utc t) + index_to_second_of_year idx ipd * NS)).
Proof. intros t idx ipd H. unfold gt. destruct (Z.eqb_spec ipd 0); [contradiction | reflexivity]. Qed.
Print Assumptions C25_gt_is_enc.

Definition b (s : string) : list byte := bytes_of_string s.
Local Open Scope string_scope.
Definition sh_A : list shape := [(b "Epoch", ET_INT64); (b "A", ET_INT32)].
Definition minute : Z := 60000000000.
Definition second : Z := 1000000000.

(** [F21a variable-seconds-within-interval is FIXED in /repo: serializeVariableRecords keeps the decoded second;
    the former witness (1Min bucket, tick at 12:00:37.5) is part of the non-vacuity example below.] *)
Definition w_a : ws :=
  mkws RT_VARIABLE (b "AAA/1Min/TICK") minute 2020 91441
       ([x01; x00; x00; x00] ++ le_bytes 4 (enc 1440 37500000000)) 8 sh_A.

(** [The decoder's second rounding (C10 F1), which made a tick written at x.999999999 s differ by a second between
    master and replica, is FIXED in /repo 551fdb4; the former witness is part of the non-vacuity example below.] *)
Definition w_r : ws :=
  mkws RT_VARIABLE (b "RRR/1Sec/TICK") second 2020 5486438
       ([x01; x00; x00; x00] ++ le_bytes 4 (enc 86400 999999999)) 8 sh_A.

(** [F21b mixed-record-types-in-tg is FIXED in /repo: Replay uses each write set's own record type; the
    former witness, a FIXED set followed by a VARIABLE one, is part of the non-vacuity example below.] *)
Definition w_v1 : ws := mkws RT_VARIABLE (b "VVV/1Sec/TICK") second 2020 5486438 ([x01; x00; x00; x00] ++ le_bytes 4 0) 8 sh_A.
Definition w_f  : ws := mkws RT_FIXED (b "FFF/1Min/OHLC") minute 2020 91442 [x02; x00; x00; x00] 0 sh_A.
Definition w_v2 : ws := mkws RT_VARIABLE (b "VVV/1Sec/TICK") second 2020 5486439 ([x03; x00; x00; x00] ++ le_bytes 4 0) 8 sh_A.

(** Non-vacuity: a history with a FIXED transaction group of two write sets, a VARIABLE 1Sec set, a MIXED
    group (FIXED overwrite of a slot followed by a VARIABLE set: the former F21b witness) and a 1Min tick with
    37.5 s inside the interval (the former F21a witness) and a 1Sec tick at x.999999999 s (the former rounding
    witness) meets the guard of C25_guarded with the concrete codec, and the replica converges on it. *)
Definition w_f2 : ws := mkws RT_FIXED (b "FFF/1Min/OHLC") minute 2020 91443 [x05; x00; x00; x00] 0 sh_A.
Definition w_f3 : ws := mkws RT_FIXED (b "FFF/1Min/OHLC") minute 2020 91442 [x07; x00; x00; x00] 0 sh_A.
Definition ex_hist : list (list ws) := [[w_f; w_f2]; [w_v1]; [w_f3; w_v2]; [w_a]; [w_r]].

Example C25_nonvacuous :
  run_okb gt tft [] ex_hist = true /\
  (exists sr, replica_run gt tft [] ex_hist = ROk sr /\ convergedb tft (master_run [] ex_hist) sr = true).
Proof. split; [vm_compute; reflexivity|]. eexists. split; [vm_compute; reflexivity | vm_compute; reflexivity]. Qed.
