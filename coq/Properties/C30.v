(** C30 — Interval indexing is a bijection onto a year's slots.
    Statement file: the property theorems, each closed by [exact] of a lemma proved in
    Proofs/TimeIndex_facts.v, followed by Print Assumptions.

    Quantification: EVERY zone table [z] (utils.InstanceConfig.Timezone) and [loc] (time.Local), every
    instant [t] (nanoseconds, unbounded), every timeframe that tiles the day and is >= 1 s (all of
    utils.Timeframes, C30_timeframes), every record size of an int32.  The guards are boolean and
    evaluated on every harness case:
      year_okb z y   both ends of t's local year are regular wall-clock seconds of the zone (no
                     offset change within a day of local new year) and carry the same offset;
      day_okb z t    (1D only) the local midnights bounding t's calendar day are regular.
    Daylight-saving transitions INSIDE the year need no hypothesis. *)
From Coq Require Import ZArith List Bool.
Import ListNotations.
Require Import MS.Base.GoInt MS.Base.Res MS.Base.Civil MS.Base.Tz MS.Generated.Src_io MS.Generated.Src_time
  MS.Model.TimeIndex MS.Proofs.TimeIndex_facts.
Local Open Scope Z_scope.

(** Intraday timeframes.  t lies in exactly one slot; the slot's interval is [start, start + tf);
    converting the start back gives the slot; another instant of the year has the same slot iff it
    lies in the same interval (distinct intervals <-> distinct slots); and when time.Local's year is
    regular too the slot lies inside the data area of the year's file. *)
Theorem C30_intraday : forall z loc t tf r,
  let y := year_of z t in
  divides_day tf = true -> NS <= tf -> tf <> utils_Day -> year_okb z y = true ->
  exists idx, TimeToIndex z t tf = Ok idx /\ 1 <= idx
    /\ IndexToTime z idx tf y <= t < IndexToTime z (idx + 1) tf y
    /\ IndexToTime z (idx + 1) tf y = IndexToTime z idx tf y + tf
    /\ TimeToIndex z (IndexToTime z idx tf y) tf = Ok idx
    /\ (forall t2, year_of z t2 = y ->
         (TimeToIndex z t2 tf = Ok idx <-> IndexToTime z idx tf y <= t2 < IndexToTime z (idx + 1) tf y))
    /\ (year_okb loc y = true -> 0 < r < 2147483648 ->
        exists fs, FileSize loc tf y r = Ok fs
          /\ Headersize <= IndexToOffset idx r /\ IndexToOffset idx r + r <= fs).
Proof. exact intraday_all. Qed.
Print Assumptions C30_intraday.

(** The daily timeframe.  The slot is YearDay-1 (0-based!), its interval is the local calendar day,
    the conversions agree, distinct days <-> distinct slots, the slot ends inside the file — and it
    starts inside the data area exactly when it is not January 1st. *)
Theorem C30_daily : forall z loc t r,
  let y := year_of z t in
  year_okb z y = true -> day_okb z t = true ->
  exists idx, TimeToIndex z t utils_Day = Ok idx /\ idx = yearday z t - 1 /\ 0 <= idx < days_in_year y
    /\ IndexToTime z idx utils_Day y <= t < IndexToTime z (idx + 1) utils_Day y
    /\ TimeToIndex z (IndexToTime z idx utils_Day y) utils_Day = Ok idx
    /\ (forall t2, year_of z t2 = y ->
         (TimeToIndex z t2 utils_Day = Ok idx
          <-> IndexToTime z idx utils_Day y <= t2 < IndexToTime z (idx + 1) utils_Day y))
    /\ (year_okb loc y = true -> 0 < r < 2147483648 ->
        exists fs, FileSize loc utils_Day y r = Ok fs
          /\ IndexToOffset idx r + r <= fs
          /\ (1 <= idx -> Headersize <= IndexToOffset idx r)
          /\ (idx = 0 -> IndexToOffset idx r < Headersize)).
Proof. exact daily_all. Qed.
Print Assumptions C30_daily.

(** every on-disk timeframe of utils.Timeframes (regenerated from the source on every run) tiles the
    day and is at least a second long, so C30_intraday / C30_daily cover all of them *)
Theorem C30_timeframes : forall tf, is_timeframe tf = true -> divides_day tf = true /\ NS <= tf.
Proof. exact is_timeframe_tiles. Qed.
Print Assumptions C30_timeframes.

(** fixed-offset zones (UTC, the default configuration) satisfy the year guard's content for every
    year: the year bracket holds unconditionally *)
Theorem C30_utc_year : forall t,
  year_start tz_utc (year_of tz_utc t) <= t < year_start tz_utc (year_of tz_utc t + 1).
Proof. exact year_bracket_utc. Qed.
Print Assumptions C30_utc_year.

(** Full statement 1 (the property as given: "every slot lies inside the file's data area", for every
    supported timeframe): refuted by the faithful model — the 1D index of January 1st is 0 and
    IndexToOffset(0) = Headersize - recordSize lies inside the header.  [Finding daily-jan1-slot0] *)
Definition C30_full : Prop := forall z loc t tf r,
  let y := year_of z t in
  is_timeframe tf = true -> year_okb z y = true -> year_okb loc y = true -> day_okb z t = true ->
  0 < r < 2147483648 ->
  exists idx fs, TimeToIndex z t tf = Ok idx /\ FileSize loc tf y r = Ok fs
    /\ Headersize <= IndexToOffset idx r /\ IndexToOffset idx r + r <= fs.

Theorem C30_refuted : ~ C30_full.
Proof.
  intros H. (* 1970-01-01T00:00:00Z, 1D, record size 24, everything UTC *)
  destruct (H tz_utc tz_utc 0 utils_Day 24 eq_refl eq_refl eq_refl eq_refl ltac:(split; reflexivity))
    as (idx & fs & Hi & _ & Hlo & _).
  vm_compute in Hi. injection Hi as <-. vm_compute in Hlo. apply Hlo. reflexivity.
Qed.
Print Assumptions C30_refuted.

(** Full statement 2 (the property as given: "for the configured timezone", any well-formed zone):
    the data-area conjunct without the year guard.  Refuted: Europe/Moscow moved from UTC+4 to UTC+3
    on 2014-10-26, so its local year 2014 is 365 d + 1 h long while FileSize (time.Local = UTC)
    allots 365 d; 23:30 on 2014-12-31 falls into hourly slot 8761 of 8760.  [Finding year-irregular-zone] *)
Definition C30_full_anyzone : Prop := forall z loc t tf r,
  let y := year_of z t in
  wf_tzb z = true -> wf_tzb loc = true -> is_timeframe tf = true -> tf <> utils_Day ->
  0 < r < 2147483648 ->
  exists idx fs, TimeToIndex z t tf = Ok idx /\ FileSize loc tf y r = Ok fs
    /\ Headersize <= IndexToOffset idx r /\ IndexToOffset idx r + r <= fs.

Definition moscow_2014 : tz := (14400, [(1414274400, 10800)]).

Theorem C30_anyzone_refuted : ~ C30_full_anyzone.
Proof.
  intros H.
  destruct (H moscow_2014 tz_utc (1420057800 * NS) 3600000000000 24 eq_refl eq_refl eq_refl
              ltac:(discriminate) ltac:(split; reflexivity)) as (idx & fs & Hi & Hf & _ & Hhi).
  vm_compute in Hi. injection Hi as <-. vm_compute in Hf. injection Hf as <-.
  vm_compute in Hhi. apply Hhi. reflexivity.
Qed.
Print Assumptions C30_anyzone_refuted.

(** Full statement 3 (slot and interval start convert back and forth, 1D, any well-formed zone with a
    regular year): the round trip without the day guard.  Refuted: America/Sao_Paulo started DST at
    local midnight of 2018-11-04 (00:00 -> 01:00); IndexToTime(307) = time.Date(2018,1,308,0:00) does
    not exist and is normalised to 2018-11-03 23:00, whose index is 306.  [Finding daily-irregular-midnight] *)
Definition C30_full_anyday : Prop := forall z t,
  let y := year_of z t in
  wf_tzb z = true -> year_okb z y = true ->
  exists idx, TimeToIndex z t utils_Day = Ok idx
    /\ TimeToIndex z (IndexToTime z idx utils_Day y) utils_Day = Ok idx.

Definition sao_paulo_2018 : tz := (-7200, [(1518919200, -10800); (1541300400, -7200); (1550368800, -10800)]).

Theorem C30_anyday_refuted : ~ C30_full_anyday.
Proof.
  intros H. destruct (H sao_paulo_2018 (1541305800 * NS) eq_refl eq_refl) as (idx & Hi & Hb).
  vm_compute in Hi. injection Hi as <-. vm_compute in Hb. discriminate Hb.
Qed.
Print Assumptions C30_anyday_refuted.

(** Non-vacuity: America/New_York (transitions of 2020-2022), 1Min, an instant one nanosecond before
    the 2021 spring-forward transition; time.Local = UTC: all guards of C30_intraday hold. *)
Definition new_york : tz :=
  (-18000, [(1583650800, -14400); (1604210400, -18000); (1615705200, -14400); (1636264800, -18000);
            (1647154800, -14400); (1667714400, -18000)]).

Example C30_nonvacuous_intraday :
  let t := 1615705200 * NS - 1 in
  divides_day 60000000000 = true /\ NS <= 60000000000 /\ 60000000000 <> utils_Day
  /\ year_okb new_york (year_of new_york t) = true /\ year_okb tz_utc (year_of new_york t) = true
  /\ TimeToIndex new_york t 60000000000 = Ok 103800.
Proof. vm_compute. repeat split; try reflexivity; discriminate. Qed.

(** ... and of C30_daily: the same zone on the 25-hour day 2021-11-07 *)
Example C30_nonvacuous_daily :
  let t := 1636264800 * NS + 5 in
  year_okb new_york (year_of new_york t) = true /\ day_okb new_york t = true
  /\ TimeToIndex new_york t utils_Day = Ok 310.
Proof. vm_compute. repeat split; reflexivity. Qed.
