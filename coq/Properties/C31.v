(** C31 — Timeframe and candle-window arithmetic is consistent.
    Statement file: the property theorems, each closed by [exact] of a lemma of
    Proofs/Timeframe_facts.v, followed by Print Assumptions.

    Quantification: every candle duration [cd] that CandleDurationFromString can produce (C31_parse_wf:
    any string), every zone table [z], every timestamp [ts] (nanoseconds, unbounded).  The boolean
    guard Timeframe.window_okb names the defect classes exactly:
      mult_okb          multiplier >= 1 and multiplier * unit fits int64;
      "D"               day_window_okb: regular local midnights and ts + 24 h falls on a later date;
      "W"               one week, location at UTC offset 0 at ts and at the window start;
      "M"               month_window_okb: regular local midnights of the first of the month and of the next month;
      "Y"               year_window_okb: same UTC offset at ts and at the (absolute, 365-day) window start. *)
From Coq Require Import ZArith List Bool String.
Import ListNotations.
Require Import MS.Base.GoInt MS.Base.Res MS.Base.Civil MS.Base.Tz MS.Generated.Src_time
  MS.Model.TimeIndex MS.Model.Timeframe MS.Proofs.Timeframe_facts.
Local Open Scope string_scope.
Local Open Scope Z_scope.

(** what the parser produces is well-formed (suffix from the fixed list, duration = multiplier * unit mod 2^64) *)
Theorem C31_parse_wf : forall s cd, CandleDurationFromString s = Some cd -> wf_cd cd.
Proof. exact CandleDurationFromString_wf. Qed.
Print Assumptions C31_parse_wf.

(** window start <= ts < window end, and ts is inside its own window *)
Theorem C31_window : forall z cd ts, wf_cd cd -> window_okb z cd ts = true ->
  cd_truncate z cd ts <= ts < cd_ceil z cd ts /\ cd_is_within z cd ts (cd_truncate z cd ts) = true.
Proof. exact window_all. Qed.
Print Assumptions C31_window.

(** for the absolute suffixes the window is exactly [start, start + duration), in every zone *)
Theorem C31_window_abs : forall z cd ts,
  String.eqb (cd_suffix cd) "D" = false -> String.eqb (cd_suffix cd) "M" = false -> 0 < cd_duration cd ->
  cd_truncate z cd ts <= ts < cd_ceil z cd ts
  /\ cd_ceil z cd ts = cd_truncate z cd ts + cd_duration cd
  /\ cd_truncate z cd ts = time_truncate ts (cd_duration cd).
Proof. exact abs_window. Qed.
Print Assumptions C31_window_abs.

(** the timeframe chosen for querying is an on-disk timeframe whose duration divides the candle's *)
Theorem C31_queryable : forall cd, wf_cd cd -> mult_okb cd = true ->
  tf_duration (QueryableTimeframe cd) <> 0
  /\ Z.rem (cd_duration cd) (tf_duration (QueryableTimeframe cd)) = 0.
Proof. exact queryable_divides. Qed.
Print Assumptions C31_queryable.

(** print / parse stability, for EVERY duration that is an exact multiple of the unit it is printed
    in (print_okb; a finite set: the proof is a reflection over all 200 of them) *)
Theorem C31_print_parse : forall d, print_okb d = true ->
  exists p, TimeframeFromDuration d = Some (p, d) /\ TimeframeFromString p = Some (p, d).
Proof. exact print_parse_stable. Qed.
Print Assumptions C31_print_parse.

(** Full statement (the property as given: every candle duration and timestamp, any zone). *)
Definition C31_full : Prop := forall z s cd ts,
  wf_tzb z = true -> CandleDurationFromString s = Some cd ->
  cd_truncate z cd ts <= ts < cd_ceil z cd ts /\ cd_is_within z cd ts (cd_truncate z cd ts) = true.

Definition new_york : tz :=
  (-18000, [(1583650800, -14400); (1604210400, -18000); (1615705200, -14400); (1636264800, -18000);
            (1647154800, -14400); (1667714400, -18000)]).

(** [Finding day-not-24h] 2021-11-07 00:30 EDT (a 25-hour day): Ceil adds 24 h = 23:30 the same
    calendar day, so the window end is the window start. *)
Theorem C31_refuted_day25h : ~ C31_full.
Proof.
  intros H. destruct (H new_york "1D" _ (1636259400 * NS) eq_refl eq_refl) as [[_ Hc] _].
  vm_compute in Hc. discriminate Hc.
Qed.
Print Assumptions C31_refuted_day25h.

(** [Finding week-not-utc-or-multiple] Monday 2021-03-01 10:00 in New York: Truncate aligns to Monday
    00:00 UTC = Sunday 19:00 local, whose ISO week (local) is the previous one. *)
Theorem C31_refuted_week_zone : ~ C31_full.
Proof.
  intros H. destruct (H new_york "1W" _ (1614610800 * NS) eq_refl eq_refl) as [_ Hw].
  vm_compute in Hw. discriminate Hw.
Qed.
Print Assumptions C31_refuted_week_zone.

(** [Finding multiplier-zero-or-overflow] "0Min": duration 0, Truncate = Ceil = ts. *)
Theorem C31_refuted_zero_mult : ~ C31_full.
Proof.
  intros H. destruct (H tz_utc "0Min" _ 0 eq_refl eq_refl) as [[_ Hc] _].
  vm_compute in Hc. discriminate Hc.
Qed.
Print Assumptions C31_refuted_zero_mult.

(** Full statement of print/parse stability (every parsable timeframe string). *)
Definition C31_print_full : Prop := forall s d,
  TimeframeFromString s = Some (s, d) ->
  exists p, TimeframeFromDuration d = Some (p, d) /\ TimeframeFromString p = Some (p, d).

(** [Finding print-non-unit-duration] "90Sec" prints as "1Min" (90 s), which parses as 60 s. *)
Theorem C31_print_refuted : ~ C31_print_full.
Proof.
  intros H. destruct (H "90Sec" 90000000000 eq_refl) as (p & Hp & Hq).
  vm_compute in Hp. injection Hp as <-. vm_compute in Hq. discriminate Hq.
Qed.
Print Assumptions C31_print_refuted.

(** Non-vacuity: "1D" on the 25-hour day once the first hour has passed (01:30 EST = 06:30 UTC),
    "1W" in UTC, "15Min" anywhere, and a printable duration. *)
Example C31_nonvacuous :
  (exists cd, CandleDurationFromString "1D" = Some cd /\ window_okb new_york cd (1636266600 * NS) = true)
  /\ (exists cd, CandleDurationFromString "1W" = Some cd /\ window_okb tz_utc cd (1614610800 * NS) = true)
  /\ (exists cd, CandleDurationFromString "15Min" = Some cd /\ window_okb new_york cd (1614610800 * NS + 7) = true)
  /\ print_okb 7200000000000 = true.
Proof. repeat split; try (eexists; split; [ reflexivity | vm_compute; reflexivity ]). Qed.
