(** C23 — Scalar aggregates and gap detection are correct.
    Statement file: the property theorems, each closed by [exact] of a lemma proved in Proofs/,
    followed by Print Assumptions.  Model: Model/Uda.v (uda/count, min, max, avg, gap). *)
From Coq Require Import ZArith List Bool Permutation.
Import ListNotations.
Require Import MS.Base.GoInt MS.Base.Res MS.Base.F32 MS.Base.F64 MS.Model.Uda MS.Proofs.Uda_facts.
Local Open Scope Z_scope.

(** An aggregate object receives the input in any number of Accum calls ([chunks]); [typed chunks vss]
    says that call i carries a column of an element type ColumnToFloat32 converts (float32, float64,
    int, int32, int64) whose float32 values are [vss_i], with ColumnSeries.Len() = their number. *)

(** count = number of input rows, for every chunking (int64 counter: below 2^63 rows) *)
Theorem C23_count : forall chunks, total_len chunks <= ity_max I64 ->
  run count_accum count_init chunks = Ok (total_len chunks).
Proof. exact count_correct. Qed.
Print Assumptions C23_count.

Theorem C23_count_rows : forall chunks vss, typed chunks vss ->
  total_len chunks = Z.of_nat (length (concat vss)).
Proof. exact total_len_typed. Qed.
Print Assumptions C23_count_rows.

(** min / max: whatever the chunking, Accum computes the float32 fold whose first element initialises
    ([fold_ext]; no rows: the zero value, uninitialised) *)
Theorem C23_min_fold : forall chunks vss, typed chunks vss ->
  run min_accum m_new chunks = Ok (fold_ext min_step (concat vss)).
Proof. exact min_run_fold. Qed.
Print Assumptions C23_min_fold.

Theorem C23_max_fold : forall chunks vss, typed chunks vss ->
  run max_accum m_new chunks = Ok (fold_ext max_step (concat vss)).
Proof. exact max_run_fold. Qed.
Print Assumptions C23_max_fold.

(** … and on non-empty NaN-free input that fold is a least / greatest element w.r.t. Go's [<=]
    (the order-independent specification), unique up to Go's [==] and hence permutation invariant *)
Theorem C23_min_spec : forall l, l <> [] -> f32_nonan l = true ->
  m_init (fold_ext min_step l) = true /\ is_min (m_val (fold_ext min_step l)) l.
Proof. exact min_fold_is_min. Qed.
Print Assumptions C23_min_spec.

Theorem C23_max_spec : forall l, l <> [] -> f32_nonan l = true ->
  m_init (fold_ext max_step l) = true /\ is_max (m_val (fold_ext max_step l)) l.
Proof. exact max_fold_is_max. Qed.
Print Assumptions C23_max_spec.

Theorem C23_min_perm : forall l l', Permutation l l' -> l <> [] -> f32_nonan l = true ->
  f32_eq (m_val (fold_ext min_step l)) (m_val (fold_ext min_step l')) = true.
Proof. exact min_perm_invariant. Qed.
Print Assumptions C23_min_perm.

Theorem C23_max_perm : forall l l', Permutation l l' -> l <> [] -> f32_nonan l = true ->
  f32_eq (m_val (fold_ext max_step l)) (m_val (fold_ext max_step l')) = true.
Proof. exact max_perm_invariant. Qed.
Print Assumptions C23_max_perm.

(** avg = (float64 left-fold sum of the float32 values, in input order) / float64(count) *)
Theorem C23_avg : forall chunks vss, typed chunks vss -> Z.of_nat (length (concat vss)) <= ity_max I64 ->
  exists st, run avg_accum a_new chunks = Ok st
    /\ avg_out st = f64_div (sum64 (concat vss) f64_zero) (f64_of_Z (Z.of_nat (length (concat vss)))).
Proof. exact avg_correct. Qed.
Print Assumptions C23_avg.

(** gap with explicit threshold [thr] seconds: exactly the consecutive pairs whose difference exceeds it,
    as rows (start, end, end - start); epochs and threshold exactly representable in float64 *)
Theorem C23_gap : forall thr l, 0 <= thr -> thr + 1 < 2 ^ 53 -> Forall small53 l ->
  gap_accum thr (length l, CI64 l) = Ok (gaps_spec thr l).
Proof. exact gap_exact. Qed.
Print Assumptions C23_gap.

Theorem C23_gap_pointwise : forall thr l a b d,
  In (a, b, d) (gaps_spec thr l) <->
  exists i, nth_error l i = Some a /\ nth_error l (S i) = Some b /\ d = b - a /\ b - a > thr.
Proof. exact gaps_spec_iff. Qed.
Print Assumptions C23_gap_pointwise.

(** the boolean guards used by the harness imply the hypotheses *)
Theorem C23_guard_sound : forall chunks, forallb chunk_okb chunks = true -> typed chunks (map vals_of chunks).
Proof. exact chunks_okb_typed. Qed.
Print Assumptions C23_guard_sound.

Theorem C23_gap_guard_sound : forall l, forallb small53b l = true -> Forall small53 l.
Proof. exact small53b_spec. Qed.
Print Assumptions C23_gap_guard_sound.

(** empty and single-row inputs, explicitly *)
Theorem C23_empty :
  run count_accum count_init [(0%nat, CF32 [])] = Ok 0
  /\ run min_accum m_new [(0%nat, CF32 [])] = Ok m_new /\ f32_bits (m_val m_new) = 0
  /\ run max_accum m_new [(0%nat, CF32 [])] = Ok m_new
  /\ (exists st, run avg_accum a_new [(0%nat, CF32 [])] = Ok st /\ f64_is_nan (avg_out st) = true)
  /\ (forall thr, gap_accum thr (0%nat, CI64 []) = Ok []).
Proof.
  repeat split; try reflexivity. eexists. split; reflexivity.
Qed.
Print Assumptions C23_empty.

Theorem C23_single : forall v : f32,
  run min_accum m_new [(1%nat, CF32 [v])] = Ok {| m_init := true; m_val := v |}
  /\ run max_accum m_new [(1%nat, CF32 [v])] = Ok {| m_init := true; m_val := v |}
  /\ run count_accum count_init [(1%nat, CF32 [v])] = Ok 1
  /\ (forall thr e, gap_accum thr (1%nat, CI64 [e]) = Ok []).
Proof.
  intros v. split; [|split; [|split]].
  - apply (C23_min_fold [(1%nat, CF32 [v])] [[v]]). repeat constructor.
  - apply (C23_max_fold [(1%nat, CF32 [v])] [[v]]). repeat constructor.
  - reflexivity.
  - intros thr e. reflexivity.
Qed.
Print Assumptions C23_single.

(** ---- the property as stated ("all input columns of any numeric type", "all thresholds") ---- *)

(** (a) any numeric element type: refuted — ColumnToFloat32 silently returns an empty slice for int16,
    uint8, uint16, uint32, uint64 …, so min/max panic and avg yields NaN. *)
Definition C23_full_anytype : Prop := forall (c : col) (n : nat),
  c <> CMissing -> col_len c = n -> (0 < n)%nat ->
  (exists st, run min_accum m_new [(n, c)] = Ok st) /\
  (exists st, run avg_accum a_new [(n, c)] = Ok st /\ f64_is_nan (avg_out st) = false \/ supported c = true).

Theorem C23_refuted_anytype : ~ C23_full_anytype.
Proof.
  intros H. assert (A : COther 1 <> CMissing) by discriminate.
  destruct (H (COther 1) 1%nat A eq_refl (le_n 1)) as [[st Hs] _].
  vm_compute in Hs. discriminate Hs.
Qed.
Print Assumptions C23_refuted_anytype.

(** (b) all epochs: refuted beyond 2^53 — the differences are taken in float64 *)
Definition C23_full_gap : Prop := forall thr l, 0 <= thr -> thr + 1 < 2 ^ 53 ->
  gap_accum thr (length l, CI64 l) = Ok (gaps_spec thr l).

Theorem C23_refuted_gap : ~ C23_full_gap.
Proof.
  intros H. assert (A : 0 <= 3) by discriminate. assert (B : 3 + 1 < 2 ^ 53) by reflexivity.
  specialize (H 3 [2 ^ 53 + 1; 2 ^ 53 + 3] A B). vm_compute in H. discriminate H.
Qed.
Print Assumptions C23_refuted_gap.

(** Non-vacuity: concrete non-trivial inputs meet the hypotheses. *)
Example C23_nonvacuous_typed :
  typed [(2%nat, CI64 [5; -3]); (0%nat, CF32 []); (1%nat, CF64 [f64_of_Z 7])]
        [[f32_of_Z 5; f32_of_Z (-3)]; []; [f32_of_f64 (f64_of_Z 7)]]
  /\ f32_nonan [f32_of_Z 5; f32_of_Z (-3); f32_of_f64 (f64_of_Z 7)] = true.
Proof. split; [repeat constructor | vm_compute; reflexivity]. Qed.

Example C23_nonvacuous_gap :
  0 <= 60 /\ 60 + 1 < 2 ^ 53 /\ Forall small53 [1600000000; 1600000060; 1600000200; 1599999000]
  /\ gaps_spec 60 [1600000000; 1600000060; 1600000200; 1599999000] = [(1600000060, 1600000200, 140)].
Proof.
  split; [discriminate|]. split; [reflexivity|]. split; [|reflexivity].
  apply C23_gap_guard_sound. reflexivity.
Qed.
