(** C13 — Multi-symbol and column-projected queries agree with single queries.
    Statement file: theorems closed by [exact] of lemmas proved in Proofs/ (witness refutations by
    computation), followed by Print Assumptions. *)
From Coq Require Import ZArith List Bool.
From Coq.Strings Require Import Byte.
Import ListNotations.
Require Import MS.Base.Res MS.Base.Hex MS.Model.MQuery MS.Proofs.MQuery_facts.

(** For EVERY catalog (any symbols, any stored series), request symbol list WITHOUT repetitions
    (existing and missing symbols in any order) and column list (any names, unknown, duplicated):
    if the multi-symbol query answers, then each catalogued symbol of the request has, under its key,
    exactly the response of its own single-symbol query with the same column list, and the response
    has no other keys (missing symbols are simply absent). *)
Theorem C13_multi_is_single : forall cat syms cols R,
  nodup_b syms = true -> exec cat syms cols = Ok R ->
  (forall s c, In s syms -> find_sym s cat = Some c ->
     find_key s R = Some (filter_columns cols c)
     /\ exec cat [s] cols = Ok [(s, filter_columns cols c)])
  /\ (forall s x, find_key s R = Some x -> In s syms /\ exists c, find_sym s cat = Some c /\ x = filter_columns cols c).
Proof. exact multi_is_single. Qed.
Print Assumptions C13_multi_is_single.

(** ... and it does answer whenever some requested symbol is catalogued and the projected series of
    the hit symbols carry the same column names ([compat], the guard). *)
Theorem C13_multi_succeeds : forall cat syms cols,
  compat cat syms cols = true -> hits cat syms cols <> [] ->
  exec cat syms cols = Ok (hits cat syms cols).
Proof. exact multi_succeeds. Qed.
Print Assumptions C13_multi_succeeds.

(** "*" (expanded to every symbol of the catalog) answers every catalogued symbol as its own query does *)
Theorem C13_star : forall cat allsyms cols R,
  nodup_b allsyms = true -> (forall s c, find_sym s cat = Some c -> In s allsyms) ->
  exec_star cat allsyms cols = Ok R ->
  forall s c, find_sym s cat = Some c ->
    find_key s R = Some (filter_columns cols c) /\ exec cat [s] cols = Ok [(s, filter_columns cols c)].
Proof. exact star_covers. Qed.
Print Assumptions C13_star.

(** Projection: the column names are Epoch, the requested names that exist (request order,
    repetitions kept) and Nanoseconds if stored; every returned column is the stored column of that
    name, bit for bit (so the rows and values are the same); every requested existing column is
    returned; unknown names are ignored. *)
Theorem C13_projection_names : forall cols cs, cols <> [] ->
  cs_names (filter_columns cols cs)
  = filter (fun n => is_some' (find_col n cs)) (epoch_n :: cols ++ [nanos_n]).
Proof. exact projection_names. Qed.
Print Assumptions C13_projection_names.

Theorem C13_projection_values : forall cols cs c,
  In c (filter_columns cols cs) -> find_col (cname' c) cs = Some c \/ (cols = [] /\ In c cs).
Proof. exact projection_values. Qed.
Print Assumptions C13_projection_values.

Theorem C13_projection_complete : forall cols cs n c,
  In n cols -> find_col n cs = Some c -> In c (filter_columns cols cs).
Proof. exact projection_complete. Qed.
Print Assumptions C13_projection_complete.

(** * The statement without the guards *)
Definition C13_full : Prop := forall cat syms cols s c,
  In s syms -> find_sym s cat = Some c ->
  exists R, exec cat syms cols = Ok R /\ find_key s R = Some (filter_columns cols c).

Definition n_A : name := [x41].
Definition n_C : name := [x43].
Definition n_P : name := [x50].
Definition n_Q : name := [x51].
Definition n_R : name := [x52].
Definition ep8 : list byte := [x01; x00; x00; x00; x00; x00; x00; x00].
Definition w_cat : catalog :=
  [ (n_A, [(epoch_n, 3%Z, ep8); (n_P, 1%Z, [x01; x00; x00; x00]); (n_Q, 1%Z, [x0a; x00; x00; x00])]);
    (n_C, [(epoch_n, 3%Z, ep8); (n_P, 1%Z, [x04; x00; x00; x00]); (n_R, 1%Z, [x28; x00; x00; x00])]) ].

(** class mixed-schema-multi-query-rejected: symbols A (P,Q) and C (P,R) queried together without a
    common-column projection: NumpyMultiDataset.Append refuses, the whole query fails *)
Theorem C13_refuted_mixed : ~ C13_full.
Proof.
  intros H. destruct (H w_cat [n_A; n_C] [] n_A _ (or_introl eq_refl) eq_refl) as [R [He _]].
  vm_compute in He. discriminate He.
Qed.
Print Assumptions C13_refuted_mixed.

(** class duplicate-symbol-in-list: "A,A" scans A's files twice, every row comes back twice *)
Theorem C13_refuted_duplicate : ~ C13_full.
Proof.
  intros H. destruct (H w_cat [n_A; n_A] [] n_A _ (or_introl eq_refl) eq_refl) as [R [He Hk]].
  vm_compute in He. inversion He; subst. vm_compute in Hk. discriminate Hk.
Qed.
Print Assumptions C13_refuted_duplicate.

(** Non-vacuity: with the common-column projection [P] the two symbols answer together, each as alone. *)
Example C13_nonvacuous :
  nodup_b [n_C; [x5a]; n_A] = true /\ compat w_cat [n_C; [x5a]; n_A] [n_P] = true
  /\ exec w_cat [n_C; [x5a]; n_A] [[x6e]; n_P; n_P] =
       Ok [ (n_C, [(epoch_n, 3%Z, ep8); (n_P, 1%Z, [x04; x00; x00; x00]); (n_P, 1%Z, [x04; x00; x00; x00])]);
            (n_A, [(epoch_n, 3%Z, ep8); (n_P, 1%Z, [x01; x00; x00; x00]); (n_P, 1%Z, [x01; x00; x00; x00])]) ].
Proof. repeat split; vm_compute; reflexivity. Qed.
