(** C22 — Candle aggregation composes across timeframes.
    Statement file: the property theorems, each closed by [exact] of a lemma proved in Proofs/,
    followed by Print Assumptions.  Model: Model/Candle.v. *)
From Coq Require Import ZArith String List Bool Permutation.
Import ListNotations.
Require Import MS.Base.GoInt MS.Base.Res MS.Base.F32 MS.Base.F64 MS.Model.Uda MS.Model.Candle
               MS.Proofs.Uda_facts MS.Proofs.Candle_map MS.Proofs.Candle_ohlc MS.Proofs.Candle_compose.
Local Open Scope Z_scope.

(** [fine_bars cd1 rows]: the output of a candler of timeframe cd1 on [rows], read back as input bars
    (Epoch = window start in seconds, Open, High, Low, Close).

    General form — ANY two timeframes in ANY system timezone (a candle duration carries its local-midnight
    function): if window starts are fixed points ([idem]), the fine truncation is monotone and yields whole
    seconds, and the windows NEST (hypothesis [nests cd1 cd2]: truncating a fine window start to the coarse
    timeframe = truncating the instant), then the coarse candle of window W built from the fine candles has the
    same open and close and the same high and low (as numbers: Go's ==) as the one built from the rows — for all
    row lists with distinct timestamps and NaN-free prices, none in a fine window starting at Go's zero time. *)
Theorem C22_compose : forall cd1 cd2 rows,
  idem cd1 -> idem cd2 -> mono cd1 -> nests cd1 cd2 -> whole_sec cd1 -> rows_ok rows ->
  (forall r, In r rows -> truncate cd1 (b_t r) <> zero_time) ->
  forall W, (exists r, In r rows /\ truncate cd2 (b_t r) = W) ->
  NoDup (map b_t rows) -> f32_nonan (map b_h rows) = true -> f32_nonan (map b_l rows) = true ->
  ohlc_eq (window_candle cd2 0 W (fine_bars cd1 rows)) (window_candle cd2 0 W rows).
Proof. exact compose_ohlc. Qed.
Print Assumptions C22_compose.

(** both routes produce candles for exactly the same coarse windows *)
Theorem C22_windows : forall cd1 cd2 rows W,
  idem cd1 -> idem cd2 -> mono cd1 -> nests cd1 cd2 -> whole_sec cd1 -> rows_ok rows ->
  ((exists fb, In fb (fine_bars cd1 rows) /\ truncate cd2 (b_t fb) = W) <-> (exists r, In r rows /\ truncate cd2 (b_t r) = W)).
Proof. exact compose_windows. Qed.
Print Assumptions C22_windows.

(** the executable pipeline the harness drives — the fine candler's output column series mapped as
    Open/High/Low/Close into a coarse CandleCandler — computes exactly the candle map of [fine_bars] *)
Theorem C22_pipeline : forall cd1 cd2 rows, idem cd1 -> rows <> [] ->
  run_accum cd2 [] [out_to_input (output [] [] (accum_all cd1 0 [rows]))] = Ok (accum_all cd2 0 [fine_bars cd1 rows]).
Proof. exact pipeline_is_fine_bars. Qed.
Print Assumptions C22_pipeline.

(** The hypotheses are PROVED for zones at a fixed UTC offset [off] (UTC: off = 0) when [divides_in_zone]: the
    fine window length is a whole number of seconds and divides the coarse one, and the grid origins differ by a
    multiple of it — for Sec/Min/H under D that means: the zone offset is a multiple of the fine duration. *)
Theorem C22_zone : forall off cd1 cd2, divides_in_zone off cd1 cd2 ->
  idem cd1 /\ idem cd2 /\ mono cd1 /\ nests cd1 cd2 /\ whole_sec cd1.
Proof.
  intros off cd1 cd2 D. repeat split;
    [exact (zone_idem1 off cd1 cd2 D) | exact (zone_idem2 off cd1 cd2 D) | exact (zone_mono1 off cd1 cd2 D)
    | exact (zone_nests off cd1 cd2 D) | exact (zone_whole_sec1 off cd1 cd2 D)].
Qed.
Print Assumptions C22_zone.

(** in UTC dividing window lengths suffice (0001-01-01 .. 1970-01-01 is a whole number of days) *)
Theorem C22_utc : forall cd1 cd2, divides cd1 cd2 -> divides_in_zone 0 cd1 cd2.
Proof. exact divides_utc. Qed.
Print Assumptions C22_utc.

(** [divides_in_zone] for concrete timeframes and offsets, decided by computation *)
Theorem C22_dividesb_sound : forall off m1 s1 m2 s2,
  dividesb_zone off (cd_of_zone off m1 s1) (cd_of_zone off m2 s2) = true ->
  divides_in_zone off (cd_of_zone off m1 s1) (cd_of_zone off m2 s2).
Proof. exact dividesb_zone_of. Qed.
Print Assumptions C22_dividesb_sound.

Definition C22_tick (t : Z) (p : f32) : bar := {| b_t := t; b_o := p; b_h := p; b_l := p; b_c := p; b_acc := [] |}.

(** ---- "whenever the fine timeframe divides the coarse one" is refuted outside such zones ----
    Zone at UTC+00:30, 1H -> 1D: local midnight is 23:30 UTC, inside the (absolute) hour window 23:00-24:00 UTC.
    Ticks at 23:10 UTC (price 10, local day 1) and 23:40 UTC (price 5, local day 2): directly, day 1 has Low 10
    and day 2 exists; through the hourly candle (stamped 23:00 UTC = day 1) day 1 gets Low 5 and day 2 no candle. *)
Definition C22_full_zone : Prop := forall off m1 s1 m2 s2 rows W,
  let cd1 := cd_of_zone off m1 s1 in let cd2 := cd_of_zone off m2 s2 in
  0 < eff_dur cd1 -> (exists k, 0 < k /\ eff_dur cd2 = k * eff_dur cd1) -> rows_ok rows ->
  (forall r, In r rows -> truncate cd1 (b_t r) <> zero_time) ->
  (exists r, In r rows /\ truncate cd2 (b_t r) = W) -> NoDup (map b_t rows) ->
  f32_nonan (map b_h rows) = true -> f32_nonan (map b_l rows) = true ->
  f32_eq (c_l (window_candle cd2 0 W (fine_bars cd1 rows))) (c_l (window_candle cd2 0 W rows)) = true.

Definition C22_zone_witness : list bar :=
  [C22_tick (1600038600 * NS) (f32_of_Z 10); C22_tick (1600040400 * NS) (f32_of_Z 5)].   (* 2020-09-13 23:10 and 23:40 UTC *)

Theorem C22_refuted_zone : ~ C22_full_zone.
Proof.
  intros H. specialize (H (1800 * NS) 1 "H"%string 1 "D"%string C22_zone_witness (1599953400 * NS)). cbv zeta in H.
  assert (P : 0 < eff_dur (cd_of_zone (1800 * NS) 1 "H")) by reflexivity.
  assert (K : exists k, 0 < k /\ eff_dur (cd_of_zone (1800 * NS) 1 "D") = k * eff_dur (cd_of_zone (1800 * NS) 1 "H")).
  { exists 24. split; reflexivity. }
  assert (OK : rows_ok C22_zone_witness).
  { split; [|vm_compute; discriminate]. intros r [E|[E|[]]]; subst r; cbn [b_t C22_tick]; vm_compute; discriminate. }
  assert (NZ : forall r, In r C22_zone_witness -> truncate (cd_of_zone (1800 * NS) 1 "H") (b_t r) <> zero_time).
  { intros r [E|[E|[]]]; subst r; cbn [b_t C22_tick]; vm_compute; discriminate. }
  assert (EX : exists r, In r C22_zone_witness /\ truncate (cd_of_zone (1800 * NS) 1 "D") (b_t r) = 1599953400 * NS).
  { eexists. split; [left; reflexivity | vm_compute; reflexivity]. }
  assert (ND : NoDup (map b_t C22_zone_witness)).
  { cbn [map b_t C22_tick C22_zone_witness]. repeat constructor; cbn [In]; intros X;
      repeat (destruct X as [X|X]; [vm_compute in X; discriminate X|]); exact X. }
  specialize (H P K OK NZ EX ND eq_refl eq_refl). vm_compute in H. discriminate H.
Qed.
Print Assumptions C22_refuted_zone.

(** ---- the statement for ALL row sets is refuted by NaN prices ---- *)
Definition C22_full : Prop := forall cd1 cd2 rows W, divides cd1 cd2 -> rows_ok rows ->
  (forall r, In r rows -> truncate cd1 (b_t r) <> zero_time) ->
  (exists r, In r rows /\ truncate cd2 (b_t r) = W) -> NoDup (map b_t rows) ->
  f32_eq (c_h (window_candle cd2 0 W (fine_bars cd1 rows))) (c_h (window_candle cd2 0 W rows)) = true.

(** 1Min -> 5Min: minute 1 holds 3, minute 2 holds NaN then 5.  Directly the 5-minute high is 5; the
    second minute candle has high NaN (NaN came first), which [>] never promotes over 3: high 3. *)
Definition C22_witness : list bar :=
  [C22_tick (1600000020 * NS) (f32_of_Z 3); C22_tick (1600000080 * NS) (f32_of_bits 0x7fc00000); C22_tick (1600000100 * NS) (f32_of_Z 5)].

Lemma C22_div_1_5 : divides (cd_of 1 "Min"%string) (cd_of 5 "Min"%string).
Proof.
  split; [reflexivity|]. split; [reflexivity|]. split; [reflexivity|].
  split; [exists 60; reflexivity | exists 5; split; reflexivity].
Qed.

Theorem C22_refuted : ~ C22_full.
Proof.
  intros H. specialize (H (cd_of 1 "Min"%string) (cd_of 5 "Min"%string) C22_witness (1599999900 * NS) C22_div_1_5).
  assert (OK : rows_ok C22_witness).
  { split; [|vm_compute; discriminate]. intros r [E|[E|[E|[]]]]; subst r; cbn [b_t C22_tick]; vm_compute; discriminate. }
  assert (NZ : forall r, In r C22_witness -> truncate (cd_of 1 "Min"%string) (b_t r) <> zero_time).
  { intros r [E|[E|[E|[]]]]; subst r; cbn [b_t C22_tick]; vm_compute; discriminate. }
  assert (EX : exists r, In r C22_witness /\ truncate (cd_of 5 "Min"%string) (b_t r) = 1599999900 * NS).
  { eexists. split; [left; reflexivity | vm_compute; reflexivity]. }
  assert (ND : NoDup (map b_t C22_witness)).
  { cbn [map b_t C22_tick C22_witness]. repeat constructor; cbn [In]; intros K;
      repeat (destruct K as [K|K]; [vm_compute in K; discriminate K|]); exact K. }
  specialize (H OK NZ EX ND). vm_compute in H. discriminate H.
Qed.
Print Assumptions C22_refuted.

(** Non-vacuity: concrete timeframes, zones and rows meet the hypotheses of C22_compose via C22_zone. *)
Example C22_nonvacuous :
  let rows := [C22_tick (1600000020 * NS) (f32_of_Z 3); C22_tick (1600000080 * NS) (f32_of_Z 9); C22_tick (1600000100 * NS) (f32_of_Z 5);
               C22_tick (1600000300 * NS) (f32_of_Z 4)] in
  divides_in_zone 0 (cd_of 1 "Min"%string) (cd_of 5 "Min"%string)
  /\ divides_in_zone 0 (cd_of 15 "Min"%string) (cd_of 1 "D"%string)
  /\ divides_in_zone (19800 * NS) (cd_of_zone (19800 * NS) 30 "Min"%string) (cd_of_zone (19800 * NS) 1 "D"%string)   (* UTC+05:30, 30Min -> 1D *)
  /\ rows_ok rows /\ NoDup (map b_t rows) /\ f32_nonan (map b_h rows) = true
  /\ List.length (fine_bars (cd_of 1 "Min"%string) rows) = 3%nat.
Proof.
  cbv zeta. split; [|split; [|split; [|split; [|split; [|split]]]]].
  - apply C22_dividesb_sound. vm_compute. reflexivity.
  - apply C22_dividesb_sound. vm_compute. reflexivity.
  - apply C22_dividesb_sound. vm_compute. reflexivity.
  - split; [|vm_compute; discriminate]. intros r [E|[E|[E|[E|[]]]]]; subst r; cbn [b_t C22_tick]; vm_compute; discriminate.
  - cbn [map b_t C22_tick]. repeat constructor; cbn [In]; intros K;
      repeat (destruct K as [K|K]; [vm_compute in K; discriminate K|]); exact K.
  - vm_compute. reflexivity.
  - vm_compute. reflexivity.
Qed.
