(** C22 — Candle aggregation composes across timeframes.
    Statement file: the property theorems, each closed by [exact] of a lemma proved in Proofs/,
    followed by Print Assumptions.  Model: Model/Candle.v. *)
From Coq Require Import ZArith String List Bool Permutation.
Import ListNotations.
Require Import MS.Base.GoInt MS.Base.Res MS.Base.F32 MS.Base.F64 MS.Model.Uda MS.Model.Candle
               MS.Proofs.Uda_facts MS.Proofs.Candle_map MS.Proofs.Candle_ohlc MS.Proofs.Candle_compose.
Local Open Scope Z_scope.

(** [fine_bars cd1 rows]: the output of a candler of timeframe cd1 on [rows], read back as input bars
    (Epoch = window start in seconds, Open, High, Low, Close).  [divides cd1 cd2]: the fine window length
    is a whole number of seconds and divides the coarse window length (for "D": 24 h, in UTC).
    Then the coarse candle of window W built from the fine candles has the same open and close and the
    same high and low (as numbers: Go's ==) as the coarse candle built from the rows directly — for all
    row lists with distinct timestamps and NaN-free prices, none stamped in the window of Go's zero time. *)
Theorem C22_compose : forall cd1 cd2 rows, divides cd1 cd2 -> rows_ok rows ->
  (forall r, In r rows -> truncate cd1 (b_t r) <> zero_time) ->
  forall W, (exists r, In r rows /\ truncate cd2 (b_t r) = W) ->
  NoDup (map b_t rows) -> f32_nonan (map b_h rows) = true -> f32_nonan (map b_l rows) = true ->
  ohlc_eq (window_candle cd2 0 W (fine_bars cd1 rows)) (window_candle cd2 0 W rows).
Proof. exact compose_ohlc. Qed.
Print Assumptions C22_compose.

(** both routes produce candles for exactly the same coarse windows *)
Theorem C22_windows : forall cd1 cd2 rows W, divides cd1 cd2 -> rows_ok rows ->
  ((exists fb, In fb (fine_bars cd1 rows) /\ truncate cd2 (b_t fb) = W) <-> (exists r, In r rows /\ truncate cd2 (b_t r) = W)).
Proof. exact compose_windows. Qed.
Print Assumptions C22_windows.

(** the executable pipeline the harness drives — the fine candler's output column series mapped as
    Open/High/Low/Close into a coarse CandleCandler — computes exactly the candle map of [fine_bars] *)
Theorem C22_pipeline : forall cd1 cd2 rows, rows <> [] ->
  run_accum cd2 [] [out_to_input (output [] [] (accum_all cd1 0 [rows]))] = Ok (accum_all cd2 0 [fine_bars cd1 rows]).
Proof. exact pipeline_is_fine_bars. Qed.
Print Assumptions C22_pipeline.

(** windows nest when the fine length divides the coarse one (proved, not assumed) *)
Theorem C22_nest : forall cd1 cd2 t, divides cd1 cd2 -> truncate cd2 (truncate cd1 t) = truncate cd2 t.
Proof. exact truncate_nest. Qed.
Print Assumptions C22_nest.

(** [divides] for concrete timeframes, decided by computation *)
Theorem C22_dividesb_sound : forall cd1 cd2, dividesb cd1 cd2 = true -> divides cd1 cd2.
Proof. exact dividesb_sound. Qed.
Print Assumptions C22_dividesb_sound.

(** ---- the statement for ALL row sets is refuted by NaN prices ---- *)
Definition C22_full : Prop := forall cd1 cd2 rows W, divides cd1 cd2 -> rows_ok rows ->
  (forall r, In r rows -> truncate cd1 (b_t r) <> zero_time) ->
  (exists r, In r rows /\ truncate cd2 (b_t r) = W) -> NoDup (map b_t rows) ->
  f32_eq (c_h (window_candle cd2 0 W (fine_bars cd1 rows))) (c_h (window_candle cd2 0 W rows)) = true.

Definition C22_tick (t : Z) (p : f32) : bar := {| b_t := t; b_o := p; b_h := p; b_l := p; b_c := p; b_acc := [] |}.
(** 1Min -> 5Min: minute 1 holds 3, minute 2 holds NaN then 5.  Directly the 5-minute high is 5; the
    second minute candle has high NaN (NaN came first), which [>] never promotes over 3: high 3. *)
Definition C22_witness : list bar :=
  [C22_tick (1600000020 * NS) (f32_of_Z 3); C22_tick (1600000080 * NS) (f32_of_bits 0x7fc00000); C22_tick (1600000100 * NS) (f32_of_Z 5)].

Theorem C22_refuted : ~ C22_full.
Proof.
  intros H. specialize (H (cd_of 1 "Min"%string) (cd_of 5 "Min"%string) C22_witness (1599999900 * NS)).
  assert (D : divides (cd_of 1 "Min"%string) (cd_of 5 "Min"%string)) by (apply C22_dividesb_sound; vm_compute; reflexivity).
  assert (OK : rows_ok C22_witness).
  { split; [|vm_compute; discriminate]. intros r [E|[E|[E|[]]]]; subst r; cbn [b_t C22_tick]; vm_compute; discriminate. }
  assert (NZ : forall r, In r C22_witness -> truncate (cd_of 1 "Min"%string) (b_t r) <> zero_time).
  { intros r [E|[E|[E|[]]]]; subst r; cbn [b_t C22_tick]; vm_compute; discriminate. }
  assert (EX : exists r, In r C22_witness /\ truncate (cd_of 5 "Min"%string) (b_t r) = 1599999900 * NS).
  { eexists. split; [left; reflexivity | vm_compute; reflexivity]. }
  assert (ND : NoDup (map b_t C22_witness)).
  { cbn [map b_t C22_tick C22_witness]. repeat constructor; cbn [In]; intros K;
      repeat (destruct K as [K|K]; [vm_compute in K; discriminate K|]); exact K. }
  specialize (H D OK NZ EX ND). vm_compute in H. discriminate H.
Qed.
Print Assumptions C22_refuted.

(** Non-vacuity: concrete timeframes and rows meet the hypotheses of C22_compose. *)
Example C22_nonvacuous :
  let rows := [C22_tick (1600000020 * NS) (f32_of_Z 3); C22_tick (1600000080 * NS) (f32_of_Z 9); C22_tick (1600000100 * NS) (f32_of_Z 5);
               C22_tick (1600000300 * NS) (f32_of_Z 4)] in
  divides (cd_of 1 "Min"%string) (cd_of 5 "Min"%string) /\ divides (cd_of 15 "Min"%string) (cd_of 1 "D"%string)
  /\ rows_ok rows /\ NoDup (map b_t rows) /\ f32_nonan (map b_h rows) = true
  /\ List.length (fine_bars (cd_of 1 "Min"%string) rows) = 3%nat.
Proof.
  cbv zeta. split; [|split; [|split; [|split; [|split]]]].
  - apply C22_dividesb_sound. vm_compute. reflexivity.
  - apply C22_dividesb_sound. vm_compute. reflexivity.
  - split; [|vm_compute; discriminate]. intros r [E|[E|[E|[E|[]]]]]; subst r; cbn [b_t C22_tick]; vm_compute; discriminate.
  - cbn [map b_t C22_tick]. repeat constructor; cbn [In]; intros K;
      repeat (destruct K as [K|K]; [vm_compute in K; discriminate K|]); exact K.
  - vm_compute. reflexivity.
  - vm_compute. reflexivity.
Qed.
