(** C14 — Writes are validated against the bucket schema.
    Statement file: the property theorems, each closed by [exact] of a lemma proved in Proofs/. *)
From Coq Require Import ZArith List Bool String Permutation.
From Coq.Strings Require Import Byte.
Import ListNotations.
From Flocq Require Import IEEE754.BinarySingleNaN.
Require Import MS.Base.GoInt MS.Base.Res MS.Base.Hex MS.Base.Bytes MS.Base.F32 MS.Base.F64 MS.Generated.Src_io
               MS.Model.Rows MS.Model.Coerce MS.Proofs.Coerce_facts MS.Proofs.CoerceF32_facts MS.Proofs.CoerceOrder_facts.
Local Open Scope Z_scope.

(* ======================================================== (a) rejection and "changes no bucket" *)

(** A request that names an existing bucket whose column names do not match the bucket's (different
    number of columns, or a bucket column missing from the request) is not accepted - for EVERY iteration
    order of the request map ([reqs] is the map in the order Go happens to iterate it). *)
Theorem C14_mismatch_rejected : forall reqs st bad b,
  NoDup (map r_key reqs) -> In bad reqs ->
  find_bucket (w_buckets st) (r_key bad) = Some b -> names_mismatch (b_shapes b) (r_cols bad) ->
  snd (write_csm st reqs) <> 0%nat.
Proof. exact name_mismatch_rejected. Qed.
Print Assumptions C14_mismatch_rejected.

(** A request that fails, for whatever reason and in whatever order, stores nothing by itself. *)
Theorem C14_failed_stores_nothing : forall st reqs st' code,
  write_csm st reqs = (st', code) -> code <> 0%nat -> forall k, stored st' k = stored st k.
Proof. exact failed_request_stores_nothing. Qed.
Print Assumptions C14_failed_stores_nothing.

(** Guarded "changes no bucket named in the request": if the failing bucket is the FIRST one the map
    iteration reaches (in particular: a one-bucket request, or a request all of whose buckets fail), nothing
    stays in the write pipe and the next accepted request stores nothing on its behalf. *)
Theorem C14_rejected_first_changes_nothing : forall st r rest st' code next st2,
  w_queue st = [] -> snd (write_one st r) <> 0%nat ->
  write_csm st (r :: rest) = (st', code) ->
  write_csm st' next = (st2, 0%nat) ->
  forall k, ~ In k (map r_key next) -> stored st2 k = stored st k.
Proof. exact rejected_first_changes_nothing. Qed.
Print Assumptions C14_rejected_first_changes_nothing.

(** Full statement (every iteration order): a rejected request changes no bucket it names - not even after
    the next accepted request, which is when queued rows reach the files. *)
Definition C14a_full : Prop := forall st reqs st' code next st2,
  w_queue st = [] -> write_csm st reqs = (st', code) -> code <> 0%nat ->
  write_csm st' next = (st2, 0%nat) ->
  forall k, In k (map r_key reqs) -> ~ In k (map r_key next) -> stored st2 k = stored st k.

Definition s (x : string) : list byte := bytes_of_string x.
Definition i64 (v : Z) : list byte := le_bytes 8 v.
Definition i32 (v : Z) : list byte := le_bytes 4 v.
Definition epoch_col (v : Z) : col := mkcol epoch_name ET_INT64 (i64 v).

(** buckets A(x int32) and B(y int32) exist; the request {A: x=7 (fine), B: column "zz" (mismatch)} is iterated
    as [A; B]: A's row is queued, B rejects, no flush; the next request (on Z) flushes A's row *)
Definition C14a_st : wstate :=
  mkS [mkB (s "A") [(epoch_name, ET_INT64); (s "x", ET_INT32)] [];
       mkB (s "B") [(epoch_name, ET_INT64); (s "y", ET_INT32)] []] [].
Definition C14a_req : list breq :=
  [mkR (s "A") [epoch_col 60; mkcol (s "x") ET_INT32 (i32 7)];
   mkR (s "B") [epoch_col 120; mkcol (s "zz") ET_INT32 (i32 9)]].
Definition C14a_next : list breq := [mkR (s "Z") [epoch_col 180; mkcol (s "f") ET_INT32 (i32 1)]].

Theorem C14a_refuted : ~ C14a_full.
Proof.
  intros H.
  specialize (H C14a_st C14a_req (fst (write_csm C14a_st C14a_req)) 1%nat C14a_next
                (fst (write_csm (fst (write_csm C14a_st C14a_req)) C14a_next)) eq_refl eq_refl
                ltac:(discriminate) eq_refl (s "A") ltac:(left; reflexivity)
                ltac:(vm_compute; intros [K|[]]; discriminate K)).
  vm_compute in H. discriminate H.
Qed.
Print Assumptions C14a_refuted.

(** the same request iterated as [B; A] meets the guard of C14_rejected_first_changes_nothing *)
Example C14a_nonvacuous :
  w_queue C14a_st = [] /\ snd (write_one C14a_st (nth 1 C14a_req (mkR [] []))) <> 0%nat
  /\ snd (write_csm C14a_st (rev C14a_req)) = 1%nat
  /\ find_bucket (w_buckets C14a_st) (s "B") = Some (mkB (s "B") [(epoch_name, ET_INT64); (s "y", ET_INT32)] [])
  /\ names_mismatch [(epoch_name, ET_INT64); (s "y", ET_INT32)] (r_cols (nth 1 C14a_req (mkR [] []))).
Proof.
  repeat split; try (vm_compute; (reflexivity || discriminate)).
  right. exists (s "y"). split; [right; left; reflexivity|]. vm_compute. intros [K|[K|[]]]; discriminate K.
Qed.

(* ======================================================== (b) coercion = Go's numeric conversion *)

(** integer -> integer: every pair of the 9 integer element types (BYTE = int8 included), EVERY value,
    whichever of toInt / toUint the destination goes through: the bytes of T_dst(v), Go's wrap-around conversion *)
Theorem C14_coerce_int_int : forall (src dst : ity) (via_int : bool) (v : Z),
  coerce_elem (KInt dst) via_int (EInt v (ity_signed src)) = Ok (le_bytes (ity_width dst) (wrap dst v)).
Proof. exact coerce_int_int. Qed.
Print Assumptions C14_coerce_int_int.

(** float -> integer: for a finite float whose truncation fits the destination (where Go defines the
    conversion; for uint64 below 2^63) the stored value is that truncation *)
Theorem C14_coerce_float_int : forall (dst : ity) (x : f64),
  is_finite x = true -> fits dst (Btrunc x) ->
  coerce_elem (KInt dst) (ity_signed dst) (EFloat x) = Ok (le_bytes (ity_width dst) (Btrunc x)).
Proof. exact coerce_float_int. Qed.
Print Assumptions C14_coerce_float_int.

(** integer -> float64 and float -> float are literally Go's conversions (one rounding each) *)
Theorem C14_coerce_to_f64 : forall via v sg,
  coerce_elem KF64 via (EInt v sg) = Ok (le_bytes 8 (f64_bits (f64_of_Z v))).
Proof. exact coerce_int_f64. Qed.
Theorem C14_coerce_f64_f32 : forall via x,
  coerce_elem KF32 via (EFloat x) = Ok (le_bytes 4 (f32_bits (f32_of_f64 x))).
Proof. reflexivity. Qed.

(** integer -> float32, guarded: the implementation rounds twice (via float64); for |v| < 2^53 - every
    value of the 8/16/32-bit types and the small 64-bit ones - that equals Go's direct float32(v) *)
Theorem C14_coerce_int_f32_guarded : forall via v sg, Z.abs v < 2 ^ 53 ->
  coerce_elem KF32 via (EInt v sg) = Ok (le_bytes 4 (f32_bits (f32_of_Z v))).
Proof. intros via v sg H. rewrite coerce_int_f32, (f32_via_f64_exact v H). reflexivity. Qed.
Print Assumptions C14_coerce_int_f32_guarded.

(** Full statement: the same for every int64 value. *)
Definition C14b_full : Prop := forall via v, in_ity I64 v ->
  coerce_elem KF32 via (EInt v true) = Ok (le_bytes 4 (f32_bits (f32_of_Z v))).

Theorem C14b_refuted : ~ C14b_full.
Proof.
  intros H. specialize (H true (2 ^ 54 + 2 ^ 30 + 1) ltac:(vm_compute; split; discriminate)).
  vm_compute in H. discriminate H.
Qed.
Print Assumptions C14b_refuted.

Example C14b_nonvacuous : Z.abs (- 9007199254740991) < 2 ^ 53 /\ in_ity I64 (- 9007199254740991)
  /\ f32_bits (f32_of_Z (- 9007199254740991)) = 0xda000000.
Proof. vm_compute. repeat split; discriminate. Qed.

(* ======================================================== (c) columns match by name *)

(** (since "fix: WriteCSM lays the rows out in the bucket's column order"; the former refutation C14c_refuted -
    columns matched by name but stored by position - is gone)
    A one-row, one-bucket request whose columns are the bucket's columns (same names and types) in ANY order is
    accepted and stored per column name: the stored row is the bucket's columns' values in the BUCKET's order.
    Hypotheses: distinct bucket column names, Epoch (int64) first in the bucket, no other column whose name
    case-insensitively equals "epoch" (C29's finding), every column holds exactly one value. *)
Theorem C14_stored_by_name : forall key sh cols,
  Permutation (cs_shapes cols) sh -> NoDup (map fst sh) -> hd_error sh = Some (epoch_name, ET_INT64) ->
  (forall s0, In s0 (tl sh) -> is_epoch_name (fst s0) = false) ->
  Forall (fun c => List.length (cdata c) = tsize (ctype c)) cols ->
  let '(st', code) := write_csm (mkS [mkB key sh []] []) [mkR key cols] in
  code = 0%nat /\ stored st' key = [row_by_name sh cols].
Proof. exact stored_by_name. Qed.
Print Assumptions C14_stored_by_name.

(** Non-vacuity and regression of the former witness: bucket (Epoch, x float32, y int32); request (Epoch, y = 8, x = 2.5f)
    meets the hypotheses; the stored row is epoch, x, y. *)
Definition C14c_sh : list shape := [(epoch_name, ET_INT64); (s "x", ET_FLOAT32); (s "y", ET_INT32)].
Definition C14c_cols : list col :=
  [epoch_col 60; mkcol (s "y") ET_INT32 (i32 8); mkcol (s "x") ET_FLOAT32 (le_bytes 4 0x40200000)].

Example C14c_nonvacuous :
  Permutation (cs_shapes C14c_cols) C14c_sh /\ NoDup (map fst C14c_sh)
  /\ stored (fst (write_csm (mkS [mkB (s "A") C14c_sh []] []) [mkR (s "A") C14c_cols])) (s "A")
     = [i64 60 ++ le_bytes 4 0x40200000 ++ i32 8].
Proof.
  split; [apply perm_skip, perm_swap|]. split; [repeat constructor; vm_compute; intuition discriminate|].
  vm_compute. reflexivity.
Qed.
