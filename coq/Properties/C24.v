(** C24 — On-disk aggregation matches the base data.
    Statement file: the property theorems, each closed by [exact] of a lemma proved in Proofs/,
    followed by Print Assumptions.  Model: Model/AggTrigger.v (contrib/ondiskagg/aggtrigger Fire, write,
    writeAggregates, aggregate; io.ColumnSeriesUnion, io.SliceColumnSeriesByEpoch). *)
From Coq Require Import ZArith List Bool.
Import ListNotations.
Require Import MS.Base.GoInt MS.Base.Res MS.Base.F32 MS.Base.F64 MS.Model.Uda MS.Model.AggTrigger
               MS.Proofs.Uda_facts MS.Proofs.AggTrigger_sorted MS.Proofs.AggTrigger_agg MS.Proofs.AggTrigger_facts.
Local Open Scope Z_scope.

(** [run dests history]: the state after every write of [history] to the base bucket was followed by the
    trigger's Fire on the written records.  Stores are series sorted by epoch, one bar per epoch. *)

(** what [aggregate] computes on a sorted series: one bar per window that holds rows, each from exactly the
    rows of its window ([window_bar]), the output sorted by window *)
Theorem C24_aggregate : forall d l, sorted l ->
  (forall B, In B (aggregate d l) -> window_bar d (e5 B) l = Some B)
  /\ (forall x, In x l -> exists B, In B (aggregate d l) /\ e5 B = win d x).
Proof. exact aggregate_spec. Qed.
Print Assumptions C24_aggregate.

Theorem C24_aggregate_sorted : forall d l, sorted l -> sorted (aggregate d l).
Proof. exact aggregate_sorted. Qed.
Print Assumptions C24_aggregate_sorted.

(** … and what one such bar holds: epoch = window start, open = first open, close = last close, high / low =
    the float32 folds (a greatest / least element for NaN-free input), volume = float32 left-fold sum *)
Theorem C24_bar : forall w x g,
  let B := agg_bar w x g in
  e5 B = w /\ o5 B = o5 x /\ c5 B = c5 (last (x :: g) x)
  /\ h5 B = m_val (fold_ext max_step (map h5 (x :: g)))
  /\ l5 B = m_val (fold_ext min_step (map l5 (x :: g)))
  /\ v5 B = fold_left f32_add (map v5 (x :: g)) f32_zero
  /\ (f32_nonan (map h5 (x :: g)) = true -> is_max (h5 B) (map h5 (x :: g)))
  /\ (f32_nonan (map l5 (x :: g)) = true -> is_min (l5 B) (map l5 (x :: g))).
Proof. exact agg_bar_spec. Qed.
Print Assumptions C24_bar.

(** Guarded theorem.  Destinations positive, multiples of the alignment unit u (60 s for one-minute bars) and
    nesting in the largest one; the history append-only and in time order ([hist_ok]: every write non-empty,
    sorted, aligned to u, and wholly after everything written before).  Then after the whole history every
    destination store is exactly the aggregation of the base store — whichever way Fire went (no cache, valid
    cache + union, invalid cache + query). *)
Theorem C24_guarded : forall u dests h, 1 < u -> (u | abs_epoch_s) -> dests_ok u dests -> hist_ok u [] h ->
  let st := run dests h in
  dest st = map (fun d => aggregate d (base st)) dests /\ sorted (base st).
Proof. exact guarded. Qed.
Print Assumptions C24_guarded.

(** the boolean guards used by the harness imply the hypotheses *)
Theorem C24_guard_sound : forall u dests h, dests_okb u dests = true -> hist_okb u None h = true ->
  dests_ok u dests /\ hist_ok u [] h.
Proof.
  intros u dests h H1 H2. split; [apply dests_okb_sound, H1 | apply (hist_okb_sound u h None []); [reflexivity | exact H2]].
Qed.
Print Assumptions C24_guard_sound.

(** ---- the property for ALL histories is refuted by the faithful model ---- *)

(** (a) a corrected base bar inside the cached window: the union lets the cached row win *)
Definition C24_full : Prop := forall dests h, dests_okb 60 dests = true -> writes_wfb 60 h = true ->
  dest_matches dests (run dests h) = true.

Definition C24_mk (e : Z) (p : Z) : bar5 :=
  {| e5 := e; o5 := f32_of_Z p; h5 := f32_of_Z (p + 1); l5 := f32_of_Z (p - 1); c5 := f32_of_Z p; v5 := f32_of_Z 10 |}.
Definition C24_t0 : Z := 1578700800.      (* 2020-01-11 00:00:00 UTC *)

Definition C24_witness_rewrite : list (list bar5) :=
  [ [C24_mk C24_t0 1; C24_mk (C24_t0 + 60) 2; C24_mk (C24_t0 + 120) 3; C24_mk (C24_t0 + 300) 4];
    [C24_mk (C24_t0 + 60) 20] ].

Theorem C24_refuted : ~ C24_full.
Proof.
  intros H. specialize (H [300; 900] C24_witness_rewrite eq_refl eq_refl). vm_compute in H. discriminate H.
Qed.
Print Assumptions C24_refuted.

(** (b) even when no bar is ever rewritten: a write that starts before the cached window passes the cache's
    validity test and the earlier window is re-aggregated from the new rows and the cached slice alone *)
Definition C24_full_norewrite : Prop := forall dests h, dests_okb 60 dests = true -> writes_wfb 60 h = true ->
  no_rewriteb h = true -> dest_matches dests (run dests h) = true.

Definition C24_witness_late : list (list bar5) :=
  [ [C24_mk (C24_t0 + 240) 5];
    [C24_mk (C24_t0 + 900) 6; C24_mk (C24_t0 + 960) 7];
    [C24_mk (C24_t0 + 120) 9; C24_mk (C24_t0 + 1020) 8] ].

Theorem C24_refuted_late : ~ C24_full_norewrite.
Proof.
  intros H. specialize (H [300; 900] C24_witness_late eq_refl eq_refl eq_refl). vm_compute in H. discriminate H.
Qed.
Print Assumptions C24_refuted_late.

(** Non-vacuity: a concrete non-trivial history meets the hypotheses of C24_guarded (three writes, the second
    inside the cached upper-bound window — valid-cache path —, the third beyond it — query path). *)
Example C24_nonvacuous :
  let h := [ [C24_mk C24_t0 1; C24_mk (C24_t0 + 60) 2; C24_mk (C24_t0 + 360) 3];
             [C24_mk (C24_t0 + 420) 4; C24_mk (C24_t0 + 600) 5];
             [C24_mk (C24_t0 + 1800) 6; C24_mk (C24_t0 + 1860) 7] ] in
  1 < 60 /\ (60 | abs_epoch_s) /\ dests_ok 60 [300; 900] /\ hist_ok 60 [] h
  /\ map (fun s => length s) (dest (run [300; 900] h)) = [4%nat; 2%nat].
Proof.
  cbv zeta. split; [reflexivity|]. split; [exists 1035593280; reflexivity|].
  split; [apply dests_okb_sound; reflexivity|].
  split; [apply (hist_okb_sound 60 _ None []); [reflexivity | vm_compute; reflexivity]|].
  vm_compute. reflexivity.
Qed.
