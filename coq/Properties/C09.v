(** C09 — Variable-length buckets keep every record in time order.
    Statement file: theorems closed by [exact] of lemmas proved in Proofs/ (refutations by evaluating
    concrete, replayed witnesses), each followed by Print Assumptions.

    Model: Model/VarStore.v (WriteRecords, WriteBufferToFileIndirect with stable sort by ticks, the file
    state a store denotes) + Model/RangeRead.v / Model/Trim.v (the query over all time) with the tick
    codec Model/Ticks.v (Flocq binary64 model of GetIntervalTicks32Bit / GetTimeFromTicks).  The
    inductive theorems are proved for EVERY codec (Section variables of the proof files). *)
From Coq Require Import ZArith List Bool Permutation.
From Coq.Strings Require Import Byte.
Import ListNotations.
Require Import MS.Base.GoInt MS.Base.Res MS.Base.Hex MS.Base.Bytes MS.Generated.Src_query
               MS.Model.QTime MS.Model.Trim MS.Model.RangeRead MS.Model.RangeSpec
               MS.Model.Ticks MS.Model.VarStore MS.Model.VarSpec
               MS.Proofs.VarStore_facts MS.Proofs.VarRead_facts.
Local Open Scope Z_scope.

(** Guarded statement (what holds of the code at HEAD).  For EVERY write history [hist] (any number of
    WriteCSM requests, any rows in any order, many per interval, any intervals and years 1970..9999) to a
    variable-length bucket of timeframe [tf] with [plen] payload bytes per record, and every table
    [clen] of stored block lengths, inside [guard_C09] (no F2 input, codec within C10's bound; the former
    classes F4, F1, F3 and 4H-looked-up-as-2H are fixed in /repo and no longer guarded):
    the query over all time succeeds and returns the rows R = the records of the final file state in
    (year, slot, tick) order, where
      - R is a PERMUTATION of the written records, each quantised by the tick codec (every record exactly
        once, payload bit-equal),
      - R is in non-decreasing (epoch, nanosecond) order,
      - every written row's returned time is within C10's bound of the written time. *)
Theorem C09_guarded : forall tf plen clen hist,
  guard_C09 enc dec tf plen clen hist = true ->
  let R := var_rows_all (final_bucket enc dec tf plen clen hist) in
  query_all enc dec tf plen clen hist = Ok (enc_rows R)
  /\ Permutation R (map (quantise enc dec tf) (all_rows hist))
  /\ sorted_tns R = true
  /\ Forall (fun r => bound_ok enc dec tf r = true) (all_rows hist).
Proof. exact (C09_guarded_main enc dec). Qed.
Print Assumptions C09_guarded.   (* only the Coq.Reals axioms Flocq's definitions of enc/dec rest on *)

(** the same for EVERY tick encoder / decoder (nothing is assumed of them: the guard is evaluated with
    them); closed under the global context *)
Theorem C09_guarded_any_codec : forall (encf : Z -> Z -> Z) (decf : Z -> Z -> Z -> Z * Z) tf plen clen hist,
  guard_C09 encf decf tf plen clen hist = true ->
  let R := var_rows_all (final_bucket encf decf tf plen clen hist) in
  query_all encf decf tf plen clen hist = Ok (enc_rows R)
  /\ Permutation R (map (quantise encf decf tf) (all_rows hist))
  /\ sorted_tns R = true
  /\ Forall (fun r => bound_ok encf decf tf r = true) (all_rows hist).
Proof. exact C09_guarded_main. Qed.
Print Assumptions C09_guarded_any_codec.

(** The writer alone, for ALL histories without any guard and for every tick encoder: the store keeps
    its keys strictly ascending, never uses position 0, and every slot is sorted by ticks; slot by slot it
    holds exactly the records of the commands applied (nothing lost, nothing duplicated) except the
    commands with index 0. *)
Theorem C09_writer : forall cmds st,
  store_ok st ->
  store_ok (fold_left apply_cmd cmds st)
  /\ Permutation (flatten (fold_left apply_cmd cmds st))
                 (flatten st ++ flat_map cmd_entries (filter cmd_live cmds)).
Proof. intros cmds st S. split; [now apply apply_cmds_ok | apply apply_cmds_perm]. Qed.
Print Assumptions C09_writer.

(** without an index-0 row every written row is stored under its own (year, interval index) — for
    every tick encoder (the prevYear misfire, finding F3, is fixed) *)
Theorem C09_store : forall (encf : Z -> Z -> Z) tf hist,
  existsb (f2_row tf) (concat hist) = false ->
  store_ok (run encf tf hist) /\ Permutation (flatten (run encf tf hist)) (map (entry encf tf) (concat hist)).
Proof. exact run_store. Qed.
Print Assumptions C09_store.

(** the query over all time on any well-formed variable file state dated 1970+ returns all its rows *)
Theorem C09_read_all : forall b,
  wf_bucket b = true -> b_var b = true -> Forall (fun f => 1970 <= y_year f) (b_files b) ->
  (exists c, var_candidates b all_start (clamp_end all_end) = Ok c /\ Z.of_nat (length c) <= maxInt32) ->
  exec_query b all_start all_end = Ok (enc_rows (var_rows_all b)) /\ sorted_tns (var_rows_all b) = true.
Proof. exact query_all_rows. Qed.
Print Assumptions C09_read_all.

(* ------------------------------------------------------------------------------------------ *)
(** Full statement (the property as given): the same for every history of well-formed rows in every
    on-disk timeframe, without the guard.  Refuted by the replayed witness of the one open class
    (F4, F1, F3 and the 4H lookup are fixed: their witnesses are regression examples below). *)
Definition C09_full : Prop := forall tf plen clen hist,
  is_tf tf = true -> forallb (row_ok plen) (all_rows hist) = true ->
  let R := var_rows_all (final_bucket enc dec tf plen clen hist) in
  query_all enc dec tf plen clen hist = Ok (enc_rows R)
  /\ Permutation R (map (quantise enc dec tf) (all_rows hist))
  /\ sorted_tns R = true
  /\ Forall (fun r => bound_ok enc dec tf r = true) (all_rows hist).

Definition i32le (v : Z) : list byte := le_bytes 4 v.

(** former F4 witness (class second-stage-buffer-too-small, fixed in /repo 247ada4): 12 records with a
    64-byte all-zero payload at the same instant compress to 49 bytes; the reader's buffer now grows until
    the 912 expanded bytes fit and the query returns all 12.  (corpus/C09/f4_buffer_too_small.json) *)
Definition w_F4 : list (list wrow) := [ repeat (mkW 1583056830 0 (repeat x00 64)) 12 ].
Example C09_former_F4 :
  match query_all enc dec 60000000000 64 (fun _ => 49) w_F4 with
  | Ok out => length out = (12 * 76)%nat
  | _ => False
  end.
Proof. vm_compute. reflexivity. Qed.

(** F2, class daily-jan1-index0: a 1D record dated January 1st has index YearDay()-1 = 0, is written
    into the header area and never read.  (corpus/C09/f2_daily_jan1.json) *)
Definition w_F2 : list (list wrow) := [ [mkW 1577880000 0 (i32le 7); mkW 1577966400 0 (i32le 8)] ].
Theorem C09_refuted_F2 : ~ C09_full.
Proof.
  intros H. destruct (H 86400000000000 4 (fun _ => 1000) w_F2 eq_refl eq_refl) as (_ & P & _).
  apply Permutation_length in P. vm_compute in P. discriminate P.
Qed.
Print Assumptions C09_refuted_F2.

(** former F1 witness (class decoded-second-rounded-up, fixed in /repo 551fdb4): 10:00:50.000000006 in a
    1Min bucket now decodes within the bound.  (corpus/C09/f1_second_rounded_up.json) *)
Definition w_F1 : list (list wrow) := [ [mkW 1583056850 6 (i32le 5)] ].
Example C09_former_F1 : guard_C09 enc dec 60000000000 4 (fun _ => 20) w_F1 = true.
Proof. vm_compute. reflexivity. Qed.

(** former F3 witness (class cross-year-merge, fixed in /repo 49eddda: WriteRecords keeps prevYear updated): in
    the request [2017-02-03 04:05:06; 2018-02-03 04:06:10; 2017-02-03 04:06:20] the third row used to be
    merged into the 2018 command; it is stored and returned under 2017 now.
    (corpus/C09/f3_cross_year_merge.json) *)
Definition w_F3 : list (list wrow) :=
  [ [mkW 1486094706 0 (i32le 1); mkW 1517630770 0 (i32le 2); mkW 1486094780 0 (i32le 3)] ].
Example C09_former_F3 :
  guard_C09 enc dec 60000000000 4 (fun _ => 20) w_F3 = true
  /\ map fst (final enc 60000000000 w_F3) = [(2017, 47766); (2017, 47767); (2018, 47767)].
Proof. split; vm_compute; reflexivity. Qed.

(** former witness of class timeframe-4H-looked-up-as-2H (fixed in /repo d275195: utils.Timeframes lists 4H
    after 2H, QueryableTimeframe answers 4H with 4H): a 4H bucket is queryable.
    (corpus/C09/tf_4H_not_queryable.json) *)
Definition w_4H : list (list wrow) := [ [mkW 1583064000 0 (i32le 9)] ].
Example C09_former_4H : guard_C09 enc dec 14400000000000 4 (fun _ => 20) w_4H = true.
Proof. vm_compute. reflexivity. Qed.

(* ------------------------------------------------------------------------------------------ *)
(** Non-vacuity: a history of three requests — unsorted input, several records per interval, two years,
    a later request appending to an existing interval — meets the guard.
    (corpus/C09/reg_many_per_interval.json, block lengths as recorded) *)
Definition ex_hist : list (list wrow) :=
  [ [mkW 1577836790 500000000 (i32le 50 ++ [x32]); mkW 1577836750 500000000 (i32le 10 ++ [x0a]);
     mkW 1577836770 500000000 (i32le 30 ++ [x1e])];
    [mkW 1577836805 250000000 (i32le 5 ++ [x05]); mkW 1577836801 250000000 (i32le 1 ++ [x01])];
    [mkW 1577836760 500000000 (i32le 99 ++ [x09])] ].

Example C09_nonvacuous :
  guard_C09 enc dec 60000000000 5 (fun _ => 30) ex_hist = true
  /\ length (all_rows ex_hist) = 6%nat
  /\ length (final enc 60000000000 ex_hist) = 2%nat.
Proof. repeat split; vm_compute; reflexivity. Qed.
