(** C15 — Bucket schema is preserved across restarts (model of the code after the fixes d005c52 and
    e807cb3 in /repo: unstorable schemas are rejected at creation).
    Statement file: theorems closed by [exact] of lemmas of Proofs/Header_facts.v, the full statements
    with their refutations, non-vacuity examples. *)
From Coq Require Import String ZArith List Bool.
From Coq.Strings Require Import Byte.
Import ListNotations.
Require Import MS.Base.GoInt MS.Base.Res MS.Base.Hex MS.Base.Bytes MS.Generated.Src_io MS.Generated.Src_header
  MS.Model.Rows MS.Model.Header MS.Proofs.Header_facts.

(** For EVERY storable TimeBucketInfo (any version/description/year/timeframe/record type in their Go
    ranges, 0..1024 elements, names <= 32 bytes and descriptions <= 256 bytes without leading/trailing
    NUL, any element types): WriteHeader's bytes are exactly one header long and readHeader/load
    return the same TimeBucketInfo. *)
Theorem C15_header_roundtrip : forall f, storable f = true ->
  exists h, encode_header f = Ok h /\ length h = HS /\ read_header h = Ok f.
Proof. exact header_roundtrip. Qed.
Print Assumptions C15_header_roundtrip.

(** No data write at an index >= 1 (fixed record of any length, or a variable-length index record)
    touches the header bytes, for every list of writes. *)
Theorem C15_writes_preserve_header : forall rl ws h, length h = HS -> (0 <= rl < 2 ^ 31)%Z ->
  writes_ok ws = true -> apply_writes rl h ws = h.
Proof. exact writes_preserve_header. Qed.
Print Assumptions C15_writes_preserve_header.

(** Guarded property: create -> arbitrary writes at indices >= 1 -> restart -> the header read back is the
    TimeBucketInfo the bucket was created with. *)
Theorem C15_guarded : forall f ws, storable f = true -> writes_ok ws = true -> create_write_reload f ws = Ok f.
Proof. exact create_write_reload_ok. Qed.
Print Assumptions C15_guarded.

(** Histories over several year files: create, then records of ANY years (each first record of a new year
    creates that year's file from a deep copy of the bucket's TimeBucketInfo) at indices >= 1, then a
    restart: the LATEST year file — the one the catalog reports — holds the created schema (under its own
    year), for every storable TimeBucketInfo and every such history. *)
Theorem C15_multi_year : forall f ws, storable f = true -> years_ok ws = true ->
  exists y, reload_history f ws = Ok (set_year f y).
Proof. exact reload_history_ok. Qed.
Print Assumptions C15_multi_year.

(** Every schema accepted by the guard [creatable] (what NewTimeBucketInfo is given) yields a storable
    TimeBucketInfo. *)
Theorem C15_creatable_storable : forall tf descr year dsv rt,
  creatable tf descr year dsv rt = true -> storable (new_tbi tf descr year dsv rt) = true.
Proof. exact creatable_storable. Qed.
Print Assumptions C15_creatable_storable.

(** After the fixes d005c52 / e807cb3 in /repo (AddTimeBucket refuses what CheckStorable reports): for
    EVERY schema of the property's domain — column names of ANY length and content, ANY column count —
    and every list of writes at indices >= 1: creation is refused with an error, or the schema read back
    after the writes and a restart is exactly the one created.  Names and column count are no longer
    guards. *)
Theorem C15_create_guarded : forall tf descr year dsv rt ws,
  schema_dom tf descr year dsv rt = true -> writes_ok ws = true ->
  let f := new_tbi tf descr year dsv rt in
  create f = Rejected \/ create_write_reload f ws = Ok f.
Proof. exact create_guarded. Qed.
Print Assumptions C15_create_guarded.

(** A schema that cannot be stored faithfully (more than 1024 elements, a name longer than 32 bytes or
    with a NUL at an edge) is rejected at creation. *)
Theorem C15_unstorable_rejected : forall f, check_storable f = false -> create f = Rejected.
Proof. exact unstorable_rejected. Qed.
Print Assumptions C15_unstorable_rejected.

(** Full statement: every schema of the domain, any later writes INCLUDING index 0 (the first daily
    interval of the year): creation is rejected or the schema read back after the writes is the one
    created.  Still refuted by the remaining defect class (a format change is needed to repair it). *)
Definition writes_dom (ws : list wop) : bool :=
  forallb (fun w => (0 <=? wop_idx w)%Z && (wop_idx w <? 2 ^ 31)%Z) ws.

Definition preserved (tf : Z) (descr : list byte) (year : Z) (dsv : list (list byte * Z)) (rt : Z) (ws : list wop) : Prop :=
  let f := new_tbi tf descr year dsv rt in
  create f = Rejected \/ create_write_reload f ws = Ok f.

Definition C15_full : Prop := forall tf descr year dsv rt ws,
  schema_dom tf descr year dsv rt = true -> writes_dom ws = true -> preserved tf descr year dsv rt ws.

Lemma create_not_rejected f : check_storable f = true -> create f <> Rejected.
Proof.
  intros Hc. unfold create. rewrite Hc. unfold encode_header.
  destruct (maxNumElements <? t_nelems f)%Z; [discriminate|].
  destruct ((Z.of_nat (length (t_names f)) <? t_nelems f)%Z || (Z.of_nat (length (t_types f)) <? t_nelems f)%Z);
    discriminate.
Qed.

Definition minute : Z := 60000000000%Z.
Definition day : Z := 86400000000000%Z.
Definition descr0 : list byte := bytes_of_string "Default"%string.

(** Regression (formerly C15_refuted / C15_refuted_count): the 33-byte column name and the 1025 columns
    are now refused at creation. *)
Definition C15_witness_name : list (list byte * Z) :=
  [ (epoch_col, ET_INT64); (repeat x41 33, ET_FLOAT32) ].
Example C15_regression_name : create (new_tbi minute descr0 2024%Z C15_witness_name RT_FIXED) = Rejected.
Proof. vm_compute. reflexivity. Qed.

Definition C15_witness_count : list (list byte * Z) := repeat ([x61], ET_FLOAT32) 1025.
Example C15_regression_count : create (new_tbi minute descr0 2024%Z C15_witness_count RT_FIXED) = Rejected.
Proof. vm_compute. reflexivity. Qed.

(** class daily-jan1-write: 61 string16 columns (record length 3912 > the 2920 reserved tail bytes), daily
    timeframe, one record at index 0: it is written at Headersize - 3912 = 33112, over the type bytes of
    columns 32..60 *)
Definition C15_witness_jan1 : list (list byte * Z) := repeat ([x63], ET_STRING16) 61.

Theorem C15_refuted_jan1 : ~ C15_full.
Proof.
  intros H.
  destruct (H day descr0 2024%Z C15_witness_jan1 RT_FIXED [WFixed 0 (repeat xff 3904)] eq_refl eq_refl) as [Hr|Hr].
  - refine (create_not_rejected _ _ Hr). vm_compute. reflexivity.
  - vm_compute in Hr. discriminate Hr.
Qed.
Print Assumptions C15_refuted_jan1.

(** Non-vacuity: an OHLCV-like schema is creatable, and a write list with fixed and variable writes at
    indices >= 1 satisfies writes_ok. *)
Example C15_nonvacuous :
  creatable minute descr0 2024%Z
    [ (epoch_col, ET_INT64); (bytes_of_string "Open"%string, ET_FLOAT32); (bytes_of_string "High"%string, ET_FLOAT64);
      (bytes_of_string "Volume"%string, ET_INT64); (repeat x42 32, ET_STRING16) ] RT_FIXED = true
  /\ writes_ok [WFixed 1 (repeat x01 84); WFixed 527040 (repeat x02 84); WVar 7 (repeat x03 24)] = true.
Proof. split; vm_compute; reflexivity. Qed.
