(** C06 — WAL replay tolerates arbitrary damage to the log.
    Statement file: the property theorems, each closed by [exact] of a lemma proved in Proofs/ (or by
    evaluation of a concrete witness), followed by Print Assumptions.
    Model: Model/WalScan.v ([replay_bytes] = Replay(false) on the bytes of a taken-over file,
    [startup_replay] = CleanupOldWALFiles' size test + TakeOverWALFile + Replay).  Every theorem
    quantifies over an arbitrary digest function [md5], root directory and replayTGData outcome
    [apply_ok]; "intact" means: stored digest = md5 (stored length bytes ++ stored body). *)
From Coq Require Import ZArith List Bool Lia.
From Coq.Strings Require Import Byte.
Import ListNotations.
Require Import MS.Base.GoInt MS.Base.Res MS.Base.Hex MS.Base.Bytes MS.Base.Md5 MS.Generated.Src_wal
               MS.Model.TGCodec MS.Proofs.TGCodec_facts MS.Model.WalScan MS.Proofs.WalScan_facts MS.Proofs.WalFrame_facts.
Local Open Scope Z_scope.

(** what Replay scans after TakeOverWALFile/WriteStatus rewrote the 11-byte status record *)
Definition taken_over (bs : list byte) : list byte :=
  [byte_of_Z MID_STATUS; byte_of_Z WFS_OPEN; byte_of_Z WRS_REPLAYINPROCESS] ++ rd bs 3 8 ++ skipn 11 bs.

(** the startup path is the replay of the taken-over bytes, or ends before any scanning *)
Theorem C06_startup_cases : forall md5 root apply_ok bs,
  startup_replay md5 root apply_ok bs = replay_bytes md5 root apply_ok (taken_over bs)
  \/ (r_applied (startup_replay md5 root apply_ok bs) = []
      /\ (r_code (startup_replay md5 root apply_ok bs) = 1%nat \/ r_code (startup_replay md5 root apply_ok bs) = 3%nat)).
Proof.
  intros md5 root apply_ok bs. unfold startup_replay.
  destruct (size_z bs <=? walStatusLenBytes); [right; split; [reflexivity|right; reflexivity]|].
  destruct (wrap I64 (le_val (rd bs 3 8)) =? 0); [right; split; [reflexivity|left; reflexivity]|].
  destruct (negb _); [right; split; [reflexivity|left; reflexivity]|].
  left. reflexivity.
Qed.
Print Assumptions C06_startup_cases.

(* ------------------------------------------------------------------ (i) neither panics nor hangs *)

(** After the repairs in /repo (known_findings.txt "fixed:" lines: readTGData rejects tgLen < tgIDBytes,
    wal.ReadStatus returns the read error before indexing, parseTGData checks every length field) the
    statement holds AS GIVEN: whatever bytes the file contains, replay neither panics (exit class 2) nor
    hangs (the model never exhausts its fuel, exit class 4).  The model keeps the panic outcome of every
    make / slice / index expression of readTGData and of the decoder; the proof shows each one unreachable
    behind the test that now precedes it (WalScan_facts.read_tg_no_panic, TGCodec_facts.parseTGData_no_panic). *)
Theorem C06_no_panic : forall md5 root apply_ok bs,
  r_code (replay_bytes md5 root apply_ok bs) <> 2%nat /\ r_code (replay_bytes md5 root apply_ok bs) <> 4%nat.
Proof. exact replay_no_panic. Qed.
Print Assumptions C06_no_panic.

Theorem C06_startup_no_panic : forall md5 root apply_ok bs,
  r_code (startup_replay md5 root apply_ok bs) <> 2%nat /\ r_code (startup_replay md5 root apply_ok bs) <> 4%nat.
Proof.
  intros md5 root apply_ok bs.
  destruct (C06_startup_cases md5 root apply_ok bs) as [E|[_ [E|E]]]; rewrite E; [apply replay_no_panic| |]; split; discriminate.
Qed.
Print Assumptions C06_startup_no_panic.

Theorem C06_terminates : forall md5 root apply_ok bs,
  r_code (replay_bytes md5 root apply_ok bs) <> 4%nat.
Proof. exact replay_terminates. Qed.
Print Assumptions C06_terminates.

(** the fixed decoder alone: no byte string makes it index out of range *)
Theorem C06_decoder_total : forall bs root, parseTGData bs root <> Panic.
Proof. exact parseTGData_no_panic. Qed.
Print Assumptions C06_decoder_total.

Definition hdr : list byte := rec_status WFS_OPEN WRS_NOTREPLAYED 4711.
Definition ok_all (_ : Z) (_ : list wtset) : bool := true.

(** the former counter-examples of the unguarded statement, kept as regressions: a status record followed
    by nine zero bytes / a negative length / a lone STATUS id / an intact record with an undecodable body
    now end with exit class 0 (nil) *)
Definition C06_witness_nine_zeros : list byte := hdr ++ repeat x00 9.
Definition C06_witness_negative_len : list byte := hdr ++ x00 :: repeat xff 8.
Definition C06_witness_status_eof : list byte := hdr ++ [x02].
Definition C06_witness_unparsable : list byte := hdr ++ rec_tg md5 (le_bytes 8 5 ++ repeat xff 8).
Example C06_former_witnesses :
  r_code (startup_replay md5 [] ok_all C06_witness_nine_zeros) = 0%nat
  /\ r_code (startup_replay md5 [] ok_all C06_witness_negative_len) = 0%nat
  /\ r_code (startup_replay md5 [] ok_all C06_witness_status_eof) = 0%nat
  /\ r_code (startup_replay md5 [] ok_all C06_witness_unparsable) = 0%nat.
Proof. vm_compute. repeat split; reflexivity. Qed.

(* ------------------------------------------------------------------ (ii) only intact records are applied *)

(** for EVERY byte string: a transaction handed to replayTGData is an intact record of the file *)
Theorem C06_applied_is_intact : forall md5 root apply_ok bs tgid n,
  In (tgid, n) (r_applied (replay_bytes md5 root apply_ok bs)) ->
  exists p body, intact_at md5 bs p tgid body.
Proof. exact applied_is_intact. Qed.
Print Assumptions C06_applied_is_intact.

Theorem C06_startup_applied_is_intact : forall md5 root apply_ok bs tgid n,
  In (tgid, n) (r_applied (startup_replay md5 root apply_ok bs)) ->
  exists p body, intact_at md5 (taken_over bs) p tgid body.
Proof.
  intros md5 root apply_ok bs tgid n H.
  destruct (C06_startup_cases md5 root apply_ok bs) as [E|[E _]]; rewrite E in H; [|contradiction].
  eapply applied_is_intact. exact H.
Qed.
Print Assumptions C06_startup_applied_is_intact.

(* ------------------------------------------------------------------ (iii) intact transactions before the damage are applied *)

(** the scanner stays in step with a well-formed prefix whatever follows it *)
Theorem C06_frames_good_prefix : forall md5, (forall x, length (md5 x) = 16%nat) ->
  forall fs rs owner recs junk,
  Forall (wf_rec) recs ->
  let good := rec_status fs rs owner ++ enc md5 recs in
  let bs := good ++ junk in
  frames md5 bs = EvSkip 11 :: evs_of md5 11 recs ++ events md5 (length bs - length recs) bs (length good).
Proof. exact frames_good_prefix. Qed.
Print Assumptions C06_frames_good_prefix.

(** guarded statement: [good] = status record ++ well-formed records containing the intact transaction
    [body] (id t <> 0) with no checkpoint-commit record >= t behind it; [junk] arbitrary, but
      - its frames contain no checkpoint-commit record for an id >= t   (no_spurious_checkpoint, F9),
      - no TGDATA key occurs twice, a failed TGDATA read counting as key 0 (duplicate abort),
      - every intact record of the file parses and replays without error.
    Then t is applied. *)
Theorem C06_iii_guarded : forall md5, (forall x, length (md5 x) = 16%nat) ->
  forall root apply_ok fs rs owner r1 body r2 junk t,
  Forall wf_rec (r1 ++ RTG body :: r2) ->
  t = tg_id_of body -> t <> 0 ->
  forallb (harmless_rec t) r2 = true ->
  let good := rec_status fs rs owner ++ enc md5 (r1 ++ RTG body :: r2) in
  let bs := good ++ junk in
  forallb (harmless t) (events md5 (length bs - length (r1 ++ RTG body :: r2)) bs (length good)) = true ->
  NoDup (keys (frames md5 bs)) ->
  (forall q id b, intact_at md5 bs q id b ->
     exists wts, parseTGData b root = Ok (id, wts) /\ (wts = [] \/ apply_ok id wts = true)) ->
  exists n, In (t, n) (r_applied (replay_bytes md5 root apply_ok bs)).
Proof. exact good_prefix_applied. Qed.
Print Assumptions C06_iii_guarded.

(** the same with "the transaction decodes and the replay returned nil" in place of the last hypothesis *)
Theorem C06_iii_guarded_nil : forall md5, (forall x, length (md5 x) = 16%nat) ->
  forall root apply_ok fs rs owner r1 body r2 junk t,
  Forall wf_rec (r1 ++ RTG body :: r2) ->
  t = tg_id_of body -> t <> 0 ->
  forallb (harmless_rec t) r2 = true ->
  let good := rec_status fs rs owner ++ enc md5 (r1 ++ RTG body :: r2) in
  let bs := good ++ junk in
  forallb (harmless t) (events md5 (length bs - length (r1 ++ RTG body :: r2)) bs (length good)) = true ->
  NoDup (keys (frames md5 bs)) ->
  parseTGData body root <> Rejected ->
  r_code (replay_bytes md5 root apply_ok bs) = 0%nat ->
  exists n, In (t, n) (r_applied (replay_bytes md5 root apply_ok bs)).
Proof. exact good_prefix_applied_code0. Qed.
Print Assumptions C06_iii_guarded_nil.

(** frame form (no prefix structure assumed): an intact framed transaction not followed by a
    checkpoint-commit frame >= it is applied *)
Theorem C06_iii_frames : forall md5 root apply_ok bs pre p t body post,
  frames md5 bs = pre ++ EvTG p t body :: post ->
  t <> 0 ->
  NoDup (keys (frames md5 bs)) ->
  forallb (harmless t) post = true ->
  (forall q id b, intact_at md5 bs q id b ->
     exists wts, parseTGData b root = Ok (id, wts) /\ (wts = [] \/ apply_ok id wts = true)) ->
  exists n, In (t, n) (r_applied (replay_bytes md5 root apply_ok bs)).
Proof. exact intact_framed_applied. Qed.
Print Assumptions C06_iii_frames.

(** the statement as given: WHATEVER follows the intact prefix, its committed, not checkpointed
    transactions are applied (every replayTGData succeeding, the transaction itself well formed) *)
Definition C06_iii_full : Prop := forall md5, (forall x, length (md5 x) = 16%nat) ->
  forall root fs rs owner r1 body r2 junk t,
  Forall wf_rec (r1 ++ RTG body :: r2) ->
  In (RTxn t DEST_WAL TXN_COMMITCOMPLETE) r2 ->
  t = tg_id_of body -> t <> 0 ->
  forallb (harmless_rec t) r2 = true ->
  exists n, In (t, n) (r_applied (replay_bytes md5 root ok_all
                                   ((rec_status fs rs owner ++ enc md5 (r1 ++ RTG body :: r2)) ++ junk))).

(** one committed transaction (id 1000, one FIXED command) *)
Definition w_body : list byte :=
  serializeTG 1000 [ mkcmd 0 [x61; x2f; x62] 0 37024 1 [x01; x02; x03; x04] [ mkshape [x45; x70; x6f; x63; x68] x03 ] ].
Definition w_r1 : list rec := [RTxn 1000 DEST_WAL TXN_PREPARING].
Definition w_r2 : list rec := [RTxn 1000 DEST_WAL TXN_COMMITCOMPLETE].

Lemma w_wf : Forall wf_rec (w_r1 ++ RTG w_body :: w_r2).
Proof.
  assert (I : in_ity I64 1000) by (apply in_ityb_spec; reflexivity).
  assert (T : wf_rec (RTG w_body)).
  { split; [apply Nat.leb_le; vm_compute; reflexivity | apply Z.ltb_lt; vm_compute; reflexivity]. }
  constructor; [split; [exact I|split; [left; reflexivity|left; reflexivity]]|].
  constructor; [exact T|].
  constructor; [split; [exact I|split; [left; reflexivity|right; right; reflexivity]]|constructor].
Qed.

Ltac refute_iii junk :=
  let H := fresh in let n := fresh in let Hn := fresh in
  intros H;
  destruct (H md5 md5_length [] WFS_OPEN WRS_NOTREPLAYED 4711 w_r1 w_body w_r2 junk 1000 w_wf
              (or_introl eq_refl) eq_refl) as (n & Hn);
  [ discriminate | reflexivity | vm_compute in Hn; exact Hn ].

(** F9: an unchecksummed TXNINFO record CHECKPOINT/COMMITCOMPLETE for the id, anywhere in the damaged
    tail, prunes the intact committed transaction: replay returns nil and applies nothing *)
Theorem C06_iii_refuted_spurious_checkpoint : ~ C06_iii_full.
Proof. refute_iii (rec_txn 1000 DEST_CHECKPOINT TXN_COMMITCOMPLETE). Qed.
Print Assumptions C06_iii_refuted_spurious_checkpoint.

(** two damaged TGDATA frames (here: two insane lengths) in the tail: the second one is a "duplicate"
    of tgID 0 and Replay gives up with ReplayError before applying anything *)
Theorem C06_iii_refuted_duplicate : ~ C06_iii_full.
Proof. refute_iii (x00 :: repeat x7f 8 ++ x00 :: repeat x7f 8). Qed.
Print Assumptions C06_iii_refuted_duplicate.

(** Non-vacuity: the same intact prefix followed by damage of the harmless kind (a torn TXNINFO record,
    an unknown message id, a TGDATA record with a flipped digest bit, and a truncated TGDATA record)
    meets every hypothesis of C06_iii_guarded_nil, and the transaction is applied. *)
Definition w_junk : list byte :=
  [x07] ++ rec_txn 7 5 2 ++ (x00 :: le_bytes 8 16 ++ repeat x05 16 ++ repeat x09 16) ++ (x00 :: le_bytes 8 300 ++ repeat x01 20).
Definition w_bs : list byte := (rec_status WFS_OPEN WRS_NOTREPLAYED 4711 ++ enc md5 (w_r1 ++ RTG w_body :: w_r2)) ++ w_junk.

Example C06_nonvacuous :
  forallb (harmless 1000) (events md5 (length w_bs - length (w_r1 ++ RTG w_body :: w_r2)) w_bs
                                  (length (rec_status WFS_OPEN WRS_NOTREPLAYED 4711 ++ enc md5 (w_r1 ++ RTG w_body :: w_r2)))) = true
  /\ keys (frames md5 w_bs) = [1000; 0]
  /\ is_ok (parseTGData w_body []) = true
  /\ r_code (replay_bytes md5 [] ok_all w_bs) = 0%nat
  /\ r_applied (replay_bytes md5 [] ok_all w_bs) = [(1000, 1%nat)].
Proof. vm_compute. repeat split; reflexivity. Qed.
