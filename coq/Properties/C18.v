(** C18 — Concurrent writes and queries are safe and read-committed.
    Statements about two LTSs: Model/RWRace.v (primary-file writes against query reads, per-syscall
    atomicity, one variable-length and one fixed-length bucket file) and Model/WalLoop.v + WalLoopHB.v
    (the flush protocol's shared variables and its synchronisation edges).  All schedules, any number
    of slots / writes / readers / writers.  Partial (DESIGN §10): torn reads inside one syscall, races
    in code that is not modelled, and the Go runtime's reaction to a race are outside the LTSs. *)
From Coq Require Import List Arith Bool NArith.
Import ListNotations.
Require Import MS.Model.RWRace MS.Proofs.RWRace_facts MS.Model.WalLoop MS.Model.WalLoopHB MS.Proofs.WalLoopHB_facts.
Require MS.Model.CatLock MS.Proofs.CatLock_facts.

(** (a) read-committed, full statement for the variable-length file: under every interleaving every
    finished read is error-free and equals a committed version of its slot. *)
Definition C18_read_committed : Prop := forall comp n vw fw rd ls s,
  wf_writes n vw ->
  RWRace.run_labels (RWRace.init comp n vw fw rd) ls = Some s -> all_reads_committed s = true.

(** F6's window without a crash: the second write to slot 0 is an in-place continuation; the reader took
    the triple (offset, 1) before it and reads the block after it.  With compression the length no longer
    matches: decode error.  Without compression it gets the first record of the NEW block: record 3 of a
    write that has not completed, and it misses the committed record 5. *)
Definition C18_witness : list RWRace.label := [WData false; WIdx; RIdx 0; WData true; RData 0].

Theorem C18_read_committed_refuted : ~ C18_read_committed.
Proof.
  intros H.
  assert (W : wf_writes 1 [(0, [5]); (0, [3])]) by (intros i new [X|[X|[]]]; inversion X; discriminate).
  specialize (H true 1 [(0, [5]); (0, [3])] [] [(true, 0)] C18_witness).
  destruct (RWRace.run_labels (RWRace.init true 1 [(0, [5]); (0, [3])] [] [(true, 0)]) C18_witness) as [s|] eqn:E;
    [|vm_compute in E; discriminate].
  specialize (H s W eq_refl). vm_compute in E. inversion E; subst. vm_compute in H. discriminate H.
Qed.
Print Assumptions C18_read_committed_refuted.

(** what the reader observes in the two configurations *)
Example C18_witness_results :
  (exists s, RWRace.run_labels (RWRace.init true 1 [(0, [5]); (0, [3])] [] [(true, 0)]) C18_witness = Some s
             /\ rs s = [(true, 0, RDone RDecodeErr)])
  /\ (exists s, RWRace.run_labels (RWRace.init false 1 [(0, [5]); (0, [3])] [] [(true, 0)]) C18_witness = Some s
             /\ rs s = [(true, 0, RDone (ROk [3]))] /\ hist s = [[[5]; []]]).
Proof. split; eexists; (split; [vm_compute; reflexivity|]); vm_compute; auto. Qed.

(** Guarded (guard [no_cont]: the writer never takes the in-place continuation branch, writer.go:213-220):
    read-committed under every interleaving of any number of readers. *)
Theorem C18_variable_no_continuation : forall comp n vw fw rd ls s,
  wf_writes n vw -> forallb no_cont ls = true ->
  RWRace.run_labels (RWRace.init comp n vw fw rd) ls = Some s -> all_reads_committed s = true.
Proof. exact var_reads_committed_no_cont. Qed.
Print Assumptions C18_variable_no_continuation.

(** Fixed-length file: every row any read returns was put there by a completed pwrite — for EVERY
    interleaving, no guard (one WriteAt per record, index included). *)
Theorem C18_fixed_read_committed : forall comp n vw fw rd ls s snap i v,
  RWRace.run_labels (RWRace.init comp n vw fw rd) ls = Some s ->
  In snap (fres s) -> nth_error snap i = Some (Some v) -> In v (nth i (fwritten s) []).
Proof. exact fixed_reads_committed. Qed.
Print Assumptions C18_fixed_read_committed.

(** (b) race freedom of the flush protocol's shared variables: no accepted schedule has two conflicting
    unordered accesses.  At the original HEAD this clause was refuted (F18: plain variables, no
    synchronisation edge).  /repo now carries the fix (known_findings.txt `fixed:` line): every access to
    haveWALWriter and *shutdownPending is a critical section of the RWMutex walFlagsMu; the happens-before
    relation of Model/WalLoopHB.v has the corresponding edge and the clause is a theorem for EVERY schedule. *)
Theorem C18_race_free : forall ks cw cf ls s,
  WalLoop.run_labels (WalLoop.init ks cw cf) ls = Some s ->
  races true have_access (length ks) ls = [] /\ races true shut_access (length ks) ls = [].
Proof. intros. apply flags_race_free. Qed.
Print Assumptions C18_race_free.

(** Regression of F18: under the happens-before relation of the code BEFORE the fix ([mutexed = false]:
    channels and program order only) the same schedules have unordered conflicting accesses — the loop
    goroutine sets haveWALWriter and a writer reads it with no channel operation between them; likewise
    Shutdown's write of *shutdownPending against the loop's read. *)
Definition C18_race_witness : list WalLoop.label := [LStart; Enq 0; RdHave 0 true].
Definition C18_race_witness_shutdown : list WalLoop.label :=
  [LStart; Enq 0; RdHave 0 true; SendTok 0; LRecv; LFl; LFl; LFl; LFl; EnvShut; LAckL; LShut].
Example C18_race_before_fix :
  races false have_access 1 C18_race_witness = [(0, 2)]
  /\ (exists s, WalLoop.run_labels (WalLoop.init [1] 10%N 10%N) C18_race_witness_shutdown = Some s)
  /\ races false shut_access 1 C18_race_witness_shutdown = [(9, 10); (9, 11)]
  /\ races true have_access 1 C18_race_witness = []
  /\ races true shut_access 1 C18_race_witness_shutdown = [].
Proof. repeat split; try (vm_compute; reflexivity). eexists; vm_compute; reflexivity. Qed.

(** the pre-fix relation does not report ordered accesses either: a writer's SECOND request reads
    haveWALWriter after its first request's acknowledgement, which orders it after LStart. *)
Example C18_no_false_race :
  races false have_access 2 [LStart; Enq 0; RdHave 0 true; SendTok 0; LRecv; LFl; LFl; LFl; LFl; LAckL] = [(0, 2)].
Proof. vm_compute. reflexivity. Qed.

(** (b') race freedom of the catalog directory maps ([datafile], [subDirs]; catalog/catalog.go): every
    goroutine of a write or query request touches a bucket's directory entry — writes that roll a bucket
    over into a new year insert into [datafile] (AddFile), creates/destroys change [subDirs], every request
    reads them.  Model/CatLock.v is the RWMutex discipline; for any number of goroutines, any operation
    lists in which every map write is done under the WRITE lock, and every schedule, no state is reachable
    in which two goroutines are at conflicting map accesses.  checks/C18.py ties "every map write is under
    the write lock, every read under a lock" to the source on every run. *)
Theorem C18_catalog_race_free : forall progs ls s,
  CatLock.disciplined progs = true -> CatLock.run_labels (CatLock.init progs) ls = Some s -> CatLock.racy s = false.
Proof. exact CatLock_facts.catalog_race_free. Qed.
Print Assumptions C18_catalog_race_free.

(** the guard is necessary, and this is the seeded defect C18-1: AddFile doing its insert under RLock.
    A year-rollover writer (RLock; WRITE; RUnlock) and a reader (RLock; read; RUnlock) both acquire the
    read lock and stand at their accesses together. *)
Example C18_catalog_undisciplined_races :
  let progs := [[CatLock.mkop CatLock.MR CatLock.KWrite]; [CatLock.mkop CatLock.MR CatLock.KRead]] in
  CatLock.disciplined progs = false /\
  exists s, CatLock.run_labels (CatLock.init progs) [CatLock.Acq 0; CatLock.Acq 1] = Some s /\ CatLock.racy s = true.
Proof. cbn. split; [reflexivity|]. eexists. split; [reflexivity|]. vm_compute. reflexivity. Qed.

(** non-vacuity: a disciplined writer and two readers, an interleaving that is accepted *)
Example C18_catalog_nonvacuous :
  let progs := [[CatLock.mkop CatLock.MR CatLock.KRead; CatLock.mkop CatLock.MW CatLock.KWrite];
                [CatLock.mkop CatLock.MR CatLock.KRead]; [CatLock.mkop CatLock.MR CatLock.KRead]] in
  CatLock.disciplined progs = true /\
  exists s, CatLock.run_labels (CatLock.init progs)
              [CatLock.Acq 0; CatLock.Acq 1; CatLock.Acc 0; CatLock.Acc 1; CatLock.Rel 0; CatLock.Rel 1; CatLock.Acq 0;
               CatLock.Acc 0; CatLock.Rel 0; CatLock.Acq 2; CatLock.Acc 2] = Some s.
Proof. cbn. split; [reflexivity|]. eexists. vm_compute. reflexivity. Qed.

Definition C18_full : Prop := C18_read_committed /\
  (forall ks cw cf ls s, WalLoop.run_labels (WalLoop.init ks cw cf) ls = Some s ->
     races true have_access (length ks) ls = [] /\ races true shut_access (length ks) ls = []).
Theorem C18_refuted : ~ C18_full.
Proof. intros [H _]. exact (C18_read_committed_refuted H). Qed.
Print Assumptions C18_refuted.

(** Non-vacuity of the guarded theorem: two slots written alternately (so no write is a continuation),
    a reader overlapping the second write of slot 0 still sees a committed version. *)
Definition C18_good_schedule : list RWRace.label :=
  [WData false; WIdx; WData false; RIdx 0; WIdx; WData false; RData 0; WIdx; RIdx 1; RData 1].
Example C18_nonvacuous :
  wf_writes 2 [(0, [5]); (1, [7]); (0, [3])] /\ forallb no_cont C18_good_schedule = true /\
  exists s, RWRace.run_labels (RWRace.init true 2 [(0, [5]); (1, [7]); (0, [3])] [] [(true, 0); (true, 0)]) C18_good_schedule = Some s
            /\ rs s = [(true, 0, RDone (ROk [5])); (true, 0, RDone (ROk [3; 5]))].
Proof.
  split; [intros i new [X|[X|[X|[]]]]; inversion X; discriminate|]. split; [reflexivity|].
  eexists. split; [vm_compute; reflexivity|]. vm_compute. reflexivity.
Qed.
