(** C32 — Every flushed write reaches matching triggers exactly once.
    Statement file: nothing but the property theorems, each closed by [exact] of a lemma proved in
    Proofs/Dispatch_facts.v, followed by Print Assumptions.

    "Pattern matches the record's bucket" is Matcher.Match as the code implements it
    (plugins/trigger/trigger.go:176): every '*' of the On condition becomes the regexp [^/]+ and the key
    is SEARCHED for the result.  [C32_match_spec] pins that down; the observation that this is neither
    anchored nor escaped is [C32_match_unanchored] / [C32_observation_lookalike] (recorded, not alarmed
    on: all theorems below are relative to this Match). *)
From Coq Require Import ZArith List Bool Permutation String.
From Coq.Strings Require Import Byte.
Import ListNotations.
Require Import MS.Base.Hex MS.Model.Dispatch MS.Proofs.Dispatch_facts.

(** Matcher.Match: the executable matcher decides exactly "some substring of the key is in the language
    of the pattern" (literal bytes, '.' = any byte but newline, '*' = one or more non-'/' bytes). *)
Theorem C32_match_spec : forall p k, match_search p k = true <-> Matches p k.
Proof. exact match_search_spec. Qed.
Print Assumptions C32_match_spec.

(** Histories.  For EVERY list of trigger patterns, EVERY write history grouped in ANY way into flushed
    transaction groups, EVERY iteration order of the two Go maps involved in each flush (writesPerFile,
    tpd.m) and EVERY completion order of the fire goroutines: the multiset of (trigger, key, index,
    payload) passed to Trigger.Fire equals {(t,k,i,p) | (k,i,p) written in a flushed TG, Match t k}. *)
Theorem C32_exactly_once : forall trigs flushes msgss fired,
  history_ok flushes msgss ->
  Permutation fired (flat_map (fired_of_msgs trigs) msgss) ->
  Permutation (events fired) (spec_events trigs (List.concat flushes)).
Proof. exact history_exactly_once. Qed.
Print Assumptions C32_exactly_once.

(** The same as multiplicities: a trigger whose pattern matches sees (k,i,p) exactly as many times as it
    was written in flushed TGs (once per written record: no loss, no duplicate); a trigger whose pattern
    does not match never sees it. *)
Theorem C32_multiplicity : forall trigs flushes msgss fired,
  history_ok flushes msgss ->
  Permutation fired (flat_map (fired_of_msgs trigs) msgss) ->
  forall t k r,
    count_occ event_eq_dec (events fired) (t, k, r) =
    if trig_matches trigs t k then count_occ kr_eq_dec (map ckr (List.concat flushes)) (k, r) else 0.
Proof. exact history_multiplicity. Qed.
Print Assumptions C32_multiplicity.

Theorem C32_no_foreign : forall trigs flushes msgss fired,
  history_ok flushes msgss ->
  Permutation fired (flat_map (fired_of_msgs trigs) msgss) ->
  forall t k r, In (t, k, r) (events fired) ->
    trig_matches trigs t k = true /\ In (k, r) (map ckr (List.concat flushes)).
Proof. exact history_no_foreign. Qed.
Print Assumptions C32_no_foreign.

(** Schedules (background mode: a SyncWAL goroutine exists).  The LTS [step] interleaves any number of
    writer goroutines queueing commands, the WAL goroutine flushing any non-empty prefix of the queue, the
    dispatcher goroutine and the fire goroutines.  At every quiescent state reachable by ANY interleaving
    the delivered multiset is the specification for all commands of all writers; at every reachable state
    nothing has been delivered too often or to a non-matching trigger; no state deadlocks; every
    execution is finite (so every maximal execution ends quiescent, with no fairness assumption). *)
Theorem C32_schedules : forall trigs writers s,
  steps trigs (init_sys writers) s -> quiescent s ->
  Permutation (events (s_fired s)) (spec_events trigs (List.concat writers)).
Proof. exact lts_exactly_once. Qed.
Print Assumptions C32_schedules.

Theorem C32_never_too_much : forall trigs writers s,
  steps trigs (init_sys writers) s ->
  forall t k r,
    count_occ event_eq_dec (events (s_fired s)) (t, k, r) <=
    if trig_matches trigs t k then count_occ kr_eq_dec (map ckr (List.concat writers)) (k, r) else 0.
Proof. exact lts_never_too_much. Qed.
Print Assumptions C32_never_too_much.

Theorem C32_progress : forall trigs s, quiescent s \/ exists s', step trigs s s'.
Proof. exact lts_progress. Qed.
Print Assumptions C32_progress.

Theorem C32_terminates : forall trigs, well_founded (fun s' s => step trigs s s').
Proof. exact lts_terminates. Qed.
Print Assumptions C32_terminates.

Theorem C32_reaches_quiescence : forall trigs s, exists s', steps trigs s s' /\ quiescent s'.
Proof. exact lts_reaches_quiescence. Qed.
Print Assumptions C32_reaches_quiescence.

(** Observation: the match is unanchored (and '.' is a wildcard). *)
Theorem C32_match_unanchored : forall p k pre post,
  match_search p k = true -> match_search p (pre ++ k ++ post) = true.
Proof. exact match_search_unanchored. Qed.
Print Assumptions C32_match_unanchored.

Definition b (s : string) : list byte := bytes_of_string s.
Local Open Scope string_scope.

(** a trigger "on AAPL/1Min/OHLCV" also sees XAAPL's and AAPL's OHLCV2 records; "BRK.A/..." sees BRKXA *)
Example C32_observation_lookalike :
  Match (b "AAPL/1Min/OHLCV") (b "XAAPL/1Min/OHLCV/2020.bin") = Some true /\
  Match (b "AAPL/1Min/OHLCV") (b "AAPL/1Min/OHLCV2/2020.bin") = Some true /\
  Match (b "BRK.A/1Min/OHLCV") (b "BRKXA/1Min/OHLCV/2020.bin") = Some true /\
  Match (b "*/1Min/OHLCV") (b "AAPL/5Min/OHLCV/2020.bin") = Some false.
Proof. vm_compute. repeat split. Qed.

(** * Synchronous mode with a trigger that writes: refuted
    [Finding trigger-writes-during-fire]  With background sync disabled a flush runs in the caller's goroutine, and a
    trigger whose Fire writes (contrib/ondiskagg does) flushes from its fire goroutine on the same dispatcher.
    DispatchRecords sends tpd.m's entries and only afterwards resets tpd.m, unsynchronised: a nested flush in between
    finds the writer's records still in the map and dispatches them a second time.  Full statement: in every
    execution of the synchronous-mode LTS nothing is delivered more often than it was passed to AppendRecord. *)
Definition C32_sync_full : Prop := forall trigs react callers s,
  ssteps trigs react (sinit callers) s ->
  forall t k r,
    count_occ event_eq_dec (events (y_fired s)) (t, k, r) <= count_occ kr_eq_dec (map ckr (y_appended s)) (k, r).

Definition sy_trigs : list (list tok) := Eval vm_compute in
  match parse_on (b "*/1Min/BASE") with Some p => [p] | None => [] end.
Definition sy_base := Eval vm_compute in mkcmd (b "S0/1Min/BASE/2020.bin") (7%Z, [x01]).
Definition sy_agg := Eval vm_compute in mkcmd (b "AGG/1H/AGG/2020.bin") (1%Z, [x02]).
(** the trigger aggregates: whenever it is fired it writes one record to the aggregate bucket *)
Definition sy_react (t : nat) (wr : wrecs) : list cmd := match t with O => [sy_agg] | _ => [] end.
(** caller: append, send;  dispatcher: fires the trigger, whose fire goroutine flushes: append, send, reset
    -- BEFORE the caller's reset;  dispatcher: the base record again *)
Definition sy_schedule : list slabel :=
  [LThread 0; LThread 0; LDispatch; LThread 1; LThread 1; LThread 1; LDispatch].

Theorem C32_sync_refuted : ~ C32_sync_full.
Proof.
  intros H.
  destruct (sexec_all sy_trigs sy_react sy_schedule (sinit [[sy_base]])) as [s|] eqn:E; [|vm_compute in E; discriminate E].
  pose proof (H sy_trigs sy_react [[sy_base]] s (sexec_all_sound _ _ _ _ _ E) 0 (c_key sy_base) (c_rec sy_base)) as Hle.
  vm_compute in E. injection E as <-. vm_compute in Hle. exact (proj1 (PeanoNat.Nat.lt_nge 1 2) (le_n 2) Hle).
Qed.
Print Assumptions C32_sync_refuted.

(** Non-vacuity: a concrete two-flush history with three triggers meets the hypotheses of
    C32_exactly_once and delivers a non-empty multiset; a concrete interleaving of two writers reaches a
    quiescent state. *)
Definition ex_trigs : list (list tok) := Eval vm_compute in
  match parse_on (b "*/1Min/OHLCV"), parse_on (b "AAPL/*/*"), parse_on (b "NOPE") with
  | Some p1, Some p2, Some p3 => [p1; p2; p3] | _, _, _ => [] end.
Definition ex_c1 := Eval vm_compute in mkcmd (b "AAPL/1Min/OHLCV/2020.bin") (7%Z, [x01; x02]).
Definition ex_c2 := Eval vm_compute in mkcmd (b "MSFT/1Min/OHLCV/2020.bin") (7%Z, [x03]).
Definition ex_c3 := Eval vm_compute in mkcmd (b "AAPL/1D/TICK/2020.bin") (1%Z, [x04]).
Definition ex_flushes := [[ex_c1; ex_c2; ex_c1]; [ex_c3]].

Example C32_nonvacuous_history :
  history_ok ex_flushes (map flush_det ex_flushes) /\
  List.length (events (fired_det ex_trigs ex_flushes)) = 6 /\
  fired_det ex_trigs ex_flushes = flat_map (fired_of_msgs ex_trigs) (map flush_det ex_flushes).
Proof. split; [apply history_det_ok | split; [vm_compute; reflexivity | apply fired_det_eq]]. Qed.

Example C32_nonvacuous_schedule :
  exists s, steps ex_trigs (init_sys [[ex_c1]; [ex_c3]]) s /\ quiescent s /\ List.length (events (s_fired s)) = 3.
Proof.
  destruct (lts_reaches_quiescence ex_trigs (init_sys [[ex_c1]; [ex_c3]])) as (s & Hs & Hq).
  exists s. split; [exact Hs | split; [exact Hq|]].
  rewrite (Permutation_length (lts_exactly_once _ _ _ Hs Hq)). vm_compute. reflexivity.
Qed.
