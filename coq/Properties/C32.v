(** C32 — Every flushed write reaches matching triggers exactly once.
    Statement file: nothing but the property theorems, each closed by [exact] of a lemma proved in
    Proofs/Dispatch_facts.v, followed by Print Assumptions.

    "Pattern matches the record's bucket" is Matcher.Match as the code implements it
    (plugins/trigger/trigger.go:176): every '*' of the On condition becomes the regexp [^/]+ and the key
    is SEARCHED for the result.  [C32_match_spec] pins that down; the observation that this is neither
    anchored nor escaped is [C32_match_unanchored] / [C32_observation_lookalike] (recorded, not alarmed
    on: all theorems below are relative to this Match). *)
From Coq Require Import ZArith List Bool Permutation String.
From Coq.Strings Require Import Byte.
Import ListNotations.
Require Import MS.Base.Hex MS.Model.Dispatch MS.Proofs.Dispatch_facts.

(** Matcher.Match: the executable matcher decides exactly "some substring of the key is in the language
    of the pattern" (literal bytes, '.' = any byte but newline, '*' = one or more non-'/' bytes). *)
Theorem C32_match_spec : forall p k, match_search p k = true <-> Matches p k.
Proof. exact match_search_spec. Qed.
Print Assumptions C32_match_spec.

(** Histories.  For EVERY list of trigger patterns, EVERY write history grouped in ANY way into flushed
    transaction groups, EVERY iteration order of the two Go maps involved in each flush (writesPerFile,
    tpd.m) and EVERY completion order of the fire goroutines: the multiset of (trigger, key, index,
    payload) passed to Trigger.Fire equals {(t,k,i,p) | (k,i,p) written in a flushed TG, Match t k}. *)
Theorem C32_exactly_once : forall trigs flushes msgss fired,
  history_ok flushes msgss ->
  Permutation fired (flat_map (fired_of_msgs trigs) msgss) ->
  Permutation (events fired) (spec_events trigs (List.concat flushes)).
Proof. exact history_exactly_once. Qed.
Print Assumptions C32_exactly_once.

(** The same as multiplicities: a trigger whose pattern matches sees (k,i,p) exactly as many times as it
    was written in flushed TGs (once per written record: no loss, no duplicate); a trigger whose pattern
    does not match never sees it. *)
Theorem C32_multiplicity : forall trigs flushes msgss fired,
  history_ok flushes msgss ->
  Permutation fired (flat_map (fired_of_msgs trigs) msgss) ->
  forall t k r,
    count_occ event_eq_dec (events fired) (t, k, r) =
    if trig_matches trigs t k then count_occ kr_eq_dec (map ckr (List.concat flushes)) (k, r) else 0.
Proof. exact history_multiplicity. Qed.
Print Assumptions C32_multiplicity.

Theorem C32_no_foreign : forall trigs flushes msgss fired,
  history_ok flushes msgss ->
  Permutation fired (flat_map (fired_of_msgs trigs) msgss) ->
  forall t k r, In (t, k, r) (events fired) ->
    trig_matches trigs t k = true /\ In (k, r) (map ckr (List.concat flushes)).
Proof. exact history_no_foreign. Qed.
Print Assumptions C32_no_foreign.

(** Schedules (background mode: a SyncWAL goroutine exists).  The LTS [step] interleaves any number of
    writer goroutines queueing commands, the WAL goroutine flushing any non-empty prefix of the queue, the
    dispatcher goroutine and the fire goroutines.  At every quiescent state reachable by ANY interleaving
    the delivered multiset is the specification for all commands of all writers; at every reachable state
    nothing has been delivered too often or to a non-matching trigger; no state deadlocks; every
    execution is finite (so every maximal execution ends quiescent, with no fairness assumption). *)
Theorem C32_schedules : forall trigs writers s,
  steps trigs (init_sys writers) s -> quiescent s ->
  Permutation (events (s_fired s)) (spec_events trigs (List.concat writers)).
Proof. exact lts_exactly_once. Qed.
Print Assumptions C32_schedules.

Theorem C32_never_too_much : forall trigs writers s,
  steps trigs (init_sys writers) s ->
  forall t k r,
    count_occ event_eq_dec (events (s_fired s)) (t, k, r) <=
    if trig_matches trigs t k then count_occ kr_eq_dec (map ckr (List.concat writers)) (k, r) else 0.
Proof. exact lts_never_too_much. Qed.
Print Assumptions C32_never_too_much.

Theorem C32_progress : forall trigs s, quiescent s \/ exists s', step trigs s s'.
Proof. exact lts_progress. Qed.
Print Assumptions C32_progress.

Theorem C32_terminates : forall trigs, well_founded (fun s' s => step trigs s s').
Proof. exact lts_terminates. Qed.
Print Assumptions C32_terminates.

Theorem C32_reaches_quiescence : forall trigs s, exists s', steps trigs s s' /\ quiescent s'.
Proof. exact lts_reaches_quiescence. Qed.
Print Assumptions C32_reaches_quiescence.

(** Observation: the match is unanchored (and '.' is a wildcard). *)
Theorem C32_match_unanchored : forall p k pre post,
  match_search p k = true -> match_search p (pre ++ k ++ post) = true.
Proof. exact match_search_unanchored. Qed.
Print Assumptions C32_match_unanchored.

Definition b (s : string) : list byte := bytes_of_string s.
Local Open Scope string_scope.

(** a trigger "on AAPL/1Min/OHLCV" also sees XAAPL's and AAPL's OHLCV2 records; "BRK.A/..." sees BRKXA *)
Example C32_observation_lookalike :
  Match (b "AAPL/1Min/OHLCV") (b "XAAPL/1Min/OHLCV/2020.bin") = Some true /\
  Match (b "AAPL/1Min/OHLCV") (b "AAPL/1Min/OHLCV2/2020.bin") = Some true /\
  Match (b "BRK.A/1Min/OHLCV") (b "BRKXA/1Min/OHLCV/2020.bin") = Some true /\
  Match (b "*/1Min/OHLCV") (b "AAPL/5Min/OHLCV/2020.bin") = Some false.
Proof. vm_compute. repeat split. Qed.

(** * Synchronous mode (background sync disabled) with triggers that write from Fire
    [Former finding trigger-writes-during-fire, FIXED in /repo: RequestFlush serialises the flushes it runs in its
    callers' goroutines.]  A trigger whose Fire writes (contrib/ondiskagg) flushes from its fire goroutine on the same
    dispatcher; with the flushes taking turns, the synchronous-mode LTS ([sstep]: any number of callers, any
    triggers, any reaction of a trigger to a message, any interleaving of whole flushes and dispatcher iterations)
    satisfies the full statement: at EVERY reachable state what has been delivered plus what waits on tpd.c is exactly
    the specification for everything passed to AppendRecord so far. *)
Theorem C32_sync_invariant : forall trigs react callers s,
  ssteps trigs react (sinit callers) s ->
  Permutation (events (y_fired s) ++ flat_map (ev_kv trigs) (kv (y_c s))) (spec_events trigs (y_appended s)).
Proof. exact sync_invariant. Qed.
Print Assumptions C32_sync_invariant.

Theorem C32_sync_never_too_much : forall trigs react callers s,
  ssteps trigs react (sinit callers) s ->
  forall t k r,
    count_occ event_eq_dec (events (y_fired s)) (t, k, r) <=
    if trig_matches trigs t k then count_occ kr_eq_dec (map ckr (y_appended s)) (k, r) else 0.
Proof. exact sync_never_too_much. Qed.
Print Assumptions C32_sync_never_too_much.

Theorem C32_sync_exactly_once : forall trigs react callers s,
  ssteps trigs react (sinit callers) s -> y_c s = [] ->
  Permutation (events (y_fired s)) (spec_events trigs (y_appended s)).
Proof. exact sync_exactly_once. Qed.
Print Assumptions C32_sync_exactly_once.

(** non-vacuity: the aggregating trigger of the former witness: the caller flushes the base record, the trigger is
    fired and queues its own flush, which runs, and its record is dispatched (to nobody): a reachable drained state
    in which the base record has been delivered exactly once and two records have been appended *)
Definition sy_trigs : list (list tok) := Eval vm_compute in
  match parse_on (b "*/1Min/BASE") with Some p => [p] | None => [] end.
Definition sy_base := Eval vm_compute in mkcmd (b "S0/1Min/BASE/2020.bin") (7%Z, [x01]).
Definition sy_agg := Eval vm_compute in mkcmd (b "AGG/1H/AGG/2020.bin") (1%Z, [x02]).
Definition sy_react (t : nat) (wr : wrecs) : list cmd := match t with O => [sy_agg] | _ => [] end.

Example C32_sync_nonvacuous :
  exists s, ssteps sy_trigs sy_react (sinit [[sy_base]]) s /\ y_c s = [] /\
            List.length (y_appended s) = 2 /\ List.length (events (y_fired s)) = 1.
Proof.
  eexists. split.
  - eapply Sss_step. { eapply (Ss_flush sy_trigs sy_react) with (i := 0) (cmds := [sy_base]); [reflexivity | discriminate | apply flush_det_ok]. }
    eapply Sss_step. { eapply Ss_dispatch. reflexivity. }
    eapply Sss_step. { eapply (Ss_flush sy_trigs sy_react) with (i := 1) (cmds := [sy_agg]); [reflexivity | discriminate | apply flush_det_ok]. }
    eapply Sss_step. { eapply Ss_dispatch. reflexivity. }
    apply Sss_refl.
  - vm_compute. repeat split.
Qed.

(** Non-vacuity: a concrete two-flush history with three triggers meets the hypotheses of
    C32_exactly_once and delivers a non-empty multiset; a concrete interleaving of two writers reaches a
    quiescent state. *)
Definition ex_trigs : list (list tok) := Eval vm_compute in
  match parse_on (b "*/1Min/OHLCV"), parse_on (b "AAPL/*/*"), parse_on (b "NOPE") with
  | Some p1, Some p2, Some p3 => [p1; p2; p3] | _, _, _ => [] end.
Definition ex_c1 := Eval vm_compute in mkcmd (b "AAPL/1Min/OHLCV/2020.bin") (7%Z, [x01; x02]).
Definition ex_c2 := Eval vm_compute in mkcmd (b "MSFT/1Min/OHLCV/2020.bin") (7%Z, [x03]).
Definition ex_c3 := Eval vm_compute in mkcmd (b "AAPL/1D/TICK/2020.bin") (1%Z, [x04]).
Definition ex_flushes := [[ex_c1; ex_c2; ex_c1]; [ex_c3]].

Example C32_nonvacuous_history :
  history_ok ex_flushes (map flush_det ex_flushes) /\
  List.length (events (fired_det ex_trigs ex_flushes)) = 6 /\
  fired_det ex_trigs ex_flushes = flat_map (fired_of_msgs ex_trigs) (map flush_det ex_flushes).
Proof. split; [apply history_det_ok | split; [vm_compute; reflexivity | apply fired_det_eq]]. Qed.

Example C32_nonvacuous_schedule :
  exists s, steps ex_trigs (init_sys [[ex_c1]; [ex_c3]]) s /\ quiescent s /\ List.length (events (s_fired s)) = 3.
Proof.
  destruct (lts_reaches_quiescence ex_trigs (init_sys [[ex_c1]; [ex_c3]])) as (s & Hs & Hq).
  exists s. split; [exact Hs | split; [exact Hq|]].
  rewrite (Permutation_length (lts_exactly_once _ _ _ Hs Hq)). vm_compute. reflexivity.
Qed.
