(** C21 — Candle aggregation computes correct OHLC candles.
    Statement file: the property theorems, each closed by [exact] of a lemma proved in Proofs/,
    followed by Print Assumptions.  Model: Model/Candle.v (contrib/candler, tickcandler, candlecandler,
    utils.CandleDuration.Truncate/IsWithin for Sec/Min/H/D in UTC). *)
From Coq Require Import ZArith String List Bool Permutation.
Import ListNotations.
Require Import MS.Base.GoInt MS.Base.Res MS.Base.F32 MS.Base.F64 MS.Model.Uda MS.Model.Candle
               MS.Proofs.Uda_facts MS.Proofs.Candle_map MS.Proofs.Candle_ohlc MS.Generated.Src_agg.
Local Open Scope Z_scope.

(** Rows are the extracted input rows (timestamp, open, high, low, close — a tick has all four equal to
    its price — and the values of the summed/averaged columns).  A candler receives them in any number
    of Accum calls [rowss]; [accum_all] is its candle map afterwards, the output is sorted by key. *)

(** every Accum call whose columns extract to rows: the real Accum sequence computes [accum_all] *)
Theorem C21_run : forall cd nacc inputs rowss m,
  Forall2 (fun i rows => extract i = Ok rows /\ List.length (in_acc i) = nacc) inputs rowss ->
  run_accum cd m inputs = Ok (fold_left (accum_rows cd nacc) rowss m).
Proof. exact run_accum_ok. Qed.
Print Assumptions C21_run.

(** one candle per window that contains input rows, in time order, and each candle is the fold of
    AddCandle over exactly its window's rows in input order — for all row lists, all timeframes, any split
    of the input into Accum calls (the per-call candle cache of GetCandle is shown irrelevant) *)
Theorem C21_partition : forall cd nacc rowss, idem cd ->
  let rows := concat rowss in
  let out := sort_by_key (accum_all cd nacc rowss) in
  incr (map fst out)
  /\ (forall w, In w (map fst out) <-> exists r, In r rows /\ truncate cd (b_t r) = w)
  /\ (forall w c, In (w, c) out -> c = window_candle cd nacc w rows).
Proof. exact accum_partition. Qed.
Print Assumptions C21_partition.

(** … and that fold meets the specification: start = window; open = open price of an earliest row,
    close = close price of a latest row, high / low = greatest / least element (NaN-free columns),
    count = number of rows, sums = float64 left folds in input order.
    Guard [rows_ok]: no timestamp equals Go's zero time.Time (0001-01-01 00:00 UTC), < 2^63 rows. *)
Theorem C21_candle : forall cd nacc rows w, idem cd -> rows_ok rows ->
  (exists r, In r rows /\ truncate cd (b_t r) = w) ->
  candle_spec (window_candle cd nacc w rows) w (window_rows cd w rows)
  /\ c_sums (window_candle cd nacc w rows) = sums_of nacc (window_rows cd w rows).
Proof. exact window_candle_meets_spec. Qed.
Print Assumptions C21_candle.

(** order independence: for distinct timestamps and NaN-free prices a permutation of the input leaves
    open and close unchanged and high and low equal as numbers (Go's ==) *)
Theorem C21_order_independent : forall cd nacc rows rows' w, idem cd -> Permutation rows rows' -> rows_ok rows ->
  NoDup (map b_t rows) -> f32_nonan (map b_h rows) = true -> f32_nonan (map b_l rows) = true ->
  (exists r, In r rows /\ truncate cd (b_t r) = w) ->
  ohlc_eq (window_candle cd nacc w rows) (window_candle cd nacc w rows').
Proof. exact ohlc_order_independent. Qed.
Print Assumptions C21_order_independent.

(** the window arithmetic C21 relies on.  [idem cd] (window starts are fixed points of Truncate) is the only
    assumption on the timeframe and the system timezone; it is proved for Sec/Min/H/D in every zone at a fixed UTC
    offset (UTC included), and with it a timestamp is within its own window (C31's fact) *)
Theorem C21_zone_idem : forall off mult suffix, idem (cd_of_zone off mult suffix).
Proof. exact idem_zone. Qed.
Print Assumptions C21_zone_idem.

Theorem C21_within_own_window : forall cd t, idem cd -> is_within cd t (truncate cd t) = true.
Proof. exact is_within_truncate. Qed.
Print Assumptions C21_within_own_window.

(** the windows are as long as the timeframe says — for Sec/Min/H and for "1D" *)
Theorem C21_window_length : forall off mult suffix,
  0 < cd_dur (cd_of_zone off mult suffix) ->
  (String.eqb suffix "D" = true -> cd_dur (cd_of_zone off mult suffix) = Src_agg.agg_Day) ->
  window_len_ok (cd_of_zone off mult suffix).
Proof. exact window_len_zone. Qed.
Print Assumptions C21_window_length.

(** … but not for "<n>D" with n > 1: Truncate / IsWithin ignore the multiplier, a 2D candler yields one candle
    per calendar day ("one candle per window" of the given timeframe fails) *)
Definition C21_window_full : Prop := forall mult suffix,
  0 < cd_dur (cd_of mult suffix) -> window_len_ok (cd_of mult suffix).

Theorem C21_window_refuted : ~ C21_window_full.
Proof.
  intros H. specialize (H 2 "D"%string eq_refl (1600000000 * NS) (1600000000 * NS + 86400 * NS)).
  vm_compute in H. assert (X : 1600041600000000000 = 1599955200000000000) by (apply H; split; [discriminate | reflexivity]).
  discriminate X.
Qed.
Print Assumptions C21_window_refuted.

(** ---- the statement without the zero-time guard is refuted by the faithful model ---- *)
Definition C21_full : Prop := forall cd nacc rows w, idem cd -> Z.of_nat (List.length rows) <= ity_max I64 ->
  (exists r, In r rows /\ truncate cd (b_t r) = w) ->
  candle_spec (window_candle cd nacc w rows) w (window_rows cd w rows).

Definition C21_tick (t : Z) (p : Z) : bar :=
  {| b_t := t; b_o := f32_of_Z p; b_h := f32_of_Z p; b_l := f32_of_Z p; b_c := f32_of_Z p; b_acc := [] |}.
Definition C21_witness : list bar :=
  [C21_tick zero_time 10; C21_tick (zero_time + 1 * NS) 20; C21_tick (zero_time + 2 * NS) 5].

Theorem C21_refuted : ~ C21_full.
Proof.
  intros H. specialize (H (cd_of 1 "Min"%string) 0%nat C21_witness zero_time).
  assert (L : Z.of_nat (List.length C21_witness) <= ity_max I64) by (vm_compute; discriminate).
  assert (E : exists r, In r C21_witness /\ truncate (cd_of 1 "Min"%string) (b_t r) = zero_time).
  { exists (C21_tick zero_time 10). split; [left; reflexivity | vm_compute; reflexivity]. }
  destruct (cs_open _ _ _ (H (idem_zone 0 1 "Min"%string) L E)) as (r & [I M] & T & _).
  assert (I0 : In (C21_tick zero_time 10) (window_rows (cd_of 1 "Min"%string) zero_time C21_witness)).
  { apply filter_In. split; [left; reflexivity | vm_compute; reflexivity]. }
  specialize (M _ I0). rewrite <- T in M. vm_compute in M. apply M. reflexivity.
Qed.
Print Assumptions C21_refuted.

(** ---- order independence for ALL row sets with distinct timestamps is refuted by NaN prices ---- *)
Definition C21_order_full : Prop := forall cd nacc rows rows' w, idem cd -> Permutation rows rows' -> rows_ok rows ->
  NoDup (map b_t rows) -> (exists r, In r rows /\ truncate cd (b_t r) = w) ->
  f32_eq (c_h (window_candle cd nacc w rows)) (c_h (window_candle cd nacc w rows')) = true.

Definition C21_nan_tick (t : Z) : bar :=
  let p := f32_of_bits 0x7fc00000 in {| b_t := t; b_o := p; b_h := p; b_l := p; b_c := p; b_acc := [] |}.

(** [NaN, 1]: the first price initialises High = NaN and [1 > NaN] is false; [1, NaN]: High = 1 *)
Theorem C21_order_refuted : ~ C21_order_full.
Proof.
  intros H.
  set (a := C21_nan_tick (1599999970 * NS)). set (b := C21_tick (1599999980 * NS) 1).
  specialize (H (cd_of 1 "Min"%string) 0%nat [a; b] [b; a] (1599999960 * NS) (idem_zone 0 1 "Min"%string) (perm_swap b a [])).
  assert (OK : rows_ok [a; b]).
  { split; [|vm_compute; discriminate]. intros r [E|[E|[]]]; subst r; cbn [a b b_t C21_tick C21_nan_tick]; vm_compute; discriminate. }
  assert (ND : NoDup (map b_t [a; b])).
  { cbn [map a b b_t C21_tick C21_nan_tick]. repeat constructor; cbn [In]; intros K;
      repeat (destruct K as [K|K]; [vm_compute in K; discriminate K|]); exact K. }
  assert (EX : exists r, In r [a; b] /\ truncate (cd_of 1 "Min"%string) (b_t r) = 1599999960 * NS).
  { exists a. split; [left; reflexivity | vm_compute; reflexivity]. }
  specialize (H OK ND EX). vm_compute in H. discriminate H.
Qed.
Print Assumptions C21_order_refuted.

(** Non-vacuity: a concrete non-trivial input meets the hypotheses of C21_candle / C21_order_independent. *)
Example C21_nonvacuous :
  let rows := [C21_tick (1599999970 * NS) 10; C21_tick (1600000019 * NS) 12; C21_tick (1599999990 * NS) 7;
               C21_tick (1600000021 * NS) 9] in
  rows_ok rows /\ NoDup (map b_t rows) /\ f32_nonan (map b_h rows) = true /\ f32_nonan (map b_l rows) = true
  /\ (exists r, In r rows /\ truncate (cd_of 1 "Min"%string) (b_t r) = 1599999960 * NS)
  /\ List.length (window_rows (cd_of 1 "Min"%string) (1599999960 * NS) rows) = 3%nat.
Proof.
  cbv zeta. split; [split|split; [|split; [|split; [|split]]]].
  - intros r [E|[E|[E|[E|[]]]]]; subst r; cbn [b_t C21_tick]; vm_compute; discriminate.
  - vm_compute. discriminate.
  - cbn [map b_t C21_tick]. repeat constructor; cbn [In]; intros K;
      repeat (destruct K as [K|K]; [vm_compute in K; discriminate K|]); exact K.
  - vm_compute. reflexivity.
  - vm_compute. reflexivity.
  - eexists. split; [left; reflexivity | vm_compute; reflexivity].
  - unfold window_rows. vm_compute. reflexivity.
Qed.
