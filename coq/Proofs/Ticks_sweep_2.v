From Coq Require Import ZArith.
Require Import MS.Proofs.Ticks_sweep.
Lemma sweep_block_2 : sweep_ok (Z.to_nat block) 123400000 = true.
Proof. vm_compute. reflexivity. Qed.
