(** Proofs/Durable_ack.v — in synchronous mode (every request is enqueue; flush; return) a request whose
    acknowledgement marker is in the crash prefix has all its commands in a committed TG. *)
From Coq Require Import ZArith NArith List Bool Lia.
From Coq.Strings Require Import Byte.
Import ListNotations.
Require Import MS.Base.Res MS.Generated.Src_durab MS.Model.Wal MS.Model.Replay
  MS.Proofs.Durable_wal MS.Proofs.Durable_files MS.Proofs.Durable_exec MS.Proofs.Durable_recover MS.Proofs.Durable_sem
  MS.Proofs.Durable_crash MS.Proofs.Durable_steps MS.Proofs.Durable_props.
Local Open Scope Z_scope.

Lemma recovered_contents fs' all replayed : Recovered fs' all replayed ->
  (forall f off, fx_get fs' f off = lastw (cmds_of all) f off)
  /\ (forall c r, In c (cmds_of all) -> c_kind c = KVar -> In r (c_data c) -> In r (content fs' (c_fid c) (c_off c))).
Proof. intros [_ H1 H2 _]. split; assumption. Qed.

Definition sync_sched (sched : list sev) : bool :=
  forallb (fun s => match s with SWrite _ _ _ _ | SCheckpoint _ | SShutdown _ => true | _ => false end) sched.

Definition ack_ids (sched : list sev) : list nat :=
  flat_map (fun s => match s with SWrite _ _ _ i => [i] | SAck i => [i] | _ => [] end) sched.
Definition ack_ids_distinct (sched : list sev) : Prop := NoDup (ack_ids sched).

(** the committed list only grows *)
Lemma cs_all_mono es : forall c, exists l, cs_all (cfold c es) = cs_all c ++ l.
Proof.
  induction es as [|e es IH]; intros c; [exists []; rewrite app_nil_r; reflexivity|].
  unfold cfold in *. cbn [fold_left]. destruct (IH (cstep c e)) as [l Hl]. rewrite Hl.
  assert (exists l0, cs_all (cstep c e) = cs_all c ++ l0) as [l0 ->].
  { destruct e; try (exists []; rewrite app_nil_r; reflexivity).
    - destruct r; cbn [cstep]; try (exists []; rewrite app_nil_r; reflexivity).
      + destruct ((dest =? DEST_CHECKPOINT) && (st =? TXN_COMMITCOMPLETE)); exists []; rewrite app_nil_r; reflexivity.
      + destruct ok; [|exists []; rewrite app_nil_r; reflexivity].
        destruct (cs_pending c); [eexists; reflexivity|exists []; rewrite app_nil_r; reflexivity]. }
  exists (l0 ++ l). rewrite app_assoc. reflexivity.
Qed.

Section WithClen.
  Variable clen : list record -> Z.

  (** the primary phase emits write events only *)
  Lemma indirect_quiet im c evs : indirect clen im c = Some evs -> forallb is_write evs = true.
  Proof.
    unfold indirect. destruct (alookup (c_fid c) (i_files im)) as [[| |s ix eof bl]|]; try discriminate.
    destruct (c_off c <? eof); [|discriminate]. destruct (slot_triple ix (c_off c)) as [[i o] l].
    destruct (if i =? 0 then Some [] else read_block bl eof o l); [|discriminate]. intros H. inversion H. reflexivity.
  Qed.
  Lemma var_writes_quiet cs : forall im, forallb is_write (var_writes clen im cs) = true.
  Proof.
    induction cs as [|c cs IH]; intros im; [reflexivity|]. cbn [var_writes].
    destruct (indirect clen im c) as [evs|] eqn:E; [|reflexivity].
    rewrite forallb_app, (indirect_quiet _ _ _ E), IH. reflexivity.
  Qed.
  Lemma fixed_writes_quiet cs : forall im, forallb is_write (fixed_writes im cs) = true.
  Proof.
    induction cs as [|c cs IH]; intros im; [reflexivity|]. cbn [fixed_writes]. unfold fixed_write.
    destruct (alookup (c_fid c) (i_files im)); [|reflexivity]. cbn [app forallb is_write andb]. apply IH.
  Qed.
  Lemma prim_events_quiet fs : forall im cs, forallb is_write (prim_events clen im fs cs) = true.
  Proof.
    induction fs as [|f fs IH]; intros im cs; [reflexivity|]. cbn [prim_events].
    rewrite forallb_app, IH, andb_true_r. destruct (file_kind f cs); [apply fixed_writes_quiet|apply var_writes_quiet].
  Qed.

  (** a flush of a non-empty queue commits exactly one TG holding the queue *)
  Lemma flush_commits im st ord evs st' c :
    flush clen im st ord = Ok (evs, st') ->
    s_queue st' = [] /\
    (s_queue st = [] -> cs_all (cfold c evs) = cs_all c) /\
    (s_queue st <> [] -> cs_all (cfold c evs) = cs_all c ++ [(s_tgid st, s_queue st)]) /\
    (forall j, ~ In (EAck j) evs).
  Proof.
    unfold flush. destruct (s_queue st) as [|c0 q] eqn:Eq.
    - intros H. inversion H; subst. cbn. repeat split; try congruence; try (intros j []).
    - destruct (can_write im st); [|discriminate]. cbv zeta. intros H.
      match type of H with Ok (?A, ?B) = _ => assert (Hevs : evs = A) by congruence; assert (Hst : st' = B) by congruence end.
      subst evs st'. clear H. split; [reflexivity|]. split; [congruence|]. split.
      + intros _. rewrite cfold_app. rewrite (cfold_quiet (prim_events _ _ _ _)) by (apply is_write_quiet, prim_events_quiet).
        cbn [wal_events cfold fold_left cstep cs_pending cs_all cs_cur].
        change (DEST_WAL =? DEST_CHECKPOINT) with false. cbn [andb cs_all]. reflexivity.
      + intros j Hin. apply in_app_or in Hin as [Hin|Hin].
        * unfold wal_events in Hin. cbn [In] in Hin. intuition discriminate.
        * pose proof (prim_events_quiet (file_order ord (c0 :: q)) (apply_events im (wal_events (s_wal st) (s_tgid st) (c0 :: q))) (c0 :: q)) as Hq.
          rewrite forallb_forall in Hq. specialize (Hq _ Hin). discriminate.
  Qed.

  Lemma checkpoint_no_ack w l j : ~ In (EAck j) (checkpoint_events w l).
  Proof. unfold checkpoint_events. destruct (l =? 0); cbn; intuition discriminate. Qed.

  (** the acknowledgement markers a step emits *)
  Lemma step_acks im st s evs st' j :
    exec_sev clen im st s = Ok (evs, st') -> In (EAck j) evs ->
    In j (match s with SWrite _ _ _ i => [i] | SAck i => [i] | _ => [] end).
  Proof.
    destruct s as [pre bs | ord | i | pre bs ord i | rot | ord]; cbn [exec_sev]; intros H Hin.
    - destruct (forallb is_pre pre) eqn:Ec; [|discriminate]. inversion H; subst.
      rewrite forallb_forall in Ec. specialize (Ec _ Hin). discriminate.
    - destruct (flush_commits im st ord evs st' cst0 H) as (_ & _ & _ & Hn). destruct (Hn j Hin).
    - inversion H; subst. destruct Hin as [Hin|[]]. inversion Hin. left. reflexivity.
    - destruct (forallb is_pre pre) eqn:Ec; [|discriminate].
      destruct (flush clen (apply_events im pre) _ ord) as [[e1 s1]| |] eqn:Ef; try discriminate.
      inversion H; subst. apply in_app_or in Hin as [Hin|Hin].
      + rewrite forallb_forall in Ec. specialize (Ec _ Hin). discriminate.
      + apply in_app_or in Hin as [Hin|Hin].
        * destruct (flush_commits _ _ _ _ _ cst0 Ef) as (_ & _ & _ & Hn). destruct (Hn j Hin).
        * destruct Hin as [Hin|[]]. inversion Hin. left. reflexivity.
    - inversion H; subst. apply in_app_or in Hin as [Hin|Hin]; [destruct (checkpoint_no_ack _ _ _ Hin)|].
      destruct rot; [|destruct Hin]. cbn in Hin. intuition discriminate.
    - destruct (flush clen im st ord) as [[e1 s1]| |] eqn:Ef; try discriminate. inversion H; subst.
      apply in_app_or in Hin as [Hin|Hin].
      + destruct (flush_commits _ _ _ _ _ cst0 Ef) as (_ & _ & _ & Hn). destruct (Hn j Hin).
      + destruct (checkpoint_no_ack _ _ _ Hin).
  Qed.

  Lemma acked_from sched : forall im st c tr k pre bs ord i,
    run_from clen im st sched = Ok tr -> sync_sched sched = true -> NoDup (ack_ids sched) ->
    s_queue st = [] ->
    In (SWrite pre bs ord i) sched -> In (EAck i) (firstn k tr) ->
    incl (flat_map write_records bs) (cmds_of (cs_all (cfold c (firstn k tr)))).
  Proof.
    induction sched as [|s r IH]; intros im st c tr k pre bs ord i Hrun Hsync Hnd Hq Hin Hack; [destruct Hin|].
    cbn [run_from] in Hrun. destruct (exec_sev clen im st s) as [[evs st1]| |] eqn:Eex; try discriminate.
    destruct (run_from clen (apply_events im evs) st1 r) as [rest| |] eqn:Er; try discriminate.
    inversion Hrun; subst tr. clear Hrun.
    cbn [sync_sched forallb] in Hsync. apply andb_prop in Hsync as [Hs Hsr].
    cbn [ack_ids flat_map] in Hnd. fold (ack_ids r) in Hnd.
    (* the queue is empty again after every synchronous step *)
    assert (Hq1 : s_queue st1 = []).
    { destruct s as [? ? | ? | ? | pre0 bs0 ord0 i0 | rot | ord0]; try discriminate; cbn [exec_sev] in Eex.
      - destruct (forallb is_pre pre0); [|discriminate].
        destruct (flush clen (apply_events im pre0) _ ord0) as [[e1 s1]| |] eqn:Ef; try discriminate.
        inversion Eex; subst. apply (flush_commits _ _ _ _ _ cst0 Ef).
      - inversion Eex; subst. exact Hq.
      - destruct (flush clen im st ord0) as [[e1 s1]| |] eqn:Ef; try discriminate. inversion Eex; subst.
        cbn [with_last s_queue]. apply (flush_commits _ _ _ _ _ cst0 Ef). }
    destruct Hin as [->|Hin].
    - (* the head step is our request: its marker is the last event of [evs] *)
      cbn [exec_sev] in Eex. destruct (forallb is_pre pre) eqn:Ec; [|discriminate].
      destruct (flush clen (apply_events im pre) _ ord) as [[e1 s1]| |] eqn:Ef; try discriminate.
      inversion Eex; subst evs st1. clear Eex.
      set (evs := pre ++ e1 ++ [EAck i]) in *.
      destruct (flush_commits _ _ _ _ _ (cfold c pre) Ef) as (_ & He & Hne & Hna).
      cbn [with_queue s_queue s_tgid] in He, Hne. rewrite Hq in He, Hne. cbn [app] in He, Hne.
      (* the prefix contains all of [evs] *)
      assert (Hk : (length evs <= k)%nat).
      { destruct (Nat.le_gt_cases (length evs) k) as [H|H]; [exact H|]. exfalso.
        rewrite firstn_app_le in Hack by lia.
        (* the marker would have to be inside [pre ++ e1] *)
        assert (Hin2 : In (EAck i) (pre ++ e1)).
        { unfold evs in Hack, H. rewrite app_assoc in Hack, H. rewrite app_length in H. cbn in H.
          rewrite firstn_app_le in Hack by lia. eapply In_firstn_incl. exact Hack. }
        apply in_app_or in Hin2 as [H2|H2].
        - rewrite forallb_forall in Ec. specialize (Ec _ H2). discriminate.
        - destruct (Hna i H2). }
      rewrite firstn_app_ge by exact Hk. rewrite cfold_app.
      destruct (cs_all_mono (firstn (k - length evs) rest) (cfold c evs)) as [l ->].
      assert (Hall : incl (flat_map write_records bs) (cmds_of (cs_all (cfold c evs)))).
      { unfold evs. rewrite !cfold_app. cbn [cfold fold_left cstep].
        destruct (flat_map write_records bs) as [|c0 q] eqn:Ecs; [intros x []|].
        rewrite Hne by discriminate. rewrite cmds_of_app. intros x Hx. apply in_or_app. right.
        unfold cmds_of. cbn. rewrite app_nil_r. exact Hx. }
      rewrite cmds_of_app. intros x Hx. apply in_or_app. left. apply Hall, Hx.
    - (* our request is later: its marker is not among the head step's events *)
      assert (Hnot : ~ In (EAck i) evs).
      { intros H. pose proof (step_acks _ _ _ _ _ _ Eex H) as Hj.
        assert (In i (ack_ids r)).
        { unfold ack_ids. apply in_flat_map. exists (SWrite pre bs ord i). split; [exact Hin|left; reflexivity]. }
        clear - Hnd Hj H0. induction (match s with SWrite _ _ _ i0 => [i0] | SAck i0 => [i0] | _ => [] end) as [|a l IHl];
          [destruct Hj|].
        cbn [app] in Hnd. inversion Hnd; subst. destruct Hj as [->|Hj]; [apply H2, in_or_app; right; exact H0|].
        apply IHl; assumption. }
      destruct (Nat.le_gt_cases k (length evs)) as [Hle|Hgt].
      + exfalso. rewrite firstn_app_le in Hack by exact Hle. apply Hnot. eapply In_firstn_incl. exact Hack.
      + rewrite firstn_app_ge in Hack |- * by lia. rewrite cfold_app.
        apply in_app_or in Hack as [Hack|Hack]; [contradiction|].
        eapply IH; try eassumption.
        clear - Hnd. induction (match s with SWrite _ _ _ i0 => [i0] | SAck i0 => [i0] | _ => [] end) as [|a l IHl];
          [exact Hnd|]. cbn [app] in Hnd. inversion Hnd; subst. apply IHl. assumption.
  Qed.

  Theorem acked_are_committed owner tgid0 sched tr k pre bs ord i :
    run clen 0%N owner tgid0 sched = Ok tr -> sync_sched sched = true -> ack_ids_distinct sched ->
    In (SWrite pre bs ord i) sched -> In (EAck i) (firstn k tr) ->
    incl (flat_map write_records bs) (cmds_of (committed tr k)).
  Proof.
    intros Hrun Hsync Hnd Hin Hack. unfold run in Hrun. set (e0 := start_events 0%N owner) in *.
    destruct (run_from clen (apply_events img0 e0) (init_state 0%N owner tgid0) sched) as [rest| |] eqn:Er; try discriminate.
    assert (Htr : tr = e0 ++ rest) by congruence. subst tr. clear Hrun. unfold committed.
    assert (Hl : length e0 = 3%nat) by reflexivity.
    destruct (Nat.le_gt_cases k 3) as [Hle|Hgt].
    - exfalso. rewrite firstn_app_le in Hack by lia. apply In_firstn_incl in Hack. cbn in Hack. intuition discriminate.
    - rewrite firstn_app_ge in Hack |- * by lia. rewrite cfold_app.
      apply in_app_or in Hack as [Hack|Hack]; [cbn in Hack; intuition discriminate|].
      eapply acked_from; try eassumption. reflexivity.
  Qed.
End WithClen.

Lemma recovered_exact fs' all replayed : Recovered fs' all replayed ->
  (forall f off, fx_get fs' f off = lastw (cmds_of all) f off)
  /\ (no_var (cmds_of replayed) -> forall f slot, content fs' f slot = ct_after (cmds_of all) [] f slot).
Proof. intros [_ H1 _ H2]. split; assumption. Qed.
