(** Proofs/Durable_c05.v — the protocol-level statements of C05 / C35 / C34:
    - the scan only ever keeps a TG whose checksum record says "intact" ([scan_only_intact], for ARBITRARY
      record lists, not only the writer's);
    - recovery is the execution of the unchecked TGs in ascending id order ([recovery_is_ordered_replay]);
    - after a graceful shutdown a restart changes nothing ([shutdown_restart_identity]);
    - a second restart finds nothing to replay ([second_restart_noop]). *)
From Coq Require Import ZArith NArith List Bool Lia.
From Coq.Strings Require Import Byte.
Import ListNotations.
Require Import MS.Base.Res MS.Generated.Src_durab MS.Model.Wal MS.Model.Replay
  MS.Proofs.Durable_wal MS.Proofs.Durable_files MS.Proofs.Durable_exec MS.Proofs.Durable_flush
  MS.Proofs.Durable_recover MS.Proofs.Durable_sem MS.Proofs.Durable_ext MS.Proofs.Durable_crash
  MS.Proofs.Durable_inv MS.Proofs.Durable_steps MS.Proofs.Durable_steps2 MS.Proofs.Durable_steps3
  MS.Proofs.Durable_props.
Local Open Scope Z_scope.

(* ------------------------------------------------------------------ only intact TGs enter the replay set *)

Definition intact_in (recs : list wrec) (id : Z) (cs : list cmd) : Prop :=
  exists a n b, recs = a ++ RMid :: RLen n :: RBody id cs :: RSum true :: b.

Lemma tg_set_in k v (m : tgmap) k' v' :
  In (k', Some v') (tg_set k v m) -> (k' = k /\ v = Some v') \/ In (k', Some v') m.
Proof.
  induction m as [|[k0 v0] m IH]; cbn [tg_set In].
  - intros [H|[]]. inversion H. left. auto.
  - destruct (Z.eqb_spec k k0) as [->|Hne]; cbn [In].
    + intros [H|H]; [inversion H; left; auto|right; right; exact H].
    + intros [H|H]; [right; left; exact H|]. destruct (IH H) as [H1|H1]; [left; exact H1|right; right; exact H1].
Qed.

Lemma tg_prune_in k (m : tgmap) e : In e (tg_prune k m) -> In e m.
Proof. unfold tg_prune. intros H. apply filter_In in H as [H _]. exact H. Qed.

Lemma intact_cons r recs id cs : intact_in recs id cs -> intact_in (r :: recs) id cs.
Proof. intros (a & n & b & ->). exists (r :: a), n, b. reflexivity. Qed.

Theorem scan_only_intact : forall recs size m seen m',
  scan recs size m seen = ScanOk m' ->
  forall id cs, In (id, Some cs) m' -> In (id, Some cs) m \/ intact_in recs id cs.
Proof.
  intros recs. induction recs as [recs IH] using (well_founded_induction (Wf_nat.well_founded_ltof _ (@length wrec))).
  intros size m seen m' Hs id cs Hin.
  destruct recs as [|r0 r]; [cbn in Hs; inversion Hs; subst; left; exact Hin|].
  destruct r0 as [tid dest st | | n0 | id0 cs0 | ok0]; try (cbn in Hs; discriminate).
  - (* TXNINFO *)
    cbn [scan] in Hs.
    assert (Hrec : forall m1, scan r size m1 seen = ScanOk m' -> (forall e, In e m1 -> In e m) ->
                     In (id, Some cs) m \/ intact_in (RTxn tid dest st :: r) id cs).
    { intros m1 H1 Hsub. destruct (IH r ltac:(unfold Wf_nat.ltof; cbn; lia) _ _ _ _ H1 _ _ Hin) as [H|H].
      - left. apply Hsub, H.
      - right. apply intact_cons, H. }
    destruct (valid_dest dest && valid_status st).
    + destruct ((dest =? DEST_CHECKPOINT) && (st =? TXN_COMMITCOMPLETE) && tg_has tid m).
      * eapply Hrec; [exact Hs|]. intros e. apply tg_prune_in.
      * eapply Hrec; [exact Hs|]. auto.
    + eapply Hrec; [exact Hs|]. auto.
  - (* TGDATA message id *)
    cbn [scan] in Hs.
    assert (Hnil : ScanOk (tg_set 0 None m) = ScanOk m' -> In (id, Some cs) m \/ intact_in (RMid :: r) id cs).
    { intros H. inversion H; subst. destruct (tg_set_in _ _ _ _ _ Hin) as [[_ H1]|H1]; [discriminate|left; exact H1]. }
    destruct r as [|x1 r1]; [apply Hnil, Hs|].
    destruct x1 as [| | n | |]; try discriminate.
    destruct r1 as [|x2 r2]; [apply Hnil, Hs|].
    destruct x2 as [| | | id1 cs1 |]; try discriminate.
    destruct r2 as [|x3 r3]; [apply Hnil, Hs|].
    destruct x3 as [| | | | ok]; try discriminate.
    destruct ((n <? safetyFactor * size) && (n =? body_len cs1)); [|discriminate].
    destruct ok.
    + destruct (existsb (Z.eqb id1) seen); [discriminate|].
      destruct (IH r3 ltac:(unfold Wf_nat.ltof; cbn; lia) _ _ _ _ Hs _ _ Hin) as [H|H].
      * destruct (tg_set_in _ _ _ _ _ H) as [[-> H1]|H1].
        -- inversion H1; subst. right. exists [], n, r3. reflexivity.
        -- left. exact H1.
      * right. destruct H as (a & n' & b & ->).
        exists (RMid :: RLen n :: RBody id1 cs1 :: RSum true :: a), n', b. reflexivity.
    + destruct (existsb (Z.eqb 0) seen); [discriminate|].
      destruct (IH r3 ltac:(unfold Wf_nat.ltof; cbn; lia) _ _ _ _ Hs _ _ Hin) as [H|H].
      * destruct (tg_set_in _ _ _ _ _ H) as [[_ H1]|H1]; [discriminate|left; exact H1].
      * right. destruct H as (a & n' & b & ->).
        exists (RMid :: RLen n :: RBody id1 cs1 :: RSum false :: a), n', b. reflexivity.
Qed.

Lemma same_files_same_queries : forall im im' bucket, i_files im = i_files im' -> bucket_rows im bucket = bucket_rows im' bucket.
Proof. intros im im' bucket H. unfold bucket_rows. rewrite H. reflexivity. Qed.

Corollary scan_only_intact_from_empty : forall recs size m',
  scan recs size [] [] = ScanOk m' ->
  forall id cs, In (id, Some cs) m' -> intact_in recs id cs.
Proof.
  intros recs size m' H id cs Hin. destruct (scan_only_intact recs size [] [] m' H id cs Hin) as [[]|Hi]. exact Hi.
Qed.

(* ------------------------------------------------------------------ the end state of a run *)

Section WithClen.
  Variable clen : list record -> Z.
  Hypothesis clen_pos : forall x, 0 < clen x.
  Variable owner2 : Z.

  Notation Good := (Good clen owner2).

  Fixpoint end_from (im : img) (st : sstate) (sched : list sev) : option (img * sstate) :=
    match sched with
    | [] => Some (im, st)
    | s :: r => match exec_sev clen im st s with
                | Ok (evs, st') => end_from (apply_events im evs) st' r
                | _ => None
                end
    end.

  Lemma run_good_end sched : forall old segs cur im st c tr,
    BInv old segs cur im st c -> wf_from clen im st sched = true -> run_from clen im st sched = Ok tr ->
    exists st', end_from im st sched = Some (apply_events im tr, st')
      /\ exists old' segs' cur', BInv old' segs' cur' (apply_events im tr) st' (cfold c tr).
  Proof.
    induction sched as [|s r IH]; intros old segs cur im st c tr Hb Hwf Hrun.
    - inversion Hrun; subst. exists st. split; [reflexivity|]. exists old, segs, cur. exact Hb.
    - cbn [wf_from run_from end_from] in *. apply andb_prop in Hwf as [Hs Hr].
      destruct (exec_sev clen im st s) as [[evs st1]| |] eqn:Eex; try discriminate.
      destruct (run_from clen (apply_events im evs) st1 r) as [rest| |] eqn:Er; try discriminate.
      inversion Hrun; subst tr.
      destruct (good_step clen clen_pos owner2 _ _ _ _ _ _ _ _ _ Hb Hs Eex) as [(old1 & segs1 & cur1 & Hb1) _].
      destruct (IH _ _ _ _ _ _ _ Hb1 Hr Er) as (st' & He & Hb2).
      exists st'. rewrite apply_events_app, cfold_app. split; assumption.
  Qed.

  Lemma end_from_app a : forall b im st,
    end_from im st (a ++ b) = match end_from im st a with Some (im1, st1) => end_from im1 st1 b | None => None end.
  Proof.
    induction a as [|s a IH]; intros b im st; [reflexivity|]. cbn [app end_from].
    destruct (exec_sev clen im st s) as [[evs st1]| |]; try reflexivity. apply IH.
  Qed.

  Lemma run_from_app a : forall b im st tr,
    run_from clen im st (a ++ b) = Ok tr ->
    exists tr1 tr2 im1 st1, run_from clen im st a = Ok tr1 /\ end_from im st a = Some (im1, st1)
      /\ im1 = apply_events im tr1 /\ run_from clen im1 st1 b = Ok tr2 /\ tr = tr1 ++ tr2.
  Proof.
    induction a as [|s a IH]; intros b im st tr H.
    - exists [], tr, im, st. cbn. auto.
    - cbn [app run_from end_from] in *. destruct (exec_sev clen im st s) as [[evs st1]| |] eqn:Eex; try discriminate.
      destruct (run_from clen (apply_events im evs) st1 (a ++ b)) as [rest| |] eqn:Er; try discriminate.
      inversion H; subst tr. destruct (IH _ _ _ _ Er) as (t1 & t2 & im1 & s1 & H1 & H2 & H3 & H4 & H5).
      exists (evs ++ t1), t2, im1, s1. rewrite H1. split; [reflexivity|]. split; [exact H2|].
      split; [rewrite apply_events_app; exact H3|]. split; [exact H4|]. rewrite H5, app_assoc. reflexivity.
  Qed.

  (** a boundary state whose [s_last] is 0 has nothing unchecked *)
  Lemma binv_last0 old segs cur im st c : BInv old segs cur im st c -> s_last st = 0 -> cur = [].
  Proof.
    intros [_ _ _ _ Hi _ Hl _ _ _ _ _] H0. rewrite H0 in Hl.
    destruct cur as [|t1 cur']; [reflexivity|]. exfalso.
    apply incr_all_pos in Hi. rewrite Forall_forall in Hi.
    assert (In (last (map fst (t1 :: cur')) 0) (map fst (t1 :: cur'))) by (apply last_in_nonempty; discriminate).
    apply in_map_iff in H as (t & Ht & Hin).
    assert (0 < fst t) by (apply Hi; apply in_or_app; right; unfold live_tgs; apply in_or_app; right; exact Hin). lia.
  Qed.

  (** C35.  A run that ends with a graceful shutdown (flush, then checkpoint): restarting on the final
      image replays nothing and leaves every primary file exactly as it was. *)
  Theorem shutdown_restart_identity owner tgid0 sched ord tr :
    owner <> 0 -> 0 < tgid0 ->
    run clen 0%N owner tgid0 (sched ++ [SShutdown ord]) = Ok tr ->
    wf_sched clen owner tgid0 (sched ++ [SShutdown ord]) = true ->
    snd (recover clen 1%N owner2 (crash_img tr (length tr))) = StartOk
    /\ i_files (recovered clen 1%N owner2 (crash_img tr (length tr))) = i_files (crash_img tr (length tr))
    /\ unchecked tr (length tr) = []
    /\ map fst (i_wals (recovered clen 1%N owner2 (crash_img tr (length tr)))) = [1%N].
  Proof.
    intros Hown Htg Hrun Hwf.
    (* the end state *)
    unfold run in Hrun. unfold wf_sched in Hwf. set (e0 := start_events 0%N owner) in *.
    destruct (run_from clen (apply_events img0 e0) (init_state 0%N owner tgid0) (sched ++ [SShutdown ord])) as [rest| |] eqn:Er;
      try discriminate.
    assert (Htr : tr = e0 ++ rest) by congruence. subst tr. clear Hrun.
    pose proof (binv_init owner tgid0 e0 Hown Htg (or_intror eq_refl)) as Hb0.
    destruct (run_good_end _ _ _ _ _ _ _ _ Hb0 Hwf Er) as (st' & Hend & old' & segs' & cur' & Hb').
    (* the last step leaves s_last = 0 *)
    assert (Hl0 : s_last st' = 0).
    { rewrite end_from_app in Hend.
      destruct (end_from (apply_events img0 e0) (init_state 0%N owner tgid0) sched) as [[im1 st1]|]; [|discriminate].
      cbn [end_from exec_sev] in Hend. destruct (flush clen im1 st1 ord) as [[ev1 s1]| |]; try discriminate.
      inversion Hend; subst. reflexivity. }
    pose proof (binv_last0 _ _ _ _ _ _ Hb' Hl0) as Hcur. subst cur'.
    unfold crash_img, unchecked. rewrite firstn_all, apply_events_app, cfold_app.
    destruct (binv_crash clen clen_pos owner2 _ _ _ _ _ _ Hb') as (evs & Hr & Hk & _ & _ & Hf & _).
    destruct Hb' as [_ _ _ _ _ _ _ _ _ _ Hcst _]. rewrite Hcst in Hf |- *. cbn [cs_cur] in Hf |- *.
    unfold recovered. rewrite Hr. cbn [fst snd]. repeat split; try assumption.
  Qed.

  (** C05.  Recovery is exactly the execution of the unchecked TGs, whose ids ascend, on the crash-time files. *)
  Theorem recovery_is_ordered_replay owner tgid0 sched tr k :
    owner <> 0 -> 0 < tgid0 -> run clen 0%N owner tgid0 sched = Ok tr -> wf_sched clen owner tgid0 sched = true ->
    (k <= length tr)%nat -> guard_window tr k = true ->
    i_files (recovered clen 1%N owner2 (crash_img tr k))
      = fapplys (i_files (crash_img tr k)) (fexec clen (i_files (crash_img tr k)) (cmds_of (unchecked tr k)))
    /\ exists lo, incr_from lo (unchecked tr k).
  Proof.
    intros Hown Htg Hrun Hwf Hk Hg.
    destruct (crash_anywhere clen clen_pos owner2 owner tgid0 sched tr k Hown Htg Hrun Hwf Hk Hg)
      as (evs & Hr & _ & _ & _ & Hf & Hi).
    unfold recovered, unchecked. rewrite Hr. cbn [fst]. split; assumption.
  Qed.

  (** C34.  After a completed start-up a second restart finds no WAL that needs replay: it removes the
      (still empty) WAL of the first restart and changes no primary file. *)
  Theorem second_restart_noop im owner3 :
    i_wals im = [(1%N, {| wf_status := Some (WFS_OPEN, WRS_NOTREPLAYED, owner2); wf_recs := [] |})] -> owner2 <> 0 ->
    snd (recover clen 2%N owner3 im) = StartOk
    /\ i_files (recovered clen 2%N owner3 im) = i_files im
    /\ map fst (i_wals (recovered clen 2%N owner3 im)) = [2%N].
  Proof.
    intros Hw Hown. unfold recovered, recover.
    set (e0 := start_events 2%N owner3). set (im0 := apply_events im e0).
    assert (Hw0 : i_wals im0 = [(1%N, {| wf_status := Some (WFS_OPEN, WRS_NOTREPLAYED, owner2); wf_recs := [] |});
                               (2%N, {| wf_status := Some (WFS_OPEN, WRS_NOTREPLAYED, owner3); wf_recs := [] |})]).
    { unfold im0, e0, start_events, status_events, apply_events. cbn [fold_left apply_event upd_wal i_wals i_aside i_files].
      rewrite Hw. reflexivity. }
    assert (Hf0 : i_files im0 = i_files im).
    { unfold im0. rewrite i_files_apply_events. apply fapplys_wal_only. reflexivity. }
    rewrite Hw0. cbn [map fst cleanup N.eqb Pos.eqb]. rewrite Hw0. cbn [alookup N.eqb Pos.eqb].
    change (wal_size {| wf_status := Some (WFS_OPEN, WRS_NOTREPLAYED, owner2); wf_recs := [] |} <=? walStatusLenBytes) with false.
    cbn iota. cbn [wf_status]. assert (owner2 =? 0 = false) as -> by (apply Z.eqb_neq; assumption).
    match goal with |- context [replay_wal clen 1%N ?imx ?wf ?rs ?ow] =>
      assert (Hrw : replay_wal clen 1%N imx wf rs ow
                    = (status_events 1%N WFS_OPEN WRS_REPLAYINPROCESS owner2
                       ++ [] ++ status_events 1%N WFS_OPEN WRS_REPLAYED owner2, ROk)) by reflexivity;
      rewrite Hrw end.
    cbn iota. cbn [fst snd]. split; [reflexivity|]. rewrite !app_nil_r, apply_events_app. fold im0. split.
    - rewrite i_files_apply_events, Hf0. apply fapplys_wal_only. reflexivity.
    - unfold status_events, delete_events, status_events. cbn [app apply_events fold_left apply_event upd_wal i_wals].
      rewrite Hw0. reflexivity.
  Qed.
End WithClen.
