(** Facts about the Fanout LTS (Model/Fanout.v), for every schedule, any number of replicas, any
    number of transaction groups, any channel capacities.

    stable_inv         the accounting invariant of the stable system (all replicas connected, none fails)
    stable_no_fault    no runtime fault and no race is reachable in the stable system
    stable_delivery    every replica's delivered list is a prefix of the commit sequence, and what is missing
                       is exactly what is in flight towards it (its channel, its goroutine, the current
                       iteration, the sender's channel), in commit order: nothing lost, duplicated or reordered
    stable_progress    whenever the WAL loop's Sender.Send is blocked, a sender/stream step is enabled *)
From Coq Require Import List Arith Bool Lia NArith.
Import ListNotations.
Require Import MS.Model.Fanout.

Lemma nth_error_upd : forall A (l : list A) n m v,
  nth_error (upd n v l) m =
  if Nat.eqb n m then match nth_error l n with Some _ => Some v | None => None end else nth_error l m.
Proof.
  induction l as [|x r IH]; intros n m v.
  - destruct n, m; simpl; auto; destruct (Nat.eqb n m); auto.
  - destruct n, m; simpl; auto.
Qed.
Lemma nth_error_upd_same : forall A (l : list A) n v x,
  nth_error l n = Some x -> nth_error (upd n v l) n = Some v.
Proof. intros. rewrite nth_error_upd, Nat.eqb_refl, H. reflexivity. Qed.
Lemma nth_error_upd_other : forall A (l : list A) n m v, n <> m -> nth_error (upd n v l) m = nth_error l m.
Proof. intros. rewrite nth_error_upd. destruct (Nat.eqb_spec n m); congruence. Qed.
Lemma length_upd : forall A (l : list A) n v, length (upd n v l) = length l.
Proof. induction l; destruct n; simpl; auto. Qed.

Lemma memb_In : forall k l, memb k l = true <-> In k l.
Proof.
  intros. unfold memb. rewrite existsb_exists. split.
  - intros [x [H E]]. apply Nat.eqb_eq in E. subst. exact H.
  - intros H. exists k. split; auto. apply Nat.eqb_refl.
Qed.

Lemma lookup_combine : forall ks b k c,
  lookup (combine ks (seq b (length ks))) k = Some c -> b <= c /\ nth_error ks (c - b) = Some k.
Proof.
  induction ks as [|x r IH]; intros b k c H; cbn in H; try discriminate.
  destruct (Nat.eqb_spec x k).
  - inversion H; subst. split; auto. rewrite Nat.sub_diag. reflexivity.
  - apply IH in H as [H1 H2]. split; [lia|]. replace (c - b) with (S (c - S b)) by lia. exact H2.
Qed.

Lemma lookup_combine_some : forall ks b r k, NoDup ks ->
  nth_error ks r = Some k -> lookup (combine ks (seq b (length ks))) k = Some (b + r).
Proof.
  induction ks as [|x rest IH]; intros b r k Hn H; destruct r; cbn in *; try discriminate.
  - inversion H; subst. rewrite Nat.eqb_refl. f_equal. lia.
  - inversion Hn; subst. destruct (Nat.eqb_spec x k).
    + subst. exfalso. apply H2. eapply nth_error_In; eauto.
    + rewrite (IH (S b) r k H3 H). f_equal. lia.
Qed.

Lemma in_combine_seq : forall (ks : list nat) b r k, nth_error ks r = Some k -> In (k, b + r) (combine ks (seq b (length ks))).
Proof.
  induction ks as [|x rest IH]; intros b r k H; destruct r; cbn in *; try discriminate.
  - inversion H; subst. left. f_equal. lia.
  - right. replace (b + S r) with (S b + r) by lia. apply IH. exact H.
Qed.

Lemma map_fst_combine_seq : forall (ks : list nat) b, map fst (combine ks (seq b (length ks))) = ks.
Proof. induction ks as [|x r IH]; intros b; cbn; auto. rewrite IH. reflexivity. Qed.

(* ------------------------------------------------------------------ the stable invariant *)
Definition got (g : gpc) : list tg := match g with GGot t => [t] | _ => [] end.
(** the TG of the iteration in progress is still owed to the replica of address k / channel r *)
Definition pend (p : spc) (k r : nat) : list tg :=
  match p with
  | SIdle => []
  | SWant t => [t]
  | SIter t _ vis => if memb k vis then [] else [t]
  | SHold t _ vis c => if c =? r then [t] else if memb k vis then [] else [t]
  end.

Definition sp_snap (p : spc) : option (list nat) :=
  match p with SIdle | SWant _ => None | SIter _ sn _ => Some sn | SHold _ sn _ _ => Some sn end.

Record SInv (s : st) : Prop := {
  S_panic : panic s = None;
  S_race : race s = false;
  S_wr : writing s = None;
  S_lock : lock s = (if iterating s then LkRead else LkFree);
  S_nodup : NoDup (keys s);
  S_map : smap s = combine (keys s) (seq 0 (length (keys s)));
  S_lg : length (gs s) = length (keys s);
  S_lc : length (chs s) = length (keys s);
  S_ld : length (delivered s) = length (keys s);
  S_g : forall r g, nth_error (gs s) r = Some g -> g = GLoop \/ exists t, g = GGot t;
  S_open : forall r c, nth_error (chs s) r = Some c -> closed c = false;
  S_snap : forall sn, sp_snap (sp s) = Some sn -> sn = keys s;
  S_hold : forall t sn vis c, sp s = SHold t sn vis c -> exists k, nth_error (keys s) c = Some k /\ memb k vis = true;
  S_acct : forall r k g c d,
      nth_error (keys s) r = Some k -> nth_error (gs s) r = Some g ->
      nth_error (chs s) r = Some c -> nth_error (delivered s) r = Some d ->
      d ++ got g ++ q c ++ pend (sp s) k r ++ schan s = committed s
}.

Lemma sinv_init : forall ks cs cc, NoDup ks -> SInv (init_stable ks cs cc).
Proof.
  intros ks cs cc Hn. constructor; unfold init_stable; cbn; auto; try (rewrite map_length; reflexivity).
  - intros r g H. rewrite nth_error_map in H. destruct (nth_error ks r); inversion H. auto.
  - intros r c H. rewrite nth_error_map in H. destruct (nth_error ks r); inversion H. reflexivity.
  - intros sn H. discriminate.
  - intros. discriminate.
  - intros r k g c d Hk Hg Hc Hd. rewrite nth_error_map in Hg, Hc, Hd. rewrite Hk in *.
    inversion Hg; inversion Hc; inversion Hd; subst. reflexivity.
Qed.

Ltac inv_some := match goal with H : Some _ = Some _ |- _ => inversion H; subst; clear H end.
Ltac ucase a b := destruct (Nat.eq_dec a b) as [<-|Hne];
  [ repeat erewrite nth_error_upd_same in * by eassumption
  | repeat rewrite nth_error_upd_other in * by assumption ].

Lemma keys_inj : forall s r r' k, SInv s -> nth_error (keys s) r = Some k -> nth_error (keys s) r' = Some k -> r = r'.
Proof.
  intros s r r' k I H1 H2. pose proof (S_nodup _ I) as Hn. rewrite NoDup_nth_error in Hn.
  apply Hn; [apply nth_error_Some; congruence | congruence].
Qed.

Theorem stable_step_inv : forall l s s', stable l = true -> SInv s -> step l s = Some s' -> SInv s'.
Proof.
  intros l s s' Hst I H. unfold step in H. rewrite (S_panic _ I) in H.
  pose proof I as I0. destruct I as [Kp Kr Kw Klk Kn Km Klg Klc Kld Kg Ko Ksn Kh Ka].
  destruct l; try discriminate Hst.
  - (* Commit *)
    destruct (N.of_nat (length (schan s)) <? capS s)%N; try discriminate. inv_some.
    constructor; cbn; auto; try (unfold iterating in Klk; try rewrite Es in Klk; exact Klk).
    intros r k g c d Hk Hg Hc Hd. rewrite <- (Ka r k g c d Hk Hg Hc Hd). rewrite <- !app_assoc. reflexivity.
  - (* SRecv *)
    destruct (sp s) eqn:Es; try discriminate. destruct (schan s) as [|t rest] eqn:Eq; try discriminate. inv_some.
    constructor; cbn; auto; try discriminate; try (unfold iterating in Klk; try rewrite Es in Klk; exact Klk).
  - (* SLock *)
    destruct (sp s) as [|t| |] eqn:Es; try discriminate. destruct (lock s) eqn:El; try discriminate. inv_some.
    constructor; cbn; auto; try (unfold iterating in Klk; try rewrite Es in Klk; exact Klk).
    + intros sn H. inversion H. rewrite Km. apply map_fst_combine_seq.
    + intros. discriminate.
  - (* SNext *)
    destruct (sp s) as [| |t sn vis|] eqn:Es; try discriminate.
    destruct (lookup (smap s) k) as [c|] eqn:El; try discriminate.
    destruct (memb k vis) eqn:Em; try discriminate. rewrite Kw in H. inv_some.
    rewrite Km in El. apply lookup_combine in El as [_ El]. rewrite Nat.sub_0_r in El.
    constructor; cbn; auto; try (unfold iterating in Klk; try rewrite Es in Klk; exact Klk).
    + intros t' sn' vis' c' H. inversion H; subst. exists k. split; auto. cbn. rewrite Nat.eqb_refl. reflexivity.
    + intros r k' g ch d Hk Hg Hc Hd. rewrite <- (Ka r k' g ch d Hk Hg Hc Hd). cbn.
      destruct (Nat.eqb_spec c r).
      * subst. assert (k' = k) by congruence. subst. rewrite Em. reflexivity.
      * destruct (Nat.eqb_spec k' k); [subst; exfalso; apply n; eapply keys_inj; eauto|].
        cbn. reflexivity.
  - (* SEnd *)
    destruct (sp s) as [| |t sn vis|] eqn:Es; try discriminate.
    destruct (forallb _ (smap s)) eqn:Ef; try discriminate. rewrite Kw in H. inv_some.
    assert (sn = keys s) by (apply Ksn; reflexivity). subst sn.
    constructor; cbn; auto; try discriminate; try (unfold iterating in Klk; try rewrite Es in Klk; exact Klk).
    intros r k g c d Hk Hg Hc Hd. rewrite <- (Ka r k g c d Hk Hg Hc Hd). cbn.
    rewrite forallb_forall in Ef. specialize (Ef (k, r)). rewrite Km in Ef.
    specialize (Ef (in_combine_seq _ 0 r k Hk)). cbn in Ef.
    assert (memb k (keys s) = true) by (apply memb_In; eapply nth_error_In; eauto).
    rewrite H in Ef. cbn in Ef. rewrite Ef. reflexivity.
  - (* SSend *)
    destruct (sp s) as [| | |t sn vis c] eqn:Es; try discriminate.
    destruct (nth_error (chs s) c) as [ch|] eqn:Ec; try discriminate.
    rewrite (Ko _ _ Ec) in H. destruct (N.of_nat (length (q ch)) <? capC s)%N; try discriminate. inv_some.
    destruct (Kh _ _ _ _ eq_refl) as [kc [Hkc Hmc]].
    constructor; cbn; auto; try (unfold iterating in Klk; try rewrite Es in Klk; exact Klk).
    + rewrite length_upd. exact Klc.
    + intros r c' H. ucase c r; [inversion H; reflexivity | eauto].
    + intros. discriminate.
    + intros r k g c' d Hk Hg Hc Hd. ucase c r.
      * inversion Hc; subst. cbn. assert (k = kc) by congruence. subst. rewrite Hmc. cbn.
        rewrite <- (Ka c kc g ch d Hk Hg Ec Hd). cbn. rewrite Nat.eqb_refl. rewrite <- !app_assoc. reflexivity.
      * rewrite <- (Ka r k g c' d Hk Hg Hc Hd). cbn. destruct (Nat.eqb_spec c r); [contradiction|]. reflexivity.
  - (* GInsB *)
    destruct (nth_error (gs s) r) as [g|] eqn:Eg; try discriminate.
    destruct (Kg _ _ Eg) as [->|[t ->]]; discriminate.
  - (* GInsE *)
    destruct (nth_error (gs s) r) as [g|] eqn:Eg; try discriminate.
    destruct (Kg _ _ Eg) as [->|[t ->]]; discriminate.
  - (* GRecv *)
    destruct (nth_error (gs s) r) as [g|] eqn:Eg; try discriminate.
    destruct g; try discriminate.
    destruct (nth_error (chs s) r) as [ch|] eqn:Ec; try discriminate.
    destruct (q ch) as [|t rest] eqn:Eq; try discriminate. inv_some.
    constructor; cbn; auto; try (unfold iterating in Klk; try rewrite Es in Klk; exact Klk).
    + rewrite length_upd. exact Klg.
    + rewrite length_upd. exact Klc.
    + intros r' g H. ucase r r'; [inversion H; eauto | eauto].
    + intros r' c H. ucase r r'; [inversion H; cbn; eauto | eauto].
    + intros r' k g c d Hk Hg Hc Hd. ucase r r'.
      * inversion Hg; inversion Hc; subst. cbn.
        rewrite <- (Ka r k GLoop ch d Hk Eg Ec Hd). rewrite Eq. cbn. reflexivity.
      * apply (Ka r' k g c d Hk Hg Hc Hd).
  - (* GSend true *)
    destruct ok; try discriminate Hst.
    destruct (nth_error (gs s) r) as [g|] eqn:Eg; try discriminate.
    destruct g; try discriminate. inv_some.
    constructor; cbn; auto; try (unfold iterating in Klk; try rewrite Es in Klk; exact Klk).
    + rewrite length_upd. exact Klg.
    + rewrite length_upd. exact Kld.
    + intros r' g H. ucase r r'; [inversion H; eauto | eauto].
    + intros r' k g c d Hk Hg Hc Hd. ucase r r'.
      * assert (exists d0, nth_error (delivered s) r = Some d0) as [d0 Hd0].
        { destruct (nth_error (delivered s) r) eqn:E; eauto. apply nth_error_None in E.
          assert (r < length (keys s)) by (apply nth_error_Some; congruence). lia. }
        erewrite nth_error_upd_same in Hd by eassumption. inversion Hg; inversion Hd; subst.
        rewrite (nth_error_nth _ _ _ Hd0). cbn.
        rewrite <- (Ka r k (GGot t) c d0 Hk Eg Hc Hd0). cbn. rewrite <- !app_assoc. reflexivity.
      * apply (Ka r' k g c d Hk Hg Hc Hd).
  - (* GSpawn *)
    destruct (nth_error (gs s) r) as [g|] eqn:Eg; try discriminate.
    destruct (Kg _ _ Eg) as [->|[t ->]]; discriminate.
  - (* GDelB *)
    destruct (nth_error (gs s) r) as [g|] eqn:Eg; try discriminate.
    destruct (Kg _ _ Eg) as [->|[t ->]]; discriminate.
  - (* GDelE *)
    destruct (nth_error (gs s) r) as [g|] eqn:Eg; try discriminate.
    destruct (Kg _ _ Eg) as [->|[t ->]]; discriminate.
  - (* GDelBx *)
    destruct (nth_error (gs s) r) as [g|] eqn:Eg; try discriminate.
    destruct (Kg _ _ Eg) as [->|[t ->]]; discriminate.
  - (* GCloseL *)
    destruct (nth_error (gs s) r) as [g|] eqn:Eg; try discriminate.
    destruct (Kg _ _ Eg) as [->|[t ->]]; discriminate.
  - (* GDrain *)
    destruct (nth_error (gs s) r) as [g|] eqn:Eg; try discriminate.
    destruct (Kg _ _ Eg) as [->|[t ->]]; discriminate.
Qed.

Lemma stable_run_inv : forall ls s s', forallb stable ls = true -> SInv s -> run_labels s ls = Some s' -> SInv s'.
Proof.
  induction ls as [|l r IH]; intros s s' Hs I H; cbn in *.
  - inv_some. exact I.
  - apply andb_prop in Hs as [Hl Hr]. destruct (step l s) as [s1|] eqn:E; try discriminate.
    apply (IH s1 s' Hr); [eapply stable_step_inv; eauto | exact H].
Qed.

Theorem stable_inv : forall ks cs cc ls s, NoDup ks -> forallb stable ls = true ->
  run_labels (init_stable ks cs cc) ls = Some s -> SInv s.
Proof. intros. eapply stable_run_inv; eauto. apply sinv_init. assumption. Qed.

Lemma step_static : forall l s s', step l s = Some s' ->
  keys s' = keys s /\ capS s' = capS s /\ capC s' = capC s.
Proof.
  intros l s s' H. unfold step in H. destruct (panic s); try discriminate.
  destruct l; unfold map_write_begin in H;
  repeat match type of H with
         | match ?x with _ => _ end = _ => destruct x eqn:?; try discriminate
         | (if ?x then _ else _) = _ => destruct x eqn:?; try discriminate
         end; inv_some; try (destruct (writing s)); cbn; auto.
Qed.
Lemma run_static : forall ls s s', run_labels s ls = Some s' ->
  keys s' = keys s /\ capS s' = capS s /\ capC s' = capC s.
Proof.
  induction ls as [|l r IH]; intros s s' H; cbn in H.
  - inv_some. auto.
  - destruct (step l s) eqn:E; try discriminate. destruct (IH _ _ H) as (A & B & C).
    destruct (step_static _ _ _ E) as (A' & B' & C'). repeat split; congruence.
Qed.
Lemma run_keys : forall ls s s', run_labels s ls = Some s' -> keys s' = keys s.
Proof. intros. apply (run_static _ _ _ H). Qed.

(** No runtime fault and no race in the stable system. *)
Theorem stable_no_fault : forall ks cs cc ls s, NoDup ks -> forallb stable ls = true ->
  run_labels (init_stable ks cs cc) ls = Some s -> panic s = None /\ race s = false.
Proof. intros. pose proof (stable_inv _ _ _ _ _ H H0 H1) as I. split; [apply (S_panic _ I) | apply (S_race _ I)]. Qed.

(** FIFO delivery and completeness: what replica r has received is a prefix of the commit sequence and the
    remainder is exactly what is in flight towards it, in commit order. *)
Theorem stable_delivery : forall ks cs cc ls s r, NoDup ks -> forallb stable ls = true ->
  run_labels (init_stable ks cs cc) ls = Some s -> r < length ks ->
  exists d g c k, nth_error (delivered s) r = Some d /\ nth_error (gs s) r = Some g /\
                  nth_error (chs s) r = Some c /\ nth_error (keys s) r = Some k /\
                  d ++ (got g ++ q c ++ pend (sp s) k r ++ schan s) = committed s.
Proof.
  intros ks cs cc ls s r Hn Hs Hr Hlt. pose proof (stable_inv _ _ _ _ _ Hn Hs Hr) as I.
  pose proof (run_keys _ _ _ Hr) as Ek. cbn in Ek.
  assert (r < length (keys s)) as Hl by (rewrite Ek; exact Hlt).
  destruct (nth_error (delivered s) r) as [d|] eqn:Ed; [|apply nth_error_None in Ed; rewrite (S_ld _ I) in Ed; lia].
  destruct (nth_error (gs s) r) as [g|] eqn:Eg; [|apply nth_error_None in Eg; rewrite (S_lg _ I) in Eg; lia].
  destruct (nth_error (chs s) r) as [c|] eqn:Ec; [|apply nth_error_None in Ec; rewrite (S_lc _ I) in Ec; lia].
  destruct (nth_error (keys s) r) as [k|] eqn:Ekk; [|apply nth_error_None in Ekk; lia].
  exists d, g, c, k. repeat split; auto. apply (S_acct _ I r k g c d); auto.
Qed.

Lemma forallb_false_ex : forall A (f : A -> bool) l, forallb f l = false -> exists x, In x l /\ f x = false.
Proof.
  induction l as [|a r IH]; cbn; intros H; try discriminate.
  destruct (f a) eqn:E.
  - destruct (IH H) as [x [H1 H2]]. exists x. auto.
  - exists a. auto.
Qed.

Lemma or6 : forall a b c d e f, a = true \/ b = true \/ c = true \/ d = true \/ e = true \/ f = true -> a || b || c || d || e || f = true.
Proof. intros a b c d e f H. destruct a, b, c, d, e, f; try reflexivity. destruct H as [H|[H|[H|[H|[H|H]]]]]; discriminate. Qed.

(** The master does not block by itself: whenever Sender.Send (the WAL loop) cannot proceed, the
    sender goroutine or a stream goroutine can.  (That a stream goroutine's stream.Send eventually
    returns is the replica's part: see C26_stalled_replica_blocks.) *)
Theorem stable_progress_inv : forall s, SInv s -> (0 < capS s)%N -> (0 < capC s)%N ->
  enabled Commit s = true \/ internal_enabled s = true.
Proof.
  intros s I HcS HcC. destruct I as [Kp Kr Kw Klk Kn Km Klg Klc Kld Kg Ko Ksn Kh Ka].
  unfold internal_enabled, enabled, step. rewrite Kp.
  destruct (sp s) as [|t0|t sn vis|t sn vis c] eqn:Es.
  - destruct (schan s) as [|t r] eqn:Eq.
    + left. cbn. destruct (0 <? capS s)%N eqn:E; auto. apply N.ltb_ge in E. lia.
    + right. apply or6. left. reflexivity.
  - right. apply or6. right. left. unfold iterating in Klk. rewrite Es in Klk. rewrite Klk. reflexivity.
  - right. rewrite Kw.
    destruct (forallb (fun e => negb (memb (fst e) sn) || memb (fst e) vis) (smap s)) eqn:Ef.
    + apply or6. right. right. left. reflexivity.
    + assert (exists k, In k (keys s) /\ (exists c, lookup (smap s) k = Some c) /\ memb k vis = false) as [k [Hin [[c Hl] Hm]]].
      { clear -Ef Km Kn. assert (forall e, In e (smap s) -> In (fst e) (keys s) /\ exists c, lookup (smap s) (fst e) = Some c) as Hall.
        { intros [k c] Hin. rewrite Km in Hin. pose proof (in_combine_l _ _ _ _ Hin) as Hk. split; auto.
          apply In_nth_error in Hk as [r Hr]. rewrite Km. cbn. erewrite lookup_combine_some; eauto. }
        destruct (forallb_false_ex _ _ _ Ef) as [e [Hin E]]. apply orb_false_elim in E as [_ E].
        destruct (Hall e Hin) as [H1 H2]. exists (fst e). auto. }
      assert (existsb (fun k0 => match (match lookup (smap s) k0 with
                 | Some c0 => if memb k0 vis then None else Some (set_sp s (SHold t sn (k0 :: vis) c0))
                 | None => None end) with Some _ => true | None => false end) (keys s) = true) as X.
      { apply existsb_exists. exists k. split; auto. rewrite Hl, Hm. reflexivity. }
      apply or6. right. right. right. right. left. exact X.
  - right. destruct (Kh _ _ _ _ eq_refl) as [k [Hk Hm]].
    assert (c < length (keys s)) as Hlt by (apply nth_error_Some; congruence).
    destruct (nth_error (chs s) c) as [ch|] eqn:Ec; [|apply nth_error_None in Ec; lia].
    rewrite (Ko _ _ Ec).
    destruct (N.of_nat (length (q ch)) <? capC s)%N eqn:Ecap.
    + apply or6. right. right. right. left. reflexivity.
    + apply N.ltb_ge in Ecap.
      destruct (nth_error (gs s) c) as [g|] eqn:Eg; [|apply nth_error_None in Eg; lia].
      assert (existsb (fun r => match (match nth_error (gs s) r, nth_error (chs s) r with
                 | Some GLoop, Some ch0 => match q ch0 with
                                          | t0 :: rest => Some (set_g (set_chs s (upd r (mkchan rest (closed ch0)) (chs s))) r (GGot t0))
                                          | [] => None end
                 | _, _ => None end) with Some _ => true | None => false end
               || match (match nth_error (gs s) r with
                         | Some (GGot t0) => Some (set_g (set_delivered s (upd r (nth r (delivered s) [] ++ [t0]) (delivered s))) r GLoop)
                         | _ => None end) with Some _ => true | None => false end) (seq 0 (length (keys s))) = true) as X.
      { apply existsb_exists. exists c. split; [apply in_seq; lia|]. rewrite Eg, Ec.
        destruct (Kg _ _ Eg) as [->|[t0 ->]].
        - destruct (q ch) as [|t0 rest]; [cbn in Ecap; lia | reflexivity].
        - cbn. reflexivity. }
      apply or6. right. right. right. right. right. exact X.
Qed.

Theorem stable_progress : forall ks cs cc ls s, NoDup ks -> forallb stable ls = true ->
  (0 < cs)%N -> (0 < cc)%N ->
  run_labels (init_stable ks cs cc) ls = Some s ->
  enabled Commit s = true \/ internal_enabled s = true.
Proof.
  intros ks cs cc ls s Hn Hs H1 H2 Hr. pose proof (stable_inv _ _ _ _ _ Hn Hs Hr) as I.
  destruct (run_static _ _ _ Hr) as (_ & E1 & E2). cbn in E1, E2.
  apply stable_progress_inv; auto; [rewrite E1 | rewrite E2]; assumption.
Qed.

(** Completeness at quiescence: when nothing is in flight towards replica r it has received exactly the
    commit sequence. *)
Theorem stable_quiescent_complete : forall ks cs cc ls s r c, NoDup ks -> forallb stable ls = true ->
  run_labels (init_stable ks cs cc) ls = Some s ->
  sp s = SIdle -> schan s = [] -> nth_error (gs s) r = Some GLoop -> nth_error (chs s) r = Some c -> q c = [] ->
  nth_error (delivered s) r = Some (committed s).
Proof.
  intros ks cs cc ls s r c Hn Hs Hr Hsp Hsc Hg Hc Hq. pose proof (stable_inv _ _ _ _ _ Hn Hs Hr) as I.
  assert (r < length (keys s)) as Hl by (rewrite <- (S_lg _ I); apply nth_error_Some; congruence).
  destruct (nth_error (delivered s) r) as [d|] eqn:Ed; [|apply nth_error_None in Ed; rewrite (S_ld _ I) in Ed; lia].
  destruct (nth_error (keys s) r) as [k|] eqn:Ek; [|apply nth_error_None in Ek; lia].
  pose proof (S_acct _ I r k GLoop c d Ek Hg Hc Ed) as A. rewrite Hsp, Hsc, Hq in A. cbn in A.
  rewrite app_nil_r in A. congruence.
Qed.

(* ------------------------------------------------------------------ no fault, from [init], every schedule *)
Definition live (g : gpc) : Prop := match g with GLoop | GGot _ | GFail | GDel | GDeling _ => True | _ => False end.
Definition wlocked (g : gpc) : Prop := match g with GIns | GDeling _ | GClose _ => True | _ => False end.

Record LInv (s : st) : Prop := {
  L_panic : panic s = None;
  L_race : race s = false;
  L_wr : forall r, writing s = Some r -> lock s = LkWrite r;
  L_it : iterating s = true -> lock s = LkRead;
  L_g : forall r g, nth_error (gs s) r = Some g -> wlocked g -> lock s = LkWrite r;
  L_map : forall k c, In (k, c) (smap s) -> exists g, nth_error (gs s) c = Some g /\ live g /\ k = nth c (keys s) 0;
  L_cl : forall c ch, nth_error (chs s) c = Some ch -> closed ch = true -> nth_error (gs s) c = Some GDone;
  L_hold : forall t sn vis c, sp s = SHold t sn vis c -> exists k, In (k, c) (smap s);
  L_wg : forall r, writing s = Some r -> nth_error (gs s) r = Some GIns \/ exists d, nth_error (gs s) r = Some (GDeling d)
}.

Lemma linv_init : forall ks cs cc, LInv (init ks cs cc).
Proof.
  intros. constructor; unfold init; cbn; auto; try discriminate.
  - intros r g H W. rewrite nth_error_map in H. destruct (nth_error ks r); inversion H; subst. destruct W.
  - intros k c [].
  - intros c ch H. rewrite nth_error_map in H. destruct (nth_error ks c); inversion H; subst. discriminate.
Qed.

Lemma lookup_In : forall m k c, lookup m k = Some c -> In (k, c) m.
Proof.
  induction m as [|[k' c'] r IH]; intros k c H; cbn in H; try discriminate.
  destruct (Nat.eqb_spec k' k).
  - inversion H; subst. left. reflexivity.
  - right. apply IH. exact H.
Qed.
Lemma remove_key_In : forall m k0 k c, In (k, c) (remove_key m k0) -> In (k, c) m /\ k <> k0.
Proof.
  intros m k0 k c H. unfold remove_key in H. apply filter_In in H as [H1 H2]. split; auto.
  cbn in H2. intro X. subst. rewrite Nat.eqb_refl in H2. discriminate.
Qed.

Ltac gcase a b := destruct (Nat.eq_dec a b) as [<-|Hne];
  [ repeat erewrite nth_error_upd_same in * by eassumption
  | repeat rewrite nth_error_upd_other in * by assumption ].

(** taking the write lock and beginning a map write *)
Lemma linv_write_begin : forall s s' r g0 p, LInv s -> nth_error (gs s) r = Some g0 ->
  ~ wlocked g0 -> (live g0 -> live p) -> g0 <> GDone -> wlocked p -> (p = GIns \/ exists d, p = GDeling d) ->
  map_write_begin s r p = Some s' -> LInv s'.
Proof.
  intros s s' r g0 p I Eg Hnw Hlive Hnd Hwp Hp H. destruct I as [Kp Kr Kw Ki Kg Km Kc Kh Kwg].
  unfold map_write_begin in H. destruct (lock s) eqn:El; try discriminate.
  assert (Ew : writing s = None).
  { destruct (writing s) eqn:E; auto. specialize (Kw _ eq_refl). congruence. }
  assert (Eit : iterating s = false).
  { destruct (iterating s) eqn:E; auto. specialize (Ki eq_refl). congruence. }
  rewrite Ew in H. inv_some. constructor; cbn; auto.
  - rewrite Kr, Eit. reflexivity.
  - intros r' X. inversion X. reflexivity.
  - unfold iterating in *. cbn. rewrite Eit. discriminate.
  - intros r' g Hg W. gcase r r'; [reflexivity|]. specialize (Kg _ _ Hg W). congruence.
  - intros k c Hin. destruct (Km k c Hin) as [g [H1 [H2 H3]]]. gcase r c.
    + exists p. split; auto. split; auto. apply Hlive. congruence.
    + exists g. auto.
  - intros c ch Hc Hcl. specialize (Kc c ch Hc Hcl). gcase r c; [congruence | exact Kc].
  - intros r' X. inversion X; subst. erewrite nth_error_upd_same by eassumption. destruct Hp as [->|[d ->]]; eauto.
Qed.

Theorem lock_step_inv : forall l s s', LInv s -> step l s = Some s' -> LInv s'.
Proof.
  intros l s s' I H. unfold step in H. rewrite (L_panic _ I) in H.
  pose proof I as I0. destruct I as [Kp Kr Kw Ki Kg Km Kc Kh Kwg].
  destruct l.
  - (* Commit *)
    destruct (N.of_nat (length (schan s)) <? capS s)%N; try discriminate. inv_some.
    constructor; cbn; auto; try solve [intros r0 X; cbn in X; try discriminate; specialize (Kwg r0 X); try (destruct (Nat.eq_dec r r0) as [<-|Hne0]; [destruct Kwg as [Y|[d0 Y]]; congruence | rewrite nth_error_upd_other by assumption; exact Kwg])].
  - (* SRecv *)
    destruct (sp s) eqn:Es; try discriminate. destruct (schan s) as [|t rest]; try discriminate. inv_some.
    constructor; cbn; auto; try discriminate; try solve [intros r0 X; cbn in X; try discriminate; specialize (Kwg r0 X); try (destruct (Nat.eq_dec r r0) as [<-|Hne0]; [destruct Kwg as [Y|[d0 Y]]; congruence | rewrite nth_error_upd_other by assumption; exact Kwg])].
  - (* SLock *)
    destruct (sp s) as [|t| |] eqn:Es; try discriminate. destruct (lock s) eqn:El; try discriminate. inv_some.
    constructor; cbn; auto; try discriminate; try solve [intros r0 X; cbn in X; try discriminate; specialize (Kwg r0 X); try (destruct (Nat.eq_dec r r0) as [<-|Hne0]; [destruct Kwg as [Y|[d0 Y]]; congruence | rewrite nth_error_upd_other by assumption; exact Kwg])].
    + intros r X. specialize (Kw r X). congruence.
    + intros r g Hg W. specialize (Kg _ _ Hg W). congruence.
  - (* SNext *)
    destruct (sp s) as [| |t sn vis|] eqn:Es; try discriminate.
    destruct (lookup (smap s) k) as [c|] eqn:Elk; try discriminate.
    destruct (memb k vis); try discriminate.
    assert (El : lock s = LkRead) by (apply Ki; unfold iterating; rewrite Es; reflexivity).
    assert (Ew : writing s = None).
    { destruct (writing s) eqn:E; auto. specialize (Kw _ eq_refl). congruence. }
    rewrite Ew in H. inv_some. constructor; cbn; auto; try solve [intros r0 X; cbn in X; try discriminate; specialize (Kwg r0 X); try (destruct (Nat.eq_dec r r0) as [<-|Hne0]; [destruct Kwg as [Y|[d0 Y]]; congruence | rewrite nth_error_upd_other by assumption; exact Kwg])].
    intros t' sn' vis' c' X. inversion X; subst. exists k. apply lookup_In. exact Elk.
  - (* SEnd *)
    destruct (sp s) as [| |t sn vis|] eqn:Es; try discriminate.
    destruct (forallb _ (smap s)); try discriminate.
    assert (El : lock s = LkRead) by (apply Ki; unfold iterating; rewrite Es; reflexivity).
    assert (Ew : writing s = None).
    { destruct (writing s) eqn:E; auto. specialize (Kw _ eq_refl). congruence. }
    rewrite Ew in H. inv_some. constructor; cbn; auto; try discriminate; try solve [intros r0 X; cbn in X; try discriminate; specialize (Kwg r0 X); try (destruct (Nat.eq_dec r r0) as [<-|Hne0]; [destruct Kwg as [Y|[d0 Y]]; congruence | rewrite nth_error_upd_other by assumption; exact Kwg])].
    + intros r X. congruence.
    + intros r g Hg W. specialize (Kg _ _ Hg W). congruence.
  - (* SSend *)
    destruct (sp s) as [| | |t sn vis c] eqn:Es; try discriminate.
    destruct (nth_error (chs s) c) as [ch|] eqn:Ec; try discriminate.
    assert (Hop : closed ch = false).
    { destruct (closed ch) eqn:E; auto. destruct (Kh _ _ _ _ eq_refl) as [k Hin].
      destruct (Km _ _ Hin) as [g [H1 [H2 _]]]. rewrite (Kc _ _ Ec E) in H1. inversion H1; subst. destruct H2. }
    rewrite Hop in H. destruct (N.of_nat (length (q ch)) <? capC s)%N; try discriminate. inv_some.
    constructor; cbn; auto; try discriminate; try solve [intros r0 X; cbn in X; try discriminate; specialize (Kwg r0 X); try (destruct (Nat.eq_dec r r0) as [<-|Hne0]; [destruct Kwg as [Y|[d0 Y]]; congruence | rewrite nth_error_upd_other by assumption; exact Kwg])].
    + intros _. apply Ki. unfold iterating. rewrite Es. reflexivity.
    + intros c' ch' Hc Hcl. gcase c c'; [inversion Hc; subst; discriminate | eauto].
  - (* GInsB *)
    destruct (nth_error (gs s) r) as [g|] eqn:Eg; try discriminate. destruct g; try discriminate.
    apply (linv_write_begin s s' r GNew GIns I0 Eg); cbn; auto; try discriminate.
  - (* GInsE *)
    destruct (nth_error (gs s) r) as [g|] eqn:Eg; try discriminate. destruct g; try discriminate. inv_some.
    assert (El : lock s = LkWrite r) by (eapply Kg; eauto; exact I).
    constructor; cbn; auto; try discriminate; try solve [intros r0 X; cbn in X; try discriminate; specialize (Kwg r0 X); try (destruct (Nat.eq_dec r r0) as [<-|Hne0]; [destruct Kwg as [Y|[d0 Y]]; congruence | rewrite nth_error_upd_other by assumption; exact Kwg])].
    + intros X. specialize (Ki X). congruence.
    + intros r' g Hg W. gcase r r'; [inversion Hg; subst; destruct W|]. specialize (Kg _ _ Hg W). congruence.
    + intros k c [X|X].
      * inversion X; subst. exists GLoop. erewrite nth_error_upd_same by eassumption. repeat split; auto; try exact I.
      * apply remove_key_In in X as [X _]. destruct (Km _ _ X) as [g [H1 [H2 H3]]]. gcase r c.
        -- rewrite Eg in H1. inversion H1; subst. destruct H2.
        -- exists g. auto.
    + intros c ch Hc Hcl. specialize (Kc c ch Hc Hcl). gcase r c; [congruence | exact Kc].
    + intros t sn vis c Es. exfalso. assert (iterating s = true) by (unfold iterating; rewrite Es; reflexivity).
      specialize (Ki H). congruence.
  - (* GRecv *)
    destruct (nth_error (gs s) r) as [g|] eqn:Eg; try discriminate. destruct g; try discriminate.
    destruct (nth_error (chs s) r) as [ch|] eqn:Ec; try discriminate.
    destruct (q ch) as [|t rest]; try discriminate. inv_some.
    constructor; cbn; auto; try solve [intros r0 X; cbn in X; try discriminate; specialize (Kwg r0 X); try (destruct (Nat.eq_dec r r0) as [<-|Hne0]; [destruct Kwg as [Y|[d0 Y]]; congruence | rewrite nth_error_upd_other by assumption; exact Kwg])].
    + intros r' g Hg W. gcase r r'; [inversion Hg; subst; destruct W | eauto].
    + intros k c Hin. destruct (Km _ _ Hin) as [g [H1 [H2 H3]]]. gcase r c.
      * exists (GGot t). repeat split; auto; try exact I.
      * exists g. auto.
    + intros c ch' Hc Hcl. gcase r c.
      * inversion Hc; subst. cbn in Hcl. specialize (Kc _ _ Ec Hcl). congruence.
      * eauto.
  - (* GSend *)
    destruct (nth_error (gs s) r) as [g|] eqn:Eg; try discriminate. destruct g; try discriminate.
    destruct ok; inv_some.
    + constructor; cbn; auto; try solve [intros r0 X; cbn in X; try discriminate; specialize (Kwg r0 X); try (destruct (Nat.eq_dec r r0) as [<-|Hne0]; [destruct Kwg as [Y|[d0 Y]]; congruence | rewrite nth_error_upd_other by assumption; exact Kwg])].
      * intros r' g Hg W. gcase r r'; [inversion Hg; subst; destruct W | eauto].
      * intros k c Hin. destruct (Km _ _ Hin) as [g [H1 [H2 H3]]]. gcase r c.
        -- exists GLoop. repeat split; auto; try exact I.
        -- exists g. auto.
      * intros c ch' Hc Hcl. specialize (Kc _ _ Hc Hcl). gcase r c; [congruence | exact Kc].
    + constructor; cbn; auto; try solve [intros r0 X; cbn in X; try discriminate; specialize (Kwg r0 X); try (destruct (Nat.eq_dec r r0) as [<-|Hne0]; [destruct Kwg as [Y|[d0 Y]]; congruence | rewrite nth_error_upd_other by assumption; exact Kwg])].
      * intros r' g Hg W. gcase r r'; [inversion Hg; subst; destruct W | eauto].
      * intros k c Hin. destruct (Km _ _ Hin) as [g [H1 [H2 H3]]]. gcase r c.
        -- exists GFail. repeat split; auto; try exact I.
        -- exists g. auto.
      * intros c ch' Hc Hcl. specialize (Kc _ _ Hc Hcl). gcase r c; [congruence | exact Kc].
  - (* GSpawn *)
    destruct (nth_error (gs s) r) as [g|] eqn:Eg; try discriminate.
    assert (exists g', (g = GFail /\ g' = GDel \/ g = GClose false /\ g' = GClose true) /\ s' = set_g s r g') as [g' [Hg' ->]].
    { destruct g as [| | |t| | |d|[|]|]; try discriminate; inv_some; eauto. }
    constructor; cbn; auto; try solve [intros r0 X; cbn in X; try discriminate; specialize (Kwg r0 X); try (destruct (Nat.eq_dec r r0) as [<-|Hne0]; [destruct Kwg as [Y|[d0 Y]]; congruence | rewrite nth_error_upd_other by assumption; exact Kwg])].
    + intros r' g0 Hg W. gcase r r'.
      * inversion Hg; subst. destruct Hg' as [[-> ->]|[-> ->]]; [destruct W | eapply Kg; eauto; exact I].
      * eauto.
    + intros k c Hin. destruct (Km _ _ Hin) as [g0 [H1 [H2 H3]]]. gcase r c.
      * rewrite Eg in H1. inversion H1; subst. destruct Hg' as [[-> ->]|[-> ->]]; [|destruct H2].
        exists GDel. repeat split; auto; try exact I.
      * exists g0. auto.
    + intros c ch' Hc Hcl. specialize (Kc _ _ Hc Hcl). gcase r c; [destruct Hg' as [[-> _]|[-> _]]; congruence | exact Kc].
    + intros r0 X. specialize (Kwg r0 X). gcase r r0; [|exact Kwg].
      exfalso. destruct Hg' as [[-> _]|[-> _]]; destruct Kwg as [Y|[d0 Y]]; congruence.
  - (* GDelB *)
    destruct (nth_error (gs s) r) as [g|] eqn:Eg; try discriminate. destruct g; try discriminate.
    apply (linv_write_begin s s' r GDel (GDeling true) I0 Eg); cbn; eauto; try discriminate.
  - (* GDelE *)
    destruct (nth_error (gs s) r) as [g|] eqn:Eg; try discriminate. destruct g as [| | |t| | |d|d'|]; try discriminate. inv_some.
    assert (El : lock s = LkWrite r) by (eapply Kg; eauto; exact I).
    constructor; cbn; auto; try discriminate; try solve [intros r0 X; cbn in X; try discriminate; specialize (Kwg r0 X); try (destruct (Nat.eq_dec r r0) as [<-|Hne0]; [destruct Kwg as [Y|[d0 Y]]; congruence | rewrite nth_error_upd_other by assumption; exact Kwg])].
    + intros r' g Hg W. gcase r r'; [exact El | eauto].
    + intros k c X. apply remove_key_In in X as [X Hk]. destruct (Km _ _ X) as [g [H1 [H2 H3]]]. gcase r c.
      * contradiction.
      * exists g. auto.
    + intros c ch Hc Hcl. specialize (Kc c ch Hc Hcl). gcase r c; [congruence | exact Kc].
    + intros t sn vis c Es. exfalso. assert (iterating s = true) by (unfold iterating; rewrite Es; reflexivity).
      specialize (Ki H). congruence.
  - (* GDelBx *)
    destruct (nth_error (gs s) r) as [g|] eqn:Eg; try discriminate. destruct g; try discriminate.
    apply (linv_write_begin s s' r GFail (GDeling false) I0 Eg); cbn; eauto; try discriminate.
  - (* GCloseL *)
    destruct (nth_error (gs s) r) as [g|] eqn:Eg; try discriminate. destruct g as [| | |t| | |d|[|]|]; try discriminate.
    destruct (nth_error (chs s) r) as [ch|] eqn:Ec; try discriminate. inv_some.
    assert (El : lock s = LkWrite r) by (eapply Kg; eauto; exact I).
    constructor; cbn; auto; try discriminate; try solve [intros r0 X; cbn in X; try discriminate; specialize (Kwg r0 X); try (destruct (Nat.eq_dec r r0) as [<-|Hne0]; [destruct Kwg as [Y|[d0 Y]]; congruence | rewrite nth_error_upd_other by assumption; exact Kwg])].
    + intros r' X. exfalso. pose proof (Kw _ X) as Y. rewrite El in Y. inversion Y; subst.
      destruct (Kwg _ X) as [Z|[d0 Z]]; congruence.
    + intros X. specialize (Ki X). congruence.
    + intros r' g Hg W. gcase r r'; [inversion Hg; subst; destruct W|]. specialize (Kg _ _ Hg W). congruence.
    + intros k c Hin. destruct (Km _ _ Hin) as [g [H1 [H2 H3]]]. gcase r c.
      * rewrite Eg in H1. inversion H1; subst. destruct H2.
      * exists g. auto.
    + intros c ch' Hc Hcl. gcase r c; [reflexivity | eauto].
  - (* GDrain *)
    destruct (nth_error (gs s) r) as [g|] eqn:Eg; try discriminate.
    destruct (nth_error (chs s) r) as [ch|] eqn:Ec; [|destruct g as [| | |t0| | |[|]|[|]|]; discriminate].
    destruct (q ch) as [|t rest] eqn:Eq; [destruct g as [| | |t0| | |[|]|[|]|]; discriminate|].
    assert (s' = set_chs s (upd r (mkchan rest (closed ch)) (chs s))) by (destruct g as [| | |t0| | |[|]|[|]|]; try discriminate; inversion H; reflexivity).
    subst s'.
    constructor; cbn; auto; try solve [intros r0 X; cbn in X; try discriminate; specialize (Kwg r0 X); try (destruct (Nat.eq_dec r r0) as [<-|Hne0]; [destruct Kwg as [Y|[d0 Y]]; congruence | rewrite nth_error_upd_other by assumption; exact Kwg])].
    intros c ch' Hc Hcl. gcase r c.
    + inversion Hc; subst. cbn in Hcl. eauto.
    + eauto.
Qed.

Lemma lock_run_inv : forall ls s s', LInv s -> run_labels s ls = Some s' -> LInv s'.
Proof.
  induction ls as [|l r IH]; intros s s' I H; cbn in H.
  - inv_some. exact I.
  - destruct (step l s) as [s1|] eqn:E; try discriminate. apply (IH s1 s'); auto. eapply lock_step_inv; eauto.
Qed.

(** The first clause of the full statement, for the code after the fix: from the empty server, under EVERY
    schedule of any number of replicas connecting, failing and disconnecting (client addresses may even
    coincide) concurrently with the fan-out, no runtime fault and no racing map access is reachable. *)
Theorem no_fault : forall ks cs cc ls s,
  run_labels (init ks cs cc) ls = Some s -> panic s = None /\ race s = false.
Proof.
  intros. pose proof (lock_run_inv _ _ _ (linv_init ks cs cc) H) as I. split; [apply (L_panic _ I) | apply (L_race _ I)].
Qed.

(* ------------------------------------------------------------------ no deadlock (code order of the cleanup) *)
Record PInv (s : st) : Prop := {
  P_lw : forall r, lock s = LkWrite r -> exists g, nth_error (gs s) r = Some g /\ wlocked g;
  P_lr : lock s = LkRead -> iterating s = true;
  P_lg : length (gs s) = length (keys s);
  P_lc : length (chs s) = length (keys s);
  P_cx : forall r g, nth_error (gs s) r = Some g -> g <> GDeling false /\ g <> GClose false
}.

Lemma pinv_init : forall ks cs cc, PInv (init ks cs cc).
Proof.
  intros. constructor; unfold init; cbn; try discriminate; try (rewrite map_length; reflexivity).
  intros r g H. rewrite nth_error_map in H. destruct (nth_error ks r); inversion H; subst. split; discriminate.
Qed.

Lemma pinv_write_begin : forall s s' r g0 p, LInv s -> PInv s -> nth_error (gs s) r = Some g0 -> wlocked p ->
  p <> GDeling false -> p <> GClose false ->
  map_write_begin s r p = Some s' -> PInv s'.
Proof.
  intros s s' r g0 p I P Eg Hw Hp1 Hp2 H. destruct P as [Qw Qr Qg Qc Qx]. unfold map_write_begin in H.
  destruct (lock s) eqn:El; try discriminate.
  assert (Ew : writing s = None).
  { destruct (writing s) eqn:E; auto. pose proof (L_wr _ I _ E). congruence. }
  rewrite Ew in H. inv_some. constructor; cbn.
  - intros r' X. inversion X; subst. exists p. erewrite nth_error_upd_same by eassumption. auto.
  - discriminate.
  - rewrite length_upd. exact Qg.
  - exact Qc.
  - intros r' g Hg. rewrite nth_error_upd in Hg. destruct (Nat.eqb_spec r r').
    + subst. rewrite Eg in Hg. inversion Hg; subst. auto.
    + eauto.
Qed.

Theorem step_pinv : forall l s s', code_order l = true -> LInv s -> PInv s -> step l s = Some s' -> PInv s'.
Proof.
  intros l s s' Hco I P H. pose proof P as P0. destruct P as [Qw Qr Qg Qc Qx].
  unfold step in H. rewrite (L_panic _ I) in H.
  (* generic pieces *)
  assert (Hsame : forall s1, lock s1 = lock s -> sp s1 = sp s -> gs s1 = gs s -> chs s1 = chs s \/ length (chs s1) = length (chs s) ->
                              keys s1 = keys s -> PInv s1).
  { intros s1 E1 E2 E3 E4 E5. constructor.
    - rewrite E1, E3. exact Qw.
    - rewrite E1. unfold iterating. rewrite E2. exact Qr.
    - rewrite E3, E5. exact Qg.
    - rewrite E5. destruct E4 as [E4 | E4]; rewrite E4; exact Qc.
    - rewrite E3. exact Qx. }
  assert (Hg1 : forall s1 r g0 g1, nth_error (gs s) r = Some g0 -> ~ wlocked g0 -> ~ wlocked g1 ->
                  lock s1 = lock s -> sp s1 = sp s -> gs s1 = upd r g1 (gs s) -> length (chs s1) = length (chs s) ->
                  keys s1 = keys s -> PInv s1).
  { intros s1 r g0 g1 Eg N0 N1 E1 E2 E3 E4 E5. constructor.
    - rewrite E1, E3. intros r' X. destruct (Qw r' X) as [g [Hg W]]. exists g. split; auto.
      rewrite nth_error_upd. destruct (Nat.eqb_spec r r'); auto. subst. rewrite Eg in Hg. inversion Hg; subst. contradiction.
    - rewrite E1. unfold iterating. rewrite E2. exact Qr.
    - rewrite E3, E5, length_upd. exact Qg.
    - rewrite E5, E4. exact Qc.
    - rewrite E3. intros r' g Hg. rewrite nth_error_upd in Hg. destruct (Nat.eqb_spec r r').
      + subst. rewrite Eg in Hg. inversion Hg; subst. split; intro X; subst; apply N1; exact Logic.I.
      + eauto. }
  destruct l; try discriminate Hco.
  - (* Commit *)
    destruct (N.of_nat (length (schan s)) <? capS s)%N; try discriminate. inv_some. apply Hsame; auto.
  - (* SRecv *)
    destruct (sp s) eqn:Es; try discriminate. destruct (schan s); try discriminate. inv_some.
    constructor; cbn; auto. intros X. specialize (Qr X). unfold iterating in Qr. rewrite Es in Qr. discriminate.
  - (* SLock *)
    destruct (sp s) eqn:Es; try discriminate. destruct (lock s) eqn:El; try discriminate. inv_some.
    constructor; cbn; auto. discriminate.
  - (* SNext *)
    destruct (sp s) as [| |t sn vis|] eqn:Es; try discriminate. destruct (lookup (smap s) k); try discriminate.
    destruct (memb k vis); try discriminate.
    assert (Ew : writing s = None).
    { destruct (writing s) eqn:E; auto. pose proof (L_wr _ I _ E) as X.
      assert (lock s = LkRead) by (apply (L_it _ I); unfold iterating; rewrite Es; reflexivity). congruence. }
    rewrite Ew in H. inv_some. constructor; cbn; auto.
  - (* SEnd *)
    destruct (sp s) as [| |t sn vis|] eqn:Es; try discriminate. destruct (forallb _ _); try discriminate.
    assert (Ew : writing s = None).
    { destruct (writing s) eqn:E; auto. pose proof (L_wr _ I _ E) as X.
      assert (lock s = LkRead) by (apply (L_it _ I); unfold iterating; rewrite Es; reflexivity). congruence. }
    rewrite Ew in H. inv_some. constructor; cbn; auto; discriminate.
  - (* SSend *)
    destruct (sp s) as [| | |t sn vis c] eqn:Es; try discriminate. destruct (nth_error (chs s) c) as [ch|]; try discriminate.
    destruct (closed ch); [inversion H; subst; apply Hsame; auto|].
    destruct (N.of_nat (length (q ch)) <? capC s)%N; try discriminate. inv_some.
    constructor; cbn; auto. rewrite length_upd. exact Qc.
  - (* GInsB *)
    destruct (nth_error (gs s) r) as [g|] eqn:Eg; try discriminate. destruct g; try discriminate.
    eapply pinv_write_begin; eauto; cbn; auto; discriminate.
  - (* GInsE *)
    destruct (nth_error (gs s) r) as [g|] eqn:Eg; try discriminate. destruct g; try discriminate. inv_some.
    assert (El : lock s = LkWrite r) by (eapply (L_g _ I); eauto; exact Logic.I).
    constructor; cbn; try discriminate.
    + rewrite length_upd. exact Qg.
    + exact Qc.
    + intros r' g Hg. rewrite nth_error_upd in Hg. destruct (Nat.eqb_spec r r').
      * subst. rewrite Eg in Hg. inversion Hg; subst. split; discriminate.
      * eauto.
  - (* GRecv *)
    destruct (nth_error (gs s) r) as [g|] eqn:Eg; try discriminate. destruct g; try discriminate.
    destruct (nth_error (chs s) r) as [ch|]; try discriminate. destruct (q ch); try discriminate. inv_some.
    eapply (Hg1 _ r GLoop (GGot t)); eauto; cbn; auto. rewrite length_upd. reflexivity.
  - (* GSend *)
    destruct (nth_error (gs s) r) as [g|] eqn:Eg; try discriminate. destruct g; try discriminate.
    destruct ok; inv_some.
    + eapply (Hg1 _ r (GGot t) GLoop); eauto; cbn; auto.
    + eapply (Hg1 _ r (GGot t) GFail); eauto; cbn; auto.
  - (* GSpawn *)
    destruct (nth_error (gs s) r) as [g|] eqn:Eg; try discriminate.
    destruct g as [| | |t| | |d|[|]|]; try discriminate; inv_some.
    + eapply (Hg1 _ r GFail GDel); eauto; cbn; auto.
    + exfalso. destruct (Qx _ _ Eg) as [_ X]. apply X. reflexivity.
  - (* GDelB *)
    destruct (nth_error (gs s) r) as [g|] eqn:Eg; try discriminate. destruct g; try discriminate.
    eapply pinv_write_begin; eauto; cbn; auto; discriminate.
  - (* GDelE *)
    destruct (nth_error (gs s) r) as [g|] eqn:Eg; try discriminate. destruct g as [| | |t| | |d|d'|]; try discriminate. inv_some.
    assert (Hd : d = true) by (destruct d; auto; destruct (Qx _ _ Eg) as [X _]; exfalso; apply X; reflexivity). subst d.
    constructor; cbn.
    + intros r' X. destruct (Qw r' X) as [g [Hg W]]. rewrite nth_error_upd. destruct (Nat.eqb_spec r r').
      * subst. rewrite Eg. exists (GClose true). split; auto. exact Logic.I.
      * exists g. auto.
    + exact Qr.
    + rewrite length_upd. exact Qg.
    + exact Qc.
    + intros r' g Hg. rewrite nth_error_upd in Hg. destruct (Nat.eqb_spec r r').
      * subst. rewrite Eg in Hg. inversion Hg; subst. split; discriminate.
      * eauto.
  - (* GCloseL *)
    destruct (nth_error (gs s) r) as [g|] eqn:Eg; try discriminate. destruct g as [| | |t| | |d|[|]|]; try discriminate.
    destruct (nth_error (chs s) r) as [ch|]; try discriminate. inv_some.
    constructor; cbn; try discriminate.
    + rewrite length_upd. exact Qg.
    + rewrite length_upd. exact Qc.
    + intros r' g Hg. rewrite nth_error_upd in Hg. destruct (Nat.eqb_spec r r').
      * subst. rewrite Eg in Hg. inversion Hg; subst. split; discriminate.
      * eauto.
  - (* GDrain *)
    destruct (nth_error (gs s) r) as [g|] eqn:Eg; try discriminate.
    destruct (nth_error (chs s) r) as [ch|] eqn:Ec; [|destruct g as [| | |t0| | |[|]|[|]|]; discriminate].
    destruct (q ch) as [|t rest] eqn:Eq; [destruct g as [| | |t0| | |[|]|[|]|]; discriminate|].
    assert (s' = set_chs s (upd r (mkchan rest (closed ch)) (chs s))) by (destruct g as [| | |t0| | |[|]|[|]|]; try discriminate; inversion H; reflexivity).
    subst s'. apply Hsame; auto. right. cbn. apply length_upd.
Qed.

Lemma run_lp_inv : forall ls s s', forallb code_order ls = true -> LInv s -> PInv s -> run_labels s ls = Some s' -> LInv s' /\ PInv s'.
Proof.
  induction ls as [|l r IH]; intros s s' Hc I P H; cbn in *.
  - inv_some. auto.
  - apply andb_prop in Hc as [H1 H2]. destruct (step l s) as [s1|] eqn:E; try discriminate.
    apply (IH s1 s' H2); [eapply lock_step_inv; eauto | eapply step_pinv; eauto | exact H].
Qed.

Lemma me_sender : forall s, (enabled SRecv s || enabled SLock s || enabled SEnd s || enabled SSend s) = true -> master_enabled s = true.
Proof. intros s H. unfold master_enabled. rewrite H. reflexivity. Qed.
Lemma me_next : forall s k, In k (keys s) -> enabled (SNext k) s = true -> master_enabled s = true.
Proof.
  intros s k Hin H. unfold master_enabled.
  assert (existsb (fun k0 => enabled (SNext k0) s) (keys s) = true) as X by (apply existsb_exists; eauto).
  rewrite X. rewrite !orb_true_r. reflexivity.
Qed.
Lemma me_stream : forall s r, r < length (keys s) ->
  (enabled (GInsB r) s || enabled (GInsE r) s || enabled (GRecv r) s || enabled (GSpawn r) s
   || enabled (GDelB r) s || enabled (GDelE r) s || enabled (GCloseL r) s || enabled (GDrain r) s) = true ->
  master_enabled s = true.
Proof.
  intros s r Hr H. unfold master_enabled.
  match goal with |- _ || existsb ?f ?l = true => assert (existsb f l = true) as X end.
  { apply existsb_exists. exists r. split; [apply in_seq; lia | exact H]. }
  rewrite X. apply orb_true_r.
Qed.

Lemma lookup_some_of_In : forall m k c, In (k, c) m -> exists c', lookup m k = Some c'.
Proof.
  induction m as [|[k' c'] r IH]; intros k c H; cbn in *; [destruct H|].
  destruct (Nat.eqb_spec k' k); eauto. destruct H as [H|H]; [inversion H; congruence | eauto].
Qed.

(** Deadlock freedom of the master for the code's cleanup order: in every reachable state either the master can
    take a step by itself, or some replica is inside stream.Send (the environment's turn), or nothing is left to do. *)
Theorem no_deadlock_inv : forall s, LInv s -> PInv s -> (0 < capC s)%N ->
  master_enabled s = true \/ in_send s = true \/ quiescent s = true.
Proof.
  intros s I P HcC. destruct I as [Kp Kr Kw Ki Kg Km Kc Kh Kwg]. destruct P as [Qw Qr Qg Qc Qx].
  assert (Hch : forall r, r < length (keys s) -> exists ch, nth_error (chs s) r = Some ch).
  { intros r Hr. destruct (nth_error (chs s) r) eqn:E; eauto. apply nth_error_None in E. lia. }
  assert (Hlt : forall r g, nth_error (gs s) r = Some g -> r < length (keys s)).
  { intros r g H. rewrite <- Qg. apply nth_error_Some. congruence. }
  assert (Hsend : forall r t, nth_error (gs s) r = Some (GGot t) -> in_send s = true).
  { intros r t H. unfold in_send. apply existsb_exists. exists (GGot t). split; [eapply nth_error_In; eauto | reflexivity]. }
  assert (Ewn : (forall r, lock s <> LkWrite r) -> writing s = None).
  { intros X. destruct (writing s) eqn:E; auto. exfalso. apply (X n). apply Kw. reflexivity. }
  destruct (lock s) as [| |r] eqn:El.
  - (* free *)
    destruct (sp s) as [|t|t sn vis|t sn vis c] eqn:Es;
      try (exfalso; assert (X : LkFree = LkRead) by (apply Ki; unfold iterating; rewrite Es; reflexivity); discriminate X).
    + destruct (schan s) as [|t rest] eqn:Eq.
      * destruct (quiescent s) eqn:Equ; auto. unfold quiescent in Equ. rewrite Es, Eq in Equ.
        destruct (forallb_false_ex _ _ _ Equ) as [r [Hin Hr]]. apply in_seq in Hin.
        assert (r < length (keys s)) as Hrk by (rewrite <- Qg; lia).
        destruct (nth_error (gs s) r) as [g|] eqn:Eg; [|apply nth_error_None in Eg; lia].
        destruct (Hch r Hrk) as [ch Ech]. rewrite Ech in Hr.
        assert (Ew : writing s = None) by (apply Ewn; intros; discriminate).
        destruct g as [| | |t| | |d|d|].
        -- left. apply (me_stream s r Hrk). unfold enabled, step, map_write_begin. rewrite Kp, Eg, El. reflexivity.
        -- pose proof (Kg _ _ Eg Logic.I) as X; discriminate X.
        -- left. apply (me_stream s r Hrk). unfold enabled at 3, step. rewrite Kp, Eg, Ech.
           destruct (q ch); [discriminate|]. rewrite !orb_true_r. reflexivity.
        -- right. left. eauto.
        -- left. apply (me_stream s r Hrk). unfold enabled at 4, step. rewrite Kp, Eg. rewrite !orb_true_r. reflexivity.
        -- left. apply (me_stream s r Hrk). unfold enabled at 5, step, map_write_begin. rewrite Kp, Eg, El.
           rewrite !orb_true_r. reflexivity.
        -- pose proof (Kg _ _ Eg Logic.I) as X; discriminate X.
        -- pose proof (Kg _ _ Eg Logic.I) as X; discriminate X.
        -- discriminate.
      * left. apply me_sender. unfold enabled at 1, step. rewrite Kp, Es, Eq. reflexivity.
    + left. apply me_sender. unfold enabled at 2, step. rewrite Kp, Es, El. rewrite orb_true_r. reflexivity.
  - (* read-held: the sender is iterating *)
    specialize (Qr eq_refl). unfold iterating in Qr.
    assert (Ew : writing s = None) by (apply Ewn; intros; discriminate).
    destruct (sp s) as [|t|t sn vis|t sn vis c] eqn:Es; try discriminate.
    + destruct (forallb (fun e => negb (memb (fst e) sn) || memb (fst e) vis) (smap s)) eqn:Ef.
      * left. apply me_sender. unfold enabled at 3, step. rewrite Kp, Es, Ef, Ew. rewrite !orb_true_r. reflexivity.
      * destruct (forallb_false_ex _ _ _ Ef) as [[k c] [Hin E]]. cbn in E. apply orb_false_elim in E as [_ E].
        destruct (Km _ _ Hin) as [g [H1 [_ H3]]]. destruct (lookup_some_of_In _ _ _ Hin) as [c' Hl].
        left. apply (me_next s k).
        -- rewrite H3. apply nth_In. eapply Hlt; eauto.
        -- unfold enabled, step. rewrite Kp, Es, Hl, E, Ew. reflexivity.
    + destruct (Kh _ _ _ _ eq_refl) as [k Hin]. destruct (Km _ _ Hin) as [g [Hg [Hlive _]]].
      pose proof (Hlt _ _ Hg) as Hc. destruct (Hch c Hc) as [ch Ech].
      assert (Hop : closed ch = false).
      { destruct (closed ch) eqn:E; auto. rewrite (Kc _ _ Ech E) in Hg. inversion Hg; subst. destruct Hlive. }
      destruct (N.of_nat (length (q ch)) <? capC s)%N eqn:Ecap.
      * left. apply me_sender. unfold enabled at 4, step. rewrite Kp, Es, Ech, Hop, Ecap. rewrite !orb_true_r. reflexivity.
      * apply N.ltb_ge in Ecap. destruct (q ch) as [|t0 rest] eqn:Eq; [cbn in Ecap; lia|].
        destruct g as [| | |t1| | |d|d|]; try (destruct Hlive).
        -- left. apply (me_stream s c Hc). unfold enabled at 3, step. rewrite Kp, Hg, Ech, Eq. rewrite !orb_true_r. reflexivity.
        -- right. left. eauto.
        -- left. apply (me_stream s c Hc). unfold enabled at 4, step. rewrite Kp, Hg. rewrite !orb_true_r. reflexivity.
        -- left. apply (me_stream s c Hc). unfold enabled at 8, step. rewrite Kp, Hg, Ech, Eq. rewrite !orb_true_r. reflexivity.
        -- pose proof (Kg _ _ Hg Logic.I) as X; discriminate X.
  - (* write-held by stream r *)
    destruct (Qw r eq_refl) as [g [Hg W]]. pose proof (Hlt _ _ Hg) as Hr. destruct (Hch r Hr) as [ch Ech].
    left. apply (me_stream s r Hr). destruct g as [| | |t| | |d|d|]; try (destruct W).
    + unfold enabled at 2, step. rewrite Kp, Hg. rewrite !orb_true_r. reflexivity.
    + unfold enabled at 6, step. rewrite Kp, Hg. rewrite !orb_true_r. reflexivity.
    + destruct d; [|destruct (Qx _ _ Hg) as [_ X]; exfalso; apply X; reflexivity].
      unfold enabled at 7, step. rewrite Kp, Hg, Ech. rewrite !orb_true_r. reflexivity.
Qed.

Theorem no_deadlock : forall ks cs cc ls s, (0 < cc)%N -> forallb code_order ls = true ->
  run_labels (init ks cs cc) ls = Some s ->
  master_enabled s = true \/ in_send s = true \/ quiescent s = true.
Proof.
  intros ks cs cc ls s Hcc Hco Hr.
  destruct (run_lp_inv _ _ _ Hco (linv_init ks cs cc) (pinv_init ks cs cc) Hr) as [I P].
  apply no_deadlock_inv; auto. destruct (run_static _ _ _ Hr) as (_ & _ & E). rewrite E. exact Hcc.
Qed.
