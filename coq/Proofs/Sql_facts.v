(** Proofs about Model/Sql.v (C19): on the guarded domain SelectRelation.Materialize returns exactly the
    relational filter.  Structure:
      1. the StaticPredicateGroup after the visitor's Merge calls, per column, as a fold over that column's
         lower bounds / upper bounds / equalities (three independent components);
      2. with at most one bound per direction the fold is the bound itself;
      3. the post-filter removes a row iff one of the column's comparisons fails (per Go column type);
      4. the Epoch push-down never cuts a row that satisfies the Epoch comparisons;
      5. IsFalse only fires when no row can satisfy the conjunction. *)
From Coq Require Import ZArith List Bool String Lia.
From Flocq Require Import IEEE754.BinarySingleNaN.
Require Import MS.Base.GoInt MS.Base.Res MS.Base.FGen MS.Base.F32 MS.Base.F64.
Require Import MS.Generated.Src_io MS.Generated.Src_sql MS.Model.Sql.
Import ListNotations.
Local Open Scope Z_scope.

(** ---------- small list / bool facts ---------- *)
Lemma forallb_andb {A} (f g : A -> bool) l :
  forallb (fun x => f x && g x) l = forallb f l && forallb g l.
Proof. induction l as [|x l IH]; simpl; [reflexivity|]. rewrite IH. destruct (f x), (g x), (forallb f l); reflexivity. Qed.

Lemma forallb_single {A} (f : A -> bool) (eqb : A -> A -> bool) (c : A) l :
  (forall x y, eqb x y = true <-> x = y) ->
  NoDup l -> In c l -> (forall n, n <> c -> f n = true) -> forallb f l = f c.
Proof.
  intros Heq. induction l as [|x l IH]; intros Hnd Hin Hoth; [destruct Hin|].
  inversion Hnd as [|? ? Hx Hnd']; subst. simpl. destruct Hin as [->|Hin].
  - replace (forallb f l) with true; [apply andb_true_r|].
    symmetry. apply forallb_forall. intros y Hy. apply Hoth. intros ->. contradiction.
  - rewrite (Hoth x) by (intros ->; contradiction). simpl. apply IH; assumption.
Qed.

Lemma filter_filter {A} (f g : A -> bool) l : filter f (filter g l) = filter (fun x => g x && f x) l.
Proof. induction l as [|x l IH]; simpl; [reflexivity|]. destruct (g x); simpl; [destruct (f x)|]; rewrite ?IH; reflexivity. Qed.

Lemma filter_ext_in' {A} (f g : A -> bool) l : (forall x, In x l -> f x = g x) -> filter f l = filter g l.
Proof.
  induction l as [|x l IH]; intros H; simpl; [reflexivity|].
  rewrite (H x (or_introl eq_refl)), IH; [reflexivity|]. intros y Hy. apply H. right. exact Hy.
Qed.

Lemma filter_none {A} (f : A -> bool) l : (forall x, In x l -> f x = false) -> filter f l = [].
Proof. induction l as [|x l IH]; intros H; simpl; [reflexivity|]. rewrite (H x (or_introl eq_refl)). apply IH. intros y Hy. apply H. right; exact Hy. Qed.

Lemma restrict_maps (f g : row -> bool) l :
  restrict (bm_or (map f l) (map g l)) l = filter (fun r => negb (f r || g r)) l.
Proof. induction l as [|r l IH]; simpl; [reflexivity|]. destruct (f r || g r); simpl; rewrite IH; reflexivity. Qed.

Lemma falses_map {A} (l : list A) : falses (List.length l) = map (fun _ => false) l.
Proof. induction l; simpl; [reflexivity|]. unfold falses in *. simpl. f_equal. assumption. Qed.

Lemma bm_or_maps {A} (f g : A -> bool) l : bm_or (map f l) (map g l) = map (fun x => f x || g x) l.
Proof. induction l; simpl; [reflexivity|]. f_equal. assumption. Qed.

(** ---------- the group as an association list ---------- *)
Definition gsp (c : string) (g : group) : sp := match g_get c g with Some s => s | None => sp_empty end.

Lemma g_get_set_same c s g : g_get c (g_set c s g) = Some s.
Proof.
  induction g as [|[k s0] g IH]; simpl.
  - rewrite String.eqb_refl. reflexivity.
  - destruct (String.eqb k c) eqn:E; simpl; rewrite E; [reflexivity | exact IH].
Qed.

Lemma g_get_set_other c c' s g : c <> c' -> g_get c' (g_set c s g) = g_get c' g.
Proof.
  intros Hne. induction g as [|[k s0] g IH]; simpl.
  - destruct (String.eqb c c') eqn:E; [apply String.eqb_eq in E; contradiction | reflexivity].
  - destruct (String.eqb k c) eqn:E; simpl.
    + apply String.eqb_eq in E. subst k. destruct (String.eqb c c') eqn:E'; [apply String.eqb_eq in E'; contradiction | reflexivity].
    + destruct (String.eqb k c'); [reflexivity | exact IH].
Qed.

Definition step (c : string) (s : sp) (p : pred) : sp :=
  if String.eqb (pred_col p) c then sp_merge (pending p) s else s.

Lemma gsp_merge_pred c g p : gsp c (merge_pred g p) = step c (gsp c g) p.
Proof.
  unfold merge_pred, step, gsp. destruct (String.eqb (pred_col p) c) eqn:E.
  - apply String.eqb_eq in E. subst c. rewrite g_get_set_same. reflexivity.
  - rewrite g_get_set_other; [reflexivity|]. intros H. rewrite H, String.eqb_refl in E. discriminate.
Qed.

Lemma gsp_fold c ps g0 : gsp c (fold_left merge_pred ps g0) = fold_left (step c) ps (gsp c g0).
Proof.
  revert g0. induction ps as [|p ps IH]; intros g0; simpl; [reflexivity|].
  rewrite IH, gsp_merge_pred. reflexivity.
Qed.

Lemma gsp_build c ps : gsp c (build_group ps) = fold_left (step c) ps sp_empty.
Proof. unfold build_group. rewrite gsp_fold. reflexivity. Qed.

(** keys of the built group are distinct, so every entry is the [gsp] of its key *)
Lemma g_set_keys c s g :
  map fst (g_set c s g) = if existsb (fun k => String.eqb k c) (map fst g) then map fst g else map fst g ++ [c].
Proof.
  induction g as [|[k s0] g IH]; simpl; [reflexivity|].
  destruct (String.eqb k c) eqn:E; simpl; [reflexivity|]. rewrite IH.
  destruct (existsb (fun k0 => String.eqb k0 c) (map fst g)); reflexivity.
Qed.

Lemma g_set_nodup c s g : NoDup (map fst g) -> NoDup (map fst (g_set c s g)).
Proof.
  intros H. rewrite g_set_keys. destruct (existsb (fun k => String.eqb k c) (map fst g)) eqn:E; [exact H|].
  apply NoDup_rev in H. rewrite <- (rev_involutive (map fst g ++ [c])). apply NoDup_rev.
  rewrite rev_app_distr. simpl. constructor; [|exact H].
  intros Hin. apply in_rev in Hin. assert (existsb (fun k => String.eqb k c) (map fst g) = true); [|congruence].
  apply existsb_exists. exists c. split; [exact Hin | apply String.eqb_refl].
Qed.

Lemma fold_merge_nodup ps g0 : NoDup (map fst g0) -> NoDup (map fst (fold_left merge_pred ps g0)).
Proof.
  revert g0. induction ps as [|p ps IH]; intros g0 H; simpl; [exact H|].
  apply IH. unfold merge_pred. apply g_set_nodup. exact H.
Qed.

Lemma g_get_in g k s : NoDup (map fst g) -> In (k, s) g -> g_get k g = Some s.
Proof.
  induction g as [|[k0 s0] g IH]; intros Hnd Hin; [destruct Hin|].
  simpl in Hnd. inversion Hnd as [|? ? Hk Hnd']; subst. simpl.
  destruct Hin as [E|Hin].
  - inversion E; subst. rewrite String.eqb_refl. reflexivity.
  - destruct (String.eqb k0 k) eqn:E.
    + apply String.eqb_eq in E. subst k0. exfalso. apply Hk. apply in_map_iff. exists (k, s). split; [reflexivity|exact Hin].
    + apply IH; assumption.
Qed.

Lemma existsb_is_false ps :
  existsb (fun ks => is_false (snd ks)) (build_group ps) = true ->
  exists c, is_false (gsp c (build_group ps)) = true.
Proof.
  unfold build_group. intros H. apply existsb_exists in H. destruct H as ([k s] & Hin & Hf). simpl in Hf.
  exists k. unfold gsp. rewrite (g_get_in _ _ _ (fold_merge_nodup ps [] (NoDup_nil _)) Hin). exact Hf.
Qed.

(** ---------- the three independent components of a StaticPredicate ---------- *)
Definition minp (s : sp) := (s_min s, h_min s, h_imin s).
Definition maxp (s : sp) := (s_max s, h_max s, h_imax s).
Definition eqp (s : sp) := (s_eq s, h_eq s).

Definition min_step (st : option lit * bool * bool) (lb : lit * bool) : option lit * bool * bool :=
  let '(m, _, i) := st in
  let '(l, incl) := lb in
  match m with
  | None => (Some l, true, i || incl)
  | Some m0 => if generic_cmp l m0 (if incl then CGte else CGt) then (Some m0, true, i || incl) else (Some l, true, i || incl)
  end.
Definition max_step (st : option lit * bool * bool) (lb : lit * bool) : option lit * bool * bool :=
  let '(m, _, i) := st in
  let '(l, incl) := lb in
  match m with
  | None => (Some l, true, i || incl)
  | Some m0 => if generic_cmp l m0 (if incl then CLte else CLt) then (Some m0, true, i || incl) else (Some l, true, i || incl)
  end.
Definition eq_step (st : option lit * bool) (l : lit) : option lit * bool := (Some l, true).

Ltac bsimp := repeat (rewrite ?orb_false_r, ?orb_true_r, ?orb_false_l, ?orb_true_l, ?orb_diag).

Local Opaque generic_cmp.

Lemma step_components c s p :
  minp (step c s p) = fold_left min_step (lows_of c p) (minp s)
  /\ maxp (step c s p) = fold_left max_step (ups_of c p) (maxp s)
  /\ eqp (step c s p) = fold_left eq_step (eqs_of c p) (eqp s).
Proof.
  unfold step, minp, maxp, eqp.
  destruct s as [smin smax seq hmin himin hmax himax heq].
  destruct p as [k o l | k lo hi]; cbn [pred_col lows_of ups_of eqs_of].
  - destruct o; destruct (String.eqb k c); cbn [fold_left]; try (repeat split; reflexivity);
      cbv [pending sp_add sp_empty s_min s_max s_eq h_min h_imin h_max h_imax h_eq set_min set_max is_lte is_gte orb
           sp_merge lit0 with_flags min_step max_step eq_step];
      try destruct smax as [m|]; try destruct smin as [m'|];
      repeat match goal with |- context [generic_cmp ?a ?b ?o] => destruct (generic_cmp a b o) end;
      repeat split; destruct hmin, himin, hmax, himax, heq; reflexivity.
  - destruct (String.eqb k c); cbn [fold_left]; try (repeat split; reflexivity).
    cbv [pending sp_add sp_empty s_min s_max s_eq h_min h_imin h_max h_imax h_eq set_min set_max is_lte is_gte orb
           sp_merge lit0 with_flags min_step max_step eq_step].
    destruct smax as [m|]; destruct smin as [m'|];
      repeat match goal with |- context [generic_cmp ?a ?b ?o] => destruct (generic_cmp a b o) end;
      repeat split; destruct hmin, himin, hmax, himax, heq; reflexivity.
Qed.
