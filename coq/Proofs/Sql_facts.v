(** Proofs about Model/Sql.v (C19): on the guarded domain SelectRelation.Materialize returns exactly the
    relational filter.  Structure:
      1. the StaticPredicateGroup after the visitor's Merge calls, per column, as a fold over that column's
         lower bounds / upper bounds / equalities (three independent components);
      2. with at most one bound per direction the fold is the bound itself;
      3. the post-filter removes a row iff one of the column's comparisons fails (per Go column type);
      4. the Epoch push-down never cuts a row that satisfies the Epoch comparisons;
      5. IsFalse only fires when no row can satisfy the conjunction. *)
From Coq Require Import ZArith List Bool String Lia.
From Flocq Require Import IEEE754.BinarySingleNaN.
Require Import MS.Base.GoInt MS.Base.Res MS.Base.FGen MS.Base.F32 MS.Base.F64.
Require Import MS.Generated.Src_io MS.Generated.Src_sql MS.Model.Sql MS.Proofs.SqlNum_facts.
Import ListNotations.
Local Open Scope Z_scope.

(** ---------- small list / bool facts ---------- *)
Lemma forallb_andb {A} (f g : A -> bool) l :
  forallb (fun x => f x && g x) l = forallb f l && forallb g l.
Proof. induction l as [|x l IH]; simpl; [reflexivity|]. rewrite IH. destruct (f x), (g x), (forallb f l); reflexivity. Qed.

Lemma forallb_single {A} (f : A -> bool) (c : A) l :
  NoDup l -> In c l -> (forall n, n <> c -> f n = true) -> forallb f l = f c.
Proof.
  induction l as [|x l IH]; intros Hnd Hin Hoth; [destruct Hin|].
  inversion Hnd as [|? ? Hx Hnd']; subst. simpl. destruct Hin as [->|Hin].
  - replace (forallb f l) with true; [apply andb_true_r|].
    symmetry. apply forallb_forall. intros y Hy. apply Hoth. intros ->. contradiction.
  - rewrite (Hoth x) by (intros ->; contradiction). simpl. apply IH; assumption.
Qed.

Lemma forallb_ext' {A} (f g : A -> bool) l : (forall x, f x = g x) -> forallb f l = forallb g l.
Proof. intros H. induction l; simpl; [reflexivity|]. rewrite H, IHl. reflexivity. Qed.

Lemma filter_filter {A} (f g : A -> bool) l : filter f (filter g l) = filter (fun x => g x && f x) l.
Proof. induction l as [|x l IH]; simpl; [reflexivity|]. destruct (g x); simpl; [destruct (f x)|]; rewrite ?IH; reflexivity. Qed.

Lemma filter_ext_in' {A} (f g : A -> bool) l : (forall x, In x l -> f x = g x) -> filter f l = filter g l.
Proof.
  induction l as [|x l IH]; intros H; simpl; [reflexivity|].
  rewrite (H x (or_introl eq_refl)), IH; [reflexivity|]. intros y Hy. apply H. right. exact Hy.
Qed.

Lemma filter_none {A} (f : A -> bool) l : (forall x, In x l -> f x = false) -> filter f l = [].
Proof. induction l as [|x l IH]; intros H; simpl; [reflexivity|]. rewrite (H x (or_introl eq_refl)). apply IH. intros y Hy. apply H. right; exact Hy. Qed.

Lemma restrict_maps (f g : row -> bool) l :
  restrict (bm_or (map f l) (map g l)) l = filter (fun r => negb (f r || g r)) l.
Proof. induction l as [|r l IH]; simpl; [reflexivity|]. destruct (f r || g r); simpl; rewrite IH; reflexivity. Qed.

Lemma falses_map {A} (l : list A) : falses (List.length l) = map (fun _ => false) l.
Proof. induction l; simpl; [reflexivity|]. unfold falses in *. simpl. f_equal. assumption. Qed.

Lemma bm_or_maps {A} (f g : A -> bool) l : bm_or (map f l) (map g l) = map (fun x => f x || g x) l.
Proof. induction l; simpl; [reflexivity|]. f_equal. assumption. Qed.

(** ---------- the group as an association list ---------- *)
Definition gsp (c : string) (g : group) : sp := match g_get c g with Some s => s | None => sp_empty end.

Lemma g_get_set_same c s g : g_get c (g_set c s g) = Some s.
Proof.
  induction g as [|[k s0] g IH]; simpl.
  - rewrite String.eqb_refl. reflexivity.
  - destruct (String.eqb k c) eqn:E; simpl; rewrite E; [reflexivity | exact IH].
Qed.

Lemma g_get_set_other c c' s g : c <> c' -> g_get c' (g_set c s g) = g_get c' g.
Proof.
  intros Hne. induction g as [|[k s0] g IH]; simpl.
  - destruct (String.eqb c c') eqn:E; [apply String.eqb_eq in E; contradiction | reflexivity].
  - destruct (String.eqb k c) eqn:E; simpl.
    + apply String.eqb_eq in E. subst k. destruct (String.eqb c c') eqn:E'; [apply String.eqb_eq in E'; contradiction | reflexivity].
    + destruct (String.eqb k c'); [reflexivity | exact IH].
Qed.

Definition step (c : string) (s : sp) (p : pred) : sp :=
  if String.eqb (pred_col p) c then sp_merge (pending p) s else s.

Lemma gsp_merge_pred c g p : gsp c (merge_pred g p) = step c (gsp c g) p.
Proof.
  unfold merge_pred, step, gsp. destruct (String.eqb (pred_col p) c) eqn:E.
  - apply String.eqb_eq in E. subst c. rewrite g_get_set_same. reflexivity.
  - rewrite g_get_set_other; [reflexivity|]. intros H. rewrite H, String.eqb_refl in E. discriminate.
Qed.

Lemma gsp_fold c ps g0 : gsp c (fold_left merge_pred ps g0) = fold_left (step c) ps (gsp c g0).
Proof.
  revert g0. induction ps as [|p ps IH]; intros g0; simpl; [reflexivity|].
  rewrite IH, gsp_merge_pred. reflexivity.
Qed.

Lemma gsp_build c ps : gsp c (build_group ps) = fold_left (step c) ps sp_empty.
Proof. unfold build_group. rewrite gsp_fold. reflexivity. Qed.

(** keys of the built group are distinct, so every entry is the [gsp] of its key *)
Lemma g_set_keys c s g :
  map fst (g_set c s g) = if existsb (fun k => String.eqb k c) (map fst g) then map fst g else map fst g ++ [c].
Proof.
  induction g as [|[k s0] g IH]; simpl; [reflexivity|].
  destruct (String.eqb k c) eqn:E; simpl; [reflexivity|]. rewrite IH.
  destruct (existsb (fun k0 => String.eqb k0 c) (map fst g)); reflexivity.
Qed.

Lemma g_set_nodup c s g : NoDup (map fst g) -> NoDup (map fst (g_set c s g)).
Proof.
  intros H. rewrite g_set_keys. destruct (existsb (fun k => String.eqb k c) (map fst g)) eqn:E; [exact H|].
  apply NoDup_rev in H. rewrite <- (rev_involutive (map fst g ++ [c])). apply NoDup_rev.
  rewrite rev_app_distr. simpl. constructor; [|exact H].
  intros Hin. apply in_rev in Hin. assert (existsb (fun k => String.eqb k c) (map fst g) = true); [|congruence].
  apply existsb_exists. exists c. split; [exact Hin | apply String.eqb_refl].
Qed.

Lemma fold_merge_nodup ps g0 : NoDup (map fst g0) -> NoDup (map fst (fold_left merge_pred ps g0)).
Proof.
  revert g0. induction ps as [|p ps IH]; intros g0 H; simpl; [exact H|].
  apply IH. unfold merge_pred. apply g_set_nodup. exact H.
Qed.

Lemma g_get_in g k s : NoDup (map fst g) -> In (k, s) g -> g_get k g = Some s.
Proof.
  induction g as [|[k0 s0] g IH]; intros Hnd Hin; [destruct Hin|].
  simpl in Hnd. inversion Hnd as [|? ? Hk Hnd']; subst. simpl.
  destruct Hin as [E|Hin].
  - inversion E; subst. rewrite String.eqb_refl. reflexivity.
  - destruct (String.eqb k0 k) eqn:E.
    + apply String.eqb_eq in E. subst k0. exfalso. apply Hk. apply in_map_iff. exists (k, s). split; [reflexivity|exact Hin].
    + apply IH; assumption.
Qed.

Lemma existsb_is_false ps :
  existsb (fun ks => is_false (snd ks)) (build_group ps) = true ->
  exists c, is_false (gsp c (build_group ps)) = true.
Proof.
  unfold build_group. intros H. apply existsb_exists in H. destruct H as ([k s] & Hin & Hf). simpl in Hf.
  exists k. unfold gsp. rewrite (g_get_in _ _ _ (fold_merge_nodup ps [] (NoDup_nil _)) Hin). exact Hf.
Qed.

(** ---------- the three independent components of a StaticPredicate ---------- *)
Definition minp (s : sp) := (s_min s, h_min s, h_imin s).
Definition maxp (s : sp) := (s_max s, h_max s, h_imax s).
Definition eqp (s : sp) := (s_eq s, h_eq s).

Definition min_step (st : option lit * bool * bool) (lb : lit * bool) : option lit * bool * bool :=
  let '(m, _, i) := st in
  let '(l, incl) := lb in
  match m with
  | None => (Some l, true, i || incl)
  | Some m0 => if generic_cmp l m0 (if incl then CGte else CGt) then (Some m0, true, i || incl) else (Some l, true, i || incl)
  end.
Definition max_step (st : option lit * bool * bool) (lb : lit * bool) : option lit * bool * bool :=
  let '(m, _, i) := st in
  let '(l, incl) := lb in
  match m with
  | None => (Some l, true, i || incl)
  | Some m0 => if generic_cmp l m0 (if incl then CLte else CLt) then (Some m0, true, i || incl) else (Some l, true, i || incl)
  end.
Definition eq_step (st : option lit * bool) (l : lit) : option lit * bool := (Some l, true).

Ltac bsimp := repeat (rewrite ?orb_false_r, ?orb_true_r, ?orb_false_l, ?orb_true_l, ?orb_diag).

Local Opaque generic_cmp.

Lemma step_components c s p :
  minp (step c s p) = fold_left min_step (lows_of c p) (minp s)
  /\ maxp (step c s p) = fold_left max_step (ups_of c p) (maxp s)
  /\ eqp (step c s p) = fold_left eq_step (eqs_of c p) (eqp s).
Proof.
  unfold step, minp, maxp, eqp.
  destruct s as [smin smax seq hmin himin hmax himax heq].
  destruct p as [k o l | k lo hi]; cbn [pred_col lows_of ups_of eqs_of].
  - destruct o; destruct (String.eqb k c); cbn [fold_left]; try (repeat split; reflexivity);
      cbv [pending sp_add sp_empty s_min s_max s_eq h_min h_imin h_max h_imax h_eq set_min set_max is_lte is_gte orb
           sp_merge lit0 with_flags min_step max_step eq_step];
      try destruct smax as [m|]; try destruct smin as [m'|];
      repeat match goal with |- context [generic_cmp ?a ?b ?o] => destruct (generic_cmp a b o) end;
      repeat split; destruct hmin, himin, hmax, himax, heq; reflexivity.
  - destruct (String.eqb k c); cbn [fold_left]; try (repeat split; reflexivity).
    cbv [pending sp_add sp_empty s_min s_max s_eq h_min h_imin h_max h_imax h_eq set_min set_max is_lte is_gte orb
           sp_merge lit0 with_flags min_step max_step eq_step].
    destruct smax as [m|]; destruct smin as [m'|];
      repeat match goal with |- context [generic_cmp ?a ?b ?o] => destruct (generic_cmp a b o) end;
      repeat split; destruct hmin, himin, hmax, himax, heq; reflexivity.
Qed.

Lemma fold_components c ps s :
  minp (fold_left (step c) ps s) = fold_left min_step (lows c ps) (minp s)
  /\ maxp (fold_left (step c) ps s) = fold_left max_step (ups c ps) (maxp s)
  /\ eqp (fold_left (step c) ps s) = fold_left eq_step (eqs c ps) (eqp s).
Proof.
  revert s. induction ps as [|p ps IH]; intros s; [repeat split; reflexivity|].
  unfold lows, ups, eqs. cbn [fold_left flat_map]. rewrite !fold_left_app.
  destruct (step_components c s p) as (H1 & H2 & H3). rewrite <- H1, <- H2, <- H3. apply IH.
Qed.

(** the expected predicate of a column with at most one bound per direction *)
Definition hd_lit (l : list (lit * bool)) : option lit := match l with [] => None | (x, _) :: _ => Some x end.
Definition hd_incl (l : list (lit * bool)) : bool := match l with [] => false | (_, i) :: _ => i end.
Definition nonnil {A} (l : list A) : bool := match l with [] => false | _ => true end.
Definition exp_sp (lo up : list (lit * bool)) (eq : list lit) : sp :=
  mksp (hd_lit lo) (hd_lit up) (hd_error eq) (nonnil lo) (hd_incl lo) (nonnil up) (hd_incl up) (nonnil eq).

Definition short {A} (l : list A) : Prop := (List.length l <= 1)%nat.

Lemma gsp_unique c ps :
  short (lows c ps) -> short (ups c ps) -> short (eqs c ps) ->
  gsp c (build_group ps) = exp_sp (lows c ps) (ups c ps) (eqs c ps).
Proof.
  intros Hl Hu He. rewrite gsp_build.
  destruct (fold_components c ps sp_empty) as (H1 & H2 & H3).
  destruct (fold_left (step c) ps sp_empty) as [smin smax seq hmin himin hmax himax heq].
  unfold minp, maxp, eqp in *. cbn [s_min s_max s_eq h_min h_imin h_max h_imax h_eq sp_empty] in *.
  unfold exp_sp, short in *.
  destruct (lows c ps) as [|[l1 i1] [|? ?]]; [| |simpl in Hl; lia];
  destruct (ups c ps) as [|[l2 i2] [|? ?]]; [| |simpl in Hu; lia | | |simpl in Hu; lia];
  destruct (eqs c ps) as [|l3 [|? ?]]; try (simpl in He; lia);
  cbn in H1, H2, H3; inversion H1; inversion H2; inversion H3; subst; reflexivity.
Qed.

(** ---------- the relational side, per column ---------- *)
Definition okL (K : lit -> option comparison) (lo : list (lit * bool)) : bool :=
  forallb (fun lb : lit * bool => sem_op (if snd lb then CGte else CGt) (K (fst lb))) lo.
Definition okU (K : lit -> option comparison) (up : list (lit * bool)) : bool :=
  forallb (fun lb : lit * bool => sem_op (if snd lb then CLte else CLt) (K (fst lb))) up.
Definition okE (K : lit -> option comparison) (eq : list lit) : bool := forallb (fun l => sem_op CEq (K l)) eq.
Definition okc (K : lit -> option comparison) (c : string) (ps : list pred) : bool :=
  okL K (lows c ps) && okU K (ups c ps) && okE K (eqs c ps).
Definition contrib (K : lit -> option comparison) (c : string) (p : pred) : bool :=
  okL K (lows_of c p) && okU K (ups_of c p) && okE K (eqs_of c p).

Lemma okc_cons K c p ps : okc K c (p :: ps) = contrib K c p && okc K c ps.
Proof.
  unfold okc, contrib, okL, okU, okE, lows, ups, eqs. cbn [flat_map]. rewrite !forallb_app.
  repeat match goal with |- context [forallb ?f ?l] => generalize (forallb f l); intro end.
  repeat match goal with b : bool |- _ => destruct b end; reflexivity.
Qed.

Lemma contrib_other K c p : pred_col p <> c -> contrib K c p = true.
Proof.
  intros H. assert (E : String.eqb (pred_col p) c = false) by (apply String.eqb_neq; exact H).
  unfold contrib. destruct p as [k o l|k lo hi]; cbn [pred_col] in E; cbn [lows_of ups_of eqs_of];
    [destruct o|]; rewrite ?E; reflexivity.
Qed.

Lemma contrib_same sc r p : pred_is_neq p = false ->
  contrib (cmp_col sc r (pred_col p)) (pred_col p) p = sem_pred sc r p.
Proof.
  intros H. unfold contrib. destruct p as [k o l|k lo hi]; cbn [pred_col lows_of ups_of eqs_of sem_pred].
  - destruct o; try discriminate H; rewrite String.eqb_refl; cbn [okL okU okE forallb fst snd];
      rewrite ?andb_true_r; reflexivity.
  - rewrite String.eqb_refl. cbn [okL okU okE forallb fst snd]. rewrite !andb_true_r. reflexivity.
Qed.

Definition cols_of (sc : schema) : list string := epoch_name :: map fst sc.

Lemma sem_by_columns sc r ps :
  NoDup (cols_of sc) ->
  (forall p, In p ps -> In (pred_col p) (cols_of sc) /\ pred_is_neq p = false) ->
  forallb (sem_pred sc r) ps = forallb (fun c => okc (cmp_col sc r c) c ps) (cols_of sc).
Proof.
  intros Hnd. induction ps as [|p ps IH]; intros Hp.
  - cbn [forallb]. symmetry. apply forallb_forall. intros c _. reflexivity.
  - cbn [forallb].
    rewrite (forallb_ext' _ _ _ (fun c => okc_cons (cmp_col sc r c) c p ps)).
    rewrite forallb_andb. f_equal.
    + destruct (Hp p (or_introl eq_refl)) as [Hin Hneq].
      rewrite (forallb_single (fun c => contrib (cmp_col sc r c) c p) (pred_col p) _ Hnd Hin).
      * symmetry. apply contrib_same. exact Hneq.
      * intros n Hn. apply contrib_other. congruence.
    + apply IH. intros q Hq. apply Hp. right. exact Hq.
Qed.

(** ---------- the post-filter of one column, generically in the Go comparison operators ---------- *)
Definition rm_gen (eqb lt le gt ge : lit -> bool) (s : sp) : bool :=
  (h_eq s && negb (eqb (lit0 (s_eq s))))
  || (h_min s && (if h_imin s then lt (lit0 (s_min s)) else le (lit0 (s_min s))))
  || (h_max s && (if h_imax s then gt (lit0 (s_max s)) else ge (lit0 (s_max s)))).

Definition tests_ok (K : lit -> option comparison) (eqb lt le gt ge : lit -> bool) (l : lit) : Prop :=
  K l <> None /\ eqb l = sem_op CEq (K l) /\ lt l = sem_op CLt (K l) /\ le l = sem_op CLte (K l)
  /\ gt l = sem_op CGt (K l) /\ ge l = sem_op CGte (K l).

Lemma rm_gen_spec K eqb lt le gt ge lo up eq :
  short lo -> short up -> short eq ->
  (forall l, In l (map fst lo ++ map fst up ++ eq) -> tests_ok K eqb lt le gt ge l) ->
  rm_gen eqb lt le gt ge (exp_sp lo up eq) = negb (okL K lo && okU K up && okE K eq).
Proof.
  unfold short, rm_gen, exp_sp, okL, okU, okE.
  intros Hl Hu He HT.
  destruct lo as [|[l1 i1] [|? ?]]; [| |simpl in Hl; lia];
  destruct up as [|[l2 i2] [|? ?]]; [| |simpl in Hu; lia | | |simpl in Hu; lia];
  destruct eq as [|l3 [|? ?]]; try (simpl in He; lia);
  cbn [s_min s_max s_eq h_min h_imin h_max h_imax h_eq hd_lit hd_incl nonnil hd_error lit0 forallb fst snd andb orb negb];
  repeat match goal with
  | |- context [K ?l] =>
      let H := fresh in
      assert (H : tests_ok K eqb lt le gt ge l) by (apply HT; simpl; auto 8);
      destruct H as (Hn & E1 & E2 & E3 & E4 & E5); rewrite ?E1, ?E2, ?E3, ?E4, ?E5; clear E1 E2 E3 E4 E5; destruct (K l) as [[]|]; [| | |congruence]; clear Hn
  end;
  try destruct i1; try destruct i2; reflexivity.
Qed.

(** ---------- float comparisons ---------- *)
Section FloatCmp.
Variable prec emax : Z.
Notation fl := (binary_float prec emax).

Lemma bltb_sem (x y : fl) : Bltb x y = sem_op CLt (Bcompare x y).
Proof. unfold Bltb, SpecFloat.SFltb, Bcompare. destruct (SpecFloat.SFcompare (B2SF x) (B2SF y)) as [[]|]; reflexivity. Qed.
Lemma bleb_sem (x y : fl) : Bleb x y = sem_op CLte (Bcompare x y).
Proof. unfold Bleb, SpecFloat.SFleb, Bcompare. destruct (SpecFloat.SFcompare (B2SF x) (B2SF y)) as [[]|]; reflexivity. Qed.
Lemma beqb_sem (x y : fl) : Beqb x y = sem_op CEq (Bcompare x y).
Proof. unfold Beqb, SpecFloat.SFeqb, Bcompare. destruct (SpecFloat.SFcompare (B2SF x) (B2SF y)) as [[]|]; reflexivity. Qed.

Lemma bcompare_some (x y : fl) : is_nan x = false -> is_nan y = false -> Bcompare x y <> None.
Proof.
  intros Hx Hy. unfold Bcompare.
  destruct x as [sx|sx| |sx mx ex Bx]; try discriminate Hx;
  destruct y as [sy|sy| |sy my ey By]; try discriminate Hy; cbn [B2SF SpecFloat.SFcompare]; discriminate.
Qed.

Lemma float_tests_ok (v : fl) (conv : lit -> fl) (l : lit) :
  is_nan v = false -> is_nan (conv l) = false ->
  tests_ok (fun l => Bcompare v (conv l))
           (fun l => Beqb v (conv l)) (fun l => Bltb v (conv l)) (fun l => Bleb v (conv l))
           (fun l => Bltb (conv l) v) (fun l => Bleb (conv l) v) l.
Proof.
  intros Hv Hl. unfold tests_ok. split; [apply bcompare_some; assumption|].
  rewrite beqb_sem, !bltb_sem, !bleb_sem, (Bcompare_swap _ _ v (conv l)).
  destruct (Bcompare v (conv l)) as [[]|]; repeat split; reflexivity.
Qed.
End FloatCmp.

(** ---------- one value cell against its column's predicate ---------- *)
Lemma int_tests_ok (conv : Z -> Z) (v y : Z) (K : lit -> option comparison) :
  conv y = y -> K (LInt y) = Some (v ?= y) ->
  tests_ok K (fun l => v =? conv (as_i64 l)) (fun l => v <? conv (as_i64 l)) (fun l => v <=? conv (as_i64 l))
             (fun l => v >? conv (as_i64 l)) (fun l => v >=? conv (as_i64 l)) (LInt y).
Proof.
  intros Hc HK. unfold tests_ok. rewrite HK. cbn [as_i64]. rewrite Hc.
  split; [discriminate|]. rewrite Z.eqb_compare. unfold Z.ltb, Z.leb, Z.gtb, Z.geb.
  destruct (v ?= y); repeat split; reflexivity.
Qed.

Definition col_lits_ok (ty : Z) (ls : list lit) : Prop :=
  forall l, In l ls -> lit_finite l = true /\
    (((ty =? ET_INT32) || (ty =? ET_INT64)) = true -> lit_in_int_type ty l = true).

Lemma ET_distinct : ET_FLOAT32 <> ET_FLOAT64 /\ ET_FLOAT32 <> ET_INT32 /\ ET_FLOAT32 <> ET_INT64
  /\ ET_FLOAT64 <> ET_INT32 /\ ET_FLOAT64 <> ET_INT64 /\ ET_INT32 <> ET_INT64.
Proof. repeat split; discriminate. Qed.

Lemma rm_cell_spec ty v lo up eq :
  cell_ok ty v = true -> filtered_type ty = true -> cell_is_nan v = false ->
  short lo -> short up -> short eq ->
  col_lits_ok ty (map fst lo ++ map fst up ++ eq) ->
  rm_cell ty (exp_sp lo up eq) v = negb (okL (cmp_cell ty v) lo && okU (cmp_cell ty v) up && okE (cmp_cell ty v) eq).
Proof.
  intros Hc Hf Hn Hl Hu He HL.
  destruct v as [z|x|x]; cbn [cell_ok cell_is_nan rm_cell] in *.
  - (* integer cell *)
    unfold filtered_type in Hf.
    destruct (ty =? ET_INT32) eqn:E32.
    + apply Z.eqb_eq in E32. subst ty.
      change (rm_int (wrap I32) (exp_sp lo up eq) z) with
        (rm_gen (fun l => z =? wrap I32 (as_i64 l)) (fun l => z <? wrap I32 (as_i64 l)) (fun l => z <=? wrap I32 (as_i64 l))
                (fun l => z >? wrap I32 (as_i64 l)) (fun l => z >=? wrap I32 (as_i64 l)) (exp_sp lo up eq)).
      apply rm_gen_spec; try assumption. intros l Hin. destruct (HL l Hin) as [_ Hr].
      specialize (Hr eq_refl). destruct l as [y|y]; [|discriminate Hr].
      apply int_tests_ok; [|reflexivity].
      cbn [lit_in_int_type] in Hr. change (ET_INT32 =? ET_INT32) with true in Hr. cbv iota in Hr.
      apply andb_true_iff in Hr. destruct Hr as [H1 H2]. apply Z.leb_le in H1, H2.
      apply wrap_small. unfold in_ity, ity_min, ity_max. cbn [ity_signed ity_bits]. lia.
    + destruct (ty =? ET_INT64) eqn:E64.
      * apply Z.eqb_eq in E64. subst ty.
        change (rm_int (fun x => x) (exp_sp lo up eq) z) with
          (rm_gen (fun l => z =? (fun x => x) (as_i64 l)) (fun l => z <? (fun x => x) (as_i64 l)) (fun l => z <=? (fun x => x) (as_i64 l))
                  (fun l => z >? (fun x => x) (as_i64 l)) (fun l => z >=? (fun x => x) (as_i64 l)) (exp_sp lo up eq)).
        apply rm_gen_spec; try assumption. intros l Hin. destruct (HL l Hin) as [_ Hr].
        specialize (Hr eq_refl). destruct l as [y|y]; [|discriminate Hr].
        apply (int_tests_ok (fun x => x)); reflexivity.
      * (* any other integer type is not filtered; float types do not hold integer cells *)
        exfalso. unfold int_type_range in Hc. rewrite E32, E64 in Hc.
        destruct (ty =? ET_FLOAT32) eqn:F32; [apply Z.eqb_eq in F32; subst ty; discriminate Hc|].
        destruct (ty =? ET_FLOAT64) eqn:F64; [apply Z.eqb_eq in F64; subst ty; discriminate Hc|].
        discriminate Hf.
  - apply Z.eqb_eq in Hc. subst ty. change (ET_FLOAT32 =? ET_FLOAT32) with true. cbv iota.
    change (rm_f32 (exp_sp lo up eq) x) with
      (rm_gen (fun l => Beqb x (f32_of_lit l)) (fun l => Bltb x (f32_of_lit l)) (fun l => Bleb x (f32_of_lit l))
              (fun l => Bltb (f32_of_lit l) x) (fun l => Bleb (f32_of_lit l) x) (exp_sp lo up eq)).
    apply rm_gen_spec; try assumption. intros l Hin. destruct (HL l Hin) as [Hfin _].
    apply (float_tests_ok 24 128 x f32_of_lit l Hn). apply f32_of_lit_not_nan. exact Hfin.
  - apply Z.eqb_eq in Hc. subst ty. change (ET_FLOAT64 =? ET_FLOAT64) with true. cbv iota.
    change (rm_f64 (exp_sp lo up eq) x) with
      (rm_gen (fun l => Beqb x (as_f64 l)) (fun l => Bltb x (as_f64 l)) (fun l => Bleb x (as_f64 l))
              (fun l => Bltb (as_f64 l) x) (fun l => Bleb (as_f64 l) x) (exp_sp lo up eq)).
    apply rm_gen_spec; try assumption. intros l Hin. destruct (HL l Hin) as [Hfin _].
    apply (float_tests_ok 53 1024 x as_f64 l Hn). apply as_f64_not_nan. exact Hfin.
Qed.

(** ---------- where the literals of a column come from ---------- *)
Ltac origin_tac k c Hx :=
  first [ contradiction
        | destruct (String.eqb k c) eqn:E; cbn [In] in Hx;
          first [ contradiction
                | destruct Hx as [<-|[]]; apply String.eqb_eq in E; split; [exact E | cbn; auto] ] ].

Lemma lows_origin c ps x : In x (lows c ps) -> exists p, In p ps /\ pred_col p = c /\ In (fst x) (pred_lits p).
Proof.
  unfold lows. intros H. apply in_flat_map in H. destruct H as (p & Hp & Hx). exists p. split; [exact Hp|].
  destruct p as [k o l|k lo hi]; cbn [lows_of pred_col pred_lits] in *; [destruct o|]; origin_tac k c Hx.
Qed.

Lemma ups_origin c ps x : In x (ups c ps) -> exists p, In p ps /\ pred_col p = c /\ In (fst x) (pred_lits p).
Proof.
  unfold ups. intros H. apply in_flat_map in H. destruct H as (p & Hp & Hx). exists p. split; [exact Hp|].
  destruct p as [k o l|k lo hi]; cbn [ups_of pred_col pred_lits] in *; [destruct o|]; origin_tac k c Hx.
Qed.

Lemma eqs_origin c ps x : In x (eqs c ps) -> exists p, In p ps /\ pred_col p = c /\ In x (pred_lits p).
Proof.
  unfold eqs. intros H. apply in_flat_map in H. destruct H as (p & Hp & Hx). exists p. split; [exact Hp|].
  destruct p as [k o l|k lo hi]; cbn [eqs_of pred_col pred_lits] in *; [destruct o|]; origin_tac k c Hx.
Qed.

Lemma all_lits_origin c ps l : In l (all_lits c ps) -> exists p, In p ps /\ pred_col p = c /\ In l (pred_lits p).
Proof.
  unfold all_lits. rewrite !in_app_iff, !in_map_iff.
  intros [(x & <- & Hx)|[(x & <- & Hx)|Hx]]; [eapply lows_origin | eapply ups_origin | eapply eqs_origin]; eassumption.
Qed.

(** ---------- schema lookups ---------- *)
Lemma nodup_names_spec l : nodup_names l = true -> NoDup l.
Proof.
  induction l as [|x l IH]; simpl; intros H; [constructor|].
  apply andb_true_iff in H. destruct H as [H1 H2]. constructor; [|apply IH; exact H2].
  intros Hin. apply negb_true_iff in H1. assert (existsb (String.eqb x) l = true); [|congruence].
  apply existsb_exists. exists x. split; [exact Hin | apply String.eqb_refl].
Qed.

Lemma cells_ok_length sc vals : cells_ok sc vals = true -> List.length sc = List.length vals.
Proof.
  revert vals. induction sc as [|[n ty] sc IH]; intros [|v vals]; simpl; intros H; try discriminate; [reflexivity|].
  apply andb_true_iff in H. f_equal. apply IH. apply H.
Qed.

Lemma lookup_in sc vals n ty v :
  NoDup (map fst sc) -> In ((n, ty), v) (combine sc vals) ->
  lookup_cell n sc vals = Some (ty, v) /\ nth_cell n sc vals = Some v /\ col_type n sc = Some ty.
Proof.
  revert vals. induction sc as [|[k t] sc IH]; intros vals Hnd Hin; [destruct Hin|].
  destruct vals as [|c vals]; [destruct Hin|]. simpl in Hnd. inversion Hnd as [|? ? Hk Hnd']; subst.
  cbn [lookup_cell nth_cell col_type combine] in *. destruct Hin as [E|Hin].
  - inversion E; subst. rewrite String.eqb_refl. repeat split; reflexivity.
  - destruct (String.eqb k n) eqn:E.
    + apply String.eqb_eq in E. subst k. exfalso. apply Hk.
      apply in_combine_l in Hin. apply in_map_iff. exists (n, ty). split; [reflexivity | exact Hin].
    + apply IH; assumption.
Qed.

Lemma cells_ok_in sc vals n ty v : cells_ok sc vals = true -> In ((n, ty), v) (combine sc vals) -> cell_ok ty v = true.
Proof.
  revert vals. induction sc as [|[k t] sc IH]; intros [|c vals] H Hin; try destruct Hin; simpl in H; try discriminate.
  - apply andb_true_iff in H. destruct H as [H1 H2]. inversion H0; subst. exact H1.
  - apply andb_true_iff in H. destruct H as [H1 H2]. eapply IH; eassumption.
Qed.

Lemma col_type_in n sc ty : col_type n sc = Some ty -> In n (map fst sc).
Proof.
  induction sc as [|[k t] sc IH]; simpl; [discriminate|]. destruct (String.eqb k n) eqn:E.
  - apply String.eqb_eq in E. intros _. left. exact E.
  - intros H. right. apply IH. exact H.
Qed.
