(** Proofs about Model/Sql.v (C19): on the guarded domain SelectRelation.Materialize returns exactly the
    relational filter.  Structure:
      1. the StaticPredicateGroup after the visitor's Merge calls, per column, as a fold over that column's
         lower bounds / upper bounds / equalities (three independent components);
      2. with at most one bound per direction the fold is the bound itself;
      3. the post-filter removes a row iff one of the column's comparisons fails (per Go column type);
      4. the Epoch push-down never cuts a row that satisfies the Epoch comparisons;
      5. IsFalse only fires when no row can satisfy the conjunction. *)
From Coq Require Import ZArith List Bool String Lia Sorted.
From Flocq Require Import IEEE754.BinarySingleNaN.
Require Import MS.Base.GoInt MS.Base.Res MS.Base.FGen MS.Base.F32 MS.Base.F64.
Require Import MS.Generated.Src_io MS.Generated.Src_sql MS.Model.Sql MS.Proofs.SqlNum_facts.
Import ListNotations.
Local Open Scope Z_scope.

(** ---------- small list / bool facts ---------- *)
Lemma forallb_andb {A} (f g : A -> bool) l :
  forallb (fun x => f x && g x) l = forallb f l && forallb g l.
Proof. induction l as [|x l IH]; simpl; [reflexivity|]. rewrite IH. destruct (f x), (g x), (forallb f l); reflexivity. Qed.

Lemma forallb_single {A} (f : A -> bool) (c : A) l :
  NoDup l -> In c l -> (forall n, n <> c -> f n = true) -> forallb f l = f c.
Proof.
  induction l as [|x l IH]; intros Hnd Hin Hoth; [destruct Hin|].
  inversion Hnd as [|? ? Hx Hnd']; subst. simpl. destruct Hin as [->|Hin].
  - replace (forallb f l) with true; [apply andb_true_r|].
    symmetry. apply forallb_forall. intros y Hy. apply Hoth. intros ->. contradiction.
  - rewrite (Hoth x) by (intros ->; contradiction). simpl. apply IH; assumption.
Qed.

Lemma forallb_ext' {A} (f g : A -> bool) l : (forall x, f x = g x) -> forallb f l = forallb g l.
Proof. intros H. induction l; simpl; [reflexivity|]. rewrite H, IHl. reflexivity. Qed.

Lemma filter_filter {A} (f g : A -> bool) l : filter f (filter g l) = filter (fun x => g x && f x) l.
Proof. induction l as [|x l IH]; simpl; [reflexivity|]. destruct (g x); simpl; [destruct (f x)|]; rewrite ?IH; reflexivity. Qed.

Lemma filter_ext_in' {A} (f g : A -> bool) l : (forall x, In x l -> f x = g x) -> filter f l = filter g l.
Proof.
  induction l as [|x l IH]; intros H; simpl; [reflexivity|].
  rewrite (H x (or_introl eq_refl)), IH; [reflexivity|]. intros y Hy. apply H. right. exact Hy.
Qed.

Lemma filter_none {A} (f : A -> bool) l : (forall x, In x l -> f x = false) -> filter f l = [].
Proof. induction l as [|x l IH]; intros H; simpl; [reflexivity|]. rewrite (H x (or_introl eq_refl)). apply IH. intros y Hy. apply H. right; exact Hy. Qed.

Lemma restrict_maps (f g : row -> bool) l :
  restrict (bm_or (map f l) (map g l)) l = filter (fun r => negb (f r || g r)) l.
Proof. induction l as [|r l IH]; simpl; [reflexivity|]. destruct (f r || g r); simpl; rewrite IH; reflexivity. Qed.

Lemma falses_map {A} (l : list A) : falses (List.length l) = map (fun _ => false) l.
Proof. induction l; simpl; [reflexivity|]. unfold falses in *. simpl. f_equal. assumption. Qed.

Lemma bm_or_maps {A} (f g : A -> bool) l : bm_or (map f l) (map g l) = map (fun x => f x || g x) l.
Proof. induction l; simpl; [reflexivity|]. f_equal. assumption. Qed.

(** ---------- the group as an association list ---------- *)
Definition gsp (c : string) (g : group) : sp := match g_get c g with Some s => s | None => sp_empty end.

Lemma g_get_set_same c s g : g_get c (g_set c s g) = Some s.
Proof.
  induction g as [|[k s0] g IH]; simpl.
  - rewrite String.eqb_refl. reflexivity.
  - destruct (String.eqb k c) eqn:E; simpl; rewrite E; [reflexivity | exact IH].
Qed.

Lemma g_get_set_other c c' s g : c <> c' -> g_get c' (g_set c s g) = g_get c' g.
Proof.
  intros Hne. induction g as [|[k s0] g IH]; simpl.
  - destruct (String.eqb c c') eqn:E; [apply String.eqb_eq in E; contradiction | reflexivity].
  - destruct (String.eqb k c) eqn:E; simpl.
    + apply String.eqb_eq in E. subst k. destruct (String.eqb c c') eqn:E'; [apply String.eqb_eq in E'; contradiction | reflexivity].
    + destruct (String.eqb k c'); [reflexivity | exact IH].
Qed.

Definition step (c : string) (s : sp) (p : pred) : sp :=
  if String.eqb (pred_col p) c then sp_merge (pending p) s else s.

Lemma gsp_merge_pred c g p : gsp c (merge_pred g p) = step c (gsp c g) p.
Proof.
  unfold merge_pred, step, gsp. destruct (String.eqb (pred_col p) c) eqn:E.
  - apply String.eqb_eq in E. subst c. rewrite g_get_set_same. reflexivity.
  - rewrite g_get_set_other; [reflexivity|]. intros H. rewrite H, String.eqb_refl in E. discriminate.
Qed.

Lemma gsp_fold c ps g0 : gsp c (fold_left merge_pred ps g0) = fold_left (step c) ps (gsp c g0).
Proof.
  revert g0. induction ps as [|p ps IH]; intros g0; simpl; [reflexivity|].
  rewrite IH, gsp_merge_pred. reflexivity.
Qed.

Lemma gsp_build c ps : gsp c (build_group ps) = fold_left (step c) ps sp_empty.
Proof. unfold build_group. rewrite gsp_fold. reflexivity. Qed.

(** keys of the built group are distinct, so every entry is the [gsp] of its key *)
Lemma g_set_keys c s g :
  map fst (g_set c s g) = if existsb (fun k => String.eqb k c) (map fst g) then map fst g else map fst g ++ [c].
Proof.
  induction g as [|[k s0] g IH]; simpl; [reflexivity|].
  destruct (String.eqb k c) eqn:E; simpl; [reflexivity|]. rewrite IH.
  destruct (existsb (fun k0 => String.eqb k0 c) (map fst g)); reflexivity.
Qed.

Lemma g_set_nodup c s g : NoDup (map fst g) -> NoDup (map fst (g_set c s g)).
Proof.
  intros H. rewrite g_set_keys. destruct (existsb (fun k => String.eqb k c) (map fst g)) eqn:E; [exact H|].
  apply NoDup_rev in H. rewrite <- (rev_involutive (map fst g ++ [c])). apply NoDup_rev.
  rewrite rev_app_distr. simpl. constructor; [|exact H].
  intros Hin. apply in_rev in Hin. assert (existsb (fun k => String.eqb k c) (map fst g) = true); [|congruence].
  apply existsb_exists. exists c. split; [exact Hin | apply String.eqb_refl].
Qed.

Lemma fold_merge_nodup ps g0 : NoDup (map fst g0) -> NoDup (map fst (fold_left merge_pred ps g0)).
Proof.
  revert g0. induction ps as [|p ps IH]; intros g0 H; simpl; [exact H|].
  apply IH. unfold merge_pred. apply g_set_nodup. exact H.
Qed.

Lemma g_get_in g k s : NoDup (map fst g) -> In (k, s) g -> g_get k g = Some s.
Proof.
  induction g as [|[k0 s0] g IH]; intros Hnd Hin; [destruct Hin|].
  simpl in Hnd. inversion Hnd as [|? ? Hk Hnd']; subst. simpl.
  destruct Hin as [E|Hin].
  - inversion E; subst. rewrite String.eqb_refl. reflexivity.
  - destruct (String.eqb k0 k) eqn:E.
    + apply String.eqb_eq in E. subst k0. exfalso. apply Hk. apply in_map_iff. exists (k, s). split; [reflexivity|exact Hin].
    + apply IH; assumption.
Qed.

Lemma existsb_is_false ps :
  existsb (fun ks => is_false (snd ks)) (build_group ps) = true ->
  exists c, is_false (gsp c (build_group ps)) = true.
Proof.
  unfold build_group. intros H. apply existsb_exists in H. destruct H as ([k s] & Hin & Hf). simpl in Hf.
  exists k. unfold gsp. rewrite (g_get_in _ _ _ (fold_merge_nodup ps [] (NoDup_nil _)) Hin). exact Hf.
Qed.

(** ---------- the three independent components of a StaticPredicate ---------- *)
Definition minp (s : sp) := (s_min s, h_min s, h_imin s).
Definition maxp (s : sp) := (s_max s, h_max s, h_imax s).
Definition eqp (s : sp) := (s_eq s, h_eq s).

Definition min_step (st : option lit * bool * bool) (lb : lit * bool) : option lit * bool * bool :=
  let '(m, _, i) := st in
  let '(l, incl) := lb in
  match m with
  | None => (Some l, true, i || incl)
  | Some m0 => if generic_cmp l m0 (if incl then CGte else CGt) then (Some m0, true, i || incl) else (Some l, true, i || incl)
  end.
Definition max_step (st : option lit * bool * bool) (lb : lit * bool) : option lit * bool * bool :=
  let '(m, _, i) := st in
  let '(l, incl) := lb in
  match m with
  | None => (Some l, true, i || incl)
  | Some m0 => if generic_cmp l m0 (if incl then CLte else CLt) then (Some m0, true, i || incl) else (Some l, true, i || incl)
  end.
Definition eq_step (st : option lit * bool) (l : lit) : option lit * bool := (Some l, true).

Ltac bsimp := repeat (rewrite ?orb_false_r, ?orb_true_r, ?orb_false_l, ?orb_true_l, ?orb_diag).

Local Opaque generic_cmp.

Lemma step_components c s p :
  minp (step c s p) = fold_left min_step (lows_of c p) (minp s)
  /\ maxp (step c s p) = fold_left max_step (ups_of c p) (maxp s)
  /\ eqp (step c s p) = fold_left eq_step (eqs_of c p) (eqp s).
Proof.
  unfold step, minp, maxp, eqp.
  destruct s as [smin smax seq hmin himin hmax himax heq].
  destruct p as [k o l | k lo hi]; cbn [pred_col lows_of ups_of eqs_of].
  - destruct o; destruct (String.eqb k c); cbn [fold_left]; try (repeat split; reflexivity);
      cbv [pending sp_add sp_empty s_min s_max s_eq h_min h_imin h_max h_imax h_eq set_min set_max is_lte is_gte orb
           sp_merge lit0 with_flags min_step max_step eq_step];
      try destruct smax as [m|]; try destruct smin as [m'|];
      repeat match goal with |- context [generic_cmp ?a ?b ?o] => destruct (generic_cmp a b o) end;
      repeat split; destruct hmin, himin, hmax, himax, heq; reflexivity.
  - destruct (String.eqb k c); cbn [fold_left]; try (repeat split; reflexivity).
    cbv [pending sp_add sp_empty s_min s_max s_eq h_min h_imin h_max h_imax h_eq set_min set_max is_lte is_gte orb
           sp_merge lit0 with_flags min_step max_step eq_step].
    destruct smax as [m|]; destruct smin as [m'|];
      repeat match goal with |- context [generic_cmp ?a ?b ?o] => destruct (generic_cmp a b o) end;
      repeat split; destruct hmin, himin, hmax, himax, heq; reflexivity.
Qed.

Lemma fold_components c ps s :
  minp (fold_left (step c) ps s) = fold_left min_step (lows c ps) (minp s)
  /\ maxp (fold_left (step c) ps s) = fold_left max_step (ups c ps) (maxp s)
  /\ eqp (fold_left (step c) ps s) = fold_left eq_step (eqs c ps) (eqp s).
Proof.
  revert s. induction ps as [|p ps IH]; intros s; [repeat split; reflexivity|].
  unfold lows, ups, eqs. cbn [fold_left flat_map]. rewrite !fold_left_app.
  destruct (step_components c s p) as (H1 & H2 & H3). rewrite <- H1, <- H2, <- H3. apply IH.
Qed.

(** the expected predicate of a column with at most one bound per direction *)
Definition hd_lit (l : list (lit * bool)) : option lit := match l with [] => None | (x, _) :: _ => Some x end.
Definition hd_incl (l : list (lit * bool)) : bool := match l with [] => false | (_, i) :: _ => i end.
Definition nonnil {A} (l : list A) : bool := match l with [] => false | _ => true end.
Definition exp_sp (lo up : list (lit * bool)) (eq : list lit) : sp :=
  mksp (hd_lit lo) (hd_lit up) (hd_error eq) (nonnil lo) (hd_incl lo) (nonnil up) (hd_incl up) (nonnil eq).

Definition short {A} (l : list A) : Prop := (List.length l <= 1)%nat.

Lemma gsp_unique c ps :
  short (lows c ps) -> short (ups c ps) -> short (eqs c ps) ->
  gsp c (build_group ps) = exp_sp (lows c ps) (ups c ps) (eqs c ps).
Proof.
  intros Hl Hu He. rewrite gsp_build.
  destruct (fold_components c ps sp_empty) as (H1 & H2 & H3).
  destruct (fold_left (step c) ps sp_empty) as [smin smax seq hmin himin hmax himax heq].
  unfold minp, maxp, eqp in *. cbn [s_min s_max s_eq h_min h_imin h_max h_imax h_eq sp_empty] in *.
  unfold exp_sp, short in *.
  destruct (lows c ps) as [|[l1 i1] [|? ?]]; [| |simpl in Hl; lia];
  destruct (ups c ps) as [|[l2 i2] [|? ?]]; [| |simpl in Hu; lia | | |simpl in Hu; lia];
  destruct (eqs c ps) as [|l3 [|? ?]]; try (simpl in He; lia);
  cbn in H1, H2, H3; inversion H1; inversion H2; inversion H3; subst; reflexivity.
Qed.

(** ---------- the relational side, per column ---------- *)
Definition okL (K : lit -> option comparison) (lo : list (lit * bool)) : bool :=
  forallb (fun lb : lit * bool => sem_op (if snd lb then CGte else CGt) (K (fst lb))) lo.
Definition okU (K : lit -> option comparison) (up : list (lit * bool)) : bool :=
  forallb (fun lb : lit * bool => sem_op (if snd lb then CLte else CLt) (K (fst lb))) up.
Definition okE (K : lit -> option comparison) (eq : list lit) : bool := forallb (fun l => sem_op CEq (K l)) eq.
Definition okc (K : lit -> option comparison) (c : string) (ps : list pred) : bool :=
  okL K (lows c ps) && okU K (ups c ps) && okE K (eqs c ps).
Definition contrib (K : lit -> option comparison) (c : string) (p : pred) : bool :=
  okL K (lows_of c p) && okU K (ups_of c p) && okE K (eqs_of c p).

Lemma okc_cons K c p ps : okc K c (p :: ps) = contrib K c p && okc K c ps.
Proof.
  unfold okc, contrib, okL, okU, okE, lows, ups, eqs. cbn [flat_map]. rewrite !forallb_app.
  repeat match goal with |- context [forallb ?f ?l] => generalize (forallb f l); intro end.
  repeat match goal with b : bool |- _ => destruct b end; reflexivity.
Qed.

Lemma contrib_other K c p : pred_col p <> c -> contrib K c p = true.
Proof.
  intros H. assert (E : String.eqb (pred_col p) c = false) by (apply String.eqb_neq; exact H).
  unfold contrib. destruct p as [k o l|k lo hi]; cbn [pred_col] in E; cbn [lows_of ups_of eqs_of];
    [destruct o|]; rewrite ?E; reflexivity.
Qed.

Lemma contrib_same sc r p : pred_is_neq p = false ->
  contrib (cmp_col sc r (pred_col p)) (pred_col p) p = sem_pred sc r p.
Proof.
  intros H. unfold contrib. destruct p as [k o l|k lo hi]; cbn [pred_col lows_of ups_of eqs_of sem_pred].
  - destruct o; try discriminate H; rewrite String.eqb_refl; cbn [okL okU okE forallb fst snd];
      rewrite ?andb_true_r; reflexivity.
  - rewrite String.eqb_refl. cbn [okL okU okE forallb fst snd]. rewrite !andb_true_r. reflexivity.
Qed.

Definition cols_of (sc : schema) : list string := epoch_name :: map fst sc.

Lemma sem_by_columns sc r ps :
  NoDup (cols_of sc) ->
  (forall p, In p ps -> In (pred_col p) (cols_of sc) /\ pred_is_neq p = false) ->
  forallb (sem_pred sc r) ps = forallb (fun c => okc (cmp_col sc r c) c ps) (cols_of sc).
Proof.
  intros Hnd. induction ps as [|p ps IH]; intros Hp.
  - cbn [forallb]. symmetry. apply forallb_forall. intros c _. reflexivity.
  - cbn [forallb].
    rewrite (forallb_ext' _ _ _ (fun c => okc_cons (cmp_col sc r c) c p ps)).
    rewrite forallb_andb. f_equal.
    + destruct (Hp p (or_introl eq_refl)) as [Hin Hneq].
      rewrite (forallb_single (fun c => contrib (cmp_col sc r c) c p) (pred_col p) _ Hnd Hin).
      * symmetry. apply contrib_same. exact Hneq.
      * intros n Hn. apply contrib_other. congruence.
    + apply IH. intros q Hq. apply Hp. right. exact Hq.
Qed.

(** ---------- the post-filter of one column, generically in the Go comparison operators ---------- *)
Definition rm_gen (eqb lt le gt ge : lit -> bool) (s : sp) : bool :=
  (h_eq s && negb (eqb (lit0 (s_eq s))))
  || (h_min s && (if h_imin s then lt (lit0 (s_min s)) else le (lit0 (s_min s))))
  || (h_max s && (if h_imax s then gt (lit0 (s_max s)) else ge (lit0 (s_max s)))).

Definition tests_ok (K : lit -> option comparison) (eqb lt le gt ge : lit -> bool) (l : lit) : Prop :=
  K l <> None /\ eqb l = sem_op CEq (K l) /\ lt l = sem_op CLt (K l) /\ le l = sem_op CLte (K l)
  /\ gt l = sem_op CGt (K l) /\ ge l = sem_op CGte (K l).

Lemma rm_gen_spec K eqb lt le gt ge lo up eq :
  short lo -> short up -> short eq ->
  (forall l, In l (map fst lo ++ map fst up ++ eq) -> tests_ok K eqb lt le gt ge l) ->
  rm_gen eqb lt le gt ge (exp_sp lo up eq) = negb (okL K lo && okU K up && okE K eq).
Proof.
  unfold short, rm_gen, exp_sp, okL, okU, okE.
  intros Hl Hu He HT.
  destruct lo as [|[l1 i1] [|? ?]]; [| |simpl in Hl; lia];
  destruct up as [|[l2 i2] [|? ?]]; [| |simpl in Hu; lia | | |simpl in Hu; lia];
  destruct eq as [|l3 [|? ?]]; try (simpl in He; lia);
  cbn [s_min s_max s_eq h_min h_imin h_max h_imax h_eq hd_lit hd_incl nonnil hd_error lit0 forallb fst snd andb orb negb];
  repeat match goal with
  | |- context [K ?l] =>
      let H := fresh in
      assert (H : tests_ok K eqb lt le gt ge l) by (apply HT; simpl; auto 8);
      destruct H as (Hn & E1 & E2 & E3 & E4 & E5); rewrite ?E1, ?E2, ?E3, ?E4, ?E5; clear E1 E2 E3 E4 E5; destruct (K l) as [[]|]; [| | |congruence]; clear Hn
  end;
  try destruct i1; try destruct i2; reflexivity.
Qed.

(** ---------- float comparisons ---------- *)
Section FloatCmp.
Variable prec emax : Z.
Notation fl := (binary_float prec emax).

Lemma bltb_sem (x y : fl) : Bltb x y = sem_op CLt (Bcompare x y).
Proof. unfold Bltb, SpecFloat.SFltb, Bcompare. destruct (SpecFloat.SFcompare (B2SF x) (B2SF y)) as [[]|]; reflexivity. Qed.
Lemma bleb_sem (x y : fl) : Bleb x y = sem_op CLte (Bcompare x y).
Proof. unfold Bleb, SpecFloat.SFleb, Bcompare. destruct (SpecFloat.SFcompare (B2SF x) (B2SF y)) as [[]|]; reflexivity. Qed.
Lemma beqb_sem (x y : fl) : Beqb x y = sem_op CEq (Bcompare x y).
Proof. unfold Beqb, SpecFloat.SFeqb, Bcompare. destruct (SpecFloat.SFcompare (B2SF x) (B2SF y)) as [[]|]; reflexivity. Qed.

Lemma bcompare_some (x y : fl) : is_nan x = false -> is_nan y = false -> Bcompare x y <> None.
Proof.
  intros Hx Hy. unfold Bcompare.
  destruct x as [sx|sx| |sx mx ex Bx]; try discriminate Hx;
  destruct y as [sy|sy| |sy my ey By]; try discriminate Hy; cbn [B2SF SpecFloat.SFcompare]; discriminate.
Qed.

Lemma float_tests_ok (v : fl) (conv : lit -> fl) (l : lit) :
  is_nan v = false -> is_nan (conv l) = false ->
  tests_ok (fun l => Bcompare v (conv l))
           (fun l => Beqb v (conv l)) (fun l => Bltb v (conv l)) (fun l => Bleb v (conv l))
           (fun l => Bltb (conv l) v) (fun l => Bleb (conv l) v) l.
Proof.
  intros Hv Hl. unfold tests_ok. split; [apply bcompare_some; assumption|].
  rewrite beqb_sem, !bltb_sem, !bleb_sem, (Bcompare_swap _ _ v (conv l)).
  destruct (Bcompare v (conv l)) as [[]|]; repeat split; reflexivity.
Qed.
End FloatCmp.

(** ---------- one value cell against its column's predicate ---------- *)
Lemma int_tests_ok (conv : Z -> Z) (v y : Z) (K : lit -> option comparison) :
  conv y = y -> K (LInt y) = Some (v ?= y) ->
  tests_ok K (fun l => v =? conv (as_i64 l)) (fun l => v <? conv (as_i64 l)) (fun l => v <=? conv (as_i64 l))
             (fun l => v >? conv (as_i64 l)) (fun l => v >=? conv (as_i64 l)) (LInt y).
Proof.
  intros Hc HK. unfold tests_ok. rewrite HK. cbn [as_i64]. rewrite Hc.
  split; [discriminate|]. rewrite Z.eqb_compare. unfold Z.ltb, Z.leb, Z.gtb, Z.geb.
  destruct (v ?= y); repeat split; reflexivity.
Qed.

Definition col_lits_ok (ty : Z) (ls : list lit) : Prop :=
  forall l, In l ls -> lit_finite l = true /\
    (((ty =? ET_INT32) || (ty =? ET_INT64)) = true -> lit_in_int_type ty l = true).

Lemma ET_distinct : ET_FLOAT32 <> ET_FLOAT64 /\ ET_FLOAT32 <> ET_INT32 /\ ET_FLOAT32 <> ET_INT64
  /\ ET_FLOAT64 <> ET_INT32 /\ ET_FLOAT64 <> ET_INT64 /\ ET_INT32 <> ET_INT64.
Proof. repeat split; discriminate. Qed.

Lemma rm_cell_spec ty v lo up eq :
  cell_ok ty v = true -> filtered_type ty = true -> cell_is_nan v = false ->
  short lo -> short up -> short eq ->
  col_lits_ok ty (map fst lo ++ map fst up ++ eq) ->
  rm_cell ty (exp_sp lo up eq) v = negb (okL (cmp_cell ty v) lo && okU (cmp_cell ty v) up && okE (cmp_cell ty v) eq).
Proof.
  intros Hc Hf Hn Hl Hu He HL.
  destruct v as [z|x|x]; cbn [cell_ok cell_is_nan rm_cell] in *.
  - (* integer cell *)
    unfold filtered_type in Hf.
    destruct (ty =? ET_INT32) eqn:E32.
    + apply Z.eqb_eq in E32. subst ty.
      change (rm_int (wrap I32) (exp_sp lo up eq) z) with
        (rm_gen (fun l => z =? wrap I32 (as_i64 l)) (fun l => z <? wrap I32 (as_i64 l)) (fun l => z <=? wrap I32 (as_i64 l))
                (fun l => z >? wrap I32 (as_i64 l)) (fun l => z >=? wrap I32 (as_i64 l)) (exp_sp lo up eq)).
      apply rm_gen_spec; try assumption. intros l Hin. destruct (HL l Hin) as [_ Hr].
      specialize (Hr eq_refl). destruct l as [y|y]; [|discriminate Hr].
      apply int_tests_ok; [|reflexivity].
      cbn [lit_in_int_type] in Hr. change (ET_INT32 =? ET_INT32) with true in Hr. cbv iota in Hr.
      apply andb_true_iff in Hr. destruct Hr as [H1 H2]. apply Z.leb_le in H1, H2.
      apply wrap_small. unfold in_ity, ity_min, ity_max. cbn [ity_signed ity_bits]. lia.
    + destruct (ty =? ET_INT64) eqn:E64.
      * apply Z.eqb_eq in E64. subst ty.
        change (rm_int (fun x => x) (exp_sp lo up eq) z) with
          (rm_gen (fun l => z =? (fun x => x) (as_i64 l)) (fun l => z <? (fun x => x) (as_i64 l)) (fun l => z <=? (fun x => x) (as_i64 l))
                  (fun l => z >? (fun x => x) (as_i64 l)) (fun l => z >=? (fun x => x) (as_i64 l)) (exp_sp lo up eq)).
        apply rm_gen_spec; try assumption. intros l Hin. destruct (HL l Hin) as [_ Hr].
        specialize (Hr eq_refl). destruct l as [y|y]; [|discriminate Hr].
        apply (int_tests_ok (fun x => x)); reflexivity.
      * (* any other integer type is not filtered; float types do not hold integer cells *)
        exfalso. unfold int_type_range in Hc. rewrite E32, E64 in Hc.
        destruct (ty =? ET_FLOAT32) eqn:F32; [apply Z.eqb_eq in F32; subst ty; discriminate Hc|].
        destruct (ty =? ET_FLOAT64) eqn:F64; [apply Z.eqb_eq in F64; subst ty; discriminate Hc|].
        discriminate Hf.
  - apply Z.eqb_eq in Hc. subst ty. change (ET_FLOAT32 =? ET_FLOAT32) with true. cbv iota.
    change (rm_f32 (exp_sp lo up eq) x) with
      (rm_gen (fun l => Beqb x (f32_of_lit l)) (fun l => Bltb x (f32_of_lit l)) (fun l => Bleb x (f32_of_lit l))
              (fun l => Bltb (f32_of_lit l) x) (fun l => Bleb (f32_of_lit l) x) (exp_sp lo up eq)).
    apply rm_gen_spec; try assumption. intros l Hin. destruct (HL l Hin) as [Hfin _].
    apply (float_tests_ok 24 128 x f32_of_lit l Hn). apply f32_of_lit_not_nan. exact Hfin.
  - apply Z.eqb_eq in Hc. subst ty. change (ET_FLOAT64 =? ET_FLOAT64) with true. cbv iota.
    change (rm_f64 (exp_sp lo up eq) x) with
      (rm_gen (fun l => Beqb x (as_f64 l)) (fun l => Bltb x (as_f64 l)) (fun l => Bleb x (as_f64 l))
              (fun l => Bltb (as_f64 l) x) (fun l => Bleb (as_f64 l) x) (exp_sp lo up eq)).
    apply rm_gen_spec; try assumption. intros l Hin. destruct (HL l Hin) as [Hfin _].
    apply (float_tests_ok 53 1024 x as_f64 l Hn). apply as_f64_not_nan. exact Hfin.
Qed.

(** ---------- where the literals of a column come from ---------- *)
Ltac origin_tac k c Hx :=
  first [ contradiction
        | destruct (String.eqb k c) eqn:E; cbn [In] in Hx;
          first [ contradiction
                | destruct Hx as [<-|[]]; apply String.eqb_eq in E; split; [exact E | cbn; auto] ] ].

Lemma lows_origin c ps x : In x (lows c ps) -> exists p, In p ps /\ pred_col p = c /\ In (fst x) (pred_lits p).
Proof.
  unfold lows. intros H. apply in_flat_map in H. destruct H as (p & Hp & Hx). exists p. split; [exact Hp|].
  destruct p as [k o l|k lo hi]; cbn [lows_of pred_col pred_lits] in *; [destruct o|]; origin_tac k c Hx.
Qed.

Lemma ups_origin c ps x : In x (ups c ps) -> exists p, In p ps /\ pred_col p = c /\ In (fst x) (pred_lits p).
Proof.
  unfold ups. intros H. apply in_flat_map in H. destruct H as (p & Hp & Hx). exists p. split; [exact Hp|].
  destruct p as [k o l|k lo hi]; cbn [ups_of pred_col pred_lits] in *; [destruct o|]; origin_tac k c Hx.
Qed.

Lemma eqs_origin c ps x : In x (eqs c ps) -> exists p, In p ps /\ pred_col p = c /\ In x (pred_lits p).
Proof.
  unfold eqs. intros H. apply in_flat_map in H. destruct H as (p & Hp & Hx). exists p. split; [exact Hp|].
  destruct p as [k o l|k lo hi]; cbn [eqs_of pred_col pred_lits] in *; [destruct o|]; origin_tac k c Hx.
Qed.

Lemma all_lits_origin c ps l : In l (all_lits c ps) -> exists p, In p ps /\ pred_col p = c /\ In l (pred_lits p).
Proof.
  unfold all_lits. rewrite !in_app_iff, !in_map_iff.
  intros [(x & <- & Hx)|[(x & <- & Hx)|Hx]]; [eapply lows_origin | eapply ups_origin | eapply eqs_origin]; eassumption.
Qed.

(** ---------- schema lookups ---------- *)
Lemma nodup_names_spec l : nodup_names l = true -> NoDup l.
Proof.
  induction l as [|x l IH]; simpl; intros H; [constructor|].
  apply andb_true_iff in H. destruct H as [H1 H2]. constructor; [|apply IH; exact H2].
  intros Hin. apply negb_true_iff in H1. assert (existsb (String.eqb x) l = true); [|congruence].
  apply existsb_exists. exists x. split; [exact Hin | apply String.eqb_refl].
Qed.

Lemma cells_ok_length sc vals : cells_ok sc vals = true -> List.length sc = List.length vals.
Proof.
  revert vals. induction sc as [|[n ty] sc IH]; intros [|v vals]; simpl; intros H; try discriminate; [reflexivity|].
  apply andb_true_iff in H. f_equal. apply IH. apply H.
Qed.

Lemma lookup_in sc vals n ty v :
  NoDup (map fst sc) -> In ((n, ty), v) (combine sc vals) ->
  lookup_cell n sc vals = Some (ty, v) /\ nth_cell n sc vals = Some v /\ col_type n sc = Some ty.
Proof.
  revert vals. induction sc as [|[k t] sc IH]; intros vals Hnd Hin; [destruct Hin|].
  destruct vals as [|c vals]; [destruct Hin|]. simpl in Hnd. inversion Hnd as [|? ? Hk Hnd']; subst.
  cbn [lookup_cell nth_cell col_type combine] in *. destruct Hin as [E|Hin].
  - inversion E; subst. rewrite String.eqb_refl. repeat split; reflexivity.
  - destruct (String.eqb k n) eqn:E.
    + apply String.eqb_eq in E. subst k. exfalso. apply Hk.
      apply in_combine_l in Hin. apply in_map_iff. exists (n, ty). split; [reflexivity | exact Hin].
    + apply IH; assumption.
Qed.

Lemma cells_ok_in sc vals n ty v : cells_ok sc vals = true -> In ((n, ty), v) (combine sc vals) -> cell_ok ty v = true.
Proof.
  revert vals. induction sc as [|[k t] sc IH]; intros [|c vals] H Hin; try destruct Hin; simpl in H; try discriminate.
  - apply andb_true_iff in H. destruct H as [H1 H2]. inversion H0; subst. exact H1.
  - apply andb_true_iff in H. destruct H as [H1 H2]. eapply IH; eassumption.
Qed.

Lemma col_type_in n sc ty : col_type n sc = Some ty -> In n (map fst sc).
Proof.
  induction sc as [|[k t] sc IH]; simpl; [discriminate|]. destruct (String.eqb k n) eqn:E.
  - apply String.eqb_eq in E. intros _. left. exact E.
  - intros H. right. apply IH. exact H.
Qed.

(** ---------- what the boolean guard gives ---------- *)
Record Dom (tfs : Z) (sc : schema) (rows : list row) (ps : list pred) : Prop := {
  D_tf : 0 < tfs;
  D_nd : NoDup (cols_of sc);
  D_rows : forall r, In r rows -> 33 <= r_epoch r <= max_epoch_sec /\ r_epoch r mod tfs = 0 /\ cells_ok sc (r_vals r) = true;
  D_preds : forall p, In p ps -> In (pred_col p) (cols_of sc) /\ pred_is_neq p = false;
  D_short : forall c, short (lows c ps) /\ short (ups c ps) /\ short (eqs c ps);
  D_val : forall p ty, In p ps -> col_type (pred_col p) sc = Some ty ->
          filtered_type ty = true
          /\ (forall l, In l (pred_lits p) -> lit_finite l = true /\
                (((ty =? ET_INT32) || (ty =? ET_INT64)) = true -> lit_in_int_type ty l = true))
          /\ (forall r v, In r rows -> nth_cell (pred_col p) sc (r_vals r) = Some v -> cell_is_nan v = false);
  D_ep : forall p l, In p ps -> pred_col p = epoch_name -> In l (pred_lits p) -> epoch_lit_ok l = true;
  D_sec : epoch_seconds_bad ps = false;
  D_bar : epoch_incl_upper_on_bar rows ps = false;
  D_f32 : f32_bounds_ordered sc ps = true
}.

Lemma existsb_false_in {A} (f : A -> bool) l x : existsb f l = false -> In x l -> f x = false.
Proof.
  intros H Hin. destruct (f x) eqn:E; [|reflexivity].
  assert (existsb f l = true) by (apply existsb_exists; exists x; auto). congruence.
Qed.

Lemma short_of_len {A} (l : list A) : (1 <? Z.of_nat (List.length l)) = false -> short l.
Proof. intros H. apply Z.ltb_ge in H. unfold short. lia. Qed.

Lemma lists_empty_or_pred c ps :
  (lows c ps = [] /\ ups c ps = [] /\ eqs c ps = []) \/ exists p, In p ps /\ pred_col p = c.
Proof.
  destruct (lows c ps) as [|x ?] eqn:E1.
  - destruct (ups c ps) as [|y ?] eqn:E2.
    + destruct (eqs c ps) as [|z ?] eqn:E3; [left; auto|].
      right. destruct (eqs_origin c ps z) as (p & ? & ? & _); [rewrite E3; left; reflexivity|]. exists p; auto.
    + right. destruct (ups_origin c ps y) as (p & ? & ? & _); [rewrite E2; left; reflexivity|]. exists p; auto.
  - right. destruct (lows_origin c ps x) as (p & ? & ? & _); [rewrite E1; left; reflexivity|]. exists p; auto.
Qed.

Lemma guard_dom tfs sc rows ps : guard tfs sc rows ps = true -> Dom tfs sc rows ps.
Proof.
  unfold guard. rewrite !andb_true_iff, !negb_true_iff.
  intros ((((((((Hst & Hq) & Hsec) & Hbar) & Hrep) & Hunf) & Hint) & Hnan) & Hf32).
  unfold wf_store in Hst. rewrite !andb_true_iff in Hst. destruct Hst as (((Htf & Hnd) & Hnames) & Hrows).
  apply Z.ltb_lt in Htf. apply nodup_names_spec in Hnd.
  rewrite forallb_forall in Hnames, Hrows. unfold wf_query in Hq. rewrite forallb_forall in Hq.
  assert (Hcols : NoDup (cols_of sc)).
  { unfold cols_of. constructor; [|exact Hnd]. intros Hin. apply in_map_iff in Hin. destruct Hin as ([k t] & Hk & Hin).
    simpl in Hk. subst k. specialize (Hnames _ Hin). simpl in Hnames. rewrite ?String.eqb_refl in Hnames. discriminate Hnames. }
  assert (Hpc : forall p, In p ps -> In (pred_col p) (cols_of sc) /\ pred_is_neq p = false).
  { intros p Hp. specialize (Hq p Hp). rewrite !andb_true_iff, negb_true_iff in Hq. destruct Hq as [Hn Hq]. split; [|exact Hn].
    unfold cols_of. destruct (String.eqb (pred_col p) epoch_name) eqn:E.
    - left. symmetry. apply String.eqb_eq. exact E.
    - right. destruct (col_type (pred_col p) sc) eqn:Et; [|discriminate]. eapply col_type_in. eassumption. }
  constructor; try assumption.
  - intros r Hr. specialize (Hrows r Hr). rewrite !andb_true_iff in Hrows.
    destruct Hrows as (((H1 & H2) & H3) & H4). apply Z.leb_le in H1, H2. apply Z.eqb_eq in H3. auto.
  - intros c. destruct (lists_empty_or_pred c ps) as [(E1 & E2 & E3)|(p & Hp & <-)].
    + rewrite E1, E2, E3. unfold short. simpl. lia.
    + unfold repeated_bound in Hrep. pose proof (existsb_false_in _ _ p Hrep Hp) as E. cbv zeta in E.
      apply orb_false_iff in E. destruct E as [E E3]. apply orb_false_iff in E. destruct E as [E1 E2].
      repeat split; apply short_of_len; assumption.
  - intros p ty Hp Hty. repeat split.
    + unfold unfiltered_type in Hunf. pose proof (existsb_false_in _ _ p Hunf Hp) as E. cbv beta in E.
      rewrite Hty in E. apply negb_false_iff in E. exact E.
    + specialize (Hq p Hp). rewrite !andb_true_iff in Hq. destruct Hq as [_ Hq].
      destruct (String.eqb (pred_col p) epoch_name) eqn:E.
      * exfalso. apply String.eqb_eq in E. apply col_type_in in Hty. rewrite E in Hty.
        apply in_map_iff in Hty. destruct Hty as ([k t] & Hk & Hin). simpl in Hk. subst k.
        specialize (Hnames _ Hin). simpl in Hnames. rewrite ?String.eqb_refl in Hnames. discriminate Hnames.
      * rewrite Hty in Hq. rewrite forallb_forall in Hq. apply Hq. exact H.
    + intros Hi. unfold bad_int_literal in Hint. pose proof (existsb_false_in _ _ p Hint Hp) as E. cbv beta in E.
      rewrite Hty, Hi in E. simpl in E. apply negb_false_iff in E. rewrite forallb_forall in E. apply E. exact H.
    + intros r v Hr Hv. unfold nan_value in Hnan. pose proof (existsb_false_in _ _ p Hnan Hp) as E. cbv beta in E.
      pose proof (existsb_false_in _ _ r E Hr) as E'. cbv beta in E'. rewrite Hv in E'. exact E'.
  - intros p l Hp Hc Hl. specialize (Hq p Hp). rewrite !andb_true_iff in Hq. destruct Hq as [_ Hq].
    rewrite Hc, String.eqb_refl in Hq. rewrite forallb_forall in Hq. apply Hq. exact Hl.
Qed.

(** ---------- the value columns of one row ---------- *)
Lemma rm_cell_empty ty v : rm_cell ty sp_empty v = false.
Proof. destruct v; cbn [rm_cell]; repeat match goal with |- context [if ?b then _ else _] => destruct b end; reflexivity. Qed.

Lemma okc_ext K K' c ps : (forall l, K l = K' l) -> okc K c ps = okc K' c ps.
Proof.
  intros H. unfold okc, okL, okU, okE. f_equal; [f_equal|]; apply forallb_ext'; intros x; rewrite H; reflexivity.
Qed.

Lemma rm_row_suffix g sc vals (F : string -> bool) :
  (forall n ty v, In ((n, ty), v) (combine sc vals) -> rm_cell ty (gsp n g) v = negb (F n)) ->
  List.length sc = List.length vals ->
  negb (rm_row g sc vals) = forallb F (map fst sc).
Proof.
  revert vals. induction sc as [|[n ty] sc IH]; intros [|v vals] H Hlen; try discriminate Hlen; [reflexivity|].
  cbn [rm_row map fst forallb]. rewrite negb_orb. f_equal.
  - replace (match g_get n g with Some s => rm_cell ty s v | None => false end) with (rm_cell ty (gsp n g) v).
    + rewrite (H n ty v (or_introl eq_refl)). apply negb_involutive.
    + unfold gsp. destruct (g_get n g); [reflexivity | apply rm_cell_empty].
  - apply IH; [|simpl in Hlen; lia]. intros n' ty' v' Hin. apply H. right. exact Hin.
Qed.

Lemma epoch_not_value sc : NoDup (cols_of sc) -> forall n, In n (map fst sc) -> n <> epoch_name.
Proof. intros H n Hin ->. unfold cols_of in H. inversion H. contradiction. Qed.

Lemma value_part tfs sc rows ps r : Dom tfs sc rows ps -> In r rows ->
  negb (rm_row (build_group ps) sc (r_vals r)) = forallb (fun c => okc (cmp_col sc r c) c ps) (map fst sc).
Proof.
  intros D Hr. destruct (D_rows _ _ _ _ D r Hr) as (_ & _ & Hcells).
  assert (Hnd : NoDup (map fst sc)) by (pose proof (D_nd _ _ _ _ D) as H; unfold cols_of in H; inversion H; assumption).
  apply rm_row_suffix; [|apply cells_ok_length; exact Hcells].
  intros n ty v Hin.
  destruct (lookup_in _ _ _ _ _ Hnd Hin) as (Hlk & Hnth & Hty).
  assert (Hne : n <> epoch_name).
  { apply (epoch_not_value sc (D_nd _ _ _ _ D)). apply in_combine_l in Hin. apply in_map_iff. exists (n, ty). auto. }
  rewrite (okc_ext (cmp_col sc r n) (cmp_cell ty v)).
  2:{ intros l. unfold cmp_col. apply String.eqb_neq in Hne. rewrite Hne, Hlk. reflexivity. }
  destruct (D_short _ _ _ _ D n) as (S1 & S2 & S3).
  rewrite (gsp_unique n ps S1 S2 S3).
  destruct (lists_empty_or_pred n ps) as [(E1 & E2 & E3)|(p & Hp & Hpc)].
  - rewrite E1, E2, E3. unfold okc. rewrite E1, E2, E3. apply rm_cell_empty.
  - subst n. destruct (D_val _ _ _ _ D p ty Hp Hty) as (Hft & _ & Hnan).
    unfold okc. apply rm_cell_spec; try assumption.
    + eapply cells_ok_in; eassumption.
    + eapply Hnan; eassumption.
    + intros l Hl. change (In l (all_lits (pred_col p) ps)) in Hl.
      destruct (all_lits_origin _ _ _ Hl) as (q & Hq & Hqc & Hlq).
      rewrite <- Hqc in Hty. destruct (D_val _ _ _ _ D q ty Hq Hty) as (_ & HL & _). apply HL. exact Hlq.
Qed.

(** ---------- the Epoch column ---------- *)
Notation conv := convertUnitToNanosec.

Lemma conv_row e : 33 <= e <= max_epoch_sec -> conv e = e * nanosec.
Proof.
  intros H. unfold convertUnitToNanosec, isNanosec, max_epoch_sec, nanosec in *.
  destruct (Z.gtb_spec e 32503680000); [lia|].
  apply wrap_small. unfold in_ity, ity_min, ity_max. cbn [ity_signed ity_bits]. lia.
Qed.

Definition ep_good (l : lit) : Prop :=
  epoch_lit_ok l = true /\ (isNanosec (as_i64 l) = true \/ 33 <= as_i64 l).

Lemma conv_lit l : ep_good l ->
  exists n, lit_epoch_ns l = Some n /\ conv (as_i64 l) = n /\ conv n = n /\ - 2 ^ 63 <= n < 2 ^ 63
            /\ (isNanosec (as_i64 l) = true -> n = as_i64 l).
Proof.
  intros [Hok Hg]. destruct l as [z|x]; [|discriminate Hok]. cbn [epoch_lit_ok as_i64 lit_epoch_ns] in *.
  apply andb_true_iff in Hok. destruct Hok as [H0 H1]. apply Z.leb_le in H0.
  unfold convertUnitToNanosec. destruct (isNanosec z) eqn:E.
  - exists z. apply Z.ltb_lt in H1. rewrite E. repeat split; try reflexivity; try lia.
  - apply Z.leb_le in H1. destruct Hg as [Hg|Hg]; [discriminate|].
    exists (z * nanosec). unfold isNanosec, max_epoch_sec, nanosec in *. rewrite Z.gtb_ltb in E. apply Z.ltb_ge in E.
    assert (W : wrap I64 (z * 1000000000) = z * 1000000000).
    { apply wrap_small. unfold in_ity, ity_min, ity_max. cbn [ity_signed ity_bits]. lia. }
    rewrite W. repeat split; try reflexivity; try lia; try (intros; discriminate).
    destruct (Z.gtb_spec (z * 1000000000) 32503680000); [reflexivity | lia].
Qed.

Lemma ep_loop_idem test l es : conv (conv l) = conv l ->
  ep_loop test l es = map (fun e => test (conv e) (conv l)) es.
Proof.
  revert l. induction es as [|e es IH]; intros l H; [reflexivity|].
  cbn [ep_loop map]. f_equal. rewrite IH by (rewrite H; exact H). rewrite H. reflexivity.
Qed.

Lemma ep_bitmap_rows s es :
  (h_eq s = true -> conv (conv (as_i64 (lit0 (s_eq s)))) = conv (as_i64 (lit0 (s_eq s)))) ->
  (h_min s = true -> conv (conv (as_i64 (lit0 (s_min s)))) = conv (as_i64 (lit0 (s_min s)))) ->
  (h_max s = true -> conv (conv (as_i64 (lit0 (s_max s)))) = conv (as_i64 (lit0 (s_max s)))) ->
  ep_bitmap s es =
  map (fun e => rm_gen (fun l => conv e =? conv (as_i64 l)) (fun l => conv e <? conv (as_i64 l))
                       (fun l => conv e <=? conv (as_i64 l)) (fun l => conv e >? conv (as_i64 l))
                       (fun l => conv e >=? conv (as_i64 l)) s) es.
Proof.
  intros He Hmi Hma. unfold ep_bitmap, rm_gen. rewrite falses_map.
  destruct (h_eq s); [rewrite (ep_loop_idem _ _ _ (He eq_refl)) | ];
  (destruct (h_min s); [rewrite (ep_loop_idem _ _ _ (Hmi eq_refl)) | ]);
  (destruct (h_max s); [rewrite (ep_loop_idem _ _ _ (Hma eq_refl)) | ]);
  rewrite !bm_or_maps; apply map_ext; intros e; cbn [andb orb]; reflexivity.
Qed.

Lemma epoch_tests_ok (v n : Z) (K : lit -> option comparison) l :
  conv (as_i64 l) = n -> K l = Some (v ?= n) ->
  tests_ok K (fun l => v =? conv (as_i64 l)) (fun l => v <? conv (as_i64 l)) (fun l => v <=? conv (as_i64 l))
             (fun l => v >? conv (as_i64 l)) (fun l => v >=? conv (as_i64 l)) l.
Proof.
  intros Hc HK. unfold tests_ok. rewrite HK, Hc.
  split; [discriminate|]. rewrite Z.eqb_compare. unfold Z.ltb, Z.leb, Z.gtb, Z.geb.
  destruct (v ?= n); repeat split; reflexivity.
Qed.

(** the guard makes every Epoch literal well-behaved under convertUnitToNanosec *)
Lemma epoch_lits_good tfs sc rows ps : Dom tfs sc rows ps ->
  (forall l, In l (all_lits epoch_name ps) -> ep_good l)
  /\ (forall x, In x (ups epoch_name ps) -> isNanosec (as_i64 (fst x)) = true).
Proof.
  intros D. pose proof (D_sec _ _ _ _ D) as Hsec. unfold epoch_seconds_bad in Hsec.
  apply orb_false_iff in Hsec. destruct Hsec as [Hu Hle].
  assert (HU : forall x, In x (ups epoch_name ps) -> isNanosec (as_i64 (fst x)) = true).
  { intros x Hx. pose proof (existsb_false_in _ _ x Hu Hx) as E. cbv beta in E. apply negb_false_iff in E. exact E. }
  split; [|exact HU]. intros l Hl. split.
  - destruct (all_lits_origin _ _ _ Hl) as (p & Hp & Hc & Hlp). eapply (D_ep _ _ _ _ D); eassumption.
  - unfold all_lits in Hl. rewrite app_assoc in Hl. apply in_app_or in Hl. destruct Hl as [Hl|Hl].
    + apply in_app_or in Hl. destruct Hl as [Hl|Hl].
      * assert (Hl' : In l (map fst (lows epoch_name ps) ++ eqs epoch_name ps)) by (apply in_or_app; left; exact Hl).
        pose proof (existsb_false_in _ _ l Hle Hl') as E. cbv beta in E.
        destruct (isNanosec (as_i64 l)); [left; reflexivity|]. right. simpl in E. apply Z.ltb_ge in E. exact E.
      * left. apply in_map_iff in Hl. destruct Hl as (x & <- & Hx). apply HU. exact Hx.
    + assert (Hl' : In l (map fst (lows epoch_name ps) ++ eqs epoch_name ps)) by (apply in_or_app; right; exact Hl).
      pose proof (existsb_false_in _ _ l Hle Hl') as E. cbv beta in E.
      destruct (isNanosec (as_i64 l)); [left; reflexivity|]. right. simpl in E. apply Z.ltb_ge in E. exact E.
Qed.

Lemma ep_bitmap_empty es : ep_bitmap sp_empty es = falses (List.length es).
Proof.
  unfold ep_bitmap. cbn [sp_empty h_eq h_min h_max]. rewrite falses_map, !bm_or_maps. reflexivity.
Qed.

Lemma hd_in_all_lits c ps :
  (forall l r, eqs c ps = l :: r -> In l (all_lits c ps))
  /\ (forall x r, lows c ps = x :: r -> In (fst x) (all_lits c ps))
  /\ (forall x r, ups c ps = x :: r -> In (fst x) (all_lits c ps)).
Proof.
  unfold all_lits. repeat split; intros a r E; rewrite E; rewrite !in_app_iff; cbn; auto.
Qed.

Lemma epoch_part tfs sc rows ps rows' : Dom tfs sc rows ps -> (forall r, In r rows' -> In r rows) ->
  (match g_get epoch_name (build_group ps) with
   | Some s => ep_bitmap s (map r_epoch rows')
   | None => falses (List.length rows')
   end) = map (fun r => negb (okc (cmp_epoch (r_epoch r)) epoch_name ps)) rows'.
Proof.
  intros D Hsub.
  replace (match g_get epoch_name (build_group ps) with
           | Some s => ep_bitmap s (map r_epoch rows') | None => falses (List.length rows') end)
    with (ep_bitmap (gsp epoch_name (build_group ps)) (map r_epoch rows')).
  2:{ unfold gsp. destruct (g_get epoch_name (build_group ps)); [reflexivity|]. rewrite ep_bitmap_empty, map_length. reflexivity. }
  destruct (D_short _ _ _ _ D epoch_name) as (S1 & S2 & S3).
  rewrite (gsp_unique epoch_name ps S1 S2 S3).
  destruct (epoch_lits_good _ _ _ _ D) as [Hgood _].
  destruct (hd_in_all_lits epoch_name ps) as (HE & HL & HU).
  rewrite ep_bitmap_rows.
  - rewrite map_map. apply map_ext_in. intros r Hr.
    destruct (D_rows _ _ _ _ D r (Hsub r Hr)) as (He & _ & _). rewrite (conv_row _ He).
    unfold okc. apply rm_gen_spec; try assumption.
    intros l Hl. change (In l (all_lits epoch_name ps)) in Hl.
    destruct (conv_lit l (Hgood l Hl)) as (n & Hn & Hc & _).
    apply (epoch_tests_ok _ n); [exact Hc|]. unfold cmp_epoch. rewrite Hn. reflexivity.
  - cbn [exp_sp h_eq s_eq]. destruct (eqs epoch_name ps) as [|l r] eqn:E; [discriminate|]. intros _. cbn [hd_error lit0].
    destruct (conv_lit l (Hgood l (HE l r eq_refl))) as (n & _ & Hc & Hi & _). rewrite Hc. exact Hi.
  - cbn [exp_sp h_min s_min]. destruct (lows epoch_name ps) as [|[l i] r] eqn:E; [discriminate|]. intros _. cbn [hd_lit lit0].
    destruct (conv_lit l (Hgood l (HL (l, i) r eq_refl))) as (n & _ & Hc & Hi & _). rewrite Hc. exact Hi.
  - cbn [exp_sp h_max s_max]. destruct (ups epoch_name ps) as [|[l i] r] eqn:E; [discriminate|]. intros _. cbn [hd_lit lit0].
    destruct (conv_lit l (Hgood l (HU (l, i) r eq_refl))) as (n & _ & Hc & Hi & _). rewrite Hc. exact Hi.
Qed.

(** ---------- the push-down never cuts a row satisfying the Epoch comparisons ---------- *)
Definition pushdown' (s : sp) : Res (option Z * option Z) :=
  do st <- pd_bound (h_min s) (h_imin s) (s_min s) 1;
  do en <- pd_bound (h_max s) (h_imax s) (s_max s) (-1);
  Ok (st, en).

Lemma pushdown_gsp g : pushdown g = pushdown' (gsp epoch_name g).
Proof. unfold pushdown, gsp. destruct (g_get epoch_name g); reflexivity. Qed.

Definition st_of (lo : list (lit * bool)) : option Z :=
  match lo with [] => None | (l, i) :: _ => Some (wrap I64 (as_i64 l + (if i then 1 else 0))) end.
Definition en_of (up : list (lit * bool)) : option Z :=
  match up with [] => None | (l, i) :: _ => Some (wrap I64 (as_i64 l + (if i then -1 else 0))) end.

Lemma pushdown_exp lo up eq : pushdown' (exp_sp lo up eq) = Ok (st_of lo, en_of up).
Proof. destruct lo as [|[l i] ?], up as [|[l' i'] ?]; reflexivity. Qed.

Lemma slot_mono tfs a b : 0 < tfs -> a <= b -> slot tfs a <= slot tfs b.
Proof. intros H L. unfold slot, nanosec. apply Z.div_le_mono; lia. Qed.

Lemma slot_succ_aligned tfs e : 0 < tfs -> e mod tfs = 0 -> slot tfs (e * nanosec + 1) = slot tfs (e * nanosec).
Proof.
  intros H Hm. unfold slot, nanosec.
  assert (E : e = tfs * (e / tfs)) by (pose proof (Z.div_mod e tfs); lia).
  set (k := e / tfs) in *. rewrite E.
  replace (tfs * k * 1000000000 + 1) with (k * (tfs * 1000000000) + 1) by ring.
  replace (tfs * k * 1000000000) with (k * (tfs * 1000000000)) by ring.
  rewrite Z.div_add_l by lia. rewrite Z.div_mul by lia. rewrite Z.div_small by lia. lia.
Qed.

Lemma wrap64 z : - 2 ^ 63 <= z < 2 ^ 63 -> wrap I64 z = z.
Proof. intros H. apply wrap_small. unfold in_ity, ity_min, ity_max. cbn [ity_signed ity_bits]. lia. Qed.

Lemma sem_cmp_Z o a b : sem_op o (Some (a ?= b)) = true ->
  match o with CEq => a = b | CNeq => a <> b | CLt => a < b | CLte => a <= b | CGt => a > b | CGte => a >= b end.
Proof. destruct o; destruct (Z.compare_spec a b) as [E|E|E]; simpl; intros H0; try discriminate H0; lia. Qed.

Lemma scan_incl tfs sc rows ps r : Dom tfs sc rows ps -> In r rows ->
  okc (cmp_epoch (r_epoch r)) epoch_name ps = true ->
  in_scan tfs (st_of (lows epoch_name ps)) (en_of (ups epoch_name ps)) r = true.
Proof.
  intros D Hr Hok. unfold okc in Hok. rewrite !andb_true_iff in Hok. destruct Hok as [[HL HU] _].
  destruct (D_rows _ _ _ _ D r Hr) as (He & Hal & _). pose proof (D_tf _ _ _ _ D) as Htf.
  destruct (epoch_lits_good _ _ _ _ D) as [Hgood Hups].
  destruct (hd_in_all_lits epoch_name ps) as (_ & HLin & HUin).
  unfold in_scan. apply andb_true_iff. split.
  - destruct (lows epoch_name ps) as [|[l i] rest] eqn:E; [reflexivity|]. cbn [st_of]. apply Z.leb_le.
    cbn [okL forallb fst snd] in HL. apply andb_true_iff in HL. destruct HL as [HL _].
    destruct (conv_lit l (Hgood l (HLin (l, i) rest eq_refl))) as (n & Hn & Hc & _ & Hrange & Hns).
    destruct (Hgood l (HLin (l, i) rest eq_refl)) as [Hok Hform].
    unfold cmp_epoch in HL. rewrite Hn in HL.
    destruct l as [z|x]; [|discriminate Hok]. cbn [as_i64] in *. cbn [epoch_lit_ok] in Hok.
    apply andb_true_iff in Hok. destruct Hok as [H0 H1]. apply Z.leb_le in H0.
    destruct (isNanosec z) eqn:EN.
    + specialize (Hns eq_refl). subst n. apply Z.ltb_lt in H1. rewrite wrap64 by (destruct i; lia).
      destruct i; apply sem_cmp_Z in HL.
      * destruct (Z.eq_dec (r_epoch r * nanosec) z) as [<-|Hne].
        -- rewrite slot_succ_aligned by assumption. lia.
        -- apply slot_mono; [assumption | lia].
      * apply slot_mono; [assumption | lia].
    + apply Z.leb_le in H1. unfold max_epoch_sec in *. rewrite wrap64 by (destruct i; lia).
      apply slot_mono; [assumption|]. unfold nanosec. destruct i; lia.
  - destruct (ups epoch_name ps) as [|[l i] rest] eqn:E; [reflexivity|]. cbn [en_of]. apply Z.leb_le.
    cbn [okU forallb fst snd] in HU. apply andb_true_iff in HU. destruct HU as [HU _].
    destruct (conv_lit l (Hgood l (HUin (l, i) rest eq_refl))) as (n & Hn & Hc & _ & Hrange & Hns).
    assert (Hin : In (l, i) ((l, i) :: rest)) by (left; reflexivity).
    pose proof (Hups _ Hin) as HN. cbn [fst] in HN. specialize (Hns HN). subst n.
    unfold cmp_epoch in HU. rewrite Hn in HU.
    assert (Hz : 32503680000 < as_i64 l) by (unfold isNanosec in HN; apply Z.gtb_lt in HN; lia).
    rewrite wrap64 by (destruct i; lia). apply slot_mono; [assumption|].
    destruct i; apply sem_cmp_Z in HU; [|lia].
    pose proof (D_bar _ _ _ _ D) as Hbar. unfold epoch_incl_upper_on_bar in Hbar. rewrite E in Hbar.
    pose proof (existsb_false_in _ _ _ Hbar Hin) as B. cbn [fst snd andb] in B.
    pose proof (existsb_false_in _ _ _ B Hr) as B'. cbv beta in B'. apply Z.eqb_neq in B'. lia.
Qed.

(** ---------- IsFalse only fires on an unsatisfiable conjunction ---------- *)
Section FloatChain.
Variable prec emax : Z.
Context (prec_gt_0_ : FLX.Prec_gt_0 prec) (prec_lt_emax_ : Prec_lt_emax prec emax).
Notation fl := (binary_float prec emax).

Lemma float_chain (x A B : fl) (i j : bool) :
  is_nan x = false -> is_nan A = false -> is_nan B = false ->
  Bltb B A = true ->
  sem_op (if i then CGte else CGt) (Bcompare x A) = true ->
  sem_op (if j then CLte else CLt) (Bcompare x B) = true -> False.
Proof.
  intros Hx HA HB Hlt H1 H2.
  rewrite (fkey_compare prec emax _ _ x A Hx HA) in H1. rewrite (fkey_compare prec emax _ _ x B Hx HB) in H2.
  change (Bltb B A) with (f_lt prec emax B A) in Hlt. rewrite (f_lt_key prec emax _ _ B A HB HA) in Hlt.
  apply Z.ltb_lt in Hlt. apply sem_cmp_Z in H1. apply sem_cmp_Z in H2. destruct i, j; lia.
Qed.
End FloatChain.

Lemma forallb_false_in {A} (f : A -> bool) l x : In x l -> f x = false -> forallb f l = false.
Proof.
  intros Hin Hf. destruct (forallb f l) eqn:E; [|reflexivity]. rewrite forallb_forall in E. rewrite (E x Hin) in Hf. discriminate.
Qed.

Lemma in_names_combine (sc : schema) (vals : list cell) c :
  List.length sc = List.length vals -> In c (map fst sc) -> exists ty v, In ((c, ty), v) (combine sc vals).
Proof.
  revert vals. induction sc as [|[k t] sc IH]; intros [|v vals] Hlen Hin; try destruct Hin; try discriminate Hlen.
  - simpl in H. subst k. exists t, v. left. reflexivity.
  - destruct (IH vals) as (ty & v' & Hc); [simpl in Hlen; lia | exact H|]. exists ty, v'. right. exact Hc.
Qed.

Lemma lit_int_bounds ty l : lit_in_int_type ty l = true -> exists z, l = LInt z /\ Z.abs z <= 2 ^ 63.
Proof.
  destruct l as [z|x]; [|discriminate]. cbn [lit_in_int_type]. intros H. exists z. split; [reflexivity|].
  destruct (ty =? ET_INT32); apply andb_true_iff in H; destruct H as [H1 H2]; apply Z.leb_le in H1, H2; lia.
Qed.

Lemma is_false_sound tfs sc rows ps c r : Dom tfs sc rows ps -> In r rows ->
  is_false (gsp c (build_group ps)) = true -> forallb (sem_pred sc r) ps = false.
Proof.
  intros D Hr Hf.
  destruct (D_short _ _ _ _ D c) as (S1 & S2 & S3). rewrite (gsp_unique c ps S1 S2 S3) in Hf.
  unfold is_false in Hf. cbn [exp_sp s_min s_max] in Hf.
  destruct (lows c ps) as [|[a i] lrest] eqn:EL; [discriminate Hf|].
  destruct (ups c ps) as [|[b j] urest] eqn:EU; [discriminate Hf|]. cbn [hd_lit] in Hf.
  assert (lrest = []) by (destruct lrest; [reflexivity | unfold short in S1; simpl in S1; lia]).
  assert (urest = []) by (destruct urest; [reflexivity | unfold short in S2; simpl in S2; lia]). subst lrest urest.
  change (generic_cmp a b CGt) with (f64_lt (as_f64 b) (as_f64 a)) in Hf.
  assert (HaL : In (a, i) (lows c ps)) by (rewrite EL; left; reflexivity).
  assert (HbU : In (b, j) (ups c ps)) by (rewrite EU; left; reflexivity).
  destruct (lows_origin _ _ _ HaL) as (pa & Hpa & Hca & Hla). destruct (ups_origin _ _ _ HbU) as (pb & Hpb & Hcb & Hlb).
  cbn [fst] in Hla, Hlb.
  destruct (D_preds _ _ _ _ D pa Hpa) as [Hcin _]. rewrite Hca in Hcin.
  rewrite (sem_by_columns sc r ps (D_nd _ _ _ _ D) (D_preds _ _ _ _ D)).
  apply (forallb_false_in _ _ c Hcin). unfold okc. rewrite EL, EU. cbn [okL okU forallb fst snd]. rewrite !andb_true_r.
  destruct (sem_op (if i then CGte else CGt) (cmp_col sc r c a)) eqn:H1; [|reflexivity].
  destruct (sem_op (if j then CLte else CLt) (cmp_col sc r c b)) eqn:H2; [|reflexivity]. exfalso. clear S1 S2.
  destruct (D_rows _ _ _ _ D r Hr) as (He & _ & Hcells).
  unfold cols_of in Hcin. destruct Hcin as [<-|Hcin].
  - (* Epoch *)
    unfold cmp_col in H1, H2. rewrite String.eqb_refl in H1, H2.
    destruct (epoch_lits_good _ _ _ _ D) as [Hgood Hups].
    destruct (hd_in_all_lits epoch_name ps) as (_ & HLin & HUin).
    pose proof (Hgood a (HLin _ _ EL)) as Ga. pose proof (Hgood b (HUin _ _ EU)) as Gb.
    pose proof (Hups _ HbU) as Nb. cbn [fst] in Nb.
    destruct (conv_lit a Ga) as (na & Hna & _ & _ & _ & Hnsa). destruct (conv_lit b Gb) as (nb & Hnb & _ & _ & _ & Hnsb).
    specialize (Hnsb Nb). subst nb.
    destruct Ga as [Oka _]. destruct Gb as [Okb _].
    destruct a as [za|?]; [|discriminate Oka]. destruct b as [zb|?]; [|discriminate Okb].
    cbn [as_i64 as_f64 epoch_lit_ok] in *.
    apply andb_true_iff in Oka. destruct Oka as [A0 A1]. apply andb_true_iff in Okb. destruct Okb as [B0 B1].
    apply Z.leb_le in A0, B0. rewrite Nb in B1. apply Z.ltb_lt in B1.
    assert (Habs : Z.abs za <= 2 ^ 63).
    { destruct (isNanosec za); [apply Z.ltb_lt in A1 | apply Z.leb_le in A1; unfold max_epoch_sec in A1]; lia. }
    assert (Hlt : zb < za) by (apply f64_of_Z_lt_mono; [exact Habs | lia | exact Hf]).
    assert (Na : isNanosec za = true).
    { unfold isNanosec in *. apply Z.gtb_lt in Nb. apply Z.gtb_lt. lia. }
    specialize (Hnsa Na). subst na.
    unfold cmp_epoch in H1, H2. rewrite Hna in H1. rewrite Hnb in H2.
    apply sem_cmp_Z in H1. apply sem_cmp_Z in H2. destruct i, j; lia.
  - (* a value column *)
    assert (Hnd : NoDup (map fst sc)) by (pose proof (D_nd _ _ _ _ D) as H; unfold cols_of in H; inversion H; assumption).
    destruct (in_names_combine sc (r_vals r) c (cells_ok_length _ _ Hcells) Hcin) as (ty & v & Hin).
    destruct (lookup_in _ _ _ _ _ Hnd Hin) as (Hlk & Hnth & Hty).
    assert (Hne : c <> epoch_name) by (apply (epoch_not_value sc (D_nd _ _ _ _ D)); exact Hcin).
    unfold cmp_col in H1, H2. apply String.eqb_neq in Hne. rewrite Hne, Hlk in H1, H2.
    rewrite <- Hca in Hty. destruct (D_val _ _ _ _ D pa ty Hpa Hty) as (Hft & HLa & Hnan).
    rewrite Hca, <- Hcb in Hty. destruct (D_val _ _ _ _ D pb ty Hpb Hty) as (_ & HLb & _).
    destruct (HLa a Hla) as [Fa Ia]. destruct (HLb b Hlb) as [Fb Ib].
    rewrite Hca in Hnan. specialize (Hnan r v Hr Hnth).
    pose proof (cells_ok_in _ _ _ _ _ Hcells Hin) as Hcell.
    destruct v as [z|x|x]; cbn [cell_ok cell_is_nan cmp_cell] in *.
    + (* integer cell: the column is int32/int64, the literals are integers *)
      assert (Hint : ((ty =? ET_INT32) || (ty =? ET_INT64)) = true).
      { unfold filtered_type in Hft. unfold int_type_range in Hcell.
        destruct (ty =? ET_INT32); [reflexivity|]. destruct (ty =? ET_INT64); [reflexivity|].
        destruct (ty =? ET_FLOAT32) eqn:F32; [apply Z.eqb_eq in F32; subst ty; discriminate Hcell|].
        destruct (ty =? ET_FLOAT64) eqn:F64; [apply Z.eqb_eq in F64; subst ty; discriminate Hcell|]. discriminate Hft. }
      destruct (lit_int_bounds ty a (Ia Hint)) as (za & -> & Ba). destruct (lit_int_bounds ty b (Ib Hint)) as (zb & -> & Bb).
      cbn [as_f64] in Hf. assert (Hlt : zb < za) by (apply f64_of_Z_lt_mono; assumption).
      apply sem_cmp_Z in H1. apply sem_cmp_Z in H2. destruct i, j; lia.
    + (* float32 *)
      apply Z.eqb_eq in Hcell. subst ty.
      pose proof (D_f32 _ _ _ _ D) as H32. unfold f32_bounds_ordered in H32. rewrite forallb_forall in H32.
      specialize (H32 pa Hpa). cbv zeta in H32. rewrite Hca in H32. rewrite Hcb in Hty. rewrite Hty in H32.
      change (ET_FLOAT32 =? ET_FLOAT32) with true in H32. cbv iota in H32.
      rewrite forallb_forall in H32. specialize (H32 (a, i) HaL). rewrite forallb_forall in H32. specialize (H32 (b, j) HbU).
      cbn [fst] in H32. change (generic_cmp a b CGt) with (f64_lt (as_f64 b) (as_f64 a)) in H32. rewrite Hf in H32.
      cbn [implb] in H32.
      eapply (float_chain 24 128 p32_gt_0 p32_lt_emax x (f32_of_lit a) (f32_of_lit b) i j); try eassumption.
      * apply f32_of_lit_not_nan; exact Fa.
      * apply f32_of_lit_not_nan; exact Fb.
    + (* float64 *)
      eapply (float_chain 53 1024 p64_gt_0 p64_lt_emax x (as_f64 a) (as_f64 b) i j); try eassumption.
      * apply as_f64_not_nan; exact Fa.
      * apply as_f64_not_nan; exact Fb.
Qed.

(** ================= the guarded theorem ================= *)
Theorem materialize_spec tfs sc rows ps :
  guard tfs sc rows ps = true -> materialize tfs sc rows ps = Ok (spec_select sc rows ps).
Proof.
  intros G. pose proof (guard_dom _ _ _ _ G) as D. unfold materialize, spec_select.
  destruct (existsb (fun ks => is_false (snd ks)) (build_group ps)) eqn:EF.
  - destruct (existsb_is_false ps EF) as [c Hc]. f_equal. symmetry. apply filter_none.
    intros r Hr. eapply is_false_sound; eassumption.
  - rewrite pushdown_gsp.
    destruct (D_short _ _ _ _ D epoch_name) as (S1 & S2 & S3).
    rewrite (gsp_unique epoch_name ps S1 S2 S3), pushdown_exp. cbn [bindR fst snd].
    set (st := st_of (lows epoch_name ps)). set (en := en_of (ups epoch_name ps)).
    assert (Hsub : forall r, In r (scan tfs st en rows) -> In r rows) by (intros r Hr; apply filter_In in Hr; apply Hr).
    rewrite (epoch_part tfs sc rows ps (scan tfs st en rows) D Hsub).
    rewrite restrict_maps.
    replace (match scan tfs st en rows with
             | [] => Ok []
             | _ :: _ => Ok (filter (fun r => negb (negb (okc (cmp_epoch (r_epoch r)) epoch_name ps)
                                                  || rm_row (build_group ps) sc (r_vals r))) (scan tfs st en rows))
             end)
      with (Ok (filter (fun r => negb (negb (okc (cmp_epoch (r_epoch r)) epoch_name ps)
                                       || rm_row (build_group ps) sc (r_vals r))) (scan tfs st en rows)))
      by (destruct (scan tfs st en rows); reflexivity).
    f_equal. unfold scan. rewrite filter_filter. apply filter_ext_in'. intros r Hr.
    rewrite (sem_by_columns sc r ps (D_nd _ _ _ _ D) (D_preds _ _ _ _ D)).
    unfold cols_of. cbn [forallb].
    replace (okc (cmp_col sc r epoch_name) epoch_name ps) with (okc (cmp_epoch (r_epoch r)) epoch_name ps)
      by (apply okc_ext; intros l; unfold cmp_col; rewrite String.eqb_refl; reflexivity).
    rewrite <- (value_part tfs sc rows ps r D Hr).
    rewrite negb_orb, negb_involutive. unfold st, en.
    destruct (okc (cmp_epoch (r_epoch r)) epoch_name ps) eqn:E.
    + rewrite (scan_incl tfs sc rows ps r D Hr E). reflexivity.
    + cbn [andb]. apply andb_false_r.
Qed.

(** time order is preserved: the result is a sub-list of the stored rows *)
Lemma filter_sorted {A} (R : A -> A -> Prop) (f : A -> bool) l : StronglySorted R l -> StronglySorted R (filter f l).
Proof.
  induction 1 as [|x l Hs IH Hall]; simpl; [constructor|]. destruct (f x); [|exact IH].
  constructor; [exact IH|]. rewrite Forall_forall in *. intros y Hy. apply filter_In in Hy. apply Hall. apply Hy.
Qed.

Theorem materialize_time_order tfs sc rows ps out :
  guard tfs sc rows ps = true ->
  StronglySorted (fun a b => r_epoch a < r_epoch b) rows ->
  materialize tfs sc rows ps = Ok out ->
  StronglySorted (fun a b => r_epoch a < r_epoch b) out.
Proof.
  intros G Hs H. rewrite (materialize_spec _ _ _ _ G) in H. inversion H; subst. apply filter_sorted. exact Hs.
Qed.
