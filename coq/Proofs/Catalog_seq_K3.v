(** C17: the finite checks of Proofs/Catalog_seq.v for key space K3 = {A/1Min/G, A/1Min/GH, AB/1Min/G} x
    {2021, 2022} x two schema tags (names that are string prefixes of one another: groups G / GH, symbols A / AB): 730 specification
    states, 41 requests each, every successor computed by vm_compute (no native_compute). *)
From Coq Require Import List String ZArith Bool.
From Coq.Strings Require Import Byte.
Import ListNotations.
Require Import MS.Base.Hex MS.Base.Path MS.Model.Catalog MS.Proofs.Catalog_seq.

Definition sb (x : string) : list byte := bytes_of_string x.
Definition K3 : keyspace :=
  mkKS (sb "/a/b/c/r") [sb "A/1Min/G"; sb "A/1Min/GH"; sb "AB/1Min/G"] [2021; 2022]%Z [[x00]; [x01]].

Definition tab3 : list (spec * pstate) := Eval vm_compute in mk_tab K3.

Lemma K3_size : (List.length tab3, List.length (alphabet K3)) = (730, 41)%nat.
Proof. vm_compute. reflexivity. Qed.

Lemma K3_init : lookup (sp0 K3) tab3 = Some (wfs (init_world (ks_root K3)), init_cat (ks_root K3)).
Proof. vm_compute. reflexivity. Qed.

Lemma K3_closure : forall tr, closure_ok K3 tab3 tr = true.
Proof. intros tr. vm_compute. reflexivity. Qed.

Lemma K3_scan : scan_ok K3 tab3 = true.
Proof. vm_compute. reflexivity. Qed.

Lemma K3_listing : listing_ok K3 tab3 = true.
Proof. vm_compute. reflexivity. Qed.
