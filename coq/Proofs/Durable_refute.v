(** Proofs/Durable_refute.v — the unguarded statements of C01 C02 C03 are refuted by the faithful model
    on one concrete two-request history ([wit_sched] in Durable_props.v), evaluated by vm_compute. *)
From Coq Require Import ZArith NArith List Bool Lia.
From Coq.Strings Require Import Byte.
Import ListNotations.
Require Import MS.Base.Res MS.Generated.Src_durab MS.Model.Wal MS.Model.Replay
  MS.Proofs.Durable_wal MS.Proofs.Durable_files MS.Proofs.Durable_exec MS.Proofs.Durable_recover
  MS.Proofs.Durable_sem MS.Proofs.Durable_crash MS.Proofs.Durable_inv MS.Proofs.Durable_steps3 MS.Proofs.Durable_props.
Local Open Scope Z_scope.

Lemma wit_run : run clen0 0%N 1111 1000 wit_sched = Ok wit_trace.
Proof. vm_compute. reflexivity. Qed.

Lemma wit_wf : wf_sched clen0 1111 1000 wit_sched = true.
Proof. vm_compute. reflexivity. Qed.

Lemma wit_hyps :
  run clen0 0%N 1111 1000 wit_sched = Ok wit_trace /\ wf_sched clen0 1111 1000 wit_sched = true
  /\ length (filter (guard_crash wit_trace) (seq 0 28)) = 26%nat.
Proof. split; [exact wit_run|]. split; [exact wit_wf|]. vm_compute. reflexivity. Qed.

(** crash point 25: right after the in-place data write of the second request *)
Lemma wit_startup_fails : snd (recover clen0 1%N 2222 (crash_img wit_trace 25)) = StartError.
Proof. vm_compute. reflexivity. Qed.

Lemma wit_newfile_fatal :
  snd (recover clen0 1%N 2222 (crash_img wit_trace 5)) = StartOk
  /\ bucket_rows (recovered clen0 1%N 2222 (crash_img wit_trace 5)) [0%N] = QFatal.
Proof. split; vm_compute; reflexivity. Qed.

Definition C03_full_stmt : Prop :=
  forall (clen : list record -> Z), (forall x, 0 < clen x) ->
  forall owner2 owner tgid0 sched tr k,
    owner <> 0 -> 0 < tgid0 ->
    run clen 0%N owner tgid0 sched = Ok tr -> wf_sched clen owner tgid0 sched = true ->
    (k <= length tr)%nat ->
    snd (recover clen 1%N owner2 (crash_img tr k)) = StartOk
    /\ forall bucket, exists rows, bucket_rows (recovered clen 1%N owner2 (crash_img tr k)) bucket = QRows rows.

Lemma C03_full_refuted : ~ C03_full_stmt.
Proof.
  intros H.
  destruct (H clen0 clen0_pos 2222 1111 1000 wit_sched wit_trace 25%nat) as [Hs _];
    try (exact wit_run || exact wit_wf || lia).
  - assert (length wit_trace = 27%nat) as -> by (vm_compute; reflexivity). lia.
  - rewrite wit_startup_fails in Hs. discriminate.
Qed.
