(** Proofs/Durable_refute.v — the unguarded statements of C01 C02 C03 are refuted by the faithful model
    on one concrete two-request history ([wit_sched] in Durable_props.v), evaluated by vm_compute. *)
From Coq Require Import ZArith NArith List Bool Lia.
From Coq.Strings Require Import Byte.
Import ListNotations.
Require Import MS.Base.Res MS.Generated.Src_durab MS.Model.Wal MS.Model.Replay
  MS.Proofs.Durable_wal MS.Proofs.Durable_files MS.Proofs.Durable_exec MS.Proofs.Durable_recover
  MS.Proofs.Durable_sem MS.Proofs.Durable_crash MS.Proofs.Durable_inv MS.Proofs.Durable_steps3 MS.Proofs.Durable_props.
Local Open Scope Z_scope.

Lemma wit_run : run clen0 0%N 1111 1000 wit_sched = Ok wit_trace.
Proof. vm_compute. reflexivity. Qed.

Lemma wit_wf : wf_sched clen0 1111 1000 wit_sched = true.
Proof. vm_compute. reflexivity. Qed.

Lemma wit_hyps :
  run clen0 0%N 1111 1000 wit_sched = Ok wit_trace /\ wf_sched clen0 1111 1000 wit_sched = true
  /\ length (filter (guard_crash wit_trace) (seq 0 28)) = 26%nat.
Proof. split; [exact wit_run|]. split; [exact wit_wf|]. vm_compute. reflexivity. Qed.

(** crash point 25: right after the in-place data write of the second request *)
Lemma wit_startup_fails : snd (recover clen0 1%N 2222 (crash_img wit_trace 25)) = StartError.
Proof. vm_compute. reflexivity. Qed.

Lemma wit_newfile_fatal :
  snd (recover clen0 1%N 2222 (crash_img wit_trace 5)) = StartOk
  /\ bucket_rows (recovered clen0 1%N 2222 (crash_img wit_trace 5)) [0%N] = QFatal.
Proof. split; vm_compute; reflexivity. Qed.

Definition C03_full_stmt : Prop :=
  forall (clen : list record -> Z), (forall x, 0 < clen x) ->
  forall owner2 owner tgid0 sched tr k,
    owner <> 0 -> 0 < tgid0 ->
    run clen 0%N owner tgid0 sched = Ok tr -> wf_sched clen owner tgid0 sched = true ->
    (k <= length tr)%nat ->
    snd (recover clen 1%N owner2 (crash_img tr k)) = StartOk
    /\ forall bucket, exists rows, bucket_rows (recovered clen 1%N owner2 (crash_img tr k)) bucket = QRows rows.

Lemma C03_full_refuted : ~ C03_full_stmt.
Proof.
  intros H.
  destruct (H clen0 clen0_pos 2222 1111 1000 wit_sched wit_trace 25%nat) as [Hs _];
    try (exact wit_run || exact wit_wf || lia).
  - assert (length wit_trace = 27%nat) as -> by (vm_compute; reflexivity). lia.
  - rewrite wit_startup_fails in Hs. discriminate.
Qed.

(* ------------------------------------------------------------------ C01 / C02 *)

(** C01 as given: at every crash point the restart succeeds and the recovered files hold every committed
    fixed value and every record of every committed variable command *)
Definition C01_full_stmt : Prop :=
  forall (clen : list record -> Z), (forall x, 0 < clen x) ->
  forall owner2 owner tgid0 sched tr k,
    owner <> 0 -> 0 < tgid0 ->
    run clen 0%N owner tgid0 sched = Ok tr -> wf_sched clen owner tgid0 sched = true ->
    (k <= length tr)%nat ->
    snd (recover clen 1%N owner2 (crash_img tr k)) = StartOk
    /\ (forall f off, fx_get (recovered_files clen owner2 tr k) f off = lastw (cmds_of (committed tr k)) f off)
    /\ (forall c r, In c (cmds_of (committed tr k)) -> c_kind c = KVar -> In r (c_data c) ->
                    In r (content (recovered_files clen owner2 tr k) (c_fid c) (c_off c))).

Lemma C01_full_refuted : ~ C01_full_stmt.
Proof.
  intros H.
  destruct (H clen0 clen0_pos 2222 1111 1000 wit_sched wit_trace 25%nat) as [Hs _];
    try (exact wit_run || exact wit_wf || lia).
  - assert (length wit_trace = 27%nat) as -> by (vm_compute; reflexivity). lia.
  - rewrite wit_startup_fails in Hs. discriminate.
Qed.

(** C02 as given: after recovery every variable interval holds exactly the committed records *)
Definition C02_full_stmt : Prop :=
  forall (clen : list record -> Z), (forall x, 0 < clen x) ->
  forall owner2 owner tgid0 sched tr k,
    owner <> 0 -> 0 < tgid0 ->
    run clen 0%N owner tgid0 sched = Ok tr -> wf_sched clen owner tgid0 sched = true ->
    (k <= length tr)%nat -> guard_window tr k = true ->
    forall f slot, content (recovered_files clen owner2 tr k) f slot = ct_after (cmds_of (committed tr k)) [] f slot.

(** crash after everything is written and acknowledged, before any checkpoint: replay appends both
    requests' records a second time *)
Lemma wit_duplicates :
  content (recovered_files clen0 2222 wit_trace 27) 0%N 37168 = [rec_b; rec_b; rec_a; rec_a]
  /\ ct_after (cmds_of (committed wit_trace 27)) [] 0%N 37168 = [rec_b; rec_a].
Proof. split; vm_compute; reflexivity. Qed.

Lemma C02_full_refuted : ~ C02_full_stmt.
Proof.
  intros H.
  assert (Hc := H clen0 clen0_pos 2222 1111 1000 wit_sched wit_trace 27%nat).
  assert (Hl : length wit_trace = 27%nat) by (vm_compute; reflexivity).
  specialize (Hc ltac:(lia) ltac:(lia) wit_run wit_wf ltac:(lia) ltac:(vm_compute; reflexivity) 0%N 37168).
  destruct wit_duplicates as [H1 H2]. rewrite H1, H2 in Hc. discriminate.
Qed.

(** the daily-jan1 class in the model: a fixed record whose index field is 0 is stored but is a hole for
    the reader *)
Lemma index0_is_a_hole f off p : file_rows f (PF [(off, (0, p))]) = QRows [].
Proof. cbn. rewrite Z.eqb_refl. reflexivity. Qed.
