(** C10, 1-second intervals: reflection sweep of the round trip dec (enc o) = o over blocks of
    consecutive nanosecond offsets, on the primitive-float mirror Model/TicksPF.v.
    Shards Proofs/Ticks_sweep_<k>.v each evaluate one block by vm_compute. *)
From Coq Require Import ZArith List Bool Lia.
Import ListNotations.
Require Import MS.Model.Ticks MS.Model.TicksPF.
Local Open Scope Z_scope.

Definition rt_ok (o : Z) : bool := dec_offset_pf 86400 (enc_pf 86400 o) =? o.

Fixpoint sweep_ok (fuel : nat) (o : Z) : bool :=
  match fuel with O => true | S f => rt_ok o && sweep_ok f (o + 1) end.

Lemma sweep_sound n : forall lo, sweep_ok n lo = true ->
  forall o, lo <= o < lo + Z.of_nat n -> rt_ok o = true.
Proof.
  induction n as [| n IH]; intros lo H o Ho.
  - cbn in Ho. lia.
  - cbn [sweep_ok] in H. apply andb_true_iff in H as [H0 Hr].
    destruct (Z.eq_dec o lo) as [-> | N]; [ exact H0 | ].
    apply (IH (lo + 1) Hr). rewrite Nat2Z.inj_succ in Ho. lia.
Qed.

Lemma rt_ok_spec o : rt_ok o = true -> dec_offset_pf 86400 (enc_pf 86400 o) = o.
Proof. unfold rt_ok. apply Z.eqb_eq. Qed.

Definition block : Z := 100000.
(** the blocks covered in the quick tier (start offsets; each [block] long) *)
Definition block_starts : list Z :=
  [0; 100000; 123400000; 249950000; 499950000; 749950000; 999800000; 999900000].
