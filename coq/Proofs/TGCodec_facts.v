(** Facts about Model/TGCodec.v: the decoder inverts the encoder on every encodable command list
    (induction over the list with a cursor invariant), never returns [Rejected], and cannot complete
    more iterations than there are bytes. *)
From Coq Require Import ZArith NArith List Bool Lia.
From Coq.Strings Require Import Byte.
Import ListNotations.
Require Import MS.Base.GoInt MS.Base.Res MS.Base.Hex MS.Base.Bytes MS.Generated.Src_wal MS.Model.TGCodec.
Local Open Scope Z_scope.

(* ------------------------------------------------------------------ small helpers *)

Lemma to_int_U8 v : in_ity U8 v -> to_int U8 (le_bytes 1 v) = Ok v.
Proof. exact (to_int_le_bytes_small U8 v). Qed.
Lemma to_int_I8 v : in_ity I8 v -> to_int I8 (le_bytes 1 v) = Ok v.
Proof. exact (to_int_le_bytes_small I8 v). Qed.
Lemma to_int_I16 v : in_ity I16 v -> to_int I16 (le_bytes 2 v) = Ok v.
Proof. exact (to_int_le_bytes_small I16 v). Qed.
Lemma to_int_I32 v : in_ity I32 v -> to_int I32 (le_bytes 4 v) = Ok v.
Proof. exact (to_int_le_bytes_small I32 v). Qed.
Lemma to_int_I64 v : in_ity I64 v -> to_int I64 (le_bytes 8 v) = Ok v.
Proof. exact (to_int_le_bytes_small I64 v). Qed.

Lemma blen_app a b : blen (a ++ b) = blen a + blen b.
Proof. unfold blen. rewrite app_length. lia. Qed.
Lemma blen_le_bytes n v : blen (le_bytes n v) = Z.of_nat n.
Proof. unfold blen. now rewrite length_le_bytes. Qed.
Lemma blen_cons b l : blen (b :: l) = 1 + blen l.
Proof. unfold blen. cbn [length]. lia. Qed.
Lemma blen_nil : blen [] = 0.
Proof. reflexivity. Qed.
Lemma blen_nonneg l : 0 <= blen l.
Proof. unfold blen. lia. Qed.

Ltac blen_norm :=
  repeat (rewrite ?blen_app, ?blen_le_bytes, ?blen_cons, ?blen_nil in * );
  change (Z.of_nat 1) with 1 in *; change (Z.of_nat 2) with 2 in *;
  change (Z.of_nat 4) with 4 in *; change (Z.of_nat 8) with 8 in *.

(** a field [x] sitting right after [pre] is what [bs[c : c+n]] returns *)
Lemma slice_field pre x suf c h :
  c = blen pre -> h = c + blen x -> slice (pre ++ x ++ suf) c h = Ok x.
Proof. intros -> ->. apply slice_app_mid; reflexivity. Qed.

Lemma slice_head x suf h : h = blen x -> slice (x ++ suf) 0 h = Ok x.
Proof. intros ->. apply (slice_field [] x suf); reflexivity. Qed.

Lemma slice_from_field pre x c : c = blen pre -> slice_from (pre ++ x) c = Ok x.
Proof. intros ->. apply slice_from_app. reflexivity. Qed.

Lemma index_field pre b suf c : c = blen pre -> index (pre ++ b :: suf) c = Ok b.
Proof. intros ->. apply index_app_mid. reflexivity. Qed.

(* ------------------------------------------------------------------ data shapes *)

Lemma ds_roundtrip s rest :
  shape_okb s = true ->
  ds_from_bytes (ds_to_bytes s ++ rest) = Ok (s, blen (ds_to_bytes s)).
Proof.
  unfold shape_okb. rewrite Z.leb_le. intros Hn. pose proof (blen_nonneg (s_name s)) as H0.
  unfold ds_from_bytes, ds_to_bytes. rewrite <- !app_assoc.
  rewrite (slice_head (le_bytes 1 (blen (s_name s)))) by (blen_norm; reflexivity).
  cbn [bindR]. rewrite to_int_U8 by (unfold in_ity; cbn; lia). cbn [bindR].
  rewrite (app_assoc (le_bytes 1 _) (s_name s)).
  replace ((le_bytes 1 (blen (s_name s)) ++ s_name s) ++ [s_type s] ++ rest)
    with (le_bytes 1 (blen (s_name s)) ++ s_name s ++ ([s_type s] ++ rest)) by now rewrite <- app_assoc.
  rewrite (slice_field (le_bytes 1 (blen (s_name s))) (s_name s) _ _ _)
    by (blen_norm; lia).
  cbn [bindR].
  rewrite (app_assoc (le_bytes 1 _) (s_name s)). cbn [app].
  rewrite (index_field (le_bytes 1 (blen (s_name s)) ++ s_name s) (s_type s) rest) by (blen_norm; lia).
  cbn [bindR]. destruct s as [nm t]. cbn [s_name s_type]. f_equal. f_equal. blen_norm. lia.
Qed.

Lemma dsv_loop_roundtrip l : forall pre rest,
  forallb shape_okb l = true ->
  dsv_loop (length l) (pre ++ flat_map ds_to_bytes l ++ rest) (blen pre)
  = Ok (l, blen pre + blen (flat_map ds_to_bytes l)).
Proof.
  induction l as [|s l IH]; intros pre rest Hok.
  - cbn [length dsv_loop flat_map]. blen_norm. f_equal. f_equal. lia.
  - cbn [forallb] in Hok. apply andb_prop in Hok as [Hs Hl].
    cbn [length dsv_loop flat_map]. rewrite <- app_assoc.
    rewrite slice_from_field by reflexivity. cbn [bindR].
    rewrite ds_roundtrip by exact Hs. cbn [bindR].
    replace (pre ++ ds_to_bytes s ++ flat_map ds_to_bytes l ++ rest)
      with ((pre ++ ds_to_bytes s) ++ flat_map ds_to_bytes l ++ rest) by now rewrite <- app_assoc.
    replace (blen pre + blen (ds_to_bytes s)) with (blen (pre ++ ds_to_bytes s)) by (blen_norm; lia).
    rewrite IH by exact Hl. cbn [bindR]. f_equal. f_equal. blen_norm. lia.
Qed.

Lemma dsv_roundtrip l rest :
  1 <= Z.of_nat (length l) <= 255 -> forallb shape_okb l = true ->
  dsv_from_bytes (dsv_to_bytes l ++ rest) = Ok (l, blen (dsv_to_bytes l)).
Proof.
  intros Hn Hok. unfold dsv_from_bytes, dsv_to_bytes.
  rewrite (wrap_small U8) by (unfold in_ity; cbn; lia).
  destruct (Z.eqb_spec (Z.of_nat (length l)) 0) as [E|_]; [lia|].
  rewrite <- app_assoc.
  rewrite (slice_head (le_bytes 1 (Z.of_nat (length l)))) by (blen_norm; reflexivity).
  cbn [bindR]. rewrite to_int_U8 by (unfold in_ity; cbn; lia). cbn [bindR].
  rewrite Nat2Z.id.
  replace 1 with (blen (le_bytes 1 (Z.of_nat (length l)))) at 2 by (blen_norm; reflexivity).
  rewrite dsv_loop_roundtrip by exact Hok. f_equal. f_equal. blen_norm. reflexivity.
Qed.

(* ------------------------------------------------------------------ one command *)

Lemma encodableb_spec c : encodableb c = true ->
  in_ity I8 (c_rt c) /\ blen (c_path c) < 32768 /\ blen (c_data c) < 2147483648 /\ in_ity I32 (c_vrl c)
  /\ in_ity I64 (c_off c) /\ in_ity I64 (c_idx c)
  /\ 1 <= Z.of_nat (length (c_shapes c)) <= 255 /\ forallb shape_okb (c_shapes c) = true.
Proof.
  unfold encodableb. rewrite !andb_true_iff, !in_ityb_spec, !Z.ltb_lt, !Z.leb_le. tauto.
Qed.

Lemma parse_cmd_roundtrip c pre rest root :
  encodableb c = true ->
  parse_cmd (pre ++ ser_cmd c ++ rest) root (blen pre)
  = Ok (to_wtset root c, blen pre + blen (ser_cmd c)).
Proof.
  intros He. apply encodableb_spec in He as (Hrt & Hp & Hd & Hv & Ho & Hi & Hn & Hs).
  pose proof (blen_nonneg (c_path c)) as Hp0. pose proof (blen_nonneg (c_data c)) as Hd0.
  unfold parse_cmd, ser_cmd.
  unfold recordLenLenBytes, fpLenLenBytes, dataLenLenBytes, varRecLenLenBytes, offsetLenBytes, indexLenBytes.
  cbv zeta. rewrite <- !app_assoc.
  (* record type *)
  rewrite (slice_field pre (le_bytes 1 (c_rt c)) _ _ _) by (blen_norm; lia).
  cbn [bindR]. rewrite to_int_I8 by exact Hrt. cbn [bindR].
  (* key path length *)
  rewrite (app_assoc pre (le_bytes 1 (c_rt c))). set (p1 := pre ++ le_bytes 1 (c_rt c)).
  assert (L1 : blen pre + 1 = blen p1) by (subst p1; blen_norm; lia).
  rewrite (slice_field p1 (le_bytes 2 (blen (c_path c))) _ _ _) by (blen_norm; lia).
  cbn [bindR]. rewrite to_int_I16 by (unfold in_ity; cbn; lia). cbn [bindR].
  (* key path *)
  rewrite (app_assoc p1 (le_bytes 2 _)). set (p2 := p1 ++ le_bytes 2 (blen (c_path c))).
  assert (L2 : blen pre + 1 + 2 = blen p2) by (subst p2; blen_norm; lia).
  rewrite (slice_field p2 (c_path c) _ _ _) by (blen_norm; lia).
  cbn [bindR].
  (* data length *)
  rewrite (app_assoc p2 (c_path c)). set (p3 := p2 ++ c_path c).
  assert (L3 : blen pre + 1 + 2 + blen (c_path c) = blen p3) by (subst p3; blen_norm; lia).
  rewrite (slice_field p3 (le_bytes 4 (blen (c_data c))) _ _ _) by (blen_norm; lia).
  cbn [bindR]. rewrite to_int_I32 by (unfold in_ity; cbn; lia). cbn [bindR].
  (* VarRecLen *)
  rewrite (app_assoc p3 (le_bytes 4 _)). set (p4 := p3 ++ le_bytes 4 (blen (c_data c))).
  assert (L4 : blen pre + 1 + 2 + blen (c_path c) + 4 = blen p4) by (subst p4; blen_norm; lia).
  rewrite (slice_field p4 (le_bytes 4 (c_vrl c)) _ _ _) by (blen_norm; lia).
  cbn [bindR]. rewrite to_int_I32 by exact Hv. cbn [bindR].
  (* offset, index, payload *)
  rewrite (app_assoc p4 (le_bytes 4 _)). set (p5 := p4 ++ le_bytes 4 (c_vrl c)).
  assert (L5 : blen pre + 1 + 2 + blen (c_path c) + 4 + 4 = blen p5) by (subst p5; blen_norm; lia).
  assert (Lb : blen (cmd_buffer c) = 8 + 8 + blen (c_data c)) by (unfold cmd_buffer; blen_norm; lia).
  rewrite (slice_field p5 (cmd_buffer c) _ _ _) by (blen_norm; lia).
  cbn [bindR].
  (* data shapes *)
  rewrite (app_assoc p5 (cmd_buffer c)). set (p6 := p5 ++ cmd_buffer c).
  assert (L6 : blen pre + 1 + 2 + blen (c_path c) + 4 + 4 + 8 + 8 + blen (c_data c) = blen p6)
    by (subst p6; blen_norm; lia).
  rewrite slice_from_field by exact L6. cbn [bindR].
  rewrite dsv_roundtrip by assumption. cbn [bindR].
  unfold to_wtset. f_equal. f_equal.
  subst p6 p5 p4 p3 p2 p1. blen_norm. lia.
Qed.

(* ------------------------------------------------------------------ the command list (cursor invariant) *)

Lemma parse_cmds_roundtrip cmds : forall pre root,
  forallb encodableb cmds = true ->
  parse_cmds (length cmds) (pre ++ flat_map ser_cmd cmds) root (blen pre) = Ok (map (to_wtset root) cmds).
Proof.
  induction cmds as [|c cmds IH]; intros pre root Hok.
  - reflexivity.
  - cbn [forallb] in Hok. apply andb_prop in Hok as [Hc Hr].
    cbn [length parse_cmds flat_map map].
    rewrite parse_cmd_roundtrip by exact Hc. cbn [bindR].
    rewrite app_assoc. replace (blen pre + blen (ser_cmd c)) with (blen (pre ++ ser_cmd c)) by (blen_norm; lia).
    rewrite IH by exact Hr. reflexivity.
Qed.

Lemma ser_cmd_nonempty c : 1 <= blen (ser_cmd c).
Proof. unfold ser_cmd. blen_norm. pose proof (blen_nonneg (c_path c)). pose proof (blen_nonneg (cmd_buffer c)).
  pose proof (blen_nonneg (dsv_to_bytes (c_shapes c))). lia. Qed.

Lemma flat_map_ser_length cmds : Z.of_nat (length cmds) <= blen (flat_map ser_cmd cmds).
Proof.
  induction cmds as [|c r IH]; cbn [length flat_map]; blen_norm; [lia|].
  pose proof (ser_cmd_nonempty c). lia.
Qed.

(** C28, guarded: decoding the encoding of encodable commands yields exactly the commands *)
Theorem parse_serialize_roundtrip : forall tgid cmds root,
  in_ity I64 tgid -> Z.of_nat (length cmds) < 2 ^ 63 ->
  forallb encodableb cmds = true ->
  ParseTGData (serializeTG tgid cmds) root = Ok (tgid, map (to_wtset root) cmds).
Proof.
  intros tgid cmds root Ht Hlen Hok. unfold ParseTGData, serializeTG, tgIDLenBytes, wtCountLenBytes.
  rewrite (slice_head (le_bytes 8 tgid)) by (blen_norm; reflexivity).
  cbn [bindR]. rewrite to_int_I64 by exact Ht. cbn [bindR].
  rewrite (slice_field (le_bytes 8 tgid) (le_bytes 8 (Z.of_nat (length cmds))) _ _ _) by (blen_norm; reflexivity).
  cbn [bindR]. rewrite to_int_I64 by (unfold in_ity; cbn; lia). cbn [bindR].
  destruct (Z.ltb_spec (Z.of_nat (length cmds)) 0) as [E|_]; [lia|].
  pose proof (flat_map_ser_length cmds) as Hl.
  rewrite Z.min_l by (blen_norm; lia). rewrite Nat2Z.id.
  rewrite app_assoc.
  replace (8 + 8) with (blen (le_bytes 8 tgid ++ le_bytes 8 (Z.of_nat (length cmds)))) by (blen_norm; reflexivity).
  rewrite parse_cmds_roundtrip by exact Hok. reflexivity.
Qed.

(* ------------------------------------------------------------------ totality facts used by C06 *)

Lemma slice_not_rejected l lo hi : slice l lo hi <> Rejected.
Proof. unfold slice. destruct (_ && _); discriminate. Qed.
Lemma to_int_not_rejected t b : to_int t b <> Rejected.
Proof. unfold to_int. destruct (_ <? _)%nat; discriminate. Qed.
Lemma index_not_rejected l i : index l i <> Rejected.
Proof. unfold index. destruct (_ && _); discriminate. Qed.

Ltac step_nr :=
  match goal with
  | |- bindR ?r _ <> Rejected => let E := fresh in destruct r eqn:E; cbn [bindR]; [| exfalso | discriminate]
  end.

Lemma ds_from_bytes_not_rejected buf : ds_from_bytes buf <> Rejected.
Proof.
  unfold ds_from_bytes.
  step_nr; [| eapply slice_not_rejected; eassumption].
  step_nr; [| eapply to_int_not_rejected; eassumption].
  step_nr; [| eapply slice_not_rejected; eassumption].
  step_nr; [| eapply index_not_rejected; eassumption].
  discriminate.
Qed.

Lemma dsv_loop_not_rejected n : forall buf c, dsv_loop n buf c <> Rejected.
Proof.
  induction n as [|n IH]; intros buf c; cbn [dsv_loop]; [discriminate|].
  step_nr; [| eapply slice_not_rejected; eassumption].
  step_nr; [| eapply ds_from_bytes_not_rejected; eassumption].
  destruct p as [ds l0].
  step_nr; [| eapply IH; eassumption].
  destruct p as [rest c']. discriminate.
Qed.

Lemma dsv_from_bytes_not_rejected buf : dsv_from_bytes buf <> Rejected.
Proof.
  unfold dsv_from_bytes.
  step_nr; [| eapply slice_not_rejected; eassumption].
  step_nr; [| eapply to_int_not_rejected; eassumption].
  apply dsv_loop_not_rejected.
Qed.

Lemma parse_cmd_not_rejected bs root c : parse_cmd bs root c <> Rejected.
Proof.
  unfold parse_cmd. cbv zeta.
  repeat (step_nr; [| first [eapply slice_not_rejected; eassumption | eapply to_int_not_rejected; eassumption
                            | eapply dsv_from_bytes_not_rejected; eassumption]]).
  destruct p. discriminate.
Qed.

Lemma parse_cmds_not_rejected n : forall bs root c, parse_cmds n bs root c <> Rejected.
Proof.
  induction n as [|n IH]; intros bs root c; cbn [parse_cmds]; [discriminate|].
  step_nr; [| eapply parse_cmd_not_rejected; eassumption].
  destruct p as [w c'].
  step_nr; [| eapply IH; eassumption].
  discriminate.
Qed.

Lemma ParseTGData_not_rejected bs root : ParseTGData bs root <> Rejected.
Proof.
  unfold ParseTGData.
  step_nr; [| eapply slice_not_rejected; eassumption].
  step_nr; [| eapply to_int_not_rejected; eassumption].
  step_nr; [| eapply slice_not_rejected; eassumption].
  step_nr; [| eapply to_int_not_rejected; eassumption].
  destruct (_ <? 0); [discriminate|].
  step_nr; [| eapply parse_cmds_not_rejected; eassumption].
  discriminate.
Qed.

(** every completed iteration of ParseTGData's loop consumes at least one byte *)
Lemma bind_ok {A B} (r : Res A) (f : A -> Res B) v : bindR r f = Ok v -> exists a, r = Ok a /\ f a = Ok v.
Proof. destruct r; cbn; intros H; try discriminate. eauto. Qed.

Lemma dsv_loop_bounds k : forall buf cur res cend,
  dsv_loop k buf cur = Ok (res, cend) -> 0 <= cur <= blen buf -> cur <= cend <= blen buf + 1.
Proof.
  induction k as [|k IH]; intros buf cur res cend Hk Hcur; cbn [dsv_loop] in Hk.
  - inversion Hk; subst. lia.
  - apply bind_ok in Hk as (sub & Hsub & Hk). apply bind_ok in Hk as ([ds l0] & Hds & Hk).
    apply bind_ok in Hk as ([rest c2] & Hrec & Hk). inversion Hk; subst.
    apply slice_ok_length in Hsub. fold (blen buf) in Hsub. fold (blen sub) in Hsub.
    unfold ds_from_bytes in Hds.
    apply bind_ok in Hds as (b1 & Hb1 & Hds). apply bind_ok in Hds as (nl & Hnl & Hds).
    apply bind_ok in Hds as (nm & Hnm & Hds). apply bind_ok in Hds as (t & Ht & Hds).
    assert (El0 : l0 = 1 + nl + 1) by (inversion Hds; reflexivity). clear Hds. subst l0.
    apply slice_ok_length in Hb1. apply slice_ok_length in Hnm. fold (blen sub) in Hb1, Hnm.
    unfold index in Ht. destruct ((0 <=? 1 + nl) && (1 + nl <? Z.of_nat (length sub))) eqn:Ei; [|discriminate].
    rewrite andb_true_iff, Z.leb_le, Z.ltb_lt in Ei. fold (blen sub) in Ei.
    apply IH in Hrec; lia.
Qed.

Lemma dsv_from_bytes_bounds buf res l :
  dsv_from_bytes buf = Ok (res, l) -> 1 <= l <= blen buf + 1.
Proof.
  unfold dsv_from_bytes. intros H.
  apply bind_ok in H as (b & Hb & H). apply bind_ok in H as (n & Hn & H).
  apply slice_ok_length in Hb. fold (blen buf) in Hb.
  apply dsv_loop_bounds in H; lia.
Qed.

Lemma parse_cmd_advances bs root c w c' :
  parse_cmd bs root c = Ok (w, c') -> 0 <= c -> c + 1 <= c' <= blen bs + 1 /\ c + 1 <= blen bs.
Proof.
  unfold parse_cmd. cbv zeta. intros H Hc.
  apply bind_ok in H as (b1 & S1 & H). apply bind_ok in H as (rt & T1 & H).
  apply bind_ok in H as (b2 & S2 & H). apply bind_ok in H as (fplen & T2 & H).
  apply bind_ok in H as (key & S3 & H).
  apply bind_ok in H as (b4 & S4 & H). apply bind_ok in H as (datalen & T4 & H).
  apply bind_ok in H as (b5 & S5 & H). apply bind_ok in H as (vrl & T5 & H).
  apply bind_ok in H as (data & S6 & H).
  apply bind_ok in H as (rest & S7 & H).
  apply bind_ok in H as ([shapes l] & D & H).
  inversion H; subst. clear H.
  apply dsv_from_bytes_bounds in D.
  apply slice_ok_length in S1, S2, S3, S4, S5, S6, S7.
  unfold recordLenLenBytes, fpLenLenBytes, dataLenLenBytes, varRecLenLenBytes, offsetLenBytes, indexLenBytes in *.
  fold (blen bs) in *. fold (blen rest) in *.
  lia.
Qed.

Lemma parse_cmds_consumes n : forall bs root c ws,
  parse_cmds n bs root c = Ok ws -> 0 <= c -> Z.of_nat n <= blen bs - c \/ n = O.
Proof.
  induction n as [|n IH]; intros bs root c ws H Hc; [right; reflexivity|left].
  cbn [parse_cmds] in H. apply bind_ok in H as ([w c'] & Hp & H). apply bind_ok in H as (rest & Hr & H).
  apply parse_cmd_advances in Hp as (Hadv & Hb); [|exact Hc].
  apply IH in Hr; [|lia]. destruct Hr as [Hr | ->]; lia.
Qed.

(** a transaction-group count larger than the number of bytes makes the loop panic, whatever the
    count: the cap [len+1] in [ParseTGData] therefore loses nothing *)
Theorem parse_cmds_overcount : forall n bs root,
  blen bs < Z.of_nat n -> parse_cmds n bs root (tgIDLenBytes + wtCountLenBytes) = Panic.
Proof.
  intros n bs root Hn.
  destruct (parse_cmds n bs root (tgIDLenBytes + wtCountLenBytes)) eqn:E; [| |reflexivity].
  - apply parse_cmds_consumes in E; [|unfold tgIDLenBytes, wtCountLenBytes; lia].
    unfold tgIDLenBytes, wtCountLenBytes in E. pose proof (blen_nonneg bs). destruct E as [E | ->]; [lia|]. cbn in Hn. lia.
  - exfalso. eapply parse_cmds_not_rejected; eassumption.
Qed.

(** the boolean guards versus the propositions *)
Lemma forallb_Forall {A} (f : A -> bool) l : forallb f l = true <-> Forall (fun x => f x = true) l.
Proof.
  induction l; cbn; [split; auto|]. rewrite andb_true_iff, IHl. split.
  - intros [? ?]; constructor; assumption.
  - intros H; inversion H; subst; split; assumption.
Qed.

(** the decoded OffsetIndexBuffer gives back offset, interval index and payload (wal/oib.go accessors) *)
Lemma oib_roundtrip c :
  in_ity I64 (c_off c) -> in_ity I64 (c_idx c) ->
  oib_offset (cmd_buffer c) = Ok (c_off c) /\ oib_index (cmd_buffer c) = Ok (c_idx c)
  /\ oib_payload (cmd_buffer c) = Ok (c_data c).
Proof.
  intros Ho Hi. unfold oib_offset, oib_index, oib_payload, cmd_buffer. repeat split.
  - rewrite (slice_head (le_bytes 8 (c_off c))) by (blen_norm; reflexivity). cbn [bindR]. now apply to_int_I64.
  - rewrite (slice_field (le_bytes 8 (c_off c)) (le_bytes 8 (c_idx c)) _ _ _) by (blen_norm; reflexivity).
    cbn [bindR]. now apply to_int_I64.
  - rewrite app_assoc. apply slice_from_field. blen_norm. reflexivity.
Qed.

(** an accepted command is encodable unless it has more than 255 data shapes: a storable name is shorter
    than the one-byte length field can express (elementNameHeaderBytes <= 255, by computation on the
    generated constant) *)
Lemma accepted_encodable c : acceptableb c = true -> many_shapesb c = false -> encodableb c = true.
Proof.
  unfold acceptableb, many_shapesb, encodableb. rewrite !andb_true_iff.
  intros ((((((((H1 & H2) & H3) & H4) & H5) & H6) & H7) & H8) & H9) Hm.
  apply Z.ltb_ge in Hm.
  repeat split; try assumption.
  - apply Z.leb_le. exact Hm.
  - rewrite forallb_forall in *. intros s Hs. specialize (H9 s Hs).
    unfold storable_nameb in H9. apply andb_prop in H9 as [H9 _]. apply Z.leb_le in H9.
    unfold shape_okb. apply Z.leb_le. unfold elementNameHeaderBytes in H9. lia.
Qed.

(* ------------------------------------------------------------------ the checked decoder equals the unguarded steps, minus the panics *)

Definition demote {A} (r : Res A) : Res A := match r with Ok x => Ok x | _ => Rejected end.

Lemma take_eq {A} bs c n (k : list byte -> Res A) :
  0 <= c -> take bs c n k = match slice bs c (c + n) with Ok x => k x | _ => Rejected end.
Proof.
  intros Hc. unfold take, available, slice. fold (blen bs).
  destruct (Z.leb_spec 0 n), (Z.leb_spec n (blen bs - c)); cbn [andb].
  - replace ((0 <=? c) && (c <=? c + n) && (c + n <=? blen bs)) with true
      by (symmetry; rewrite !andb_true_iff, !Z.leb_le; lia). reflexivity.
  - replace ((0 <=? c) && (c <=? c + n) && (c + n <=? blen bs)) with false
      by (symmetry; rewrite !andb_false_iff, !Z.leb_gt; lia). reflexivity.
  - replace ((0 <=? c) && (c <=? c + n) && (c + n <=? blen bs)) with false
      by (symmetry; rewrite !andb_false_iff, !Z.leb_gt; lia). reflexivity.
  - replace ((0 <=? c) && (c <=? c + n) && (c + n <=? blen bs)) with false
      by (symmetry; rewrite !andb_false_iff, !Z.leb_gt; lia). reflexivity.
Qed.

(** first byte of buf[c:] *)
Lemma slice_from_head buf c sub b1 :
  slice_from buf c = Ok sub -> slice sub 0 1 = Ok b1 -> exists b, index buf c = Ok b /\ b1 = [b].
Proof.
  intros Hs H1. pose proof (slice_ok_length _ _ _ _ Hs) as (Hc0 & Hc1 & _ & Hl).
  pose proof (slice_ok_length _ _ _ _ H1) as (_ & _ & Hl1 & Hb1).
  unfold slice_from, slice in Hs. destruct (_ && _); [|discriminate]. inversion Hs as [Hsub]. clear Hs.
  unfold slice in H1. destruct (_ && _); [|discriminate]. inversion H1 as [Hb]. clear H1.
  change (Z.to_nat (1 - 0)) with 1%nat in *. change (Z.to_nat 0) with 0%nat in *. change (skipn 0 sub) with sub in *.
  rewrite firstn_all2 in Hsub by (rewrite skipn_length; lia).
  unfold index. fold (blen buf) in *. fold (blen sub) in *.
  replace ((0 <=? c) && (c <? blen buf)) with true by (symmetry; rewrite andb_true_iff, Z.leb_le, Z.ltb_lt; lia).
  exists (nth (Z.to_nat c) buf x00). split; [reflexivity|].
  rewrite <- Hsub.
  assert (Hn : (Z.to_nat c < length buf)%nat) by (unfold blen in *; lia).
  clear - Hn. revert Hn. generalize (Z.to_nat c). intros n. revert buf.
  induction n as [|n IH]; intros [|x buf] Hn; cbn [length] in Hn; try lia; cbn [skipn nth firstn]; [reflexivity|].
  apply IH. lia.
Qed.

Lemma to_int_U8_single b : to_int U8 [b] = Ok (Z_of_byte b).
Proof.
  unfold to_int. change (ity_width U8) with 1%nat. cbn [length Nat.ltb Nat.leb firstn le_val].
  f_equal. pose proof (Z_of_byte_range b). rewrite Z.mul_0_r, Z.add_0_r. apply wrap_small. unfold in_ity. cbn. lia.
Qed.

(** one step of the shape loop: what dsvByteLength tests is exactly what dsFromBytes needs *)
Lemma ds_step buf c :
  0 <= c ->
  (if blen buf <=? c then None
   else match index buf c with
        | Ok b => let next := c + 1 + Z_of_byte b + 1 in if blen buf <? next then None else Some next
        | _ => None
        end)
  = match slice_from buf c with
    | Ok sub => match ds_from_bytes sub with Ok (_, l) => Some (c + l) | _ => None end
    | _ => None
    end.
Proof.
  intros Hc.
  destruct (Z.leb_spec (blen buf) c) as [Hge|Hlt].
  - (* c >= len: buf[c:] is empty (or out of range) and dsFromBytes panics on it *)
    destruct (slice_from buf c) as [sub| |] eqn:Hs; try reflexivity.
    pose proof (slice_ok_length _ _ _ _ Hs) as (_ & _ & _ & Hl). fold (blen buf) in Hl. fold (blen sub) in Hl.
    unfold ds_from_bytes. unfold slice at 1. fold (blen sub).
    replace ((0 <=? 0) && (0 <=? 1) && (1 <=? blen sub)) with false by (symmetry; rewrite !andb_false_iff, !Z.leb_gt; lia).
    reflexivity.
  - assert (Hs : exists sub, slice_from buf c = Ok sub /\ blen sub = blen buf - c).
    { unfold slice_from, slice. fold (blen buf).
      replace ((0 <=? c) && (c <=? blen buf) && (blen buf <=? blen buf)) with true
        by (symmetry; rewrite !andb_true_iff, !Z.leb_le; lia).
      eexists. split; [reflexivity|]. unfold blen in *. rewrite firstn_length, skipn_length. lia. }
    destruct Hs as (sub & Hs & Hl). rewrite Hs.
    unfold ds_from_bytes.
    destruct (slice sub 0 1) as [b1| |] eqn:H1.
    2,3: exfalso; unfold slice in H1; fold (blen sub) in H1;
         replace ((0 <=? 0) && (0 <=? 1) && (1 <=? blen sub)) with true in H1
           by (symmetry; rewrite !andb_true_iff, !Z.leb_le; lia); discriminate.
    destruct (slice_from_head _ _ _ _ Hs H1) as (b & Hi & ->). rewrite Hi.
    cbn [bindR]. rewrite to_int_U8_single. cbn [bindR]. cbv zeta.
    pose proof (Z_of_byte_range b) as Hb.
    destruct (Z.ltb_spec (blen buf) (c + 1 + Z_of_byte b + 1)) as [Hout|Hin].
    + (* the name or the type byte lies outside *)
      destruct (slice sub 1 (1 + Z_of_byte b)) as [nm| |] eqn:Hn; cbn [bindR]; try reflexivity.
      pose proof (slice_ok_length _ _ _ _ Hn) as (_ & _ & Hnl & _). fold (blen sub) in Hnl.
      unfold index. fold (blen sub).
      replace ((0 <=? 1 + Z_of_byte b) && (1 + Z_of_byte b <? blen sub)) with false
        by (symmetry; rewrite andb_false_iff, Z.ltb_ge; lia).
      reflexivity.
    + unfold slice. fold (blen sub).
      replace ((0 <=? 1) && (1 <=? 1 + Z_of_byte b) && (1 + Z_of_byte b <=? blen sub)) with true
        by (symmetry; rewrite !andb_true_iff, !Z.leb_le; lia).
      cbn [bindR]. unfold index. fold (blen sub).
      replace ((0 <=? 1 + Z_of_byte b) && (1 + Z_of_byte b <? blen sub)) with true
        by (symmetry; rewrite andb_true_iff, Z.leb_le, Z.ltb_lt; lia).
      cbn [bindR]. f_equal. lia.
Qed.

Lemma dsv_len_loop_eq : forall n buf c,
  0 <= c ->
  dsv_len_loop n buf c = match dsv_loop n buf c with Ok (_, l) => Some l | _ => None end.
Proof.
  induction n as [|n IH]; intros buf c Hc; cbn [dsv_len_loop dsv_loop]; [reflexivity|].
  pose proof (ds_step buf c Hc) as Hstep. cbv zeta in Hstep.
  destruct (slice_from buf c) as [sub| |] eqn:Hs; cbn [bindR].
  - destruct (ds_from_bytes sub) as [[ds l]| |] eqn:Hd; cbn [bindR].
    + (* the test passes: both continue at c + l *)
      assert (Hl : 1 <= l).
      { unfold ds_from_bytes in Hd. apply bind_ok in Hd as (b1 & _ & Hd). apply bind_ok in Hd as (nl & Hnl & Hd).
        apply bind_ok in Hd as (nm & Hnm & Hd). apply bind_ok in Hd as (t & _ & Hd).
        apply slice_ok_length in Hnm. assert (l = 1 + nl + 1) by (inversion Hd; reflexivity). lia. }
      destruct (blen buf <=? c); [discriminate Hstep|].
      destruct (index buf c) as [b| |]; try discriminate Hstep.
      destruct (blen buf <? c + 1 + Z_of_byte b + 1); [discriminate Hstep|].
      inversion Hstep as [Hnext]. rewrite Hnext. rewrite IH by lia.
      destruct (dsv_loop n buf (c + l)) as [[rest c']| |]; reflexivity.
    + destruct (blen buf <=? c); [reflexivity|].
      destruct (index buf c) as [b| |]; try reflexivity.
      destruct (blen buf <? c + 1 + Z_of_byte b + 1); [reflexivity|discriminate Hstep].
    + destruct (blen buf <=? c); [reflexivity|].
      destruct (index buf c) as [b| |]; try reflexivity.
      destruct (blen buf <? c + 1 + Z_of_byte b + 1); [reflexivity|discriminate Hstep].
  - destruct (blen buf <=? c); [reflexivity|].
    destruct (index buf c) as [b| |]; try reflexivity.
    destruct (blen buf <? c + 1 + Z_of_byte b + 1); [reflexivity|discriminate Hstep].
  - destruct (blen buf <=? c); [reflexivity|].
    destruct (index buf c) as [b| |]; try reflexivity.
    destruct (blen buf <? c + 1 + Z_of_byte b + 1); [reflexivity|discriminate Hstep].
Qed.

Lemma dsv_byte_length_eq buf :
  dsv_byte_length buf = match dsv_from_bytes buf with Ok (_, l) => Some l | _ => None end.
Proof.
  unfold dsv_byte_length, dsv_from_bytes. destruct buf as [|b r].
  - reflexivity.
  - assert (H1 : slice (b :: r) 0 1 = Ok [b]).
    { unfold slice. cbn [length]. replace ((0 <=? 0) && (0 <=? 1) && (1 <=? Z.of_nat (S (length r)))) with true
        by (symmetry; rewrite !andb_true_iff, !Z.leb_le; lia). reflexivity. }
    rewrite H1. cbn [bindR]. rewrite to_int_U8_single. cbn [bindR].
    apply dsv_len_loop_eq. lia.
Qed.

Lemma to_int_of_slice t bs lo hi b :
  slice bs lo hi = Ok b -> hi - lo = Z.of_nat (ity_width t) -> exists v, to_int t b = Ok v.
Proof.
  intros Hs Hw. apply slice_ok_length in Hs as (_ & _ & _ & Hl). unfold to_int.
  destruct (Nat.ltb_spec (length b) (ity_width t)); [lia|]. eexists. reflexivity.
Qed.

Lemma parse_cmd_c_eq bs root c :
  0 <= c ->
  parse_cmd_c bs root c
  = match parse_cmd bs root c with
    | Ok (w, c') => if w_datalen w <? 0 then Rejected else Ok (w, c')
    | _ => Rejected
    end.
Proof.
  intros Hc. unfold parse_cmd_c, parse_cmd. cbv zeta.
  unfold recordLenLenBytes, fpLenLenBytes, dataLenLenBytes, varRecLenLenBytes, offsetLenBytes, indexLenBytes.
  rewrite take_eq by lia.
  destruct (slice bs c (c + 1)) as [b1| |] eqn:S1; cbn [bindR]; try reflexivity.
  destruct (to_int_of_slice I8 _ _ _ _ S1) as (rt & E1); [change (Z.of_nat (ity_width I8)) with 1; lia|]. rewrite E1. cbn [bindR].
  rewrite take_eq by lia.
  destruct (slice bs (c + 1) (c + 1 + 2)) as [b2| |] eqn:S2; cbn [bindR]; try reflexivity.
  destruct (to_int_of_slice I16 _ _ _ _ S2) as (fplen & E2); [change (Z.of_nat (ity_width I16)) with 2; lia|]. rewrite E2. cbn [bindR].
  rewrite take_eq by lia.
  destruct (slice bs (c + 1 + 2) (c + 1 + 2 + fplen)) as [key| |] eqn:S3; cbn [bindR]; try reflexivity.
  pose proof (slice_ok_length _ _ _ _ S3) as (_ & Hf & _ & _).
  rewrite take_eq by lia.
  destruct (slice bs (c + 1 + 2 + fplen) (c + 1 + 2 + fplen + 4)) as [b4| |] eqn:S4; cbn [bindR]; try reflexivity.
  destruct (to_int_of_slice I32 _ _ _ _ S4) as (datalen & E4); [change (Z.of_nat (ity_width I32)) with 4; lia|]. rewrite E4. cbn [bindR].
  rewrite take_eq by lia.
  destruct (slice bs (c + 1 + 2 + fplen + 4) (c + 1 + 2 + fplen + 4 + 4)) as [b5| |] eqn:S5; cbn [bindR]; try reflexivity.
  destruct (to_int_of_slice I32 _ _ _ _ S5) as (vrl & E5); [change (Z.of_nat (ity_width I32)) with 4; lia|]. rewrite E5. cbn [bindR].
  replace (c + 1 + 2 + fplen + 4 + 4 + 8 + 8 + datalen) with (c + 1 + 2 + fplen + 4 + 4 + (8 + 8 + datalen)) by lia.
  destruct (Z.ltb_spec datalen 0) as [Hneg|Hpos].
  - (* negative data length: an error in the fixed code; the unguarded steps panic or return that length *)
    destruct (slice bs (c + 1 + 2 + fplen + 4 + 4) (c + 1 + 2 + fplen + 4 + 4 + (8 + 8 + datalen))); cbn [bindR]; try reflexivity.
    destruct (slice_from bs (c + 1 + 2 + fplen + 4 + 4 + (8 + 8 + datalen))); cbn [bindR]; try reflexivity.
    destruct (dsv_from_bytes l0) as [[shapes l1]| |]; cbn [bindR]; try reflexivity.
    cbn [w_datalen]. destruct (Z.ltb_spec datalen 0); [reflexivity|lia].
  - rewrite take_eq by lia.
    destruct (slice bs (c + 1 + 2 + fplen + 4 + 4) (c + 1 + 2 + fplen + 4 + 4 + (8 + 8 + datalen))) as [data| |] eqn:S6; cbn [bindR]; try reflexivity.
    pose proof (slice_ok_length _ _ _ _ S6) as (_ & _ & Hhi & _).
    destruct (slice_from bs (c + 1 + 2 + fplen + 4 + 4 + (8 + 8 + datalen))) as [rest| |] eqn:S7; cbn [bindR]; try reflexivity.
    2: { exfalso. unfold slice_from, slice in S7.
         replace ((0 <=? c + 1 + 2 + fplen + 4 + 4 + (8 + 8 + datalen))
                  && (c + 1 + 2 + fplen + 4 + 4 + (8 + 8 + datalen) <=? Z.of_nat (length bs))
                  && (Z.of_nat (length bs) <=? Z.of_nat (length bs))) with true in S7
           by (symmetry; rewrite !andb_true_iff, !Z.leb_le; lia). discriminate. }
    rewrite dsv_byte_length_eq.
    destruct (dsv_from_bytes rest) as [[shapes l1]| |]; cbn [bindR]; try reflexivity.
    cbn [w_datalen]. destruct (Z.ltb_spec datalen 0); [lia|reflexivity].
Qed.

Definition datalens_ok (ws : list wtset) : bool := forallb (fun w => 0 <=? w_datalen w) ws.

Lemma parse_cmds_c_eq : forall n bs root c,
  0 <= c ->
  parse_cmds_c n bs root c
  = match parse_cmds n bs root c with
    | Ok ws => if datalens_ok ws then Ok ws else Rejected
    | _ => Rejected
    end.
Proof.
  induction n as [|n IH]; intros bs root c Hc; cbn [parse_cmds_c parse_cmds]; [reflexivity|].
  rewrite parse_cmd_c_eq by exact Hc.
  destruct (parse_cmd bs root c) as [[w c']| |] eqn:Hp; cbn [bindR]; try reflexivity.
  apply parse_cmd_advances in Hp as (Hadv & _); [|exact Hc].
  destruct (Z.ltb_spec (w_datalen w) 0) as [Hneg|Hpos]; cbn [bindR].
  - destruct (parse_cmds n bs root c') as [ws| |]; cbn [bindR]; try reflexivity.
    unfold datalens_ok. cbn [forallb]. replace (0 <=? w_datalen w) with false by (symmetry; apply Z.leb_gt; lia). reflexivity.
  - rewrite IH by lia.
    destruct (parse_cmds n bs root c') as [ws| |]; cbn [bindR]; try reflexivity.
    unfold datalens_ok. cbn [forallb]. replace (0 <=? w_datalen w) with true by (symmetry; apply Z.leb_le; lia).
    cbn [andb]. fold (datalens_ok ws). destruct (datalens_ok ws); reflexivity.
Qed.

(** the fixed decoder = the unguarded steps with every panic (and every negative data length) turned
    into an error return *)
Theorem parseTGData_eq bs root :
  parseTGData bs root
  = match ParseTGData bs root with
    | Ok (id, ws) => if datalens_ok ws then Ok (id, ws) else Rejected
    | _ => Rejected
    end.
Proof.
  unfold parseTGData, ParseTGData, tgIDLenBytes, wtCountLenBytes.
  rewrite take_eq by lia. change (0 + (8 + 8)) with 16.
  destruct (slice bs 0 16) as [h| |] eqn:S0.
  - pose proof (slice_ok_length _ _ _ _ S0) as (_ & _ & Hlen & _). fold (blen bs) in Hlen.
    assert (S1 : exists b1, slice bs 0 8 = Ok b1).
    { unfold slice. fold (blen bs). replace ((0 <=? 0) && (0 <=? 8) && (8 <=? blen bs)) with true
        by (symmetry; rewrite !andb_true_iff, !Z.leb_le; lia). eexists; reflexivity. }
    assert (S2 : exists b2, slice bs 8 (8 + 8) = Ok b2).
    { unfold slice. fold (blen bs). replace ((0 <=? 8) && (8 <=? 8 + 8) && (8 + 8 <=? blen bs)) with true
        by (symmetry; rewrite !andb_true_iff, !Z.leb_le; lia). eexists; reflexivity. }
    destruct S1 as (b1 & S1). destruct S2 as (b2 & S2). rewrite S1, S2. cbn [bindR].
    destruct (to_int_of_slice I64 _ _ _ _ S1) as (tgid & E1); [reflexivity|]. rewrite E1. cbn [bindR].
    destruct (to_int_of_slice I64 _ _ _ _ S2) as (cnt & E2); [reflexivity|]. rewrite E2. cbn [bindR].
    destruct (Z.ltb_spec cnt 0) as [Hneg|Hpos]; cbn [orb]; [reflexivity|].
    destruct (Z.ltb_spec (blen bs) cnt) as [Hbig|Hsmall].
    + (* more transactions than bytes: the unguarded loop cannot complete *)
      rewrite Z.min_r by lia.
      pose proof (parse_cmds_overcount (Z.to_nat (blen bs + 1)) bs root) as Ho.
      unfold tgIDLenBytes, wtCountLenBytes in Ho. rewrite Ho by lia. reflexivity.
    + rewrite Z.min_l by lia. rewrite parse_cmds_c_eq by lia.
      destruct (parse_cmds (Z.to_nat cnt) bs root (8 + 8)) as [ws| |]; cbn [bindR]; try reflexivity.
      destruct (datalens_ok ws); reflexivity.
  - exfalso. eapply slice_not_rejected; exact S0.
  - (* fewer than 16 bytes: one of the two header slices is out of range *)
    assert (Hlen : blen bs < 16).
    { unfold slice in S0. fold (blen bs) in S0. destruct (Z.leb_spec 16 (blen bs)) as [H|H]; [|exact H].
      replace ((0 <=? 0) && (0 <=? 16) && true) with true in S0 by reflexivity. discriminate. }
    destruct (slice bs 0 8) as [b1| |] eqn:S1; cbn [bindR]; try reflexivity.
    destruct (to_int_of_slice I64 _ _ _ _ S1) as (tgid & E1); [reflexivity|]. rewrite E1. cbn [bindR].
    destruct (slice bs 8 (8 + 8)) as [b2| |] eqn:S2; cbn [bindR]; try reflexivity.
    apply slice_ok_length in S2. fold (blen bs) in S2. lia.
Qed.

(** the fixed decoder has no reachable out-of-range slice, index or make: for EVERY byte string *)
Theorem parseTGData_no_panic bs root : parseTGData bs root <> Panic.
Proof.
  rewrite parseTGData_eq. destruct (ParseTGData bs root) as [[id ws]| |]; try discriminate.
  destruct (datalens_ok ws); discriminate.
Qed.

Lemma parseTGData_ok bs root r : parseTGData bs root = Ok r -> ParseTGData bs root = Ok r.
Proof.
  rewrite parseTGData_eq. destruct (ParseTGData bs root) as [[id ws]| |]; try discriminate.
  destruct (datalens_ok ws); [|discriminate]. intros H; inversion H; reflexivity.
Qed.

(** C28 for the code after the fix *)
Theorem parse_serialize_roundtrip_checked : forall tgid cmds root,
  in_ity I64 tgid -> Z.of_nat (length cmds) < 2 ^ 63 ->
  forallb encodableb cmds = true ->
  parseTGData (serializeTG tgid cmds) root = Ok (tgid, map (to_wtset root) cmds).
Proof.
  intros tgid cmds root Ht Hl He. rewrite parseTGData_eq, parse_serialize_roundtrip by assumption.
  replace (datalens_ok (map (to_wtset root) cmds)) with true; [reflexivity|].
  symmetry. unfold datalens_ok. rewrite forallb_forall. intros w Hw. apply in_map_iff in Hw as (c & <- & _).
  cbn [to_wtset w_datalen]. apply Z.leb_le. apply blen_nonneg.
Qed.
