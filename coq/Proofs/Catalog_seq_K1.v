(** C17: the finite checks of Proofs/Catalog_seq.v for key space K1 = {A/1Min/G, A/5Min/G, B/1Min/G} x
    {2021, 2022} x two schema tags (one symbol with two timeframes, a second symbol): 730 specification
    states, 41 requests each, every successor computed by vm_compute (no native_compute). *)
From Coq Require Import List String ZArith Bool.
From Coq.Strings Require Import Byte.
Import ListNotations.
Require Import MS.Base.Hex MS.Base.Path MS.Model.Catalog MS.Proofs.Catalog_seq.

Definition sb (x : string) : list byte := bytes_of_string x.
Definition K1 : keyspace :=
  mkKS (sb "/a/b/c/r") [sb "A/1Min/G"; sb "A/5Min/G"; sb "B/1Min/G"] [2021; 2022]%Z [[x00]; [x01]].

Definition tab1 : list (spec * pstate) := Eval vm_compute in mk_tab K1.

Lemma K1_size : (List.length tab1, List.length (alphabet K1)) = (730, 41)%nat.
Proof. vm_compute. reflexivity. Qed.

Lemma K1_init : lookup (sp0 K1) tab1 = Some (wfs (init_world (ks_root K1)), init_cat (ks_root K1)).
Proof. vm_compute. reflexivity. Qed.

Lemma K1_closure : forall tr, closure_ok K1 tab1 tr = true.
Proof. intros tr. vm_compute. reflexivity. Qed.

Lemma K1_scan : scan_ok K1 tab1 = true.
Proof. vm_compute. reflexivity. Qed.

Lemma K1_listing : listing_ok K1 tab1 = true.
Proof. vm_compute. reflexivity. Qed.
