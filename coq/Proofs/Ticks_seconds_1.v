From Coq Require Import ZArith.
Require Import MS.Proofs.Ticks_seconds.
Lemma secs_ipd_1 : secs_ok (Z.to_nat 86400) 1 0 = true.
Proof. vm_compute. reflexivity. Qed.
